// Package mon is the monitor runtime: deterministic case scheduling,
// class counters, distinct-case accounting, violation/replay records,
// known-findings handling and the partial evidence record written by
// each child process.
package mon

import (
	"crypto/sha256"
	"encoding/binary"
	"encoding/hex"
	"encoding/json"
	"fmt"
	"os"
	"path/filepath"
	"runtime"
	"runtime/debug"
	"sort"
	"strings"
	"sync"
	"sync/atomic"
	"time"

	"verifharness/gen"
)

// Violation is one refuting observation.
type Violation struct {
	Property string         `json:"property"`
	Config   string         `json:"config"`
	Tags     string         `json:"tags"`
	Tier     string         `json:"tier"`
	Seed     int64          `json:"seed"`
	Monitor  string         `json:"monitor"`
	Index    int            `json:"case_index"`
	Key      string         `json:"key"`
	Message  string         `json:"message"`
	Details  map[string]any `json:"details,omitempty"`
	Replay   string         `json:"replay_file,omitempty"`
}

// Run is the per-process state of one property check in one build
// configuration.
type Run struct {
	Prop   string
	Tier   string
	Config string
	Tags   string
	Seed   int64

	ReplayMonitor string // when set, only this monitor ...
	ReplayIndex   int    // ... and this case index are executed
	Workers       int

	ReplayDir string
	Known     map[string]string // key -> description (known findings for this property)

	mu          sync.Mutex
	classes     map[string]int64
	evals       int64
	distinct    map[uint64]struct{}
	distinctCap int
	dropped     int64
	samples     []any
	perMonitor  map[string]int64
	violations  []Violation
	knownSeen   map[string]bool
	required    []string
	notes       []string
	extras      map[string]any
	inconcl     []string
	start       time.Time
	violCount   atomic.Int64 // (atomic.Int64 is 8-byte aligned on 32-bit targets too)
}

// NewRun creates a run.
func NewRun(prop, tier, config, tags string, seed int64) *Run {
	return &Run{
		Prop: prop, Tier: tier, Config: config, Tags: tags, Seed: seed,
		Workers:     runtime.GOMAXPROCS(0),
		classes:     map[string]int64{},
		distinct:    map[uint64]struct{}{},
		distinctCap: 3_000_000,
		perMonitor:  map[string]int64{},
		knownSeen:   map[string]bool{},
		extras:      map[string]any{},
		start:       time.Now(),
		ReplayIndex: -1,
	}
}

// N picks a size by tier.
func (r *Run) N(quick, thorough int) int {
	if r.Tier == "thorough" {
		// the race configuration of the sequential properties adds checkptr and the race
		// runtime (8-15x slower), not new inputs: an eighth of the volume is enough
		if strings.HasPrefix(r.Config, "race") && r.Prop != "C20" && thorough/8 > quick {
			return thorough / 8
		}
		if r.Config == "386" && thorough/3 > quick {
			return thorough / 3 // math/big of the reference model is several times slower on 32 bit
		}
		return thorough
	}
	return quick
}

// Thorough reports the tier.
func (r *Run) Thorough() bool { return r.Tier == "thorough" }

// Require marks classes that must have been observed at least once;
// otherwise the run is inconclusive.
func (r *Run) Require(classes ...string) {
	r.mu.Lock()
	r.required = append(r.required, classes...)
	r.mu.Unlock()
}

// Note adds a free-text note to the evidence.
func (r *Run) Note(format string, a ...any) {
	r.mu.Lock()
	r.notes = append(r.notes, fmt.Sprintf(format, a...))
	r.mu.Unlock()
}

// Extra stores an additional evidence key.
func (r *Run) Extra(k string, v any) {
	r.mu.Lock()
	r.extras[k] = v
	r.mu.Unlock()
}

// Inconclusive records a reason the run cannot give a verdict.
func (r *Run) Inconclusive(format string, a ...any) {
	r.mu.Lock()
	r.inconcl = append(r.inconcl, fmt.Sprintf(format, a...))
	r.mu.Unlock()
}

// W is the per-case view handed to monitor bodies.
type W struct {
	R       *Run
	Rng     *gen.Rng
	Monitor string
	Index   int

	classes  map[string]int64
	evals    int64
	hashes   []uint64
	samples  []any
	failed   bool
	maxSamp  int
	curTrace []string
}

// Class counts an observation class (oracle-side classification only).
func (w *W) Class(name string) { w.classes[name]++ }

// ClassN adds n.
func (w *W) ClassN(name string, n int64) { w.classes[name] += n }

// Case counts one evaluation; if nontrivial, its identity (the parts,
// plus monitor and configuration) enters the distinct set.
func (w *W) Case(nontrivial bool, parts ...[]byte) {
	w.evals++
	if !nontrivial {
		return
	}
	h := sha256.New()
	h.Write([]byte(w.R.Config))
	h.Write([]byte{0})
	h.Write([]byte(w.Monitor))
	h.Write([]byte{0})
	for _, p := range parts {
		var l [4]byte
		binary.LittleEndian.PutUint32(l[:], uint32(len(p)))
		h.Write(l[:])
		h.Write(p)
	}
	var d [32]byte
	h.Sum(d[:0])
	w.hashes = append(w.hashes, binary.LittleEndian.Uint64(d[:8]))
}

// Sample keeps up to a few example cases per monitor for the evidence.
func (w *W) Sample(v any) {
	if len(w.samples) < w.maxSamp {
		w.samples = append(w.samples, v)
	}
}

// Trace appends a step to the current case's trace (shown on failure).
func (w *W) Trace(format string, a ...any) {
	if len(w.curTrace) < 4000 {
		w.curTrace = append(w.curTrace, fmt.Sprintf(format, a...))
	}
}

// Fail records a violation.  key must be a stable signature of the
// failing input (used to match known findings); details are free-form.
func (w *W) Fail(key, msg string, kv ...any) {
	w.failed = true
	d := map[string]any{}
	for i := 0; i+1 < len(kv); i += 2 {
		d[fmt.Sprint(kv[i])] = jsonable(kv[i+1])
	}
	if len(w.curTrace) > 0 {
		tr := w.curTrace
		if len(tr) > 400 {
			tr = tr[len(tr)-400:]
		}
		d["trace_tail"] = tr
	}
	w.R.addViolation(Violation{
		Property: w.R.Prop, Config: w.R.Config, Tags: w.R.Tags, Tier: w.R.Tier, Seed: w.R.Seed,
		Monitor: w.Monitor, Index: w.Index, Key: key, Message: msg, Details: d,
	})
}

// Failed reports whether this case already failed.
func (w *W) Failed() bool { return w.failed }

func jsonable(v any) any {
	switch t := v.(type) {
	case []byte:
		return hex.EncodeToString(t)
	case fmt.Stringer:
		return t.String()
	case error:
		return t.Error()
	}
	return v
}

func (r *Run) addViolation(v Violation) {
	r.mu.Lock()
	defer r.mu.Unlock()
	if desc, ok := r.Known[v.Key]; ok {
		if !r.knownSeen[v.Key] {
			r.knownSeen[v.Key] = true
			fmt.Printf("KNOWN-FINDING: property=%s key=%s %s\n", r.Prop, v.Key, desc)
		}
		return
	}
	r.violCount.Add(1)
	if len(r.violations) >= 25 {
		return
	}
	if r.ReplayDir != "" {
		_ = os.MkdirAll(r.ReplayDir, 0o755)
		h := sha256.Sum256([]byte(v.Monitor + "|" + v.Key + "|" + fmt.Sprint(v.Index)))
		name := fmt.Sprintf("%s-%s-%s.json", r.Prop, r.Config, hex.EncodeToString(h[:6]))
		path := filepath.Join(r.ReplayDir, name)
		v.Replay = path
		b, _ := json.MarshalIndent(v, "", " ")
		_ = os.WriteFile(path, b, 0o644)
	}
	r.violations = append(r.violations, v)
	fmt.Printf("VIOLATION property=%s replay=%s\n", r.Prop, v.Replay)
	fmt.Printf("  monitor=%s index=%d config=%s: %s\n", v.Monitor, v.Index, v.Config, v.Message)
}

// Violations returns the number of (non-known) violations so far.
func (r *Run) Violations() int { return int(r.violCount.Load()) }

func (r *Run) merge(w *W) {
	r.mu.Lock()
	defer r.mu.Unlock()
	for k, v := range w.classes {
		r.classes[k] += v
	}
	r.evals += w.evals
	r.perMonitor[w.Monitor] += w.evals
	for _, h := range w.hashes {
		if len(r.distinct) < r.distinctCap {
			r.distinct[h] = struct{}{}
		} else if _, ok := r.distinct[h]; !ok {
			r.dropped++
		}
	}
	if len(r.samples) < 40 {
		r.samples = append(r.samples, w.samples...)
	}
}

// Each runs body for i in [0,n) on a worker pool.  Each case gets its
// own generator derived from (seed, property, monitor, i), runs under
// recover (an unexpected panic is a violation with the case as witness)
// and is individually replayable.
func (r *Run) Each(monitor string, n int, body func(w *W, i int)) {
	if r.ReplayMonitor != "" {
		if r.ReplayMonitor != monitor {
			return
		}
		r.runCase(monitor, r.ReplayIndex, body, 4)
		return
	}
	var next atomic.Int64
	next.Store(-1)
	var wg sync.WaitGroup
	workers := r.Workers
	if workers > n {
		workers = n
	}
	if workers < 1 {
		workers = 1
	}
	var sampled int32
	for k := 0; k < workers; k++ {
		wg.Add(1)
		go func() {
			defer wg.Done()
			for {
				i := int(next.Add(1))
				if i >= n {
					return
				}
				ms := 0
				if atomic.AddInt32(&sampled, 1) <= 2 {
					ms = 1
				}
				r.runCase(monitor, i, body, ms)
			}
		}()
	}
	wg.Wait()
}

// Seq runs body for i in [0,n) sequentially on the calling goroutine
// (for monitors that must not be perturbed by other goroutines).
func (r *Run) Seq(monitor string, n int, body func(w *W, i int)) {
	if r.ReplayMonitor != "" {
		if r.ReplayMonitor != monitor {
			return
		}
		r.runCase(monitor, r.ReplayIndex, body, 4)
		return
	}
	for i := 0; i < n; i++ {
		ms := 0
		if i < 2 {
			ms = 1
		}
		r.runCase(monitor, i, body, ms)
	}
}

func (r *Run) runCase(monitor string, i int, body func(w *W, i int), maxSamp int) {
	w := &W{R: r, Rng: gen.New(r.Seed, i, r.Prop, monitor), Monitor: monitor, Index: i, classes: map[string]int64{}, maxSamp: maxSamp}
	defer r.merge(w)
	defer func() {
		if e := recover(); e != nil {
			st := string(debug.Stack())
			if len(st) > 3000 {
				st = st[:3000]
			}
			if panicInHarness(st) {
				// the panic was raised by harness code (generator, oracle, monitor), not by the
				// library or by something the library called: a defect of the machinery,
				// never a verdict on the property
				r.Inconclusive("harness panic in monitor %s case %d: %v | %s", monitor, i, e, firstFrames(st, 6))
				return
			}
			w.Fail("panic:"+monitor, fmt.Sprintf("unexpected panic: %v", e), "stack", st)
		}
	}()
	body(w, i)
}

// panicInHarness inspects a stack captured in a deferred recover: the frames
// between the runtime's panic entry and the first frame of either the library or
// the harness decide who raised it.  Library first (possibly below standard
// library frames the library called) => the library panicked.
func panicInHarness(stack string) bool {
	lines := strings.Split(stack, "\n")
	seenPanic := false
	for _, l := range lines {
		if strings.HasPrefix(l, "\t") || l == "" {
			continue
		}
		if !seenPanic {
			if strings.HasPrefix(l, "panic(") || strings.HasPrefix(l, "runtime.sigpanic") || strings.HasPrefix(l, "runtime.panic") || strings.HasPrefix(l, "runtime.goPanic") {
				seenPanic = true
			}
			continue
		}
		if strings.HasPrefix(l, "runtime.") || strings.HasPrefix(l, "panic(") {
			continue
		}
		if strings.HasPrefix(l, "gitlab.com/yawning/secp256k1-voi") {
			// the innermost library frame is one of the expose-only hooks (zz_verif_hooks*.go,
			// functions named Verif...): the hook reached into state the tree under test
			// organises differently (a table that is now built on first use, a renamed field):
			// a misfit of the instrumentation, not a verdict on the property
			if strings.Contains(l, ".Verif") {
				return true
			}
			return false
		}
		if strings.HasPrefix(l, "verifharness/") {
			return true
		}
	}
	return false
}

// PanicInHarness is panicInHarness for monitors that recover in goroutines of their own.
func PanicInHarness(stack string) bool { return panicInHarness(stack) }

func firstFrames(stack string, n int) string {
	var out []string
	for _, l := range strings.Split(stack, "\n") {
		if l != "" && !strings.HasPrefix(l, "\t") && !strings.HasPrefix(l, "goroutine ") {
			out = append(out, l)
		}
	}
	if len(out) > n+3 {
		out = out[3 : n+3]
	}
	return strings.Join(out, " <- ")
}

// Panics runs f and reports whether it panicked (and with what).
func Panics(f func()) (p bool, val any) {
	defer func() {
		if e := recover(); e != nil {
			p, val = true, e
		}
	}()
	f()
	return false, nil
}

// Partial is the per-configuration evidence record.
type Partial struct {
	Property        string           `json:"property_id"`
	Tier            string           `json:"tier"`
	Seed            int64            `json:"seed"`
	Config          string           `json:"config"`
	Tags            string           `json:"tags"`
	Evaluations     int64            `json:"evaluations"`
	Distinct        int64            `json:"distinct_nontrivial"`
	DistinctDropped int64            `json:"distinct_not_counted_after_cap"`
	Classes         map[string]int64 `json:"classes"`
	PerMonitor      map[string]int64 `json:"evaluations_per_monitor"`
	Required        []string         `json:"required_classes"`
	Missing         []string         `json:"required_classes_missing"`
	Samples         []any            `json:"samples"`
	Violations      int              `json:"violations"`
	ViolationList   []Violation      `json:"violation_list,omitempty"`
	KnownSeen       []string         `json:"known_findings_seen,omitempty"`
	Inconclusive    []string         `json:"inconclusive,omitempty"`
	Notes           []string         `json:"notes,omitempty"`
	Extras          map[string]any   `json:"extras,omitempty"`
	WallS           float64          `json:"wall_s"`
}

// Finish computes the verdict, writes the partial evidence and returns
// the process exit code: 0 held, 1 violated, 2 inconclusive.
func (r *Run) Finish(outPath string) int {
	r.mu.Lock()
	defer r.mu.Unlock()
	p := Partial{
		Property: r.Prop, Tier: r.Tier, Seed: r.Seed, Config: r.Config, Tags: r.Tags,
		Evaluations: r.evals, Distinct: int64(len(r.distinct)), DistinctDropped: r.dropped,
		Classes: r.classes, PerMonitor: r.perMonitor, Required: r.required,
		Samples: r.samples, Violations: int(r.violCount.Load()), ViolationList: r.violations,
		Inconclusive: r.inconcl, Notes: r.notes, Extras: r.extras,
		WallS: time.Since(r.start).Seconds(),
	}
	for k := range r.knownSeen {
		p.KnownSeen = append(p.KnownSeen, k)
	}
	sort.Strings(p.KnownSeen)
	if r.ReplayMonitor == "" {
		for _, c := range r.required {
			if r.classes[c] == 0 {
				p.Missing = append(p.Missing, c)
			}
		}
		if len(p.Missing) > 0 {
			p.Inconclusive = append(p.Inconclusive, "required classes never observed: "+strings.Join(p.Missing, ", "))
		}
		if r.evals == 0 {
			p.Inconclusive = append(p.Inconclusive, "no cases were executed")
		}
	}
	if p.Samples == nil {
		p.Samples = []any{}
	}
	if outPath != "" {
		b, _ := json.MarshalIndent(p, "", " ")
		if err := os.WriteFile(outPath, b, 0o644); err != nil {
			fmt.Fprintf(os.Stderr, "mon: cannot write %s: %v\n", outPath, err)
		}
	}
	switch {
	case p.Violations > 0:
		return 1
	case len(p.Inconclusive) > 0:
		for _, s := range p.Inconclusive {
			fmt.Printf("INCONCLUSIVE property=%s config=%s: %s\n", r.Prop, r.Config, s)
		}
		return 2
	}
	return 0
}

// LoadKnown parses KNOWN_FINDINGS.txt: lines
//
//	known: property=<id> key=<key> <description>
//	fixed: property=<id> <commit> <what failed>
//
// Only `known:` lines of this property suppress anything.
func LoadKnown(path, prop string) map[string]string {
	out := map[string]string{}
	b, err := os.ReadFile(path)
	if err != nil {
		return out
	}
	for _, line := range strings.Split(string(b), "\n") {
		line = strings.TrimSpace(line)
		if !strings.HasPrefix(line, "known:") {
			continue
		}
		f := strings.Fields(strings.TrimPrefix(line, "known:"))
		if len(f) < 2 || f[0] != "property="+prop || !strings.HasPrefix(f[1], "key=") {
			continue
		}
		out[strings.TrimPrefix(f[1], "key=")] = strings.Join(f[2:], " ")
	}
	return out
}
