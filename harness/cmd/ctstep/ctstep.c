// ctstep: ptrace single-step tracer for the instruction-level trace-equivalence
// monitor of C17 (bin/cttrace.py).
//
//   ctstep <out.jsonl> <begin> <end> <skipfile> <funcsfile> <dumpspec|-> -- <probe> [args...]
//
// The probe (harness/cmd/ctprobe) brackets every traced operation between calls of
// two non-inlined marker functions, traceBegin(op, idx, bucket) and traceEnd(),
// whose addresses (hex) are <begin> and <end>.  Between the two the thread is
// single-stepped and every program-counter value is folded into a hash; calls
// into the functions listed in <skipfile> (one "start end" hex pair per line,
// sorted: the Go runtime - allocator, stack growth, memmove - and sync) are
// stepped OVER (run to their return address), only their entry address is
// folded in: their internal control flow depends on allocator state, not on
// the operation's inputs.  <funcsfile> lists the start address of every function
// (hex, sorted; a leading '*' marks runtime.morestack*): a function prologue that
// detours through morestack (real stack growth, or the cooperative preemption
// request sysmon posts for any goroutine that has been running for 10 ms - which
// under single-stepping is every few hundred instructions) re-enters the function
// from its first instruction; the detour is a function of wall-clock time, not of
// the inputs, and is cut out of the trace (roll back to the function entry).
// One JSON line per traced region goes to <out.jsonl>:
//   {"op":..,"idx":..,"bucket":..,"steps":..,"skipped_calls":..,"hash":"..","disturbed":0}
// <dumpspec> "op:idx[,op:idx...]" additionally writes the full pc list of those
// regions to <out.jsonl>.<op>.<idx>.pcs (one hex pc per line).
#define _GNU_SOURCE
#include <errno.h>
#include <signal.h>
#include <stdint.h>
#include <stdio.h>
#include <stdlib.h>
#include <string.h>
#include <sys/personality.h>
#include <sys/ptrace.h>
#include <sys/types.h>
#include <sys/user.h>
#include <sys/wait.h>
#include <unistd.h>

static uint64_t *skip_lo, *skip_hi;
static size_t nskip;

static int in_skip(uint64_t pc) {
	size_t lo = 0, hi = nskip;
	while (lo < hi) {
		size_t mid = (lo + hi) / 2;
		if (pc < skip_lo[mid]) hi = mid;
		else if (pc >= skip_hi[mid]) lo = mid + 1;
		else return 1;
	}
	return 0;
}

static uint64_t *fn_start;
static size_t nfn;
static uint64_t more[16];
static int nmore;

static int is_fn_start(uint64_t pc) {
	size_t lo = 0, hi = nfn;
	while (lo < hi) {
		size_t mid = (lo + hi) / 2;
		if (fn_start[mid] == pc) return 1;
		if (pc < fn_start[mid]) hi = mid;
		else lo = mid + 1;
	}
	return 0;
}
static int is_more(uint64_t pc) {
	for (int i = 0; i < nmore; i++)
		if (more[i] == pc) return 1;
	return 0;
}

static void die(const char *m) {
	fprintf(stderr, "ctstep: %s: %s\n", m, strerror(errno));
	exit(3);
}

static long peek(pid_t t, uint64_t a) {
	errno = 0;
	long v = ptrace(PTRACE_PEEKTEXT, t, (void *)a, 0);
	if (errno) die("peek");
	return v;
}
static void poke(pid_t t, uint64_t a, long v) {
	if (ptrace(PTRACE_POKETEXT, t, (void *)a, (void *)v) < 0) die("poke");
}
static long set_bp(pid_t t, uint64_t a) {
	long o = peek(t, a);
	poke(t, a, (o & ~0xffL) | 0xcc);
	return o;
}

#define MAXDUMP 64
static long dump_op[MAXDUMP], dump_idx[MAXDUMP];
static int ndump;

int main(int argc, char **argv) {
	if (argc < 9) {
		fprintf(stderr, "usage: ctstep out begin end skipfile funcsfile dumpspec -- probe args\n");
		return 2;
	}
	const char *outp = argv[1];
	uint64_t begin = strtoull(argv[2], 0, 16), end = strtoull(argv[3], 0, 16);
	FILE *sf = fopen(argv[4], "r");
	if (!sf) die("skipfile");
	size_t cap = 1 << 16;
	skip_lo = malloc(cap * 8);
	skip_hi = malloc(cap * 8);
	unsigned long long a, b;
	while (fscanf(sf, "%llx %llx", &a, &b) == 2 && nskip < cap) {
		skip_lo[nskip] = a;
		skip_hi[nskip++] = b;
	}
	fclose(sf);
	FILE *ff = fopen(argv[5], "r");
	if (!ff) die("funcsfile");
	fn_start = malloc((1 << 20) * 8);
	char line[256];
	while (fgets(line, sizeof line, ff) && nfn < (1 << 20)) {
		char *p = line;
		int m = 0;
		if (*p == '*') {
			m = 1;
			p++;
		}
		uint64_t v = strtoull(p, 0, 16);
		if (!v) continue;
		fn_start[nfn++] = v;
		if (m && nmore < 16) more[nmore++] = v;
	}
	fclose(ff);
	if (strcmp(argv[6], "-")) {
		char *s = strdup(argv[6]), *tok;
		for (tok = strtok(s, ","); tok && ndump < MAXDUMP; tok = strtok(0, ",")) {
			if (sscanf(tok, "%ld:%ld", &dump_op[ndump], &dump_idx[ndump]) == 2) ndump++;
		}
	}
	int pi = 7;
	if (strcmp(argv[pi], "--") == 0) pi++;
	FILE *out = fopen(outp, "w");
	if (!out) die("out");

	pid_t child = fork();
	if (child < 0) die("fork");
	if (child == 0) {
		personality(ADDR_NO_RANDOMIZE);
		ptrace(PTRACE_TRACEME, 0, 0, 0);
		raise(SIGSTOP);
		execv(argv[pi], argv + pi);
		_exit(127);
	}
	int st;
	if (waitpid(child, &st, __WALL) < 0) die("waitpid");
	if (ptrace(PTRACE_SETOPTIONS, child, 0, PTRACE_O_TRACECLONE | PTRACE_O_EXITKILL | PTRACE_O_TRACEEXEC) < 0) die("setoptions");
	ptrace(PTRACE_CONT, child, 0, 0);
	// wait for the exec stop
	for (;;) {
		pid_t t = waitpid(-1, &st, __WALL);
		if (t < 0) die("waitpid exec");
		if (WIFEXITED(st) || WIFSIGNALED(st)) {
			fprintf(stderr, "ctstep: probe exited before exec\n");
			return 3;
		}
		if (WIFSTOPPED(st) && (st >> 8) == (SIGTRAP | (PTRACE_EVENT_EXEC << 8))) break;
		ptrace(PTRACE_CONT, t, 0, 0);
	}
	long orig_begin = set_bp(child, begin);
	ptrace(PTRACE_CONT, child, 0, 0);

	unsigned long regions = 0, total_steps = 0;
	for (;;) {
		pid_t t = waitpid(-1, &st, __WALL);
		if (t < 0) {
			if (errno == ECHILD) break;
			die("waitpid");
		}
		if (WIFEXITED(st) || WIFSIGNALED(st)) {
			if (t == child) break;
			continue;
		}
		if (!WIFSTOPPED(st)) continue;
		int sig = WSTOPSIG(st);
		int ev = st >> 16;
		if (ev == PTRACE_EVENT_CLONE || ev == PTRACE_EVENT_EXEC) {
			ptrace(PTRACE_CONT, t, 0, 0);
			continue;
		}
		if (sig == SIGSTOP) { // a freshly attached thread
			ptrace(PTRACE_CONT, t, 0, 0);
			continue;
		}
		if (sig != SIGTRAP) { // pass every other signal through
			ptrace(PTRACE_CONT, t, 0, (void *)(long)sig);
			continue;
		}
		struct user_regs_struct r;
		if (ptrace(PTRACE_GETREGS, t, 0, &r) < 0) die("getregs");
		if (r.rip - 1 != begin) {
			ptrace(PTRACE_CONT, t, 0, 0);
			continue;
		}
		// traceBegin(op, idx, bucket): ABIInternal integer arguments in RAX, RBX, RCX
		poke(t, begin, orig_begin);
		r.rip = begin;
		if (ptrace(PTRACE_SETREGS, t, 0, &r) < 0) die("setregs");
		long op = (long)r.rax, idx = (long)r.rbx;
		uint64_t bucket = r.rcx;
		FILE *pcs = 0;
		for (int i = 0; i < ndump; i++) {
			if (dump_op[i] == op && dump_idx[i] == idx) {
				char name[4096];
				snprintf(name, sizeof name, "%s.%ld.%ld.pcs", outp, op, idx);
				pcs = fopen(name, "w");
			}
		}
		uint64_t h = 1469598103934665603ULL;
		unsigned long steps = 0, skipped = 0, detours = 0;
		int disturbed = 0, done = 0;
		// state at the most recent function entry (before that entry's pc is folded in)
		uint64_t snap_h = h, snap_pc = 0;
		unsigned long snap_steps = 0, snap_skipped = 0;
		long snap_off = 0;
		int dropping = 0;
		uint64_t prev_pc = begin;
		int prev_in_skip = 0;
		int pending_sig = 0;
		while (!done) {
			if (ptrace(PTRACE_SINGLESTEP, t, 0, (void *)(long)pending_sig) < 0) die("singlestep");
			pending_sig = 0;
			if (waitpid(t, &st, __WALL) < 0) die("waitpid step");
			if (WIFEXITED(st) || WIFSIGNALED(st)) {
				fprintf(stderr, "ctstep: probe died inside a traced region (op %ld idx %ld)\n", op, idx);
				fclose(out);
				return 4;
			}
			if (WSTOPSIG(st) != SIGTRAP) {
				disturbed++;
				pending_sig = WSTOPSIG(st);
				continue;
			}
			if (ptrace(PTRACE_GETREGS, t, 0, &r) < 0) die("getregs step");
			uint64_t pc = r.rip;
			if (pc == end) {
				done = 1;
				break;
			}
			int sk = in_skip(pc);
			if (dropping) {
				// after a morestack detour: reload + jump back to the function entry
				if (pc != snap_pc) continue;
				dropping = 0;
			}
			if (!sk && is_fn_start(pc)) {
				snap_h = h;
				snap_pc = pc;
				snap_steps = steps;
				snap_skipped = skipped;
				if (pcs) {
					fflush(pcs);
					snap_off = ftell(pcs);
				}
			}
			if (sk && !prev_in_skip) {
				// entered a skipped function (CALL, tail JMP, or a CALL into the middle of a
				// duff device): run to the return address on top of the stack
				uint64_t ret = (uint64_t)peek(t, r.rsp);
				int detour = is_more(pc) && snap_pc != 0;
				if (detour) {
					h = snap_h;
					steps = snap_steps;
					skipped = snap_skipped;
					detours++;
					if (pcs) {
						fflush(pcs);
						if (ftruncate(fileno(pcs), snap_off) == 0) fseek(pcs, snap_off, SEEK_SET);
					}
				} else {
					h = (h ^ pc) * 1099511628211ULL;
					steps++;
					skipped++;
					if (pcs) fprintf(pcs, "%llx S\n", (unsigned long long)pc);
				}
				long o = set_bp(t, ret);
				for (;;) {
					if (ptrace(PTRACE_CONT, t, 0, (void *)(long)pending_sig) < 0) die("cont over");
					pending_sig = 0;
					if (waitpid(t, &st, __WALL) < 0) die("waitpid over");
					if (WIFEXITED(st) || WIFSIGNALED(st)) {
						fprintf(stderr, "ctstep: probe died while stepping over %llx\n", (unsigned long long)pc);
						fclose(out);
						return 4;
					}
					if (WSTOPSIG(st) == SIGTRAP) {
						if (ptrace(PTRACE_GETREGS, t, 0, &r) < 0) die("getregs over");
						if (r.rip - 1 == ret) break;
						continue;
					}
					if (WSTOPSIG(st) == SIGSTOP) continue;
					pending_sig = WSTOPSIG(st);
				}
				poke(t, ret, o);
				r.rip = ret;
				if (ptrace(PTRACE_SETREGS, t, 0, &r) < 0) die("setregs over");
				pc = ret;
				if (pc == end) {
					done = 1;
					break;
				}
				sk = in_skip(pc);
				if (detour) {
					dropping = 1;
					prev_in_skip = sk;
					if (pc != snap_pc) continue;
					dropping = 0;
					if (pcs) {
						fflush(pcs);
						snap_off = ftell(pcs);
					}
				}
			}
			prev_in_skip = sk;
			prev_pc = pc;
			if (!sk) {
				h = (h ^ pc) * 1099511628211ULL;
				steps++;
				if (pcs) fprintf(pcs, "%llx\n", (unsigned long long)pc);
			}
		}
		(void)prev_pc;
		if (pcs) fclose(pcs);
		fprintf(out, "{\"op\":%ld,\"idx\":%ld,\"bucket\":\"%llx\",\"steps\":%lu,\"skipped_calls\":%lu,\"hash\":\"%016llx\",\"disturbed\":%d,\"detours\":%lu}\n",
			op, idx, (unsigned long long)bucket, steps, skipped, (unsigned long long)h, disturbed, detours);
		fflush(out);
		regions++;
		total_steps += steps;
		set_bp(t, begin);
		ptrace(PTRACE_CONT, t, 0, 0);
	}
	fclose(out);
	fprintf(stderr, "ctstep: %lu regions, %lu instructions stepped\n", regions, total_steps);
	return 0;
}
