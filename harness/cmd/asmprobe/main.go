//go:build verif && verif_mul

// asmprobe calls the two table-lookup routines once per index 0..15 on
// caller-built tables; bin/asmtrace.py single-steps these calls under gdb
// and compares the instruction / memory-operand traces across indices
// (C17: secret-independent control flow and access pattern of the
// assembly; C19: write set of the assembly).
package main

import (
	"crypto/sha256"
	"encoding/binary"
	"fmt"
	"os"
	"runtime"
	"strconv"

	secp256k1 "gitlab.com/yawning/secp256k1-voi"
)

func fill(seed uint64, round int, n int) []uint64 {
	out := make([]uint64, 0, n)
	var ctr uint64
	for len(out) < n {
		var b [24]byte
		binary.LittleEndian.PutUint64(b[0:], seed)
		binary.LittleEndian.PutUint64(b[8:], uint64(round))
		binary.LittleEndian.PutUint64(b[16:], ctr)
		h := sha256.Sum256(b[:])
		for i := 0; i < 4 && len(out) < n; i++ {
			out = append(out, binary.LittleEndian.Uint64(h[8*i:]))
		}
		ctr++
	}
	return out
}

// The tables and destinations sit in the middle of large padded blocks so that
// the tracer can attribute every effective address unambiguously (table,
// destination or stack) and an access beyond either end is visibly "outside".
type paddedP struct {
	pre  [8192]byte
	tbl  [15]secp256k1.Point
	post [8192]byte
}
type paddedA struct {
	pre  [8192]byte
	tbl  [15]secp256k1.VerifAffineEntry
	post [8192]byte
}
type paddedOutP struct {
	pre  [8192]byte
	out  secp256k1.Point
	post [8192]byte
}
type paddedOutA struct {
	pre  [8192]byte
	out  secp256k1.VerifAffineEntry
	post [8192]byte
}

func main() {
	seed, rounds := uint64(1), 1
	if len(os.Args) > 1 {
		seed, _ = strconv.ParseUint(os.Args[1], 10, 64)
	}
	if len(os.Args) > 2 {
		rounds, _ = strconv.Atoi(os.Args[2])
	}
	runtime.LockOSThread()
	var acc uint64
	for round := 0; round < rounds; round++ {
		// projective: 15 entries x 12 limbs, raw limbs (the lookup is a pure masked copy)
		pp := new(paddedP)
		ptbl := &pp.tbl
		w := fill(seed, 2*round, 15*12)
		for i := range ptbl {
			var x, y, z [4]uint64
			copy(x[:], w[12*i:])
			copy(y[:], w[12*i+4:])
			copy(z[:], w[12*i+8:])
			ptbl[i].VerifSetRaw(x, y, z, true)
		}
		pa := new(paddedA)
		atbl := &pa.tbl
		w = fill(seed, 2*round+1, 15*8)
		for i := range atbl {
			copy(atbl[i][0][:], w[8*i:])
			copy(atbl[i][1][:], w[8*i+4:])
		}
		if len(os.Args) > 3 && os.Args[3] == "reuse" {
			// for the valgrind memory-access tracer (bin/vgtrace.py): ONE destination per
			// routine, used for all sixteen indices, so that the table, the destination and
			// the stack are at the same addresses in every call of a round
			po, pao := new(paddedOutP), new(paddedOutA)
			for rep := 0; rep < 2; rep++ {
				for idx := uint64(0); idx <= 15; idx++ {
					po.out = secp256k1.Point{}
					pao.out = secp256k1.VerifAffineEntry{}
					lookupPair(ptbl, &po.out, atbl, &pao.out, idx, &acc)
				}
			}
			continue
		}
		for idx := uint64(0); idx <= 15; idx++ {
			po := new(paddedOutP)
			out := &po.out
			secp256k1.VerifLookupProjective(ptbl, out, idx)
			x, y, z, _ := out.VerifRaw()
			acc ^= x[0] ^ y[1] ^ z[2]
			pao := new(paddedOutA)
			aout := &pao.out
			secp256k1.VerifLookupAffine(atbl, aout, idx)
			acc ^= aout[0][0] ^ aout[1][3]
		}
	}
	fmt.Printf("asmprobe done acc=%016x\n", acc)
}

//go:noinline
func lookupPair(ptbl *[15]secp256k1.Point, out *secp256k1.Point, atbl *[15]secp256k1.VerifAffineEntry, aout *secp256k1.VerifAffineEntry, idx uint64, acc *uint64) {
	secp256k1.VerifLookupProjective(ptbl, out, idx)
	x, y, z, _ := out.VerifRaw()
	*acc ^= x[0] ^ y[1] ^ z[2]
	secp256k1.VerifLookupAffine(atbl, aout, idx)
	*acc ^= aout[0][0] ^ aout[1][3]
}
