// verifrun runs the monitors of one property in one build configuration
// as a child process of bin/check.
package main

import (
	"encoding/json"
	"flag"
	"fmt"
	"os"
	"runtime"
	"runtime/debug"
	"strings"
	"time"

	"verifharness/hk"
	"verifharness/mon"
	"verifharness/oracle"
	"verifharness/props"
)

func main() {
	var (
		tier      = flag.String("tier", "quick", "quick|thorough")
		seed      = flag.Int64("seed", 1, "VERIF_SEED")
		config    = flag.String("config", "asm", "build configuration name")
		tags      = flag.String("tags", "", "build tags (informational)")
		out       = flag.String("out", "", "partial evidence output path")
		known     = flag.String("known", "", "KNOWN_FINDINGS.txt")
		replayDir = flag.String("replaydir", "", "directory for replay files")
		replay    = flag.String("replay", "", "replay file to re-execute")
		selftest  = flag.Bool("selftest", false, "run the oracle self-test first")
		workers   = flag.Int("workers", 0, "worker goroutines (0 = GOMAXPROCS)")
		list      = flag.Bool("list", false, "list properties and hook groups")
		cold      = flag.String("cold", "", "cold-start child: perform this one operation as the first library call and print the result")
	)
	flag.Parse()
	if *cold != "" {
		props.ColdMain(*cold)
		return
	}
	// The oracle allocates many small big.Ints; on this VM frequent GC cycles
	// with many Ps are very expensive (futex storms), memory is plentiful.
	// First-touch page faults cost ~0.3 ms in this VM and GC cycles on a tiny
	// heap cause futex storms: a moderate GOGC measured best (see DESIGN.md).
	debug.SetGCPercent(400)
	if g := os.Getenv("VERIF_GOGC"); g != "" {
		var n int
		fmt.Sscan(g, &n)
		debug.SetGCPercent(n)
	}
	if os.Getenv("VERIF_GCSTORM") == "1" {
		// discovered configuration dyn-gcstorm (the library uses finalizers / cleanups / weak pointers):
		// collections run back to back for the whole check, so an object that is unreachable for a
		// few instructions in the middle of a call is finalized right there
		debug.SetGCPercent(1)
		go func() {
			for {
				if !props.GCStormPaused.Load() {
					runtime.GC()
				}
				time.Sleep(150 * time.Microsecond)
			}
		}()
	}
	if *list {
		fmt.Println("properties:", strings.Join(props.IDs(), " "))
		fmt.Println("hooks:", hk.Available())
		return
	}
	if flag.NArg() != 1 {
		fmt.Fprintln(os.Stderr, "usage: verifrun [flags] <property>")
		os.Exit(2)
	}
	id := flag.Arg(0)
	p := props.Get(id)
	if p == nil {
		fmt.Printf("INCONCLUSIVE property=%s: no monitor compiled into this binary (hooks: %v)\n", id, hk.Available())
		os.Exit(2)
	}
	r := mon.NewRun(id, *tier, *config, *tags, *seed)
	if *workers > 0 {
		r.Workers = *workers
	}
	r.ReplayDir = *replayDir
	if *known != "" {
		r.Known = mon.LoadKnown(*known, id)
	}
	if *replay != "" {
		b, err := os.ReadFile(*replay)
		if err != nil {
			fmt.Fprintln(os.Stderr, err)
			os.Exit(2)
		}
		var v mon.Violation
		if err := json.Unmarshal(b, &v); err != nil {
			fmt.Fprintln(os.Stderr, err)
			os.Exit(2)
		}
		r.Tier, r.Seed = v.Tier, v.Seed
		r.ReplayMonitor, r.ReplayIndex = v.Monitor, v.Index
		r.ReplayDir = ""
		fmt.Printf("replaying %s monitor=%s index=%d seed=%d tier=%s config=%s\n", id, v.Monitor, v.Index, v.Seed, v.Tier, *config)
	}
	if *selftest {
		n, err := oracle.SelfTest()
		if err != nil {
			fmt.Printf("INCONCLUSIVE property=%s: oracle self-test failed: %v\n", id, err)
			os.Exit(2)
		}
		r.Extra("oracle_selftest_checks", n)
	}
	r.Extra("hooks", hk.Available())
	r.Extra("goarch", runtime.GOARCH)
	p.Run(r)
	os.Exit(r.Finish(*out))
}
