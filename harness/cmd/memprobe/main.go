//go:build verif

// memprobe runs ONE (operation, variant, secret) of the C17 operation table, the
// traced call bracketed by props.CTTraceBegin / props.CTTraceEnd.  It is run under
// `valgrind --tool=lackey --trace-mem=yes` by bin/memtrace.py, one process per
// secret, so that stack and heap addresses of two runs are directly comparable.
//
//	memprobe list <seed> <quick|thorough>            prints the plan as JSON
//	memprobe run <op-name> <variant> <secret-hex> <class>
package main

import (
	"encoding/json"
	"fmt"
	"os"
	"runtime"
	"runtime/debug"
	"strconv"

	"verifharness/props"
)

func main() {
	runtime.LockOSThread()
	debug.SetGCPercent(-1)
	if len(os.Args) >= 4 && os.Args[1] == "list" {
		seed, _ := strconv.ParseInt(os.Args[2], 10, 64)
		b, _ := json.Marshal(props.MemPlan(seed, os.Args[3]))
		fmt.Println(string(b))
		return
	}
	if len(os.Args) < 6 || os.Args[1] != "run" {
		fmt.Fprintln(os.Stderr, "usage: memprobe list <seed> <tier> | run <op> <variant> <secret-hex> <class>")
		os.Exit(2)
	}
	v, _ := strconv.Atoi(os.Args[3])
	shape, err := props.MemProbe(os.Args[2], v, os.Args[4], os.Args[5])
	if err != nil {
		fmt.Fprintln(os.Stderr, err)
		os.Exit(2)
	}
	fmt.Printf("memprobe done shape=%q\n", shape)
}
