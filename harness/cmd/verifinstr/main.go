// verifinstr produces an instrumented view of the library for the C17
// trace-equivalence monitor, as a `go build -overlay` file:
//
//  1. every non-constant index expression and slice bound of every library
//     file selected by the build tags gets wrapped (textually, at the
//     expression's own offsets, so no line moves) in verifrt.Idx(site, ...),
//     which logs (site, value);
//  2. `go tool cover -mode=count -var=...` adds one counter per basic block;
//  3. a generated registry file per package registers counters, block
//     positions and function ranges with the injected runtime package
//     internal/verifrt; the root package re-exports the runtime's API.
//
// /repo is only read; all generated files live under -out.
package main

import (
	"encoding/json"
	"flag"
	"fmt"
	"go/ast"
	"go/build"
	"go/parser"
	"go/token"
	"os"
	"os/exec"
	"path/filepath"
	"sort"
	"strings"
)

const modPath = "gitlab.com/yawning/secp256k1-voi"

var pkgDirs = []string{".", "internal/field", "internal/helpers", "internal/swu", "internal/fiat/secp256k1montgomery",
	"internal/fiat/secp256k1montgomeryscalar", "secec", "secec/bitcoin", "secec/h2c"}

type overlayFile struct {
	Replace map[string]string
}

type insertion struct {
	off  int
	text string
	open bool
}

type funcRange struct {
	Name       string
	Start, End int // lines
}

func main() {
	repo := flag.String("repo", "/repo", "repository root")
	tags := flag.String("tags", "", "comma separated build tags")
	out := flag.String("out", "", "output directory")
	baseOv := flag.String("base-overlay", "", "existing overlay (mutant) to read sources through and merge")
	noIdx := flag.String("no-index", "", "comma separated files (relative to the repository) that get block counters only, no index recorder")
	flag.Parse()
	noIndex := map[string]bool{}
	for _, f := range strings.Split(*noIdx, ",") {
		if f != "" {
			noIndex[f] = true
		}
	}
	stages := map[string]string{}
	if *out == "" {
		fatal("need -out")
	}
	base := overlayFile{Replace: map[string]string{}}
	if *baseOv != "" {
		b, err := os.ReadFile(*baseOv)
		if err != nil {
			fatal(err)
		}
		if err := json.Unmarshal(b, &base); err != nil {
			fatal(err)
		}
	}
	ctx := build.Default
	ctx.BuildTags = strings.Split(*tags, ",")
	ov := overlayFile{Replace: map[string]string{}}
	for k, v := range base.Replace {
		ov.Replace[k] = v
	}
	must(os.MkdirAll(*out, 0o755))
	site := 0
	fileNo := 0
	var siteTable []string
	for _, rel := range pkgDirs {
		dir := filepath.Join(*repo, rel)
		ents, err := os.ReadDir(dir)
		if err != nil {
			fatal(err)
		}
		names := map[string]bool{}
		for _, e := range ents {
			names[e.Name()] = true
		}
		// files added by the base overlay inside this dir
		for k := range base.Replace {
			if filepath.Dir(k) == dir {
				names[filepath.Base(k)] = true
			}
		}
		var list []string
		for n := range names {
			list = append(list, n)
		}
		sort.Strings(list)
		pkgName := ""
		var reg strings.Builder
		for _, name := range list {
			if !strings.HasSuffix(name, ".go") || strings.HasSuffix(name, "_test.go") {
				continue
			}
			orig := filepath.Join(dir, name)
			srcPath := orig
			if r, ok := base.Replace[orig]; ok {
				if r == "" {
					continue
				}
				srcPath = r
			}
			src, err := os.ReadFile(srcPath)
			if err != nil {
				continue
			}
			if ok, _ := matchFile(&ctx, dir, name, src); !ok {
				continue
			}
			fset := token.NewFileSet()
			f, err := parser.ParseFile(fset, orig, src, parser.ParseComments)
			if err != nil {
				fatal(fmt.Errorf("%s: %v", orig, err))
			}
			if strings.HasPrefix(name, "zz_verif_hooks") {
				continue // hook files are expose-only; leave them alone
			}
			pkgName = f.Name.Name
			// 1. index recorder
			var ins []insertion
			wrap := func(e ast.Expr, kind string) {
				if e == nil {
					return
				}
				if _, ok := e.(*ast.BasicLit); ok {
					return
				}
				pos := fset.Position(e.Pos())
				ins = append(ins, insertion{fset.Position(e.Pos()).Offset, fmt.Sprintf("verifrt.Idx(%d, ", site), true})
				ins = append(ins, insertion{fset.Position(e.End()).Offset, ")", false})
				siteTable = append(siteTable, fmt.Sprintf("%s:%d:%d %s", filepath.Join(rel, name), pos.Line, pos.Column, kind))
				site++
			}
			// X[T] in a TYPE position (generic instantiation: atomic.Pointer[T], a field or
			// variable type, a composite-literal type, f[T](...)) parses as an IndexExpr too;
			// those must not be wrapped.
			typePos := map[ast.Node]bool{}
			var markType func(e ast.Expr)
			markType = func(e ast.Expr) {
				switch x := e.(type) {
				case nil:
				case *ast.IndexExpr:
					typePos[x] = true
					markType(x.X)
					markType(x.Index)
				case *ast.IndexListExpr:
					typePos[x] = true
				case *ast.StarExpr:
					markType(x.X)
				case *ast.ParenExpr:
					markType(x.X)
				case *ast.ArrayType:
					markType(x.Elt)
				case *ast.MapType:
					markType(x.Key)
					markType(x.Value)
				case *ast.ChanType:
					markType(x.Value)
				case *ast.Ellipsis:
					markType(x.Elt)
				case *ast.FuncType:
					for _, fl := range []*ast.FieldList{x.TypeParams, x.Params, x.Results} {
						if fl != nil {
							for _, fd := range fl.List {
								markType(fd.Type)
							}
						}
					}
				case *ast.StructType:
					for _, fd := range x.Fields.List {
						markType(fd.Type)
					}
				}
			}
			looksLikeType := func(e ast.Expr) bool {
				switch x := e.(type) {
				case *ast.StarExpr, *ast.ArrayType, *ast.MapType, *ast.ChanType, *ast.FuncType, *ast.StructType, *ast.InterfaceType:
					return true
				case *ast.Ident:
					switch x.Name {
					case "bool", "byte", "rune", "string", "error", "any", "int", "int8", "int16", "int32", "int64", "uint", "uint8", "uint16", "uint32", "uint64", "uintptr", "float32", "float64":
						return true
					}
					return x.Obj != nil && x.Obj.Kind == ast.Typ
				case *ast.SelectorExpr:
					// pkg.Name with an exported, capitalised name: a type of another package
					if id, ok := x.X.(*ast.Ident); ok && id.Obj == nil && ast.IsExported(x.Sel.Name) {
						return true
					}
				}
				return false
			}
			ast.Inspect(f, func(n ast.Node) bool {
				switch x := n.(type) {
				case *ast.Field:
					markType(x.Type)
				case *ast.ValueSpec:
					markType(x.Type)
				case *ast.TypeSpec:
					markType(x.Type)
				case *ast.CompositeLit:
					markType(x.Type)
				case *ast.TypeAssertExpr:
					markType(x.Type)
				case *ast.CallExpr:
					// generic function instantiation f[T](...) / conversion T[U](x)
					if ix, ok := x.Fun.(*ast.IndexExpr); ok && looksLikeType(ix.Index) {
						typePos[ix] = true
					}
					if ix, ok := x.Fun.(*ast.IndexListExpr); ok {
						typePos[ix] = true
					}
					// new(T[U]), make(T[U], ...)
					if id, ok := x.Fun.(*ast.Ident); ok && (id.Name == "new" || id.Name == "make") && len(x.Args) > 0 {
						markType(x.Args[0])
					}
				case *ast.IndexExpr:
					if looksLikeType(x.Index) {
						typePos[x] = true
					}
				}
				return true
			})
			if noIndex[filepath.Join(rel, name)] {
				typePos = nil // index recorder disabled for this file (fallback of the driver)
			}
			ast.Inspect(f, func(n ast.Node) bool {
				switch x := n.(type) {
				case *ast.IndexExpr:
					if typePos == nil || typePos[x] {
						return true
					}
					wrap(x.Index, "index")
				case *ast.SliceExpr:
					if typePos == nil {
						return true
					}
					wrap(x.Low, "slice-low")
					wrap(x.High, "slice-high")
					wrap(x.Max, "slice-max")
				}
				return true
			})
			text := string(src)
			if len(ins) > 0 {
				sort.SliceStable(ins, func(a, b int) bool {
					if ins[a].off != ins[b].off {
						return ins[a].off > ins[b].off
					}
					return !ins[a].open && ins[b].open // at equal offsets: emit opens after closes when walking backwards
				})
				for _, in := range ins {
					text = text[:in.off] + in.text + text[in.off:]
				}
				// import on the package clause line (keeps every line number)
				pend := fset.Position(f.Name.End()).Offset
				text = text[:pend] + `; import verifrt "` + modPath + `/internal/verifrt"` + text[pend:]
			}
			stage1 := filepath.Join(*out, fmt.Sprintf("s1_%d_%s", fileNo, name))
			must(os.WriteFile(stage1, []byte(text), 0o644))
			// 2. block counters
			varName := fmt.Sprintf("VerifCov_%d", fileNo)
			stage2 := filepath.Join(*out, fmt.Sprintf("s2_%d_%s", fileNo, name))
			cmd := exec.Command("go", "tool", "cover", "-mode=count", "-var="+varName, "-o", stage2, stage1)
			if b, err := cmd.CombinedOutput(); err != nil {
				fatal(fmt.Errorf("cover %s: %v\n%s", orig, err, b))
			}
			// cover rewrites //line-less output; make positions refer to the original name
			ov.Replace[orig] = stage2
			stages[filepath.Base(stage1)] = filepath.Join(rel, name)
			stages[filepath.Base(stage2)] = filepath.Join(rel, name)
			// 3. registry entry with function ranges
			var frs []funcRange
			for _, d := range f.Decls {
				if fd, ok := d.(*ast.FuncDecl); ok && fd.Body != nil {
					nm := fd.Name.Name
					if fd.Recv != nil && len(fd.Recv.List) > 0 {
						nm = recvName(fd.Recv.List[0].Type) + "." + nm
					}
					frs = append(frs, funcRange{nm, fset.Position(fd.Pos()).Line, fset.Position(fd.End()).Line})
				}
			}
			fmt.Fprintf(&reg, "\tverifrt.Register(%q, %s.Count[:], %s.Pos[:], []verifrt.FuncRange{", filepath.Join(rel, name), varName, varName)
			for _, fr := range frs {
				fmt.Fprintf(&reg, "{%q, %d, %d},", fr.Name, fr.Start, fr.End)
			}
			reg.WriteString("})\n")
			fileNo++
		}
		if pkgName == "" {
			continue
		}
		regSrc := fmt.Sprintf("package %s\n\nimport verifrt %q\n\nfunc init() {\n%s}\n", pkgName, modPath+"/internal/verifrt", reg.String())
		regPath := filepath.Join(*out, fmt.Sprintf("registry_%s.go", strings.ReplaceAll(rel, "/", "_")))
		must(os.WriteFile(regPath, []byte(regSrc), 0o644))
		ov.Replace[filepath.Join(dir, "zz_verif_instr_registry.go")] = regPath
	}
	// runtime package and its re-export from the root package
	rtPath := filepath.Join(*out, "verifrt.go")
	must(os.WriteFile(rtPath, []byte(runtimeSrc), 0o644))
	ov.Replace[filepath.Join(*repo, "internal/verifrt/rt.go")] = rtPath
	exPath := filepath.Join(*out, "export.go")
	must(os.WriteFile(exPath, []byte(exportSrc), 0o644))
	ov.Replace[filepath.Join(*repo, "zz_verif_instr_export.go")] = exPath
	sg, _ := json.Marshal(stages)
	must(os.WriteFile(filepath.Join(*out, "stages.json"), sg, 0o644))
	st, _ := json.Marshal(siteTable)
	must(os.WriteFile(filepath.Join(*out, "sites.json"), st, 0o644))
	b, _ := json.MarshalIndent(ov, "", " ")
	must(os.WriteFile(filepath.Join(*out, "overlay.json"), b, 0o644))
	fmt.Printf("instrumented %d files, %d index sites\n", fileNo, site)
}

func recvName(e ast.Expr) string {
	switch x := e.(type) {
	case *ast.StarExpr:
		return recvName(x.X)
	case *ast.Ident:
		return x.Name
	}
	return "?"
}

func matchFile(ctx *build.Context, dir, name string, src []byte) (bool, error) {
	// MatchFile reads the file itself and honours name-based constraints
	// (_amd64 ...): give it a copy under the real name.
	sub, err := os.MkdirTemp("", "verifinstr-mf-")
	if err != nil {
		return false, err
	}
	defer os.RemoveAll(sub)
	must(os.WriteFile(filepath.Join(sub, name), src, 0o644))
	return ctx.MatchFile(sub, name)
}

func must(err error) {
	if err != nil {
		fatal(err)
	}
}

func fatal(v any) {
	fmt.Fprintln(os.Stderr, "verifinstr:", v)
	os.Exit(1)
}

const runtimeSrc = `// Package verifrt is injected by the C17 instrumentation overlay.
package verifrt

type FuncRange struct {
	Name       string
	Start, End int
}

type File struct {
	Name  string
	Count []uint32
	Pos   []uint32
	Funcs []FuncRange
}

var Files []*File

func Register(name string, count, pos []uint32, funcs []FuncRange) {
	Files = append(Files, &File{name, count, pos, funcs})
}

const keepEvents = 1 << 14

var (
	IdxHash   uint64 = 14695981039346656037
	IdxCount  uint64
	IdxEvents [][2]uint64
)

func record(site int32, v uint64) {
	h := IdxHash
	h ^= uint64(uint32(site))
	h *= 1099511628211
	h ^= v
	h *= 1099511628211
	IdxHash = h
	IdxCount++
	if len(IdxEvents) < keepEvents {
		IdxEvents = append(IdxEvents, [2]uint64{uint64(site), v})
	}
}

// Idx logs (site, value) for integer-typed values and returns v unchanged.
func Idx[T any](site int32, v T) T {
	switch x := any(v).(type) {
	case int:
		record(site, uint64(x))
	case uint64:
		record(site, x)
	case uint:
		record(site, uint64(x))
	case int64:
		record(site, uint64(x))
	case uint32:
		record(site, uint64(x))
	case int32:
		record(site, uint64(x))
	case uint8:
		record(site, uint64(x))
	case int8:
		record(site, uint64(x))
	case uint16:
		record(site, uint64(x))
	case int16:
		record(site, uint64(x))
	case uintptr:
		record(site, uint64(x))
	default:
		record(site, 0xdeadbeef)
	}
	return v
}

func Reset() {
	for _, f := range Files {
		for i := range f.Count {
			f.Count[i] = 0
		}
	}
	IdxHash = 14695981039346656037
	IdxCount = 0
	IdxEvents = IdxEvents[:0]
}
`

const exportSrc = `package secp256k1

import "` + modPath + `/internal/verifrt"

// Re-exports of the injected trace runtime for the external harness.

type VerifInstrFile = verifrt.File

func VerifInstrFiles() []*verifrt.File { return verifrt.Files }
func VerifInstrReset()                 { verifrt.Reset() }
func VerifInstrIdx() (hash, count uint64, events [][2]uint64) {
	return verifrt.IdxHash, verifrt.IdxCount, verifrt.IdxEvents
}
`
