// asmprobepub drives the two assembly table lookups through the PUBLIC API only
// (ScalarMult -> lookupProjectivePoint, ScalarBaseMult -> lookupAffinePoint), for
// scalars whose windows take every value 0..15.  It is the fallback target of
// bin/asmtrace.py when the hook group verif_mul does not build on the tree under
// test (the hook-based probe asmprobe is preferred: it controls the index and puts
// the tables between padding).
package main

import (
	"crypto/sha256"
	"encoding/binary"
	"fmt"
	"os"
	"runtime"
	"strconv"

	secp256k1 "gitlab.com/yawning/secp256k1-voi"
)

func scalar(seed uint64, i int) *secp256k1.Scalar {
	var b [16]byte
	binary.LittleEndian.PutUint64(b[:], seed)
	binary.LittleEndian.PutUint64(b[8:], uint64(i))
	h := sha256.Sum256(b[:])
	s, _ := secp256k1.NewScalarFromBytes(&h)
	return s
}

func main() {
	seed, rounds := uint64(1), 1
	if len(os.Args) > 1 {
		seed, _ = strconv.ParseUint(os.Args[1], 10, 64)
	}
	if len(os.Args) > 2 {
		rounds, _ = strconv.Atoi(os.Args[2])
	}
	runtime.LockOSThread()
	var acc byte
	// every nibble value in every position class
	pat := [32]byte{0x01, 0x23, 0x45, 0x67, 0x89, 0xab, 0xcd, 0xef, 0xfe, 0xdc, 0xba, 0x98, 0x76, 0x54, 0x32, 0x10,
		0x00, 0x11, 0x22, 0x33, 0x44, 0x55, 0x66, 0x77, 0x88, 0x99, 0xaa, 0xbb, 0xcc, 0xdd, 0xee, 0xff}
	ps, _ := secp256k1.NewScalarFromBytes(&pat)
	for r := 0; r < 4*rounds+4; r++ {
		s := scalar(seed, r)
		if r == 0 {
			s = ps
		}
		p := secp256k1.NewIdentityPoint().ScalarBaseMult(s)
		acc ^= p.CompressedBytes()[1]
		q := secp256k1.NewIdentityPoint().ScalarMult(scalar(seed, 1000+r), p)
		acc ^= q.CompressedBytes()[1]
	}
	fmt.Printf("asmprobe done acc=%02x\n", acc)
}
