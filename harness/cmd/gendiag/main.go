// gendiag prints generator outputs; used to check that the seeded generators are
// identical on 64-bit and 32-bit builds (the cross-build transcript depends on it).
package main

import (
	"fmt"

	"verifharness/gen"
	"verifharness/oracle"
)

func main() {
	for i := 0; i < 400; i++ {
		r := gen.New(1, i, "diag")
		v, cl := r.Value(oracle.N)
		a, b := r.AddWindow(oracle.P)
		m1, m2 := r.MontMulWindow(oracle.N)
		fmt.Printf("%d %x %s %d %x %x %x %x %x %x %x\n", i, v, cl, r.Intn(1000), r.Bytes(5), r.Below(oracle.N), a, b, m1, m2, r.BigBits(130))
	}
}
