// verifyield rewrites the library's Go source (through a `go build -overlay`, /repo is
// only read) so that the goroutine YIELDS after every synchronisation operation:
// after each statement that unlocks or locks a mutex, touches an atomic, a sync.Pool,
// a sync.Once or a sync.Map, and at the start of every block guarded by such an
// operation.  This is failpoint injection "between critical sections", placed
// mechanically: a cache whose lookup and load are two lock sections, a value
// published through two atomics, a pooled object released twice - all are race-free
// for the race detector and wrong only in a narrow window; the yield (Gosched, or a
// short sleep now and then) widens that window by orders of magnitude while the
// concurrent phases of the checks (props/hammer.go, C20) compare every result with
// the reference model.  A yield changes no sequential behaviour.
//
//	verifyield -repo /repo -out <dir> [-base-overlay <overlay.json>]
//
// prints the number of insertion points; writes <dir>/overlay.json.
package main

import (
	"encoding/json"
	"flag"
	"fmt"
	"go/ast"
	"go/parser"
	"go/token"
	"os"
	"path/filepath"
	"sort"
	"strings"
)

type overlayFile struct {
	Replace map[string]string
}

const rtSrc = `// Code injected by verifyield; not part of the library.
package verifyield

import (
	"runtime"
	"sync/atomic"
	"time"
)

var n atomic.Uint64

// Count reports how many yield points were executed.
func Count() uint64 { return n.Load() }

// Y yields: most of the time to the scheduler, now and then for a few dozen or a few
// hundred microseconds (long enough for other goroutines to complete whole operations).
func Y() {
	c := n.Add(1)
	if c <= 48 {
		// the first synchronisation operations of a process are where state is set up on
		// first use: always give the other goroutines time to arrive there
		time.Sleep(200 * time.Microsecond)
		return
	}
	v := (c * 0x9E3779B97F4A7C15) >> 59
	switch {
	case v < 14:
		runtime.Gosched()
	case v < 17:
		time.Sleep(20 * time.Microsecond)
	case v == 17:
		time.Sleep(300 * time.Microsecond)
	}
}
`

var syncMethods = map[string]bool{
	"Unlock": true, "RUnlock": true, "Lock": true, "RLock": true, "TryLock": true, "TryRLock": true,
	"Load": true, "Store": true, "Swap": true, "CompareAndSwap": true,
	"Get": true, "Put": true, "Do": true, "Wait": true, "Signal": true, "Broadcast": true,
	"LoadOrStore": true, "LoadAndDelete": true, "CompareAndDelete": true, "Range": true,
}

// hasSync reports whether the expression / simple statement performs a synchronisation
// operation (function literals are separate blocks and are not entered).
func hasSync(n ast.Node) bool {
	if n == nil {
		return false
	}
	found := false
	ast.Inspect(n, func(x ast.Node) bool {
		if found {
			return false
		}
		switch c := x.(type) {
		case *ast.FuncLit:
			return false
		case *ast.CallExpr:
			if sel, ok := c.Fun.(*ast.SelectorExpr); ok {
				if id, ok := sel.X.(*ast.Ident); ok && id.Name == "atomic" {
					found = true
					return false
				}
				if syncMethods[sel.Sel.Name] {
					found = true
					return false
				}
			}
		}
		return true
	})
	return found
}

type insertion struct {
	off  int
	text string
}

func main() {
	repo := flag.String("repo", "/repo", "repository root")
	out := flag.String("out", "", "output directory")
	baseOv := flag.String("base-overlay", "", "existing overlay to read sources through and merge")
	flag.Parse()
	if *out == "" {
		fmt.Fprintln(os.Stderr, "need -out")
		os.Exit(2)
	}
	base := overlayFile{Replace: map[string]string{}}
	if *baseOv != "" {
		b, err := os.ReadFile(*baseOv)
		if err == nil {
			_ = json.Unmarshal(b, &base)
		}
	}
	ov := overlayFile{Replace: map[string]string{}}
	for k, v := range base.Replace {
		ov.Replace[k] = v
	}
	if err := os.MkdirAll(*out, 0o755); err != nil {
		fmt.Fprintln(os.Stderr, err)
		os.Exit(2)
	}
	// the library's Go files as the build sees them
	files := map[string]string{}
	_ = filepath.Walk(*repo, func(p string, info os.FileInfo, err error) error {
		if err != nil {
			return nil
		}
		if info.IsDir() {
			b := filepath.Base(p)
			if p != *repo && (strings.HasPrefix(b, ".") || strings.HasPrefix(b, "_") || b == "testdata") {
				return filepath.SkipDir
			}
			return nil
		}
		if strings.HasSuffix(p, ".go") && !strings.HasSuffix(p, "_test.go") {
			files[p] = p
		}
		return nil
	})
	for k, v := range base.Replace {
		if strings.HasPrefix(k, *repo+"/") && strings.HasSuffix(k, ".go") && !strings.HasSuffix(k, "_test.go") {
			if v == "" {
				delete(files, k)
			} else {
				files[k] = v
			}
		}
	}
	var names []string
	for k := range files {
		names = append(names, k)
	}
	sort.Strings(names)
	points, changed := 0, 0
	for _, orig := range names {
		if strings.HasPrefix(filepath.Base(orig), "zz_verif_hooks") {
			continue
		}
		src, err := os.ReadFile(files[orig])
		if err != nil {
			continue
		}
		fset := token.NewFileSet()
		f, err := parser.ParseFile(fset, orig, src, parser.ParseComments)
		if err != nil || f.Name.Name == "main" {
			continue
		}
		var ins []insertion
		off := func(p token.Pos) int { return fset.Position(p).Offset }
		var doList func(list []ast.Stmt)
		var doStmt func(s ast.Stmt)
		blockStart := func(b *ast.BlockStmt) {
			if b != nil {
				ins = append(ins, insertion{off(b.Lbrace) + 1, " verifyield.Y();"})
			}
		}
		doList = func(list []ast.Stmt) {
			for _, s := range list {
				doStmt(s)
			}
		}
		after := func(s ast.Stmt) { ins = append(ins, insertion{off(s.End()), "; verifyield.Y()"}) }
		doStmt = func(s ast.Stmt) {
			switch x := s.(type) {
			case *ast.ExprStmt, *ast.AssignStmt, *ast.IncDecStmt, *ast.SendStmt, *ast.DeclStmt:
				if hasSync(x) {
					after(s)
				}
			case *ast.BlockStmt:
				doList(x.List)
			case *ast.LabeledStmt:
				doStmt(x.Stmt)
			case *ast.IfStmt:
				if hasSync(x.Init) || hasSync(x.Cond) {
					blockStart(x.Body)
					if eb, ok := x.Else.(*ast.BlockStmt); ok {
						blockStart(eb)
					}
				}
				doList(x.Body.List)
				if x.Else != nil {
					doStmt(x.Else)
				}
			case *ast.ForStmt:
				if hasSync(x.Init) || hasSync(x.Cond) || hasSync(x.Post) {
					blockStart(x.Body)
				}
				doList(x.Body.List)
			case *ast.RangeStmt:
				if hasSync(x.X) {
					blockStart(x.Body)
				}
				doList(x.Body.List)
			case *ast.SwitchStmt:
				for _, c := range x.Body.List {
					if cc, ok := c.(*ast.CaseClause); ok {
						doList(cc.Body)
					}
				}
			case *ast.TypeSwitchStmt:
				for _, c := range x.Body.List {
					if cc, ok := c.(*ast.CaseClause); ok {
						doList(cc.Body)
					}
				}
			case *ast.SelectStmt:
				for _, c := range x.Body.List {
					if cc, ok := c.(*ast.CommClause); ok {
						doList(cc.Body)
					}
				}
			}
		}
		// every function body and every function literal is a block of its own
		ast.Inspect(f, func(n ast.Node) bool {
			switch x := n.(type) {
			case *ast.FuncDecl:
				if x.Body != nil {
					doList(x.Body.List)
				}
			case *ast.FuncLit:
				doList(x.Body.List)
			}
			return true
		})
		if len(ins) == 0 {
			continue
		}
		// the import goes on the package-clause line, so no line number moves
		ins = append(ins, insertion{off(f.Name.End()), `; import verifyield "gitlab.com/yawning/secp256k1-voi/internal/verifyield"`})
		sort.SliceStable(ins, func(i, j int) bool { return ins[i].off < ins[j].off })
		var b strings.Builder
		last := 0
		for _, in := range ins {
			b.Write(src[last:in.off])
			b.WriteString(in.text)
			last = in.off
		}
		b.Write(src[last:])
		rel, _ := filepath.Rel(*repo, orig)
		dst := filepath.Join(*out, "src", strings.ReplaceAll(rel, string(filepath.Separator), "__"))
		_ = os.MkdirAll(filepath.Dir(dst), 0o755)
		if err := os.WriteFile(dst, []byte(b.String()), 0o644); err != nil {
			fmt.Fprintln(os.Stderr, err)
			os.Exit(2)
		}
		ov.Replace[orig] = dst
		points += len(ins) - 1
		changed++
	}
	if changed > 0 {
		rt := filepath.Join(*out, "src", "verifyield_rt.go")
		_ = os.MkdirAll(filepath.Dir(rt), 0o755)
		_ = os.WriteFile(rt, []byte(rtSrc), 0o644)
		ov.Replace[filepath.Join(*repo, "internal", "verifyield", "rt.go")] = rt
	}
	b, _ := json.MarshalIndent(ov, "", " ")
	if err := os.WriteFile(filepath.Join(*out, "overlay.json"), b, 0o644); err != nil {
		fmt.Fprintln(os.Stderr, err)
		os.Exit(2)
	}
	fmt.Printf("yield points: %d in %d files\n", points, changed)
}
