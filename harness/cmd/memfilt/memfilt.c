// memfilt: reduces the output of `valgrind --tool=lackey --trace-mem=yes` (read from
// stdin) to the memory-access trace of one traced region, for the memory-access
// trace-equivalence monitor of C17 (bin/memtrace.py).
//
//   memfilt <begin> <end> <skipfile> <funcsfile> <out.json> [dumpfile]
//
// The region starts when the instruction at <begin> (props.CTTraceBegin) is
// executed and ends at <end> (props.CTTraceEnd).  Inside it every data access
// (load, store, modify) made by an instruction OUTSIDE the ranges of <skipfile>
// (the Go runtime and sync: allocator, write barriers, memmove, scheduler - their
// accesses depend on allocator state and on the background threads, which share
// this trace) is folded, as (pc, kind, address, size), into a hash.  A function
// prologue that detours through runtime.morestack (stack growth or the cooperative
// preemption request sysmon posts - a function of wall-clock time, and valgrind is
// slow) re-enters the function from its first instruction: the trace is rolled back
// to the state at that function entry, as cmd/ctstep does.  <funcsfile> lists every
// function start (hex, sorted, '*' marks runtime.morestack*).
// With <dumpfile> the folded accesses are also written one per line.
#include <stdint.h>
#include <stdio.h>
#include <stdlib.h>
#include <string.h>
#include <unistd.h>

static uint64_t *skip_lo, *skip_hi;
static size_t nskip;
static int in_skip(uint64_t pc) {
	size_t lo = 0, hi = nskip;
	while (lo < hi) {
		size_t mid = (lo + hi) / 2;
		if (pc < skip_lo[mid]) hi = mid;
		else if (pc >= skip_hi[mid]) lo = mid + 1;
		else return 1;
	}
	return 0;
}
static uint64_t *fn_start;
static size_t nfn;
static uint64_t more[16];
static int nmore;
static int is_fn_start(uint64_t pc) {
	size_t lo = 0, hi = nfn;
	while (lo < hi) {
		size_t mid = (lo + hi) / 2;
		if (fn_start[mid] == pc) return 1;
		if (pc < fn_start[mid]) hi = mid;
		else lo = mid + 1;
	}
	return 0;
}
static int is_more(uint64_t pc) {
	for (int i = 0; i < nmore; i++)
		if (more[i] == pc) return 1;
	return 0;
}
static inline uint64_t hex(const char **pp) {
	const char *p = *pp;
	uint64_t v = 0;
	for (;;) {
		char c = *p;
		int d;
		if (c >= '0' && c <= '9') d = c - '0';
		else if (c >= 'a' && c <= 'f') d = c - 'a' + 10;
		else if (c >= 'A' && c <= 'F') d = c - 'A' + 10;
		else break;
		v = v << 4 | (uint64_t)d;
		p++;
	}
	*pp = p;
	return v;
}
#define FOLD(h, x) ((h) = ((h) ^ (uint64_t)(x)) * 1099511628211ULL)

int main(int argc, char **argv) {
	if (argc < 6) {
		fprintf(stderr, "usage: memfilt begin end skipfile funcsfile out.json [dump]\n");
		return 2;
	}
	uint64_t begin = strtoull(argv[1], 0, 16), end = strtoull(argv[2], 0, 16);
	FILE *sf = fopen(argv[3], "r");
	if (!sf) return 3;
	size_t cap = 1 << 16;
	skip_lo = malloc(cap * 8);
	skip_hi = malloc(cap * 8);
	unsigned long long a, b;
	while (fscanf(sf, "%llx %llx", &a, &b) == 2 && nskip < cap) {
		skip_lo[nskip] = a;
		skip_hi[nskip++] = b;
	}
	fclose(sf);
	FILE *ff = fopen(argv[4], "r");
	if (!ff) return 3;
	fn_start = malloc((1 << 20) * 8);
	char line[512];
	while (fgets(line, sizeof line, ff) && nfn < (1 << 20)) {
		char *p = line;
		int m = 0;
		if (*p == '*') {
			m = 1;
			p++;
		}
		uint64_t v = strtoull(p, 0, 16);
		if (!v) continue;
		fn_start[nfn++] = v;
		if (m && nmore < 16) more[nmore++] = v;
	}
	fclose(ff);
	FILE *dump = argc > 6 ? fopen(argv[6], "w") : 0;

	int in_region = 0, regions = 0, sk = 0, dropping = 0;
	uint64_t pc = 0;
	uint64_t h = 1469598103934665603ULL, hpc = 1469598103934665603ULL;
	unsigned long acc = 0, insns = 0, detours = 0, static_acc = 0;
	uint64_t snap_h = 0, snap_hpc = 0, snap_pc = 0;
	unsigned long snap_acc = 0, snap_insns = 0;
	long snap_off = 0;
	static char buf[1 << 16];
	while (fgets(buf, sizeof buf, stdin)) {
		const char *p = buf;
		if (p[0] == 'I') {
			p += 1;
			while (*p == ' ') p++;
			pc = hex(&p);
			if (!in_region) {
				if (pc == begin && regions == 0) {
					in_region = 1;
					sk = 1; // the marker's own accesses are not part of the region
				}
				continue;
			}
			if (pc == end) {
				in_region = 0;
				regions++;
				continue;
			}
			sk = in_skip(pc);
			if (dropping) {
				if (pc != snap_pc) {
					sk = 1;
					continue;
				}
				dropping = 0;
			}
			if (sk) {
				if (is_more(pc) && snap_pc) {
					// roll back to the entry of the function whose prologue detoured
					h = snap_h;
					hpc = snap_hpc;
					acc = snap_acc;
					insns = snap_insns;
					detours++;
					dropping = 1;
					if (dump) {
						fflush(dump);
						if (ftruncate(fileno(dump), snap_off) == 0) fseek(dump, snap_off, SEEK_SET);
					}
				}
				continue;
			}
			if (is_fn_start(pc)) {
				snap_h = h;
				snap_hpc = hpc;
				snap_pc = pc;
				snap_acc = acc;
				snap_insns = insns;
				if (dump) {
					fflush(dump);
					snap_off = ftell(dump);
				}
			}
			FOLD(hpc, pc);
			insns++;
			continue;
		}
		if (!in_region || sk || dropping) continue;
		if (p[0] != ' ' || (p[1] != 'L' && p[1] != 'S' && p[1] != 'M')) continue;
		char kind = p[1];
		p += 2;
		while (*p == ' ') p++;
		uint64_t addr = hex(&p);
		uint64_t size = 0;
		if (*p == ',') {
			p++;
			size = strtoull(p, 0, 10);
		}
		FOLD(h, pc);
		FOLD(h, kind);
		FOLD(h, addr);
		FOLD(h, size);
		acc++;
		if (dump) fprintf(dump, "%llx %c %llx %llu\n", (unsigned long long)pc, kind, (unsigned long long)addr, (unsigned long long)size);
	}
	(void)static_acc;
	if (dump) fclose(dump);
	FILE *out = fopen(argv[5], "w");
	if (!out) return 3;
	fprintf(out, "{\"regions\":%d,\"open\":%d,\"accesses\":%lu,\"instructions\":%lu,\"detours\":%lu,\"hash\":\"%016llx\",\"pchash\":\"%016llx\"}\n", regions, in_region, acc, insns, detours,
		(unsigned long long)h, (unsigned long long)hpc);
	fclose(out);
	return 0;
}
