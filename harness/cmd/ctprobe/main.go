//go:build verif

// ctprobe runs the C17 operation table with every traced call bracketed by the
// marker functions props.CTTraceBegin / props.CTTraceEnd; it is run under
// cmd/ctstep (ptrace single-stepping) by bin/cttrace.py.
//
//	ctprobe <seed> <quick|thorough> <plan.json> [op,op,...]
package main

import (
	"encoding/json"
	"fmt"
	"os"
	"runtime"
	"runtime/debug"
	"strconv"
	"strings"

	"verifharness/props"
)

func main() {
	runtime.LockOSThread()
	debug.SetGCPercent(-1)
	seed, _ := strconv.ParseInt(os.Args[1], 10, 64)
	only := map[int]bool{}
	if len(os.Args) > 4 && os.Args[4] != "" {
		for _, f := range strings.Split(os.Args[4], ",") {
			if v, err := strconv.Atoi(f); err == nil {
				only[v] = true
			}
		}
	}
	plan := props.CTProbe(seed, os.Args[2], only)
	b, _ := json.Marshal(plan)
	if err := os.WriteFile(os.Args[3], b, 0o644); err != nil {
		fmt.Fprintln(os.Stderr, err)
		os.Exit(1)
	}
	fmt.Println("ctprobe done")
}
