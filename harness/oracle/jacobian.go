package oracle

import "math/big"

// Jacobian-coordinate scalar multiplication for secp256k1 (a = 0): a
// speed-up of the oracle only.  MulSlow (textbook affine double-and-add)
// stays the reference: the self-test compares both on random and special
// inputs, and Mul re-checks one call in 64 against MulSlow at run time.

type jac struct{ x, y, z *big.Int } // z == 0 <=> infinity

func toJac(p *Pt) *jac {
	if p.Inf {
		return &jac{big.NewInt(1), big.NewInt(1), big.NewInt(0)}
	}
	return &jac{new(big.Int).Set(p.X), new(big.Int).Set(p.Y), big.NewInt(1)}
}

func (j *jac) affine() *Pt {
	if j.z.Sign() == 0 {
		return Infinity()
	}
	zi := InvFast(j.z, P)
	zi2 := MulM(zi, zi, P)
	return &Pt{X: MulM(j.x, zi2, P), Y: MulM(j.y, MulM(zi2, zi, P), P)}
}

func jacDouble(p *jac) *jac {
	if p.z.Sign() == 0 || p.y.Sign() == 0 {
		return &jac{big.NewInt(1), big.NewInt(1), big.NewInt(0)}
	}
	// a = 0: S = 4 x y^2 ; M = 3 x^2 ; x' = M^2 - 2S ; y' = M(S - x') - 8 y^4 ; z' = 2 y z
	y2 := MulM(p.y, p.y, P)
	s := MulM(big.NewInt(4), MulM(p.x, y2, P), P)
	m := MulM(big.NewInt(3), MulM(p.x, p.x, P), P)
	x3 := SubM(MulM(m, m, P), AddM(s, s, P), P)
	y4 := MulM(y2, y2, P)
	y3 := SubM(MulM(m, SubM(s, x3, P), P), MulM(big.NewInt(8), y4, P), P)
	z3 := MulM(big.NewInt(2), MulM(p.y, p.z, P), P)
	return &jac{x3, y3, z3}
}

func jacAdd(p, q *jac) *jac {
	if p.z.Sign() == 0 {
		return q
	}
	if q.z.Sign() == 0 {
		return p
	}
	z1z1 := MulM(p.z, p.z, P)
	z2z2 := MulM(q.z, q.z, P)
	u1 := MulM(p.x, z2z2, P)
	u2 := MulM(q.x, z1z1, P)
	s1 := MulM(p.y, MulM(q.z, z2z2, P), P)
	s2 := MulM(q.y, MulM(p.z, z1z1, P), P)
	if u1.Cmp(u2) == 0 {
		if s1.Cmp(s2) == 0 {
			return jacDouble(p)
		}
		return &jac{big.NewInt(1), big.NewInt(1), big.NewInt(0)}
	}
	h := SubM(u2, u1, P)
	r := SubM(s2, s1, P)
	h2 := MulM(h, h, P)
	h3 := MulM(h2, h, P)
	v := MulM(u1, h2, P)
	x3 := SubM(SubM(MulM(r, r, P), h3, P), AddM(v, v, P), P)
	y3 := SubM(MulM(r, SubM(v, x3, P), P), MulM(s1, h3, P), P)
	z3 := MulM(h, MulM(p.z, q.z, P), P)
	return &jac{x3, y3, z3}
}

// mulJac computes k*p (k >= 0) with a 4-bit fixed window.
func mulJac(k *big.Int, p *Pt) *Pt {
	if p.Inf || k.Sign() == 0 {
		return Infinity()
	}
	var tbl [16]*jac
	tbl[0] = &jac{big.NewInt(1), big.NewInt(1), big.NewInt(0)}
	tbl[1] = toJac(p)
	for i := 2; i < 16; i++ {
		tbl[i] = jacAdd(tbl[i-1], tbl[1])
	}
	acc := tbl[0]
	nb := (k.BitLen() + 3) / 4
	for i := nb - 1; i >= 0; i-- {
		acc = jacDouble(jacDouble(jacDouble(jacDouble(acc))))
		w := k.Bit(4*i) | k.Bit(4*i+1)<<1 | k.Bit(4*i+2)<<2 | k.Bit(4*i+3)<<3
		if w != 0 {
			acc = jacAdd(acc, tbl[w])
		}
	}
	return acc.affine()
}
