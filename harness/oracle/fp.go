// Package oracle is the independent reference model: integers modulo p
// and n on math/big, the textbook affine group law, SEC 1 encodings,
// ECDSA (SEC 1 4.1.3/4.1.4/4.1.6), RFC 6979, BIP-340, RFC 9380 and strict
// DER recognisers.  It imports nothing from the library under test and
// its constants are typed from the standards.
package oracle

import (
	"encoding/hex"
	"math/big"
)

func mustHex(s string) *big.Int {
	v, ok := new(big.Int).SetString(s, 16)
	if !ok {
		panic("oracle: bad hex " + s)
	}
	return v
}

var (
	// SEC 2, Version 2.0, Section 2.4.1.
	P  = mustHex("FFFFFFFFFFFFFFFFFFFFFFFFFFFFFFFFFFFFFFFFFFFFFFFFFFFFFFFEFFFFFC2F")
	N  = mustHex("FFFFFFFFFFFFFFFFFFFFFFFFFFFFFFFEBAAEDCE6AF48A03BBFD25E8CD0364141")
	Gx = mustHex("79BE667EF9DCBBAC55A06295CE870B07029BFCDB2DCE28D959F2815B16F81798")
	Gy = mustHex("483ADA7726A3C4655DA4FBFC0E1108A8FD17B448A68554199C47D08FFB10D4B8")
	B7 = big.NewInt(7)

	Two256 = new(big.Int).Lsh(big.NewInt(1), 256)
	// HalfN = (n-1)/2
	HalfN = new(big.Int).Rsh(new(big.Int).Sub(N, big.NewInt(1)), 1)

	one  = big.NewInt(1)
	zero = big.NewInt(0)
)

// B returns a fresh big.Int from an int64.
func B(v int64) *big.Int { return big.NewInt(v) }

// Mod returns a mod m in [0,m).
func Mod(a, m *big.Int) *big.Int { return new(big.Int).Mod(a, m) }

func AddM(a, b, m *big.Int) *big.Int { return Mod(new(big.Int).Add(a, b), m) }
func SubM(a, b, m *big.Int) *big.Int { return Mod(new(big.Int).Sub(a, b), m) }
func NegM(a, m *big.Int) *big.Int    { return Mod(new(big.Int).Neg(a), m) }
func MulM(a, b, m *big.Int) *big.Int { return Mod(new(big.Int).Mul(a, b), m) }
func ExpM(a, e, m *big.Int) *big.Int { return new(big.Int).Exp(a, e, m) }

// InvM returns the inverse of a mod prime m, with inv(0) = 0.
func InvM(a, m *big.Int) *big.Int {
	a = Mod(a, m)
	if a.Sign() == 0 {
		return new(big.Int)
	}
	// Fermat, independent of ModInverse; cross-checked in selftest.
	return new(big.Int).Exp(a, new(big.Int).Sub(m, big.NewInt(2)), m)
}

// InvFast returns the modular inverse using the extended Euclid of
// math/big (inv(0)=0).
func InvFast(a, m *big.Int) *big.Int {
	a = Mod(a, m)
	if a.Sign() == 0 {
		return new(big.Int)
	}
	return new(big.Int).ModInverse(a, m)
}

var pMinus1Half = new(big.Int).Rsh(new(big.Int).Sub(P, big.NewInt(1)), 1)
var pPlus1Quarter = new(big.Int).Rsh(new(big.Int).Add(P, big.NewInt(1)), 2)

// IsSquareP reports whether a is a square mod p (0 is a square), by Euler.
func IsSquareP(a *big.Int) bool {
	a = Mod(a, P)
	if a.Sign() == 0 {
		return true
	}
	return new(big.Int).Exp(a, pMinus1Half, P).Cmp(one) == 0
}

// SqrtP returns a square root of a mod p (checked by squaring), or nil.
func SqrtP(a *big.Int) *big.Int {
	a = Mod(a, P)
	r := new(big.Int).Exp(a, pPlus1Quarter, P)
	if MulM(r, r, P).Cmp(a) != 0 {
		return nil
	}
	return r
}

// Bytes32 returns the 32-byte big-endian encoding of v (v < 2^256).
func Bytes32(v *big.Int) []byte {
	if v.Sign() < 0 || v.BitLen() > 256 {
		panic("oracle: Bytes32 out of range")
	}
	out := make([]byte, 32)
	v.FillBytes(out)
	return out
}

// Arr32 is Bytes32 as an array.
func Arr32(v *big.Int) *[32]byte {
	var a [32]byte
	copy(a[:], Bytes32(v))
	return &a
}

// FromBytes interprets b as a big-endian unsigned integer.
func FromBytes(b []byte) *big.Int { return new(big.Int).SetBytes(b) }

// Hex returns lower-case hex of b.
func Hex(b []byte) string { return hex.EncodeToString(b) }

// HexBig returns the 64-digit hex of v (or longer if v >= 2^256).
func HexBig(v *big.Int) string {
	if v == nil {
		return "nil"
	}
	if v.Sign() >= 0 && v.BitLen() <= 256 {
		return hex.EncodeToString(Bytes32(v))
	}
	return v.Text(16)
}

// Limbs returns the four little-endian 64-bit limbs of v (< 2^256).
func Limbs(v *big.Int) [4]uint64 {
	b := Bytes32(v)
	var l [4]uint64
	for i := 0; i < 4; i++ {
		var w uint64
		for j := 0; j < 8; j++ {
			w = w<<8 | uint64(b[(3-i)*8+j])
		}
		l[i] = w
	}
	return l
}

// FromLimbs is the inverse of Limbs.
func FromLimbs(l [4]uint64) *big.Int {
	v := new(big.Int)
	for i := 3; i >= 0; i-- {
		v.Lsh(v, 64)
		v.Or(v, new(big.Int).SetUint64(l[i]))
	}
	return v
}

// Montgomery helpers: R = 2^256.
var (
	RmodP  = Mod(Two256, P)
	RmodN  = Mod(Two256, N)
	RinvP  = InvFast(Two256, P)
	RinvN  = InvFast(Two256, N)
	R2modP = MulM(RmodP, RmodP, P)
	R2modN = MulM(RmodN, RmodN, N)
)

// ToMont returns a*R mod m.
func ToMont(a, m *big.Int) *big.Int { return MulM(a, Two256, m) }

// FromMont returns a*R^-1 mod m.
func FromMont(a, m *big.Int) *big.Int {
	if m.Cmp(P) == 0 {
		return MulM(a, RinvP, m)
	}
	return MulM(a, RinvN, m)
}
