package oracle

import (
	"crypto/sha256"
	"math/big"
)

// TaggedHash is BIP-340's hash_tag(x) = SHA256(SHA256(tag)||SHA256(tag)||x).
func TaggedHash(tag string, parts ...[]byte) []byte {
	th := sha256.Sum256([]byte(tag))
	h := sha256.New()
	h.Write(th[:])
	h.Write(th[:])
	for _, p := range parts {
		h.Write(p)
	}
	return h.Sum(nil)
}

// BIP340LiftX is lift_x: the even-y point with that x, nil on failure.
func BIP340LiftX(x *big.Int) *Pt {
	if x.Cmp(P) >= 0 {
		return nil
	}
	ySq := AddM(ExpM(x, big.NewInt(3), P), big.NewInt(7), P)
	y := ExpM(ySq, pPlus1Quarter, P)
	if ExpM(y, big.NewInt(2), P).Cmp(ySq) != 0 {
		return nil
	}
	if y.Bit(0) == 1 {
		y = new(big.Int).Sub(P, y)
	}
	return &Pt{X: new(big.Int).Set(x), Y: y}
}

// BIP340PubKey returns bytes(x(d*G)) or nil if d is out of range.
func BIP340PubKey(d *big.Int) []byte {
	if d.Sign() <= 0 || d.Cmp(N) >= 0 {
		return nil
	}
	return Bytes32(MulG(d).X)
}

// BIP340Sign is the reference Sign(sk, m) with aux_rand; nil on failure.
func BIP340Sign(d0 *big.Int, aux, msg []byte) []byte {
	if len(aux) != 32 {
		return nil
	}
	if d0.Sign() <= 0 || d0.Cmp(N) >= 0 {
		return nil
	}
	Pp := MulG(d0)
	d := new(big.Int).Set(d0)
	if Pp.Y.Bit(0) == 1 {
		d.Sub(N, d0)
	}
	ha := TaggedHash("BIP0340/aux", aux)
	db := Bytes32(d)
	t := make([]byte, 32)
	for i := range t {
		t[i] = db[i] ^ ha[i]
	}
	k0 := Mod(FromBytes(TaggedHash("BIP0340/nonce", t, Bytes32(Pp.X), msg)), N)
	if k0.Sign() == 0 {
		return nil
	}
	R := MulG(k0)
	k := new(big.Int).Set(k0)
	if R.Y.Bit(0) == 1 {
		k.Sub(N, k0)
	}
	e := Mod(FromBytes(TaggedHash("BIP0340/challenge", Bytes32(R.X), Bytes32(Pp.X), msg)), N)
	sig := append(Bytes32(R.X), Bytes32(AddM(k, MulM(e, d, N), N))...)
	if !BIP340Verify(Bytes32(Pp.X), msg, sig) {
		return nil
	}
	return sig
}

// BIP340Verify is the reference Verify(pk, m, sig).
func BIP340Verify(pk, msg, sig []byte) bool {
	if len(pk) != 32 || len(sig) != 64 {
		return false
	}
	Pp := BIP340LiftX(FromBytes(pk))
	if Pp == nil {
		return false
	}
	r := FromBytes(sig[:32])
	s := FromBytes(sig[32:])
	if r.Cmp(P) >= 0 || s.Cmp(N) >= 0 {
		return false
	}
	e := Mod(FromBytes(TaggedHash("BIP0340/challenge", sig[:32], pk, msg)), N)
	R := Add(MulG(s), Mul(new(big.Int).Sub(N, e), Pp))
	if R.Inf || R.Y.Bit(0) == 1 || R.X.Cmp(r) != 0 {
		return false
	}
	return true
}

// BIP340Challenge returns e for (r bytes, pk, msg).
func BIP340Challenge(r32, pk, msg []byte) *big.Int {
	return Mod(FromBytes(TaggedHash("BIP0340/challenge", r32, pk, msg)), N)
}
