package oracle

import (
	"crypto/hmac"
	"crypto/sha256"
	"math/big"
)

// DigestToE implements SEC 1 4.1.3 step 5 for a 256-bit order: the
// leftmost 256 bits of the digest as an integer, reduced mod n.  Digests
// shorter than 32 bytes are inadmissible (ok = false) per the property.
func DigestToE(digest []byte) (e *big.Int, ok bool) {
	if len(digest) < 32 {
		return nil, false
	}
	return Mod(FromBytes(digest[:32]), N), true
}

// ECDSAVerify is the SEC 1 4.1.4 predicate on integers r,s (any
// non-negative values; out-of-range ones are rejected).
func ECDSAVerify(q *Pt, digest []byte, r, s *big.Int) bool {
	if q == nil || q.Inf || !OnCurve(q) {
		return false
	}
	if r.Sign() <= 0 || r.Cmp(N) >= 0 || s.Sign() <= 0 || s.Cmp(N) >= 0 {
		return false
	}
	e, ok := DigestToE(digest)
	if !ok {
		return false
	}
	sInv := InvFast(s, N)
	u1 := MulM(e, sInv, N)
	u2 := MulM(r, sInv, N)
	R := Add(MulG(u1), Mul(u2, q))
	if R.Inf {
		return false
	}
	return Mod(R.X, N).Cmp(r) == 0
}

// ECDSASignWithK is SEC 1 4.1.3 with a given nonce; returns ok=false if
// r or s would be zero.  No low-s normalisation.  v is the recovery id
// of the un-normalised signature: bit0 = parity of R.y, bit1 = x(R) >= n.
func ECDSASignWithK(d, e, k *big.Int) (r, s *big.Int, v int, ok bool) {
	R := MulG(k)
	if R.Inf {
		return nil, nil, 0, false
	}
	r = Mod(R.X, N)
	if r.Sign() == 0 {
		return nil, nil, 0, false
	}
	s = MulM(InvFast(k, N), AddM(e, MulM(r, d, N), N), N)
	if s.Sign() == 0 {
		return nil, nil, 0, false
	}
	v = int(R.Y.Bit(0))
	if R.X.Cmp(N) >= 0 {
		v |= 2
	}
	return r, s, v, true
}

// LowS normalises (s, v) to s <= (n-1)/2, flipping bit 0 of v if negated.
func LowS(s *big.Int, v int) (*big.Int, int) {
	if s.Cmp(HalfN) > 0 {
		return new(big.Int).Sub(N, s), v ^ 1
	}
	return s, v
}

// ECDSARecover is SEC 1 4.1.6 with an explicit recovery id; returns nil
// on every failure (id out of [0,3], r/s zero or >= n, x' >= p or not on
// the curve, digest inadmissible, Q = infinity).
func ECDSARecover(digest []byte, r, s *big.Int, id int) *Pt {
	if r.Sign() <= 0 || r.Cmp(N) >= 0 || s.Sign() <= 0 || s.Cmp(N) >= 0 {
		return nil
	}
	R := RecoverPoint(r, id)
	if R == nil {
		return nil
	}
	e, ok := DigestToE(digest)
	if !ok {
		return nil
	}
	rInv := InvFast(r, N)
	// Q = r^-1 (sR - eG)
	sR := Mul(s, R)
	eG := MulG(e)
	q := Mul(rInv, Sub(sR, eG))
	if q.Inf {
		return nil
	}
	return q
}

// RFC6979 is an HMAC_DRBG-SHA256 instance per RFC 6979 3.2 for qlen =
// hlen = 256.
type RFC6979 struct {
	k, v  []byte
	first bool
}

func hm(key []byte, parts ...[]byte) []byte {
	m := hmac.New(sha256.New, key)
	for _, p := range parts {
		m.Write(p)
	}
	return m.Sum(nil)
}

// NewRFC6979 instantiates for private key x and h1 (the message digest;
// bits2octets = leftmost 256 bits reduced mod n).
func NewRFC6979(x *big.Int, digest []byte) *RFC6979 {
	e, _ := DigestToE(digest)
	return NewRFC6979E(x, e)
}

// NewRFC6979E is NewRFC6979 taking the already reduced e = bits2octets(h1).
func NewRFC6979E(x, e *big.Int) *RFC6979 {
	xb, hb := Bytes32(x), Bytes32(e)
	v := make([]byte, 32)
	for i := range v {
		v[i] = 1
	}
	k := make([]byte, 32)
	k = hm(k, v, []byte{0}, xb, hb)
	v = hm(k, v)
	k = hm(k, v, []byte{1}, xb, hb)
	v = hm(k, v)
	return &RFC6979{k: k, v: v, first: true}
}

// Next returns the next candidate T (32 bytes), applying the step-h.3
// update between candidates.
func (d *RFC6979) Next() []byte {
	if !d.first {
		d.k = hm(d.k, d.v, []byte{0})
		d.v = hm(d.k, d.v)
	}
	d.first = false
	d.v = hm(d.k, d.v)
	return append([]byte{}, d.v...)
}

// RFC6979Sign returns the RFC 6979 deterministic ECDSA signature with
// low-s normalisation and the recovery id, plus the nonce used and the
// number of rejected candidates.
func RFC6979Sign(d *big.Int, digest []byte) (r, s *big.Int, v int, k *big.Int, rejected int) {
	e, ok := DigestToE(digest)
	if !ok {
		return nil, nil, 0, nil, 0
	}
	g := NewRFC6979E(d, e)
	for {
		k = FromBytes(g.Next())
		if k.Sign() == 0 || k.Cmp(N) >= 0 {
			rejected++
			continue
		}
		r0, s0, v0, ok := ECDSASignWithK(d, e, k)
		if !ok {
			rejected++
			continue
		}
		s1, v1 := LowS(s0, v0)
		return r0, s1, v1, k, rejected
	}
}
