package oracle

import (
	"bytes"
	"crypto/sha256"
	"embed"
	"encoding/csv"
	"encoding/hex"
	"encoding/json"
	"fmt"
	"math/big"
	"strings"
)

// Pinned copies of the standards' vectors (taken once from the pinned
// commit of the repository; later edits to /repo/**/testdata cannot move
// the oracle).
//
//go:embed testdata/*
var testdata embed.FS

func unhex(s string) []byte {
	s = strings.TrimPrefix(s, "0x")
	if len(s)%2 == 1 {
		s = "0" + s
	}
	b, err := hex.DecodeString(s)
	if err != nil {
		panic(err)
	}
	return b
}

// SelfTest anchors the reference model on the pinned vectors and on laws
// that do not depend on it.  A non-nil error makes a run INCONCLUSIVE,
// never a violation.  Returns the number of vector checks performed.
func SelfTest() (int, error) {
	steps := []func() (int, error){stLaws, stBIP340, stRFC6979, stXMD, stH2C, stWycheproofECDSA, stWycheproofECDH, stBIP66, stIso}
	type res struct {
		n   int
		err error
	}
	ch := make(chan res, len(steps))
	for _, f := range steps {
		go func(f func() (int, error)) {
			k, err := f()
			ch <- res{k, err}
		}(f)
	}
	n := 0
	var first error
	for range steps {
		r := <-ch
		n += r.n
		if r.err != nil && first == nil {
			first = r.err
		}
	}
	return n, first
}

func stLaws() (int, error) {
	n := 0
	g := G()
	if !OnCurve(g) {
		return n, fmt.Errorf("G not on curve")
	}
	if !Mul(N, g).Inf || !MulSlow(N, g).Inf {
		return n, fmt.Errorf("n*G != inf")
	}
	for _, k := range []*big.Int{big.NewInt(0), big.NewInt(1), big.NewInt(2), big.NewInt(15), big.NewInt(16), big.NewInt(17), new(big.Int).Sub(N, big.NewInt(1)), new(big.Int).Add(N, big.NewInt(1)), HalfN} {
		for _, p := range []*Pt{g, Infinity(), Neg(g), MulSlow(big.NewInt(7), g)} {
			if !Mul(k, p).Eq(MulSlow(k, p)) {
				return n, fmt.Errorf("Jacobian Mul != affine Mul on special input")
			}
		}
		if !MulG(k).Eq(MulGSlow(k)) {
			return n, fmt.Errorf("MulG fast != slow on special input")
		}
	}
	if Lambda.Cmp(mustHex("5363ad4cc05c30e0a5261c028812645a122e22ea20816678df02967c1b23bd72")) != 0 {
		return n, fmt.Errorf("unexpected lambda %x", Lambda)
	}
	seed := sha256.Sum256([]byte("oracle-selftest"))
	next := func() *big.Int {
		seed = sha256.Sum256(seed[:])
		return FromBytes(seed[:])
	}
	for i := 0; i < 24; i++ {
		a, b, c := Mod(next(), N), Mod(next(), N), Mod(next(), N)
		Pa, Pb := MulG(a), MulG(b)
		if !MulG(a).Eq(Mul(a, g)) || !MulG(a).Eq(MulGSlow(a)) || !Mul(a, g).Eq(MulSlow(a, g)) {
			return n, fmt.Errorf("MulG != Mul")
		}
		if !Mul(c, Pb).Eq(MulSlow(c, Pb)) {
			return n, fmt.Errorf("Jacobian Mul != affine Mul")
		}
		if !Add(Pa, Pb).Eq(MulG(AddM(a, b, N))) {
			return n, fmt.Errorf("aG+bG != (a+b)G")
		}
		if !Sub(Add(Pa, Pb), Pb).Eq(Pa) {
			return n, fmt.Errorf("P+Q-Q != P")
		}
		if !Mul(c, Pa).Eq(MulG(MulM(a, c, N))) {
			return n, fmt.Errorf("c(aG) != (ca)G")
		}
		if !Mul(Lambda, Pa).Eq(&Pt{X: MulM(Beta, Pa.X, P), Y: Pa.Y}) {
			return n, fmt.Errorf("lambda*P != (beta x, y)")
		}
		x := Mod(next(), P)
		if InvM(x, P).Cmp(InvFast(x, P)) != 0 || MulM(x, InvM(x, P), P).Cmp(one) != 0 {
			return n, fmt.Errorf("inverse mismatch")
		}
		if MulM(a, AddM(b, c, N), N).Cmp(AddM(MulM(a, b, N), MulM(a, c, N), N)) != 0 {
			return n, fmt.Errorf("distributivity")
		}
		if FromLimbs(Limbs(x)).Cmp(x) != 0 {
			return n, fmt.Errorf("limbs roundtrip")
		}
		if FromMont(ToMont(x, P), P).Cmp(x) != 0 || FromMont(ToMont(a, N), N).Cmp(a) != 0 {
			return n, fmt.Errorf("montgomery roundtrip")
		}
		// SEC1 round trips
		for _, enc := range [][]byte{EncodeCompressed(Pa), EncodeUncompressed(Pa)} {
			q, err := DecodePoint(enc)
			if err != nil || !q.Eq(Pa) {
				return n, fmt.Errorf("SEC1 roundtrip")
			}
		}
		// ECDSA sign/verify/recover consistency
		d := a
		if d.Sign() == 0 {
			continue
		}
		dig := Bytes32(next())
		e, _ := DigestToE(dig)
		k := b
		r, s, v, ok := ECDSASignWithK(d, e, k)
		if ok {
			if !ECDSAVerify(MulG(d), dig, r, s) {
				return n, fmt.Errorf("ecdsa sign/verify")
			}
			q := ECDSARecover(dig, r, s, v)
			if q == nil || !q.Eq(MulG(d)) {
				return n, fmt.Errorf("ecdsa recover")
			}
			s2, v2 := LowS(s, v)
			q = ECDSARecover(dig, r, s2, v2)
			if q == nil || !q.Eq(MulG(d)) {
				return n, fmt.Errorf("ecdsa recover low-s")
			}
			rr, ss, ok2 := DERParseSigStrict(DERWriteSig(r, s))
			if !ok2 || rr.Cmp(r) != 0 || ss.Cmp(s) != 0 {
				return n, fmt.Errorf("DER roundtrip")
			}
			if _, _, ok3 := DERSigCanonicalAccept(DERWriteSig(r, s)); !ok3 {
				return n, fmt.Errorf("DER canonical roundtrip")
			}
		}
		n++
	}
	return n, nil
}

func stBIP340() (int, error) {
	f, err := testdata.Open("testdata/bip-0340-test-vectors.csv")
	if err != nil {
		return 0, err
	}
	rows, err := csv.NewReader(f).ReadAll()
	if err != nil {
		return 0, err
	}
	n := 0
	for _, row := range rows[1:] {
		sk, pk, aux, msg, sig, res := row[1], unhex(row[2]), unhex(row[3]), unhex(row[4]), unhex(row[5]), row[6] == "TRUE"
		if sk != "" {
			d := FromBytes(unhex(sk))
			if !bytes.Equal(BIP340PubKey(d), pk) {
				return n, fmt.Errorf("bip340 vector %s: pubkey", row[0])
			}
			if got := BIP340Sign(d, aux, msg); !bytes.Equal(got, sig) {
				return n, fmt.Errorf("bip340 vector %s: sign", row[0])
			}
		}
		if BIP340Verify(pk, msg, sig) != res {
			return n, fmt.Errorf("bip340 vector %s: verify", row[0])
		}
		n++
	}
	if n < 15 {
		return n, fmt.Errorf("bip340: too few vectors")
	}
	return n, nil
}

func stRFC6979() (int, error) {
	b, err := testdata.ReadFile("testdata/secp256k1_rfc6979_sha256.csv")
	if err != nil {
		return 0, err
	}
	n := 0
	for _, line := range strings.Split(string(b), "\n") {
		if line == "" || line[0] == '#' {
			continue
		}
		i := strings.Index(line, ",")
		j := strings.LastIndex(line, ",")
		d, ok := new(big.Int).SetString(line[:i], 10)
		if !ok {
			return n, fmt.Errorf("rfc6979: bad key")
		}
		msg := line[i+1 : j]
		want := unhex(line[j+1:])
		h := sha256.Sum256([]byte(msg))
		r, s, _, _, _ := RFC6979Sign(d, h[:])
		if !bytes.Equal(DERWriteSig(r, s), want) {
			return n, fmt.Errorf("rfc6979 vector %q", msg)
		}
		n++
	}
	if n < 10 {
		return n, fmt.Errorf("rfc6979: too few vectors")
	}
	return n, nil
}

func stXMD() (int, error) {
	n := 0
	for _, name := range []string{"expand_message_xmd_SHA256_38.json", "expand_message_xmd_SHA256_256.json"} {
		b, err := testdata.ReadFile("testdata/" + name)
		if err != nil {
			return n, err
		}
		var v struct {
			DST   string
			Tests []struct {
				LenInBytes   string `json:"len_in_bytes"`
				Msg          string `json:"msg"`
				UniformBytes string `json:"uniform_bytes"`
			} `json:"tests"`
		}
		if err := json.Unmarshal(b, &v); err != nil {
			return n, err
		}
		for _, t := range v.Tests {
			l, _ := new(big.Int).SetString(strings.TrimPrefix(t.LenInBytes, "0x"), 16)
			out, err := ExpandMessageXMD([]byte(t.Msg), []byte(v.DST), int(l.Int64()))
			if err != nil || !bytes.Equal(out, unhex(t.UniformBytes)) {
				return n, fmt.Errorf("xmd vector %s/%q", name, t.Msg)
			}
			n++
		}
	}
	if n < 10 {
		return n, fmt.Errorf("xmd: too few vectors")
	}
	return n, nil
}

func stH2C() (int, error) {
	n := 0
	type pt struct{ X, Y string }
	for _, name := range []string{"secp256k1_XMD_SHA-256_SSWU_RO_.json", "secp256k1_XMD_SHA-256_SSWU_NU_.json"} {
		b, err := testdata.ReadFile("testdata/" + name)
		if err != nil {
			return n, err
		}
		var v struct {
			Dst          string `json:"dst"`
			RandomOracle bool   `json:"randomOracle"`
			Vectors      []struct {
				P, Q, Q0, Q1 pt
				Msg          string   `json:"msg"`
				U            []string `json:"u"`
			} `json:"vectors"`
		}
		if err := json.Unmarshal(b, &v); err != nil {
			return n, err
		}
		eq := func(p *Pt, w pt) bool {
			return !p.Inf && p.X.Cmp(FromBytes(unhex(w.X))) == 0 && p.Y.Cmp(FromBytes(unhex(w.Y))) == 0
		}
		for _, t := range v.Vectors {
			if v.RandomOracle {
				p, u, err := HashToCurveRO([]byte(t.Msg), []byte(v.Dst))
				if err != nil || !eq(p, t.P) || u[0].Cmp(FromBytes(unhex(t.U[0]))) != 0 || u[1].Cmp(FromBytes(unhex(t.U[1]))) != 0 ||
					!eq(MapToCurve(u[0]), t.Q0) || !eq(MapToCurve(u[1]), t.Q1) {
					return n, fmt.Errorf("h2c RO vector %q", t.Msg)
				}
			} else {
				p, u, err := EncodeToCurveNU([]byte(t.Msg), []byte(v.Dst))
				if err != nil || !eq(p, t.P) || u[0].Cmp(FromBytes(unhex(t.U[0]))) != 0 || !eq(MapToCurve(u[0]), t.Q) {
					return n, fmt.Errorf("h2c NU vector %q", t.Msg)
				}
			}
			n++
		}
	}
	if n < 8 {
		return n, fmt.Errorf("h2c: too few vectors")
	}
	return n, nil
}

func stIso() (int, error) {
	// iso_map is a homomorphism E' -> E on SWU outputs (validates the
	// typed isogeny constants independently of the vectors).
	n := 0
	seed := sha256.Sum256([]byte("iso"))
	for i := 0; i < 12; i++ {
		seed = sha256.Sum256(seed[:])
		u1 := Mod(FromBytes(seed[:]), P)
		seed = sha256.Sum256(seed[:])
		u2 := Mod(FromBytes(seed[:]), P)
		a, b := MapToCurveSimpleSWU(u1), MapToCurveSimpleSWU(u2)
		if !EIso.OnCurve(a) || !EIso.OnCurve(b) {
			return n, fmt.Errorf("SWU output not on E'")
		}
		ia, ib := IsoMap(a), IsoMap(b)
		if !OnCurve(ia) || !OnCurve(ib) {
			return n, fmt.Errorf("iso_map output not on E")
		}
		if !IsoMap(EIso.Add(a, b)).Eq(Add(ia, ib)) {
			return n, fmt.Errorf("iso_map not a homomorphism")
		}
		n++
	}
	return n, nil
}

func stWycheproofECDSA() (int, error) {
	b, err := testdata.ReadFile("testdata/ecdsa_secp256k1_sha256_test.json")
	if err != nil {
		return 0, err
	}
	var v struct {
		TestGroups []struct {
			PublicKey struct{ Uncompressed string } `json:"publicKey"`
			Tests     []struct {
				TcId             int
				Msg, Sig, Result string
			} `json:"tests"`
		} `json:"testGroups"`
	}
	if err := json.Unmarshal(b, &v); err != nil {
		return 0, err
	}
	n := 0
	for _, g := range v.TestGroups {
		q, err := DecodePoint(unhex(g.PublicKey.Uncompressed))
		if err != nil {
			return n, fmt.Errorf("wycheproof ecdsa: bad key")
		}
		for _, t := range g.Tests {
			h := sha256.Sum256(unhex(t.Msg))
			sig := unhex(t.Sig)
			r, s, ok := DERParseSigStrict(sig)
			_, _, ok2 := DERSigCanonicalAccept(sig)
			if ok != ok2 {
				return n, fmt.Errorf("wycheproof ecdsa tc %d: the two DER recognisers disagree", t.TcId)
			}
			acc := ok && ECDSAVerify(q, h[:], r, s)
			if acc != (t.Result == "valid") {
				return n, fmt.Errorf("wycheproof ecdsa tc %d: oracle %v, expected %s", t.TcId, acc, t.Result)
			}
			n++
		}
	}
	if n < 400 {
		return n, fmt.Errorf("wycheproof ecdsa: too few vectors")
	}
	return n, nil
}

func stWycheproofECDH() (int, error) {
	b, err := testdata.ReadFile("testdata/ecdh_secp256k1_test.json")
	if err != nil {
		return 0, err
	}
	var v struct {
		TestGroups []struct {
			Tests []struct {
				TcId                            int
				Public, Private, Shared, Result string
				Flags                           []string
			} `json:"tests"`
		} `json:"testGroups"`
	}
	if err := json.Unmarshal(b, &v); err != nil {
		return 0, err
	}
	n := 0
	for _, g := range v.TestGroups {
		for _, t := range g.Tests {
			compressed := false
			for _, f := range t.Flags {
				if f == "CompressedPublic" {
					compressed = true
				}
			}
			q, _, ok := SPKIParseStrict(unhex(t.Public))
			switch {
			case t.Result == "valid" || (t.Result == "acceptable" && compressed):
				if !ok {
					return n, fmt.Errorf("wycheproof ecdh tc %d: oracle rejects a valid key", t.TcId)
				}
				d := FromBytes(unhex(t.Private))
				sh := Mul(d, q)
				if sh.Inf || !bytes.Equal(Bytes32(sh.X), unhex(t.Shared)) {
					return n, fmt.Errorf("wycheproof ecdh tc %d: shared secret", t.TcId)
				}
				n++
			case t.Result == "invalid":
				if ok {
					return n, fmt.Errorf("wycheproof ecdh tc %d: oracle accepts an invalid key", t.TcId)
				}
				n++
			}
		}
	}
	if n < 400 {
		return n, fmt.Errorf("wycheproof ecdh: too few vectors")
	}
	return n, nil
}

func stBIP66() (int, error) {
	b, err := testdata.ReadFile("testdata/bip-0066-test-vectors.json")
	if err != nil {
		return 0, err
	}
	var v struct {
		Valid   []struct{ DER string }
		Invalid struct {
			Decode []struct{ DER string }
		}
	}
	if err := json.Unmarshal(b, &v); err != nil {
		return 0, err
	}
	n := 0
	for _, t := range v.Valid {
		if !BIP66Valid(append(unhex(t.DER), 0x45)) {
			return n, fmt.Errorf("bip66 valid vector rejected: %s", t.DER)
		}
		n++
	}
	for _, t := range v.Invalid.Decode {
		if BIP66Valid(append(unhex(t.DER), 0x45)) {
			return n, fmt.Errorf("bip66 invalid vector accepted: %s", t.DER)
		}
		n++
	}
	if n < 10 {
		return n, fmt.Errorf("bip66: too few vectors")
	}
	return n, nil
}
