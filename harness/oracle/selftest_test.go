package oracle

import "testing"

func TestSelf(t *testing.T) {
	n, err := SelfTest()
	t.Logf("checks: %d", n)
	if err != nil {
		t.Fatal(err)
	}
}

func BenchmarkMul(b *testing.B) {
	k := HalfN
	g := G()
	for i := 0; i < b.N; i++ {
		Mul(k, g)
	}
}
func BenchmarkMulG(b *testing.B) {
	k := HalfN
	for i := 0; i < b.N; i++ {
		MulG(k)
	}
}
