package oracle

import (
	"crypto/sha256"
	"errors"
	"math/big"
)

// RFC 9380, 8.7 / Appendix E.1 (typed from the RFC; validated in the
// self-test by "iso_map is a homomorphism E' -> E" and the RFC vectors).
var (
	IsoA = mustHex("3f8731abdd661adca08a5558f0f5d272e953d363cb6f0e5d405447c01a444533")
	IsoB = big.NewInt(1771)
	SwuZ = new(big.Int).Sub(P, big.NewInt(11))
	EIso = &Curve{A: IsoA, B: IsoB}

	k10 = mustHex("8e38e38e38e38e38e38e38e38e38e38e38e38e38e38e38e38e38e38daaaaa8c7")
	k11 = mustHex("07d3d4c80bc321d5b9f315cea7fd44c5d595d2fc0bf63b92dfff1044f17c6581")
	k12 = mustHex("534c328d23f234e6e2a413deca25caece4506144037c40314ecbd0b53d9dd262")
	k13 = mustHex("8e38e38e38e38e38e38e38e38e38e38e38e38e38e38e38e38e38e38daaaaa88c")
	k20 = mustHex("d35771193d94918a9ca34ccbb7b640dd86cd409542f8487d9fe6b745781eb49b")
	k21 = mustHex("edadc6f64383dc1df7c4b2d51b54225406d36b641f5e41bbc52a56612a8c6d14")
	k30 = mustHex("4bda12f684bda12f684bda12f684bda12f684bda12f684bda12f684b8e38e23c")
	k31 = mustHex("c75e0c32d5cb7c0fa9d0a54b12a0a6d5647ab046d686da6fdffc90fc201d71a3")
	k32 = mustHex("29a6194691f91a73715209ef6512e576722830a201be2018a765e85a9ecee931")
	k33 = mustHex("2f684bda12f684bda12f684bda12f684bda12f684bda12f684bda12f38e38d84")
	k40 = mustHex("fffffffffffffffffffffffffffffffffffffffffffffffffffffffefffff93b")
	k41 = mustHex("7a06534bb8bdb49fd5e9e6632722c2989467c1bfc8e8d978dfb425d2685c2573")
	k42 = mustHex("6484aa716545ca2cf3a70c3fa8fe337e0a3d21162f0d6299a7bf8192bfd2a76f")
)

var (
	ErrXMDDst = errors.New("oracle: empty DST")
	ErrXMDLen = errors.New("oracle: expand_message_xmd length abort")
)

// ExpandMessageXMD is RFC 9380 5.3.1 with SHA-256 (b=32, s=64), including
// 5.3.3 for DSTs longer than 255 bytes.  Empty DSTs are refused (3.1).
func ExpandMessageXMD(msg, dst []byte, lenInBytes int) ([]byte, error) {
	if len(dst) == 0 {
		return nil, ErrXMDDst
	}
	if len(dst) > 255 {
		h := sha256.New()
		h.Write([]byte("H2C-OVERSIZE-DST-"))
		h.Write(dst)
		dst = h.Sum(nil)
	}
	ell := (lenInBytes + 31) / 32
	if ell > 255 || lenInBytes > 65535 || lenInBytes < 0 {
		return nil, ErrXMDLen
	}
	dstPrime := append(append([]byte{}, dst...), byte(len(dst)))
	h := sha256.New()
	h.Write(make([]byte, 64))
	h.Write(msg)
	h.Write([]byte{byte(lenInBytes >> 8), byte(lenInBytes)})
	h.Write([]byte{0})
	h.Write(dstPrime)
	b0 := h.Sum(nil)
	h = sha256.New()
	h.Write(b0)
	h.Write([]byte{1})
	h.Write(dstPrime)
	bi := h.Sum(nil)
	uniform := append([]byte{}, bi...)
	for i := 2; i <= ell; i++ {
		x := make([]byte, 32)
		for j := range x {
			x[j] = b0[j] ^ bi[j]
		}
		h = sha256.New()
		h.Write(x)
		h.Write([]byte{byte(i)})
		h.Write(dstPrime)
		bi = h.Sum(nil)
		uniform = append(uniform, bi...)
	}
	return uniform[:lenInBytes], nil
}

// HashToField is RFC 9380 5.2 with m = 1, L = 48.
func HashToField(msg, dst []byte, count int) ([]*big.Int, error) {
	ub, err := ExpandMessageXMD(msg, dst, count*48)
	if err != nil {
		return nil, err
	}
	out := make([]*big.Int, count)
	for i := range out {
		out[i] = Mod(FromBytes(ub[i*48:(i+1)*48]), P)
	}
	return out, nil
}

func sgn0(x *big.Int) uint { return Mod(x, P).Bit(0) }

// MapToCurveSimpleSWU is the *generic* map of RFC 9380 6.6.2 onto E'.
func MapToCurveSimpleSWU(u *big.Int) *Pt {
	A, Bc, Z := IsoA, IsoB, SwuZ
	u2 := MulM(u, u, P)
	zu2 := MulM(Z, u2, P)
	// 1. tv1 = inv0(Z^2 * u^4 + Z * u^2)
	tv1 := InvM(AddM(MulM(zu2, zu2, P), zu2, P), P)
	// 2. x1 = (-B / A) * (1 + tv1)
	x1 := MulM(MulM(NegM(Bc, P), InvM(A, P), P), AddM(one, tv1, P), P)
	// 3. If tv1 == 0, set x1 = B / (Z * A)
	if tv1.Sign() == 0 {
		x1 = MulM(Bc, InvM(MulM(Z, A, P), P), P)
	}
	gx1 := EIso.RHS(x1)
	x2 := MulM(zu2, x1, P)
	gx2 := EIso.RHS(x2)
	var x, y *big.Int
	if IsSquareP(gx1) {
		x, y = x1, SqrtP(gx1)
	} else {
		x, y = x2, SqrtP(gx2)
	}
	if y == nil {
		panic("oracle: SWU: neither gx1 nor gx2 square")
	}
	if sgn0(u) != sgn0(y) {
		y = NegM(y, P)
	}
	return &Pt{X: x, Y: y}
}

// IsoMap is the 3-isogeny E' -> E of Appendix E.1; denominators that
// evaluate to zero map to the identity.
func IsoMap(p *Pt) *Pt {
	if p.Inf {
		return Infinity()
	}
	x := p.X
	x2 := MulM(x, x, P)
	x3 := MulM(x2, x, P)
	poly := func(c0, c1, c2, c3 *big.Int) *big.Int {
		r := new(big.Int).Set(c0)
		r = AddM(r, MulM(c1, x, P), P)
		r = AddM(r, MulM(c2, x2, P), P)
		r = AddM(r, MulM(c3, x3, P), P)
		return r
	}
	xNum := poly(k10, k11, k12, k13)
	xDen := poly(k20, k21, one, zero)
	yNum := poly(k30, k31, k32, k33)
	yDen := poly(k40, k41, k42, one)
	if xDen.Sign() == 0 || yDen.Sign() == 0 {
		return Infinity()
	}
	return &Pt{
		X: MulM(xNum, InvM(xDen, P), P),
		Y: MulM(p.Y, MulM(yNum, InvM(yDen, P), P), P),
	}
}

// IsoXDenRoots returns the x' with x_den(x') = 0 (if any).
func IsoXDenRoots() []*big.Int {
	// x^2 + k21 x + k20 = 0
	disc := SubM(MulM(k21, k21, P), MulM(big.NewInt(4), k20, P), P)
	var out []*big.Int
	if s := SqrtP(disc); s != nil {
		inv2 := InvM(big.NewInt(2), P)
		out = append(out, MulM(SubM(s, k21, P), inv2, P))
		if s.Sign() != 0 {
			out = append(out, MulM(SubM(NegM(s, P), k21, P), inv2, P))
		}
	}
	return out
}

// MapToCurve is map_to_curve for the suite (SWU then isogeny).
func MapToCurve(u *big.Int) *Pt { return IsoMap(MapToCurveSimpleSWU(Mod(u, P))) }

// HashToCurveRO is secp256k1_XMD:SHA-256_SSWU_RO_.
func HashToCurveRO(msg, dst []byte) (*Pt, []*big.Int, error) {
	u, err := HashToField(msg, dst, 2)
	if err != nil {
		return nil, nil, err
	}
	return Add(MapToCurve(u[0]), MapToCurve(u[1])), u, nil
}

// EncodeToCurveNU is secp256k1_XMD:SHA-256_SSWU_NU_.
func EncodeToCurveNU(msg, dst []byte) (*Pt, []*big.Int, error) {
	u, err := HashToField(msg, dst, 1)
	if err != nil {
		return nil, nil, err
	}
	return MapToCurve(u[0]), u, nil
}
