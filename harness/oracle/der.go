package oracle

import (
	"bytes"
	"math/big"
)

// derLen returns the DER (minimal, definite) length octets.
func derLen(n int) []byte {
	switch {
	case n < 0x80:
		return []byte{byte(n)}
	case n < 0x100:
		return []byte{0x81, byte(n)}
	case n < 0x10000:
		return []byte{0x82, byte(n >> 8), byte(n)}
	default:
		return []byte{0x83, byte(n >> 16), byte(n >> 8), byte(n)}
	}
}

// DERTLV writes tag || DER length || content.
func DERTLV(tag byte, content []byte) []byte {
	out := append([]byte{tag}, derLen(len(content))...)
	return append(out, content...)
}

// DERUint writes the minimal two's-complement INTEGER of v >= 0.
func DERUint(v *big.Int) []byte {
	b := v.Bytes()
	if len(b) == 0 {
		b = []byte{0}
	}
	if b[0]&0x80 != 0 {
		b = append([]byte{0}, b...)
	}
	return DERTLV(0x02, b)
}

// DERWriteSig writes SEQUENCE{INTEGER r, INTEGER s}.
func DERWriteSig(r, s *big.Int) []byte {
	return DERTLV(0x30, append(DERUint(r), DERUint(s)...))
}

// readTLVStrict reads one TLV with a single-octet (low) tag number and a
// DER (definite, minimal) length from the front of b.
func readTLVStrict(b []byte) (tag byte, content, rest []byte, ok bool) {
	if len(b) < 2 {
		return
	}
	tag = b[0]
	if tag&0x1f == 0x1f {
		return // high-tag-number form never appears in our grammars
	}
	l := int(b[1])
	off := 2
	if l&0x80 != 0 {
		n := l & 0x7f
		if n == 0 || n > 4 || len(b) < 2+n {
			return // indefinite, oversized or truncated
		}
		if b[2] == 0 {
			return // leading zero: not minimal
		}
		l = 0
		for i := 0; i < n; i++ {
			l = l<<8 | int(b[2+i])
		}
		if l < 0x80 {
			return // should have used the short form
		}
		if n > 1 && l < 1<<(8*(n-1)) {
			return
		}
		off = 2 + n
	}
	if l < 0 || len(b)-off < l {
		return
	}
	return tag, b[off : off+l], b[off+l:], true
}

// derUintStrict decodes the content octets of a DER INTEGER that must be
// minimal and non-negative.
func derUintStrict(c []byte) (*big.Int, bool) {
	if len(c) == 0 {
		return nil, false
	}
	if c[0]&0x80 != 0 {
		return nil, false // negative
	}
	if len(c) > 1 && c[0] == 0 && c[1]&0x80 == 0 {
		return nil, false // superfluous leading zero
	}
	return FromBytes(c), true
}

// DERParseSigStrict is the direct recogniser: strict DER
// SEQUENCE{INTEGER r, INTEGER s} with 1 <= r,s < n and nothing else.
func DERParseSigStrict(data []byte) (r, s *big.Int, ok bool) {
	tag, seq, rest, ok1 := readTLVStrict(data)
	if !ok1 || tag != 0x30 || len(rest) != 0 {
		return nil, nil, false
	}
	t1, c1, rest1, ok1 := readTLVStrict(seq)
	if !ok1 || t1 != 0x02 {
		return nil, nil, false
	}
	t2, c2, rest2, ok2 := readTLVStrict(rest1)
	if !ok2 || t2 != 0x02 || len(rest2) != 0 {
		return nil, nil, false
	}
	r, okr := derUintStrict(c1)
	s, oks := derUintStrict(c2)
	if !okr || !oks {
		return nil, nil, false
	}
	if r.Sign() == 0 || r.Cmp(N) >= 0 || s.Sign() == 0 || s.Cmp(N) >= 0 {
		return nil, nil, false
	}
	return r, s, true
}

// lenientTLV reads a TLV accepting any BER definite length form.
func lenientTLV(b []byte) (tag byte, content, rest []byte, ok bool) {
	if len(b) < 2 {
		return
	}
	tag = b[0]
	l := int(b[1])
	off := 2
	if l&0x80 != 0 {
		n := l & 0x7f
		if n == 0 || n > 4 || len(b) < 2+n {
			return
		}
		l = 0
		for i := 0; i < n; i++ {
			l = l<<8 | int(b[2+i])
		}
		off = 2 + n
	}
	if l < 0 || len(b)-off < l {
		return
	}
	return tag, b[off : off+l], b[off+l:], true
}

// DERSigCanonicalAccept is the second, independent formulation: data is
// accepted iff it equals DERWriteSig(r,s) for some 1 <= r,s < n.  The
// candidate (r,s) is extracted with a lenient BER reader.
func DERSigCanonicalAccept(data []byte) (r, s *big.Int, ok bool) {
	_, seq, _, ok1 := lenientTLV(data)
	if !ok1 {
		return nil, nil, false
	}
	_, c1, rest, ok1 := lenientTLV(seq)
	if !ok1 {
		return nil, nil, false
	}
	_, c2, _, ok2 := lenientTLV(rest)
	if !ok2 {
		return nil, nil, false
	}
	r, s = FromBytes(c1), FromBytes(c2)
	if r.Sign() == 0 || r.Cmp(N) >= 0 || s.Sign() == 0 || s.Cmp(N) >= 0 {
		return nil, nil, false
	}
	if !bytes.Equal(DERWriteSig(r, s), data) {
		return nil, nil, false
	}
	return r, s, true
}

// BIP66Valid is a generative recogniser of the BIP-66 grammar:
//
//	0x30 [total-length] 0x02 [R-length] [R] 0x02 [S-length] [S] [sighash]
//
// 9..73 bytes in total, total-length = everything after it except the
// sighash byte, R and S non-empty minimal non-negative integers.
func BIP66Valid(data []byte) bool {
	n := len(data)
	if n < 9 || n > 73 {
		return false
	}
	if data[0] != 0x30 || int(data[1]) != n-3 {
		return false
	}
	body := data[2 : n-1] // 02 lr R 02 ls S
	minimal := func(v []byte) bool {
		if len(v) == 0 || v[0]&0x80 != 0 {
			return false
		}
		if len(v) > 1 && v[0] == 0 && v[1]&0x80 == 0 {
			return false
		}
		return true
	}
	// Try every split point; the grammar is unambiguous so at most one fits.
	for lr := 1; lr <= len(body)-5; lr++ {
		if body[0] != 0x02 || int(body[1]) != lr {
			continue
		}
		R := body[2 : 2+lr]
		rest := body[2+lr:]
		if len(rest) < 3 || rest[0] != 0x02 {
			continue
		}
		ls := len(rest) - 2
		if int(rest[1]) != ls {
			continue
		}
		S := rest[2:]
		if minimal(R) && minimal(S) {
			return true
		}
	}
	return false
}

// OIDs as exact DER content octets.
var (
	oidEcPublicKeyDER = []byte{0x2a, 0x86, 0x48, 0xce, 0x3d, 0x02, 0x01} // 1.2.840.10045.2.1
	oidSecp256k1DER   = []byte{0x2b, 0x81, 0x04, 0x00, 0x0a}             // 1.3.132.0.10
)

// SPKIWrite writes the SubjectPublicKeyInfo for the given SEC 1 point
// encoding (no validation of pt).
func SPKIWrite(pt []byte) []byte {
	alg := DERTLV(0x30, append(DERTLV(0x06, oidEcPublicKeyDER), DERTLV(0x06, oidSecp256k1DER)...))
	bs := DERTLV(0x03, append([]byte{0}, pt...))
	return DERTLV(0x30, append(alg, bs...))
}

// SPKIParseStrict accepts exactly strict-DER SubjectPublicKeyInfo with
// the ecPublicKey / secp256k1 identifiers whose BIT STRING has zero
// unused bits and holds a valid SEC 1 encoding of a non-identity point.
func SPKIParseStrict(data []byte) (*Pt, []byte, bool) {
	tag, outer, rest, ok := readTLVStrict(data)
	if !ok || tag != 0x30 || len(rest) != 0 {
		return nil, nil, false
	}
	t1, alg, rest1, ok := readTLVStrict(outer)
	if !ok || t1 != 0x30 {
		return nil, nil, false
	}
	t2, bs, rest2, ok := readTLVStrict(rest1)
	if !ok || t2 != 0x03 || len(rest2) != 0 {
		return nil, nil, false
	}
	ta, oa, resta, ok := readTLVStrict(alg)
	if !ok || ta != 0x06 || !bytes.Equal(oa, oidEcPublicKeyDER) {
		return nil, nil, false
	}
	tc, oc, restc, ok := readTLVStrict(resta)
	if !ok || tc != 0x06 || !bytes.Equal(oc, oidSecp256k1DER) || len(restc) != 0 {
		return nil, nil, false
	}
	if len(bs) < 1 || bs[0] != 0 {
		return nil, nil, false
	}
	pt := bs[1:]
	p, err := DecodePoint(pt)
	if err != nil || p.Inf {
		return nil, nil, false
	}
	return p, pt, true
}

// DERParseSigStrictNoRange is DERParseSigStrict without the range
// condition on r and s (used only to classify rejections).
func DERParseSigStrictNoRange(data []byte) (r, s *big.Int, ok bool) {
	tag, seq, rest, ok1 := readTLVStrict(data)
	if !ok1 || tag != 0x30 || len(rest) != 0 {
		return nil, nil, false
	}
	t1, c1, rest1, ok1 := readTLVStrict(seq)
	if !ok1 || t1 != 0x02 {
		return nil, nil, false
	}
	t2, c2, rest2, ok2 := readTLVStrict(rest1)
	if !ok2 || t2 != 0x02 || len(rest2) != 0 {
		return nil, nil, false
	}
	r, okr := derUintStrict(c1)
	s, oks := derUintStrict(c2)
	return r, s, okr && oks
}

// LenientSPKIBitString returns the BIT STRING TLV content of a
// SubjectPublicKeyInfo-shaped input using a tolerant reader.
func LenientSPKIBitString(data []byte) (tag byte, content, rest []byte, ok bool) {
	_, outer, _, ok1 := lenientTLV(data)
	if !ok1 {
		return
	}
	_, _, after, ok2 := lenientTLV(outer)
	if !ok2 {
		return
	}
	return lenientTLV(after)
}
