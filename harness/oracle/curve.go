package oracle

import (
	"errors"
	"math/big"
	"sync"
	"sync/atomic"
)

// Pt is an affine point or the point at infinity.
type Pt struct {
	X, Y *big.Int
	Inf  bool
}

// Curve is y^2 = x^3 + A x + B over F_p.
type Curve struct{ A, B *big.Int }

// Secp is secp256k1.
var Secp = &Curve{A: big.NewInt(0), B: big.NewInt(7)}

// Infinity returns the point at infinity.
func Infinity() *Pt { return &Pt{Inf: true} }

// G returns the generator.
func G() *Pt { return &Pt{X: new(big.Int).Set(Gx), Y: new(big.Int).Set(Gy)} }

// NewPt builds an affine point (no validation).
func NewPt(x, y *big.Int) *Pt { return &Pt{X: new(big.Int).Set(x), Y: new(big.Int).Set(y)} }

func (p *Pt) Clone() *Pt {
	if p.Inf {
		return Infinity()
	}
	return NewPt(p.X, p.Y)
}

// Eq compares abstract points.
func (p *Pt) Eq(q *Pt) bool {
	if p.Inf || q.Inf {
		return p.Inf == q.Inf
	}
	return p.X.Cmp(q.X) == 0 && p.Y.Cmp(q.Y) == 0
}

func (p *Pt) String() string {
	if p.Inf {
		return "inf"
	}
	return "(" + HexBig(p.X) + "," + HexBig(p.Y) + ")"
}

// OnCurve reports whether p is on c (infinity counts).
func (c *Curve) OnCurve(p *Pt) bool {
	if p.Inf {
		return true
	}
	if p.X.Sign() < 0 || p.X.Cmp(P) >= 0 || p.Y.Sign() < 0 || p.Y.Cmp(P) >= 0 {
		return false
	}
	return MulM(p.Y, p.Y, P).Cmp(c.RHS(p.X)) == 0
}

// RHS returns x^3 + A x + B mod p.
func (c *Curve) RHS(x *big.Int) *big.Int {
	r := MulM(MulM(x, x, P), x, P)
	r = AddM(r, MulM(c.A, x, P), P)
	return AddM(r, c.B, P)
}

// Neg returns -p.
func (c *Curve) Neg(p *Pt) *Pt {
	if p.Inf {
		return Infinity()
	}
	return &Pt{X: new(big.Int).Set(p.X), Y: NegM(p.Y, P)}
}

// Add is the textbook five-case affine group law.
func (c *Curve) Add(p, q *Pt) *Pt {
	switch {
	case p.Inf:
		return q.Clone()
	case q.Inf:
		return p.Clone()
	}
	var lam *big.Int
	if p.X.Cmp(q.X) == 0 {
		if AddM(p.Y, q.Y, P).Sign() == 0 {
			return Infinity() // q = -p (also covers y = 0 doubling)
		}
		// doubling: (3x^2 + A) / (2y)
		num := AddM(MulM(big.NewInt(3), MulM(p.X, p.X, P), P), c.A, P)
		den := MulM(big.NewInt(2), p.Y, P)
		lam = MulM(num, InvFast(den, P), P)
	} else {
		num := SubM(q.Y, p.Y, P)
		den := SubM(q.X, p.X, P)
		lam = MulM(num, InvFast(den, P), P)
	}
	x3 := SubM(SubM(MulM(lam, lam, P), p.X, P), q.X, P)
	y3 := SubM(MulM(lam, SubM(p.X, x3, P), P), p.Y, P)
	return &Pt{X: x3, Y: y3}
}

// Sub returns p - q.
func (c *Curve) Sub(p, q *Pt) *Pt { return c.Add(p, c.Neg(q)) }

// Double returns 2p.
func (c *Curve) Double(p *Pt) *Pt { return c.Add(p, p) }

// Mul is plain left-to-right double-and-add; k is reduced to k >= 0 as
// given (no modular reduction: k*P for the integer k).
func (c *Curve) Mul(k *big.Int, p *Pt) *Pt {
	if k.Sign() < 0 {
		return c.Mul(new(big.Int).Neg(k), c.Neg(p))
	}
	r := Infinity()
	for i := k.BitLen() - 1; i >= 0; i-- {
		r = c.Add(r, r)
		if k.Bit(i) == 1 {
			r = c.Add(r, p)
		}
	}
	return r
}

// Convenience wrappers for secp256k1.
func Add(p, q *Pt) *Pt              { return Secp.Add(p, q) }
func Sub(p, q *Pt) *Pt              { return Secp.Sub(p, q) }
func Neg(p *Pt) *Pt                 { return Secp.Neg(p) }
func Dbl(p *Pt) *Pt                 { return Secp.Add(p, p) }
func MulSlow(k *big.Int, p *Pt) *Pt { return Secp.Mul(k, p) }

var mulCalls uint64

// Mul returns k*p on secp256k1 through the Jacobian fast path, re-checked
// against the affine reference on one call in 64.
func Mul(k *big.Int, p *Pt) *Pt {
	if k.Sign() < 0 {
		return Mul(new(big.Int).Neg(k), Neg(p))
	}
	r := mulJac(k, p)
	if atomic.AddUint64(&mulCalls, 1)%64 == 0 {
		if !r.Eq(Secp.Mul(k, p)) {
			panic("oracle: Jacobian and affine scalar multiplication disagree")
		}
	}
	return r
}
func OnCurve(p *Pt) bool { return Secp.OnCurve(p) }

// gPow[i] = 2^i * G, built lazily once (oracle-side speed-up for k*G;
// cross-checked against Mul in the self-test).
var (
	gPowOnce sync.Once
	gPowTab  []*Pt
)

func gPowTable() []*Pt {
	gPowOnce.Do(func() {
		t := make([]*Pt, 257)
		t[0] = G()
		for i := 1; i <= 256; i++ {
			t[i] = Secp.Add(t[i-1], t[i-1])
		}
		gPowTab = t
	})
	return gPowTab
}

// MulG returns k*G for k >= 0, k < 2^257.
func MulG(k *big.Int) *Pt {
	if k.Sign() < 0 || k.BitLen() > 257 {
		return Mul(k, G())
	}
	r := Infinity()
	gPow := gPowTable()
	for i := 0; i < k.BitLen(); i++ {
		if k.Bit(i) == 1 {
			r = Secp.Add(r, gPow[i])
		}
	}
	return r
}

// MulGSlow is the affine reference for MulG.
func MulGSlow(k *big.Int) *Pt {
	r := Infinity()
	gPow := gPowTable()
	for i := 0; i < k.BitLen(); i++ {
		if k.Bit(i) == 1 {
			r = Secp.Add(r, gPow[i])
		}
	}
	return r
}

// LiftX returns the point with the given x and requested y parity
// (odd = 1), or nil if x >= p or x^3+7 is a non-residue.
func LiftX(x *big.Int, odd uint) *Pt {
	if x.Sign() < 0 || x.Cmp(P) >= 0 {
		return nil
	}
	y := SqrtP(Secp.RHS(x))
	if y == nil {
		return nil
	}
	if y.Bit(0) != odd {
		y = NegM(y, P)
	}
	// y == 0 impossible on secp256k1 (no point of order 2).
	return &Pt{X: new(big.Int).Set(x), Y: y}
}

// --- SEC 1 2.3.3 / 2.3.4 ------------------------------------------------

// EncodeUncompressed returns 04||X||Y or 00.
func EncodeUncompressed(p *Pt) []byte {
	if p.Inf {
		return []byte{0}
	}
	out := append([]byte{4}, Bytes32(p.X)...)
	return append(out, Bytes32(p.Y)...)
}

// EncodeCompressed returns 02/03||X or 00.
func EncodeCompressed(p *Pt) []byte {
	if p.Inf {
		return []byte{0}
	}
	return append([]byte{byte(2 + p.Y.Bit(0))}, Bytes32(p.X)...)
}

var ErrDecode = errors.New("oracle: invalid SEC 1 point encoding")

// DecodePoint is the strict SEC 1 2.3.4 decoder (no hybrid form).
func DecodePoint(b []byte) (*Pt, error) {
	switch len(b) {
	case 1:
		if b[0] == 0 {
			return Infinity(), nil
		}
	case 33:
		if b[0] == 2 || b[0] == 3 {
			p := LiftX(FromBytes(b[1:]), uint(b[0]&1))
			if p != nil {
				return p, nil
			}
		}
	case 65:
		if b[0] == 4 {
			x, y := FromBytes(b[1:33]), FromBytes(b[33:])
			if x.Cmp(P) < 0 && y.Cmp(P) < 0 {
				p := &Pt{X: x, Y: y}
				if OnCurve(p) {
					return p, nil
				}
			}
		}
	}
	return nil, ErrDecode
}

// DecodeCompressedOnly accepts only the 33-byte form.
func DecodeCompressedOnly(b []byte) (*Pt, error) {
	if len(b) != 33 {
		return nil, ErrDecode
	}
	return DecodePoint(b)
}

// DecodeUncompressedOnly accepts only the 65-byte form.
func DecodeUncompressedOnly(b []byte) (*Pt, error) {
	if len(b) != 65 {
		return nil, ErrDecode
	}
	return DecodePoint(b)
}

// RecoverPoint models "x-coordinate as scalar + recovery id": success
// iff id < 4, x' = xs + n*(id>>1) < p and x' is on the curve.
func RecoverPoint(xs *big.Int, id int) *Pt {
	if id < 0 || id >= 4 || xs.Sign() < 0 || xs.Cmp(N) >= 0 {
		return nil
	}
	x := new(big.Int).Set(xs)
	if id&2 != 0 {
		x.Add(x, N)
	}
	if x.Cmp(P) >= 0 {
		return nil
	}
	return LiftX(x, uint(id&1))
}

// Lambda / Beta endomorphism constants are *derived*, not typed: lambda
// is a non-trivial cube root of 1 mod n, beta the matching cube root of
// 1 mod p such that lambda*(x,y) = (beta*x, y).
var Lambda, Beta *big.Int

func init() {
	// cube roots of unity mod n: (-1 +- sqrt(-3))/2.  n = 1 mod 3.
	// Find lambda by exponentiation: g^((n-1)/3) for small g until != 1.
	e := new(big.Int).Div(new(big.Int).Sub(N, one), big.NewInt(3))
	var cands []*big.Int
	for g := int64(2); len(cands) < 1; g++ {
		l := new(big.Int).Exp(big.NewInt(g), e, N)
		if l.Cmp(one) != 0 {
			cands = append(cands, l, MulM(l, l, N))
		}
	}
	ep := new(big.Int).Div(new(big.Int).Sub(P, one), big.NewInt(3))
	var betas []*big.Int
	for g := int64(2); len(betas) < 1; g++ {
		b := new(big.Int).Exp(big.NewInt(g), ep, P)
		if b.Cmp(one) != 0 {
			betas = append(betas, b, MulM(b, b, P))
		}
	}
	// Fix beta as the one used by libsecp256k1-style implementations is
	// irrelevant: choose the (lambda, beta) pair that matches.
	g := G()
	for _, l := range cands {
		lg := Mul(l, g)
		for _, b := range betas {
			if lg.X.Cmp(MulM(b, g.X, P)) == 0 && lg.Y.Cmp(g.Y) == 0 {
				// pick the conventional pair: lambda = 0x5363ad4c...
				if Lambda == nil || l.Cmp(Lambda) < 0 {
					Lambda, Beta = l, b
				}
			}
		}
	}
	if Lambda == nil {
		panic("oracle: lambda/beta derivation failed")
	}
}
