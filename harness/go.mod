module verifharness

go 1.20

require gitlab.com/yawning/secp256k1-voi v0.0.0

require (
	gitlab.com/yawning/tuplehash v0.0.0-20230713102510-df83abbf9a02 // indirect
	golang.org/x/crypto v0.11.0 // indirect
	golang.org/x/sys v0.10.0 // indirect
)

replace gitlab.com/yawning/secp256k1-voi => /repo
