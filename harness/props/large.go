package props

import (
	"bytes"
	"fmt"
	"strconv"

	secp256k1 "gitlab.com/yawning/secp256k1-voi"
	"gitlab.com/yawning/secp256k1-voi/secec"

	"gitlab.com/yawning/secp256k1-voi/secec/bitcoin"
	"gitlab.com/yawning/secp256k1-voi/secec/h2c"

	"verifharness/mon"
	"verifharness/oracle"
)

// Inputs of "any length" include long ones: messages and tags of hundreds of kilobytes to
// tens of megabytes (lengths next to powers of two, where a length kept in 16 or 24 bits, a
// chunked hash loop or a size-dependent fast path changes behaviour).
func init() {
	wrap := func(id string, extra func(r *mon.Run)) {
		prev := registry[id].Run
		registry[id].Run = func(r *mon.Run) {
			prev(r)
			extra(r)
		}
	}
	sizes := func(r *mon.Run) []int {
		s := []int{65535, 65536, 65537, 1<<20 - 1, 1 << 20, 1<<20 + 1}
		if r.Thorough() {
			s = append(s, 1<<24-1, 1<<24, 1<<24+1, 1<<26)
		}
		return s
	}
	wrap("C15", func(r *mon.Run) {
		if r.Config != "asm" && r.Config != "purego" {
			return
		}
		r.Require("c15:large-input")
		sz := sizes(r)
		r.Each("c15/large-inputs", 2*len(sz), func(w *mon.W, i int) {
			n := sz[i/2]
			msg, dst := w.Rng.Bytes(n), []byte("verif-large-input-tag")
			if i%2 == 1 {
				msg, dst = w.Rng.Bytes(33), w.Rng.Bytes(n) // a long TAG (reduced by hashing, RFC 9380 5.3.3)
				dst[0] |= 1
			}
			m, _, err := oracle.HashToCurveRO(msg, dst)
			if err != nil {
				return
			}
			w.Case(true, []byte("large"), []byte{byte(i)}, msg[:16], dst[:8])
			w.Class("c15:large-input")
			keepM, keepD := append([]byte{}, msg[:64%len(msg)+0]...), append([]byte{}, dst[:8]...)
			p, err := h2c.Secp256k1_XMD_SHA256_SSWU_RO(dst, msg)
			if err != nil {
				w.Fail("c15/large-inputs:error", fmt.Sprintf("RO suite failed on a %d-byte message / %d-byte tag: %v", len(msg), len(dst), err))
				return
			}
			if msgErr := expectPoint(p, m); msgErr != "" {
				w.Fail("c15/large-inputs", fmt.Sprintf("RO suite on a %d-byte message / %d-byte tag: %s", len(msg), len(dst), msgErr))
			}
			if !bytes.Equal(keepM, msg[:len(keepM)]) || !bytes.Equal(keepD, dst[:8]) {
				w.Fail("c15/large-inputs:input", "the suite modified its inputs")
			}
		})
	})
	// byte strings that are a valid encoding followed by 2^24 (2^32 in the thorough tier) more
	// bytes: a length kept in 24 or 32 bits comes out "right" again
	for _, id := range []string{"C06", "C10", "C12", "C13"} {
		id := id
		wrap(id, func(r *mon.Run) {
			if r.Config != "asm" && r.Config != "purego" {
				return
			}
			lc := "c" + id[1:]
			r.Require(lc + ":huge-input")
			extra := []int{1 << 24, 2 << 24, 1<<24 + 1}
			if r.Thorough() && r.Config == "asm" && strconv.IntSize == 64 {
				g := 1 << 30 // (4*g does not fit an int on 32-bit targets: computed, not a constant)
				extra = append(extra, 4*g, 4*g+1<<24)
			}
			r.Seq(lc+"/huge-inputs", len(extra), func(w *mon.W, i int) {
				d, _ := keyValue(w.Rng)
				Q := oracle.MulG(d)
				dig := w.Rng.Bytes(32)
				r0, s0, _, _, _ := oracle.RFC6979Sign(d, dig)
				type in struct {
					name  string
					head  []byte
					parse func(b []byte) bool // true: accepted
				}
				var ins []in
				pt := func(b []byte) bool { _, err := secp256k1.NewPointFromBytes(b); return err == nil }
				key := func(b []byte) bool { _, err := secec.NewPublicKey(b); return err == nil }
				switch id {
				case "C06":
					rcv := secp256k1.NewGeneratorPoint()
					set := func(b []byte) bool {
						rcv.Set(secp256k1.NewGeneratorPoint()) // a rejection must leave exactly this behind
						_, err := rcv.SetBytes(b)
						return err == nil || rcv.Equal(secp256k1.NewGeneratorPoint()) != 1
					}
					ins = []in{{"NewPointFromBytes(compressed", oracle.EncodeCompressed(Q), pt}, {"NewPointFromBytes(uncompressed", oracle.EncodeUncompressed(Q), pt},
						{"NewPointFromBytes(identity", []byte{0}, pt}, {"Point.SetBytes(compressed", oracle.EncodeCompressed(Q), set}}
				case "C10":
					ins = []in{{"NewPublicKey(compressed", oracle.EncodeCompressed(Q), key}, {"NewPublicKey(uncompressed", oracle.EncodeUncompressed(Q), key},
						{"ParseASN1PublicKey(", oracle.SPKIWrite(oracle.EncodeUncompressed(Q)), func(b []byte) bool { _, err := secec.ParseASN1PublicKey(b); return err == nil }}}
				case "C12":
					pub := mustPub(Q)
					ins = []in{{"ParseASN1Signature(", oracle.DERWriteSig(r0, s0), func(b []byte) bool { _, _, err := secec.ParseASN1Signature(b); return err == nil }},
						{"Verify(ASN.1 signature", oracle.DERWriteSig(r0, s0), func(b []byte) bool { return pub.Verify(dig, b, nil) }},
						{"ParseCompactSignature(", append(b32(r0), b32(s0)...), func(b []byte) bool { _, _, err := secec.ParseCompactSignature(b); return err == nil }},
						{"ParseASN1PublicKey(", oracle.SPKIWrite(oracle.EncodeUncompressed(Q)), func(b []byte) bool { _, err := secec.ParseASN1PublicKey(b); return err == nil }},
						{"IsValidSignatureEncodingBIP0066(", append(oracle.DERWriteSig(r0, s0), 1), bitcoin.IsValidSignatureEncodingBIP0066}}
				default:
					pk := oracle.BIP340PubKey(d)
					msg := w.Rng.Bytes(10)
					sig := oracle.BIP340Sign(d, w.Rng.Bytes(32), msg)
					ins = []in{{"NewSchnorrPublicKey(", pk, func(b []byte) bool { _, err := bitcoin.NewSchnorrPublicKey(b); return err == nil }},
						{"SchnorrPublicKey.Verify(signature", sig, func(b []byte) bool {
							k, err := bitcoin.NewSchnorrPublicKey(pk)
							return err == nil && k.Verify(msg, b)
						}}}
				}
				buf := make([]byte, 80+600+extra[i]) // zero pages: only what a parser touches is ever mapped
				for _, x := range ins {
					copy(buf, x.head)
					b := buf[:len(x.head)+extra[i]]
					w.Case(true, []byte("huge"), []byte(x.name), []byte{byte(i)})
					w.Class(lc + ":huge-input")
					if !x.parse(x.head) && x.name != "IsValidSignatureEncodingBIP0066(" {
						continue // (not a valid head: nothing to learn)
					}
					if x.parse(b) {
						w.Fail(lc+"/huge-inputs/"+x.name, fmt.Sprintf("%svalid encoding followed by %d zero bytes) was accepted", x.name, extra[i]), "head", hx(x.head), "extra", extra[i])
					}
					for j := range x.head {
						buf[j] = 0
					}
				}
			})
		})
	}
	for _, id := range []string{"C13", "C14"} {
		id := id
		wrap(id, func(r *mon.Run) {
			if r.Config != "asm" && r.Config != "purego" {
				return
			}
			lc := "c" + id[1:]
			r.Require(lc + ":large-message")
			sz := sizes(r)
			r.Each(lc+"/large-messages", len(sz), func(w *mon.W, i int) {
				d, _ := keyValue(w.Rng)
				msg := w.Rng.Bytes(sz[i])
				aux := w.Rng.Bytes(32)
				want := oracle.BIP340Sign(d, aux, msg)
				pk := oracle.BIP340PubKey(d)
				w.Case(true, []byte("large"), []byte{byte(i)}, b32(d))
				w.Class(lc + ":large-message")
				sk, err := bitcoin.NewSchnorrPrivateKey(b32(d))
				if err != nil {
					return
				}
				sig, err := sk.Sign(&fixedReader{data: aux}, msg, nil)
				if err != nil || !bytes.Equal(sig, want) {
					w.Fail(lc+"/large-messages:sign", fmt.Sprintf("Sign over a %d-byte message = %x (err %v), BIP-340 says %x", len(msg), sig, err, want), "d", hb(d))
					return
				}
				pub, err := bitcoin.NewSchnorrPublicKey(pk)
				if err != nil {
					return
				}
				bad := append([]byte{}, msg...)
				bad[len(bad)-1] ^= 1
				if !pub.Verify(msg, want) || pub.Verify(bad, want) {
					w.Fail(lc+"/large-messages:verify", fmt.Sprintf("Verify over a %d-byte message: valid accepted %v, last byte flipped accepted %v", len(msg), pub.Verify(msg, want), pub.Verify(bad, want)), "d", hb(d))
				}
			})
		})
	}
}
