package props

import (
	"math/big"

	"verifharness/gen"
	"verifharness/oracle"
)

// rawInt returns the minimal DER content octets of v >= 0.
func rawInt(v *big.Int) []byte {
	b := v.Bytes()
	if len(b) == 0 {
		b = []byte{0}
	}
	if b[0]&0x80 != 0 {
		b = append([]byte{0}, b...)
	}
	return b
}

func tlvWithLen(tag byte, lenOctets, content []byte) []byte {
	out := append([]byte{tag}, lenOctets...)
	return append(out, content...)
}

// sigValue draws an r or s value including the out-of-range ones.
func sigValue(r *gen.Rng) (*big.Int, string) {
	switch r.Intn(13) {
	case 12:
		return r.WordStructured(bigN), "word-structured-around-n"
	case 0:
		return big.NewInt(0), "0"
	case 1:
		return new(big.Int).Set(bigN), "n"
	case 2:
		return new(big.Int).Add(bigN, big.NewInt(1)), "n+1"
	case 3:
		return new(big.Int).Sub(oracle.Two256, big.NewInt(1)), "2^256-1"
	case 4:
		return new(big.Int).Sub(bigN, big.NewInt(1)), "n-1"
	case 5:
		return big.NewInt(int64(1 + r.Intn(300))), "small"
	case 6:
		return new(big.Int).Add(oracle.HalfN, big.NewInt(int64(r.Intn(3)-1))), "halfN+-"
	case 7:
		// high bit set in the top byte (needs the 00 pad) / short values
		v := r.BigBits(8 * (1 + r.Intn(32)))
		return oracle.Mod(v, bigN), "short"
	default:
		v := r.Below(bigN)
		if v.Sign() == 0 {
			v = big.NewInt(1)
		}
		return v, "random"
	}
}

// derSigMutant returns an encoding derived from the canonical DER
// signature of (r,s) by one structured mutation.
func derSigMutant(rng *gen.Rng, r, s *big.Int) ([]byte, string) {
	ri, si := rawInt(r), rawInt(s)
	R := oracle.DERTLV(0x02, ri)
	S := oracle.DERTLV(0x02, si)
	body := append(append([]byte{}, R...), S...)
	canon := oracle.DERTLV(0x30, body)
	switch rng.Intn(30) {
	case 0, 1, 2, 3, 4:
		return canon, "canonical"
	case 5:
		return tlvWithLen(0x30, []byte{0x81, byte(len(body))}, body), "seq-long-form-length"
	case 6:
		b := append(tlvWithLen(0x02, []byte{0x81, byte(len(ri))}, ri), S...)
		return oracle.DERTLV(0x30, b), "int-long-form-length"
	case 7:
		return append(tlvWithLen(0x30, []byte{0x80}, body), 0, 0), "indefinite-length"
	case 8:
		return tlvWithLen(0x30, []byte{0x82, 0x00, byte(len(body))}, body), "non-minimal-long-form"
	case 9:
		b := append(oracle.DERTLV(0x02, append([]byte{0}, ri...)), S...)
		return oracle.DERTLV(0x30, b), "r-leading-zero"
	case 10:
		b := append(append([]byte{}, R...), oracle.DERTLV(0x02, append([]byte{0}, si...))...)
		return oracle.DERTLV(0x30, b), "s-leading-zero"
	case 11:
		// negative: drop the pad (or set the top bit)
		x := append([]byte{}, ri...)
		if len(x) > 1 && x[0] == 0 {
			x = x[1:]
		} else {
			x[0] |= 0x80
		}
		return oracle.DERTLV(0x30, append(oracle.DERTLV(0x02, x), S...)), "negative-r"
	case 12:
		x := append([]byte{}, si...)
		if len(x) > 1 && x[0] == 0 {
			x = x[1:]
		} else {
			x[0] |= 0x80
		}
		return oracle.DERTLV(0x30, append(append([]byte{}, R...), oracle.DERTLV(0x02, x)...)), "negative-s"
	case 13:
		return oracle.DERTLV(0x30, append(append([]byte{}, body...), trailingBytes(rng)...)), "trailing-inside-seq"
	case 14:
		return append(append([]byte{}, canon...), trailingBytes(rng)...), "trailing-outside-seq"
	case 15:
		c := append([]byte{}, canon...)
		c[0] = gen.Pick(rng, byte(0x31), 0x10, 0x70, 0x20, 0xb0, 0x3f)
		return c, "wrong-seq-tag"
	case 16:
		b := append([]byte{}, body...)
		b[0] = gen.Pick(rng, byte(0x03), 0x22, 0x82, 0x0a, 0x1f)
		return oracle.DERTLV(0x30, b), "wrong-int-tag"
	case 17:
		b := append([]byte{0x02, 0x00}, S...)
		if rng.Bool() {
			b = append(append([]byte{}, R...), 0x02, 0x00)
		}
		return oracle.DERTLV(0x30, b), "zero-length-int"
	case 18:
		// 33-byte integer with a non-zero top byte: value >= 2^256
		x := append([]byte{byte(1 + rng.Intn(0x7f))}, b32(r)...)
		return oracle.DERTLV(0x30, append(oracle.DERTLV(0x02, x), S...)), "33-byte-int"
	case 19:
		k := rng.Intn(len(canon))
		return append([]byte{}, canon[:k]...), "truncated"
	case 20:
		c := append([]byte{}, canon...)
		if rng.Bool() {
			c[1]++
		} else {
			c[1]--
		}
		return c, "seq-length-off-by-one"
	case 21:
		b := append([]byte{}, body...)
		if rng.Bool() {
			b[1]++
		} else {
			b[1]--
		}
		return oracle.DERTLV(0x30, b), "int-length-off-by-one"
	case 22:
		return oracle.DERTLV(0x30, append(append([]byte{}, body...), oracle.DERTLV(0x02, []byte{1})...)), "third-integer"
	case 23:
		if rng.Bool() {
			return oracle.DERTLV(0x30, nil), "empty-seq"
		}
		return oracle.DERTLV(0x30, R), "one-integer"
	case 24:
		// bit flip anywhere
		c := append([]byte{}, canon...)
		c[rng.Intn(len(c))] ^= 1 << uint(rng.Intn(8))
		return c, "bitflip"
	case 25:
		// wrapped in another sequence / octet string
		return oracle.DERTLV(gen.Pick(rng, byte(0x30), 0x04), canon), "nested"
	case 26:
		// 0x00 pad on a value whose top bit is clear is covered by leading-zero;
		// here: double pad on a high-bit value
		x := append([]byte{0, 0}, r.Bytes()...)
		return oracle.DERTLV(0x30, append(oracle.DERTLV(0x02, x), S...)), "double-pad"
	case 27:
		return rng.Bytes(rng.Intn(81)), "random-bytes"
	case 28:
		// long-form length with 0x84 / 0x85 octet counts
		lo := []byte{0x84, 0, 0, 0, byte(len(body))}
		if rng.Bool() {
			lo = []byte{0x85, 0, 0, 0, 0, byte(len(body))}
		}
		return tlvWithLen(0x30, lo, body), "oversized-length-of-length"
	default:
		// s and r swapped is just another valid signature encoding of (s,r)
		return oracle.DERTLV(0x30, append(append([]byte{}, S...), R...)), "swapped"
	}
}

// trailingBytes: surplus data appended to an otherwise valid encoding.  Mostly one to three
// bytes; sometimes exactly as many as make a length computed in 8 or 16 bits come out the
// same again (256, 512, 65536, ...), or one off.
func trailingBytes(r *gen.Rng) []byte {
	n := 1
	switch r.Intn(8) {
	case 0:
		n = 2 + r.Intn(6)
	case 1:
		n = 256 * (1 + r.Intn(4))
	case 2:
		n = 256*(1+r.Intn(3)) + []int{-1, 1}[r.Intn(2)]
	case 3:
		n = []int{65536, 65535, 65537, 131072}[r.Intn(4)]
	}
	b := r.Bytes(n)
	if r.Bool() {
		for i := range b {
			b[i] = 0
		}
	}
	return b
}
