//go:build verif && verif_instr

package props

import (
	"bytes"
	"fmt"
	"math/big"
	"os"
	"sort"
	"strings"

	secp256k1 "gitlab.com/yawning/secp256k1-voi"
	"gitlab.com/yawning/secp256k1-voi/secec"
	"gitlab.com/yawning/secp256k1-voi/secec/bitcoin"

	"verifharness/gen"
	"verifharness/hk"
	"verifharness/mon"
	"verifharness/oracle"
)

func init() { Register("C17", runC17) }

type c17Secret struct {
	v     *big.Int // in [1,n)
	class string
}

// c17Secrets builds the secret set: nibble patterns, boundary values,
// all four sign combinations of the split halves, both public-key
// parities, random.
func c17Secrets(seed int64, nRandom int) []c17Secret {
	n := bigN
	var out []c17Secret
	add := func(v *big.Int, cl string) {
		v = oracle.Mod(v, n)
		if v.Sign() != 0 {
			out = append(out, c17Secret{v, cl})
		}
	}
	// 0 is a legitimate secret scalar for the arithmetic and multiplication entry
	// points (not for private keys: operations that need a key skip it, see zeroOK)
	out = append(out, c17Secret{new(big.Int), "0"})
	add(big.NewInt(1), "1")
	add(big.NewInt(2), "2")
	add(big.NewInt(3), "3")
	add(big.NewInt(16), "16")
	add(new(big.Int).Sub(n, big.NewInt(1)), "n-1")
	add(new(big.Int).Sub(n, big.NewInt(2)), "n-2")
	add(oracle.HalfN, "halfN")
	add(new(big.Int).Add(oracle.HalfN, big.NewInt(1)), "halfN+1")
	for _, pat := range []byte{0x0f, 0xf0, 0x01, 0x10, 0x7f, 0x80, 0x55, 0xaa} {
		add(oracle.FromBytes(bytes.Repeat([]byte{pat}, 32)), fmt.Sprintf("pattern-%02x", pat))
	}
	b := make([]byte, 32)
	for i := 16; i < 32; i++ {
		b[i] = 0xff
	}
	add(oracle.FromBytes(b), "00..ff..")
	b = make([]byte, 32)
	for i := 0; i < 16; i++ {
		b[i] = 0xff
	}
	add(oracle.FromBytes(b), "ff..00..")
	for _, pos := range []int{0, 1, 31, 32, 62, 63} {
		add(new(big.Int).Lsh(big.NewInt(0xf), uint(4*pos)), fmt.Sprintf("single-nibble@%d", pos))
		add(new(big.Int).Lsh(big.NewInt(1), uint(4*pos)), fmt.Sprintf("single-bit@%d", 4*pos))
	}
	add(oracle.Lambda, "lambda")
	add(oracle.NegM(oracle.Lambda, n), "-lambda")
	add(new(big.Int).Lsh(big.NewInt(1), 128), "2^128")
	add(new(big.Int).Sub(new(big.Int).Lsh(big.NewInt(1), 128), big.NewInt(1)), "2^128-1")
	rng := gen.New(seed, 0, "C17", "secrets")
	// secrets inside the rare windows of the GLV decomposition (rounding bit, carry out of
	// the low limb of the rounded quotient, extreme halves): a branch on such a carry runs
	// for 2^-64 of all scalars
	for i := 0; i < 8; i++ {
		v, cl := glvSteered(gen.New(seed, i, "C17", "glv-secrets"))
		add(v, "glv-window:"+cl)
	}
	// ... and, constructed and re-checked with integers: the rounded quotient k*g/2^384
	// has an all-ones low limb AND the rounding bit set (the carry really propagates),
	// for each lattice constant of either cube root of unity
	glvSteered(rng) // initialises glvByLambda
	mask64 := new(big.Int).SetUint64(^uint64(0))
	for _, c := range glvByLambda {
		for gi, g := range []*big.Int{c.g1, c.g2} {
			for tries, found := 0, 0; tries < 64 && found < 2; tries++ {
				q := rng.BigBits(60)
				q.Lsh(q, 64).Or(q, mask64)
				num := new(big.Int).Lsh(q, 1)
				num.Add(num, big.NewInt(1)).Mul(num, two383)
				k := new(big.Int).Div(num, g)
				k.Add(k, big.NewInt(1))
				t := new(big.Int).Mul(k, g)
				lo := new(big.Int).And(new(big.Int).Rsh(t, 384), mask64)
				if k.Cmp(n) < 0 && lo.Cmp(mask64) == 0 && t.Bit(383) == 1 {
					add(k, fmt.Sprintf("glv-window:rounding-carry-out-of-low-limb(g%d)", gi+1))
					found++
				}
			}
		}
	}
	// split-half sign combinations and public-key parities (searched, classified by the library hook / oracle)
	if hk.HaveMul {
		want := map[string]int{"k1+,k2+": 0, "k1+,k2-": 0, "k1-,k2+": 0, "k1-,k2-": 0}
		for tries := 0; tries < 400; tries++ {
			v := rng.Below(n)
			if v.Sign() == 0 {
				continue
			}
			k1, k2 := hk.SplitGLV(scalarFromBig(v))
			cl := "k1+"
			if k1.IsGreaterThanHalfN() == 1 {
				cl = "k1-"
			}
			if k2.IsGreaterThanHalfN() == 1 {
				cl += ",k2-"
			} else {
				cl += ",k2+"
			}
			if want[cl] < 3 {
				want[cl]++
				add(v, "split:"+cl)
			}
		}
	}
	odd, even := 0, 0
	for odd < 3 || even < 3 {
		v := rng.Below(n)
		if v.Sign() == 0 {
			continue
		}
		if oracle.MulG(v).Y.Bit(0) == 1 {
			if odd < 3 {
				odd++
				add(v, "public-y-odd")
			}
		} else if even < 3 {
			even++
			add(v, "public-y-even")
		}
	}
	for i := 0; i < nRandom; i++ {
		add(rng.Below(n), "random")
	}
	return out
}

type c17Snap struct {
	counts   [][]uint32
	idxHash  uint64
	idxCount uint64
	idxEv    [][2]uint64
	nonzero  int
}

func c17Take() c17Snap {
	var s c17Snap
	for _, f := range secp256k1.VerifInstrFiles() {
		c := append([]uint32{}, f.Count...)
		for _, x := range c {
			if x != 0 {
				s.nonzero++
			}
		}
		s.counts = append(s.counts, c)
	}
	h, c, ev := secp256k1.VerifInstrIdx()
	s.idxHash, s.idxCount = h, c
	s.idxEv = append([][2]uint64{}, ev...)
	return s
}

func c17FuncOf(f *secp256k1.VerifInstrFile, block int) string {
	line := int(f.Pos[3*block])
	for _, fr := range f.Funcs {
		if line >= fr.Start && line <= fr.End {
			return fr.Name
		}
	}
	return "?"
}

// c17Diff returns a description of the first difference between the
// current counters / index log and the baseline, or "".
func c17Diff(base c17Snap) string {
	files := secp256k1.VerifInstrFiles()
	for fi, f := range files {
		for bi, c := range f.Count {
			if c != base.counts[fi][bi] {
				return fmt.Sprintf("basic block %s:%d-%d (func %s) executed %d times for the first secret and %d times for this one", f.Name, f.Pos[3*bi], f.Pos[3*bi+1], c17FuncOf(f, bi), base.counts[fi][bi], c)
			}
		}
	}
	h, c, ev := secp256k1.VerifInstrIdx()
	if h != base.idxHash || c != base.idxCount {
		for i := 0; i < len(ev) && i < len(base.idxEv); i++ {
			if ev[i] != base.idxEv[i] {
				return fmt.Sprintf("index/slice-bound event #%d: site %d used value %d for the first secret and site %d value %d for this one (sites: sites.json of the instrumenter)", i, base.idxEv[i][0], base.idxEv[i][1], ev[i][0], ev[i][1])
			}
		}
		return fmt.Sprintf("index log differs: %d events vs %d events", base.idxCount, c)
	}
	return ""
}

// c17Vartime reports an executed block inside a function documented as
// variable-time.
func c17Vartime() string {
	for _, f := range secp256k1.VerifInstrFiles() {
		for bi, c := range f.Count {
			if c != 0 {
				if fn := c17FuncOf(f, bi); strings.Contains(fn, "Vartime") {
					return fmt.Sprintf("%s (%s:%d) was executed %d times", fn, f.Name, f.Pos[3*bi], c)
				}
			}
		}
	}
	return ""
}

type c17Op struct {
	// shape, when set, returns the SHAPE of the variable-length PUBLISHED output the
	// operation produces for this secret (for a DER signature: the lengths and padding
	// flags of r and s).  The property allows control flow to depend on published
	// outputs, so traces are only required to agree among secrets whose published
	// output has the same shape (a hand-written DER writer strips leading zeros and
	// pads the high bit - of the signature, which is public).
	shape  func(s c17Secret, variant int) string
	zeroOK bool // the operation admits the secret scalar 0
	name   string
	// prep runs outside the traced region and returns the traced closure
	prep func(s c17Secret, variant int) func()
	vars int // number of public-configuration variants
}

func runC17(r *mon.Run) {
	n := bigN
	if len(secp256k1.VerifInstrFiles()) == 0 {
		r.Inconclusive("instrumentation registry is empty")
		return
	}
	secrets := c17Secrets(r.Seed, r.N(16, 420))
	r.Extra("secrets", len(secrets))
	blocks := 0
	for _, f := range secp256k1.VerifInstrFiles() {
		blocks += len(f.Count)
	}
	r.Extra("instrumented_files", len(secp256k1.VerifInstrFiles()))
	r.Extra("instrumented_blocks", blocks)

	pubPts := []*oracle.Pt{oracle.G(), oracle.MulG(big.NewInt(0x1234567)), oracle.MulG(oracle.HalfN)}
	pubPoint := func(variant int) *Point {
		z := []*big.Int{big.NewInt(1), big.NewInt(3), new(big.Int).Sub(bigP, big.NewInt(5))}[variant%3]
		return pointRep(pubPts[variant%3], z)
	}
	pubScalar := scalarFromBig(mustHexBig("3b6c1f09a7e2d4c8b5a69788796a5b4c3d2e1f00112233445566778899aabbcc"))
	pubFE := feFromBig(mustHexBig("1b6c1f09a7e2d4c8b5a69788796a5b4c3d2e1f00112233445566778899aabbcc"))
	digest := bytes.Repeat([]byte{0x5a}, 32)
	entropy := bytes.Repeat([]byte{0xc3}, 32)
	peer := mustPub(oracle.MulG(big.NewInt(0xabcdef)))
	msg := []byte("trace equivalence monitor message")

	ops := []c17Op{
		{zeroOK: true, name: "Scalar.arith", prep: func(s c17Secret, v int) func() {
			a := scalarFromBig(s.v)
			return func() {
				t := secp256k1.NewScalar()
				t.Add(a, pubScalar)
				t.Subtract(a, pubScalar)
				t.Multiply(a, pubScalar)
				t.Square(a)
				t.Negate(a)
				t.Invert(a)
				t.ConditionalNegate(a, 1)
				t.ConditionalSelect(a, pubScalar, 0)
				t.Sum(a, pubScalar, a)
				t.Product(a, pubScalar, a)
				_ = a.Equal(pubScalar)
				_ = a.IsZero()
				_ = a.IsGreaterThanHalfN()
				_ = a.Bytes()
				secp256k1.NewScalarFrom(a)
			}
		}, vars: 1},
		{zeroOK: true, name: "Scalar.decode", prep: func(s c17Secret, v int) func() {
			arr := arr32(s.v)
			return func() {
				_, _ = secp256k1.NewScalarFromCanonicalBytes(arr)
				_, _ = secp256k1.NewScalarFromBytes(arr)
			}
		}, vars: 1},
		{zeroOK: true, name: "field.arith", prep: func(s c17Secret, v int) func() {
			a := feFromBig(oracle.Mod(s.v, bigP))
			return func() {
				t := hk.NewFE()
				t.Add(a, pubFE)
				t.Subtract(a, pubFE)
				t.Multiply(a, pubFE)
				t.Square(a)
				t.Negate(a)
				t.Invert(a)
				t.Pow2k(a, 5)
				t.Sqrt(a)
				t.SqrtRatio(a, pubFE)
				t.ConditionalNegate(a, 1)
				t.ConditionalSelect(a, pubFE, 1)
				_ = a.Equal(pubFE)
				_ = a.IsZero()
				_ = a.IsOdd()
				_ = a.Bytes()
			}
		}, vars: 1},
		{zeroOK: true, name: "field.decode", prep: func(s c17Secret, v int) func() {
			arr := arr32(oracle.Mod(s.v, bigP))
			wide := append(b32(s.v), b32(oracle.MulM(s.v, s.v, n))[:16]...)
			return func() {
				_, _ = hk.NewFEFromCanonicalBytes(arr)
				hk.NewFE().SetBytes(arr)
				hk.NewFE().SetWideBytes(wide)
			}
		}, vars: 1},
		{zeroOK: true, name: "ScalarMult", prep: func(s c17Secret, v int) func() {
			a, P := scalarFromBig(s.v), pubPoint(v)
			return func() { new(Point).ScalarMult(a, P) }
		}, vars: 3},
		{zeroOK: true, name: "ScalarBaseMult", prep: func(s c17Secret, v int) func() {
			a := scalarFromBig(s.v)
			return func() { new(Point).ScalarBaseMult(a) }
		}, vars: 1},
		{zeroOK: true, name: "MultiScalarMult", prep: func(s c17Secret, v int) func() {
			l := []int{2, 3, 8}[v%3]
			if v >= 6 {
				l = 1 // a batch of one is delegated to the single-scalar multiply
			}
			ss, ps := make([]*Scalar, l), make([]*Point, l)
			for i := range ss {
				ss[i] = scalarFromBig(oracle.Mod(new(big.Int).Add(oracle.MulM(s.v, big.NewInt(int64(2*i+1)), n), big.NewInt(int64(i))), n))
				if v >= 3 {
					// only entry (v-3)%l is the secret itself, the others are fixed non-zero scalars
					if i == (v-3)%l {
						ss[i] = scalarFromBig(s.v)
					} else {
						ss[i] = scalarFromBig(big.NewInt(int64(0x1234567 + i)))
					}
				}
				ps[i] = pubPoint(i)
			}
			return func() { new(Point).MultiScalarMult(ss, ps) }
		}, vars: 7},
		{name: "Point.ops-on-secret-point", prep: func(s c17Secret, v int) func() {
			Q := new(Point).ScalarBaseMult(scalarFromBig(s.v)) // secret non-identity point in a "natural" representative
			P := pubPoint(v)
			return func() {
				t := new(Point)
				t.Add(Q, P)
				t.Subtract(P, Q)
				t.Double(Q)
				t.Negate(Q)
				t.ConditionalNegate(Q, 1)
				t.ConditionalSelect(Q, P, 0)
				t.Set(Q)
				_ = Q.Equal(P)
				_ = Q.IsIdentity()
				_ = Q.IsYOdd()
				_ = Q.CompressedBytes()
				_ = Q.UncompressedBytes()
				_, _ = Q.XBytes()
			}
		}, vars: 2},
		{name: "NewPrivateKey", prep: func(s c17Secret, v int) func() {
			bts := b32(s.v)
			return func() {
				k, _ := secec.NewPrivateKey(bts)
				_ = k.Bytes()
				_ = k.Scalar()
				_ = k.PublicKey()
			}
		}, vars: 1},
		// process state: a fixed key K0 was imported just before.  K0 is itself one of the
		// secrets, so a fast path / cache keyed on "same secret as last time" takes a different
		// path for exactly that secret (a branch on secret equality).
		{name: "NewPrivateKey/after-importing-K0", prep: func(s c17Secret, v int) func() {
			k0 := b32(mustHexBig("5555555555555555555555555555555555555555555555555555555555555555"))
			bts := b32(s.v)
			return func() {
				switch v {
				case 0:
					_, _ = secec.NewPrivateKey(k0)
					k, _ := secec.NewPrivateKey(bts)
					_ = k.PublicKey()
				case 1:
					_, _ = secec.NewPrivateKey(k0)
					_, _ = bitcoin.NewSchnorrPrivateKey(bts)
				default:
					_, _ = bitcoin.NewSchnorrPrivateKey(k0)
					k, _ := secec.NewPrivateKeyFromScalar(scalarFromBig(s.v))
					_ = k.PublicKey()
				}
			}
		}, vars: 3},
		{name: "NewPrivateKeyFromScalar", prep: func(s c17Secret, v int) func() {
			a := scalarFromBig(s.v)
			return func() { _, _ = secec.NewPrivateKeyFromScalar(a) }
		}, vars: 1},
		{name: "ECDH", prep: func(s c17Secret, v int) func() {
			k := mustPriv(s.v)
			return func() { _, _ = k.ECDH(peer) }
		}, vars: 1},
		{name: "SignRaw/hedged", prep: func(s c17Secret, v int) func() {
			k := mustPriv(s.v)
			return func() { _, _, _, _ = k.SignRaw(&fixedReader{data: entropy}, digest) }
		}, vars: 1},
		{name: "SignRaw/rfc6979", prep: func(s c17Secret, v int) func() {
			k := mustPriv(s.v)
			return func() { _, _, _, _ = k.SignRaw(secec.RFC6979SHA256(), digest) }
		}, vars: 1},
		{name: "Sign/encodings+selfverify", prep: func(s c17Secret, v int) func() {
			k := mustPriv(s.v)
			opts := &secec.ECDSAOptions{Encoding: secec.SignatureEncoding(v % 3), SelfVerify: v >= 3}
			return func() { _, _ = k.Sign(&fixedReader{data: entropy}, digest, opts) }
		}, vars: 6, shape: func(s c17Secret, v int) string {
			if secec.SignatureEncoding(v%3) != secec.EncodingASN1 {
				return "" // fixed-length encodings
			}
			sig, err := mustPriv(s.v).Sign(&fixedReader{data: entropy}, digest, &secec.ECDSAOptions{Encoding: secec.EncodingASN1})
			if err != nil || len(sig) < 8 {
				return "error"
			}
			rl := int(sig[3])
			if 4+rl+2 > len(sig) {
				return "odd"
			}
			sl := int(sig[4+rl+1])
			return fmt.Sprintf("der:len=%d,r=%d/pad=%v,s=%d/pad=%v", len(sig), rl, sig[4] == 0, sl, sig[4+rl+2] == 0)
		}},
		// the per-signature nonce is a secret too: fixed key and digest, the 32 entropy
		// bytes (hence the nonce, R and s) range over the secret set
		{zeroOK: true, name: "SignRaw/secret-entropy(nonce varies)", prep: func(s c17Secret, v int) func() {
			k := mustPriv(mustHexBig("00c9afa9d845ba75166b5c215767b1d6934e50c3db36e89b127b8a622b120f67"))
			ent := b32(s.v)
			return func() { _, _, _, _ = k.SignRaw(&fixedReader{data: ent}, digest) }
		}, vars: 1},
		{zeroOK: true, name: "Schnorr.Sign/secret-aux(nonce varies)", prep: func(s c17Secret, v int) func() {
			k, _ := bitcoin.NewSchnorrPrivateKey(b32(mustHexBig("00c9afa9d845ba75166b5c215767b1d6934e50c3db36e89b127b8a622b120f67")))
			aux := b32(s.v)
			return func() { _, _ = k.Sign(&fixedReader{data: aux}, msg, nil) }
		}, vars: 1},
		{name: "NewSchnorrPrivateKey", prep: func(s c17Secret, v int) func() {
			bts := b32(s.v)
			return func() { _, _ = bitcoin.NewSchnorrPrivateKey(bts) }
		}, vars: 1},
		{name: "NewSchnorrPrivateKeyFromECDSA", prep: func(s c17Secret, v int) func() {
			k := mustPriv(s.v)
			return func() { bitcoin.NewSchnorrPrivateKeyFromECDSA(k) }
		}, vars: 1},
		{name: "Schnorr.Sign", prep: func(s c17Secret, v int) func() {
			k, _ := bitcoin.NewSchnorrPrivateKey(b32(s.v))
			return func() { _, _ = k.Sign(&fixedReader{data: entropy}, msg, nil) }
		}, vars: 1},
	}
	if hk.HaveSecec {
		ops = append(ops, c17Op{name: "sampleRandomScalar(in-range stream)", prep: func(s c17Secret, v int) func() {
			stream := b32(s.v)
			return func() { _, _ = hk.SampleRandomScalar(&fixedReader{data: stream}) }
		}, vars: 1})
	}
	for _, o := range ops {
		r.Require("c17:op:" + o.name)
	}
	r.Require("c17:single-fingerprint")
	if len(secrets) < 48 {
		r.Inconclusive("only %d secrets", len(secrets))
	}
	type cfg struct {
		op      c17Op
		variant int
	}
	var cfgs []cfg
	for _, o := range ops {
		for v := 0; v < o.vars; v++ {
			cfgs = append(cfgs, cfg{o, v})
		}
	}
	summary := map[string]map[string]any{}
	r.Seq("c17/trace-equivalence", len(cfgs), func(w *mon.W, i int) {
		c := cfgs[i]
		type bucket struct {
			base   c17Snap
			first  int
			member int
		}
		buckets := map[string]*bucket{}
		var base c17Snap
		// warm-up, untraced: whatever an operation sets up on its FIRST use in a process
		// (tables unpacked behind a sync.Once, memoised public constants) depends on the
		// call history, not on the secret; it must not count against the first secret
		for wu := 0; wu < 2; wu++ {
			ws := secrets[(3+7*wu)%len(secrets)]
			if ws.v.Sign() == 0 && !c.op.zeroOK {
				ws = secrets[1]
			}
			c.op.prep(ws, c.variant)()
		}
		for si, s := range secrets {
			if s.v.Sign() == 0 && !c.op.zeroOK {
				continue
			}
			sh := ""
			if c.op.shape != nil {
				sh = c.op.shape(s, c.variant)
			}
			f := c.op.prep(s, c.variant)
			secp256k1.VerifInstrReset()
			f()
			w.Case(true, []byte(c.op.name), []byte{byte(c.variant)}, b32(s.v))
			if vt := c17Vartime(); vt != "" {
				w.Fail("c17/vartime/"+c.op.name, fmt.Sprintf("%s (variant %d) with secret class %q ran a routine documented as variable-time: %s", c.op.name, c.variant, s.class, vt), "secret", hb(s.v))
				return
			}
			b := buckets[sh]
			if b == nil {
				b = &bucket{base: c17Take(), first: si}
				buckets[sh] = b
				if len(buckets) == 1 {
					base = b.base
				}
			}
			b.member++
			if b.first == si {
				continue
			}
			if d := c17Diff(b.base); d != "" {
				shNote := ""
				if sh != "" {
					shNote = " (both published outputs have the shape " + sh + ")"
				}
				w.Fail("c17/trace/"+c.op.name, fmt.Sprintf("%s (variant %d): control flow or lookup pattern depends on the secret%s: %s [first secret %x (%s), this secret %x (%s)]", c.op.name, c.variant, shNote, d, secrets[b.first].v, secrets[b.first].class, s.v, s.class), "secret_a", hb(secrets[b.first].v), "secret_b", hb(s.v))
				return
			}
		}
		compared, shapes := 0, map[string]int{}
		for sh, b := range buckets {
			if b.member > 1 {
				compared += b.member
			}
			if sh != "" {
				shapes[sh] = b.member
			}
		}
		if compared < len(secrets)/2 {
			r.Inconclusive("%s (variant %d): only %d of %d secrets fell into an output-shape bucket with a second member", c.op.name, c.variant, compared, len(secrets))
		}
		w.Class("c17:op:" + c.op.name)
		w.Class("c17:single-fingerprint")
		summary[fmt.Sprintf("%s#%d", c.op.name, c.variant)] = map[string]any{"secrets": len(secrets), "secrets_compared": compared, "blocks_executed": base.nonzero, "index_events": base.idxCount, "distinct_fingerprints_per_output_shape": 1, "published_output_shapes": shapes}
		if i < 3 {
			w.Sample(map[string]any{"op": c.op.name, "variant": c.variant, "secrets": len(secrets), "blocks_executed": base.nonzero, "index_events_per_call": base.idxCount})
		}
	})
	r.Extra("per_operation", summary)
	names := make([]string, 0, len(summary))
	for k := range summary {
		names = append(names, k)
	}
	sort.Strings(names)
	_ = os.Getenv
}

func mustHexBig(s string) *big.Int {
	v, ok := new(big.Int).SetString(s, 16)
	if !ok {
		panic("bad hex")
	}
	return v
}
