//go:build verif && verif_instr

package props

import (
	"fmt"
	"os"
	"runtime"
	"runtime/debug"
	"sort"
	"strings"
	"time"

	secp256k1 "gitlab.com/yawning/secp256k1-voi"

	"verifharness/mon"
)

func init() { Register("C17", runC17) }

type c17Snap struct {
	counts   [][]uint32
	idxHash  uint64
	idxCount uint64
	idxEv    [][2]uint64
	nonzero  int
}

func c17Take() c17Snap {
	var s c17Snap
	for _, f := range secp256k1.VerifInstrFiles() {
		c := append([]uint32{}, f.Count...)
		for _, x := range c {
			if x != 0 {
				s.nonzero++
			}
		}
		s.counts = append(s.counts, c)
	}
	h, c, ev := secp256k1.VerifInstrIdx()
	s.idxHash, s.idxCount = h, c
	s.idxEv = append([][2]uint64{}, ev...)
	return s
}

func c17FuncOf(f *secp256k1.VerifInstrFile, block int) string {
	line := int(f.Pos[3*block])
	for _, fr := range f.Funcs {
		if line >= fr.Start && line <= fr.End {
			return fr.Name
		}
	}
	return "?"
}

// c17Diff returns a description of the first difference between the
// current counters / index log and the baseline, or "".
func c17Diff(base c17Snap) string {
	files := secp256k1.VerifInstrFiles()
	for fi, f := range files {
		for bi, c := range f.Count {
			if c != base.counts[fi][bi] {
				return fmt.Sprintf("basic block %s:%d-%d (func %s) executed %d times for the first secret and %d times for this one", f.Name, f.Pos[3*bi], f.Pos[3*bi+1], c17FuncOf(f, bi), base.counts[fi][bi], c)
			}
		}
	}
	h, c, ev := secp256k1.VerifInstrIdx()
	if h != base.idxHash || c != base.idxCount {
		for i := 0; i < len(ev) && i < len(base.idxEv); i++ {
			if ev[i] != base.idxEv[i] {
				return fmt.Sprintf("index/slice-bound event #%d: site %d used value %d for the first secret and site %d value %d for this one (sites: sites.json of the instrumenter)", i, base.idxEv[i][0], base.idxEv[i][1], ev[i][0], ev[i][1])
			}
		}
		return fmt.Sprintf("index log differs: %d events vs %d events", base.idxCount, c)
	}
	return ""
}

// c17Vartime reports an executed block inside a function documented as
// variable-time.
func c17Vartime() string {
	for _, f := range secp256k1.VerifInstrFiles() {
		for bi, c := range f.Count {
			if c != 0 {
				if fn := c17FuncOf(f, bi); strings.Contains(fn, "Vartime") {
					return fmt.Sprintf("%s (%s:%d) was executed %d times", fn, f.Name, f.Pos[3*bi], c)
				}
			}
		}
	}
	return ""
}

func runC17(r *mon.Run) {
	if len(secp256k1.VerifInstrFiles()) == 0 {
		r.Inconclusive("instrumentation registry is empty")
		return
	}
	secrets := c17Secrets(r.Seed, r.N(16, 420))
	r.Extra("secrets", len(secrets))
	blocks := 0
	for _, f := range secp256k1.VerifInstrFiles() {
		blocks += len(f.Count)
	}
	r.Extra("instrumented_files", len(secp256k1.VerifInstrFiles()))
	r.Extra("instrumented_blocks", blocks)

	ops := c17Ops()
	for _, o := range ops {
		r.Require("c17:op:" + o.name)
	}
	r.Require("c17:single-fingerprint")
	if len(secrets) < 48 {
		r.Inconclusive("only %d secrets", len(secrets))
	}
	type cfg struct {
		op      c17Op
		variant int
	}
	var cfgs []cfg
	for _, o := range ops {
		for v := 0; v < o.vars; v++ {
			cfgs = append(cfgs, cfg{o, v})
		}
	}
	summary := map[string]map[string]any{}
	r.Seq("c17/trace-equivalence", len(cfgs), func(w *mon.W, i int) {
		c := cfgs[i]
		type bucket struct {
			base   c17Snap
			first  int
			member int
		}
		buckets := map[string]*bucket{}
		var base c17Snap
		// warm-up, untraced: whatever an operation sets up on its FIRST use in a process
		// (tables unpacked behind a sync.Once, memoised public constants) depends on the
		// call history, not on the secret; it must not count against the first secret
		for wu := 0; wu < 2; wu++ {
			ws := secrets[(3+7*wu)%len(secrets)]
			if ws.v.Sign() == 0 && !c.op.zeroOK {
				ws = secrets[1]
			}
			c.op.prep(ws, c.variant)()
		}
		used := 0
		for si, s := range secrets {
			if s.v.Sign() == 0 && !c.op.zeroOK {
				continue
			}
			if c.op.maxSecrets > 0 && (used >= c.op.maxSecrets || si%(1+len(secrets)/c.op.maxSecrets) != 0) && !(c.op.derived && s.class == "pattern-55") {
				continue
			}
			used++
			sh := ""
			if c.op.shape != nil {
				sh = c.op.shape(s, c.variant)
			}
			f := c.op.prep(s, c.variant)
			secp256k1.VerifInstrReset()
			f()
			w.Case(true, []byte(c.op.name), []byte{byte(c.variant)}, b32(s.v))
			if vt := c17Vartime(); vt != "" {
				w.Fail("c17/vartime/"+c.op.name, fmt.Sprintf("%s (variant %d) with secret class %q ran a routine documented as variable-time: %s", c.op.name, c.variant, s.class, vt), "secret", hb(s.v))
				return
			}
			b := buckets[sh]
			if b == nil {
				b = &bucket{base: c17Take(), first: si}
				buckets[sh] = b
				if len(buckets) == 1 {
					base = b.base
				}
			}
			b.member++
			if b.first == si {
				continue
			}
			if d := c17Diff(b.base); d != "" {
				// The block counters are process-wide.  Work the library does asynchronously - finalizers and
				// cleanups, which a collection starts on their own goroutine whenever it finds garbage -
				// is charged to whichever secret is being traced at that moment.  A dependence on the secret
				// is reproducible; that is not.  So: let every pending finalizer run, switch the collector
				// off, trace the two secrets again, and judge that pair.
				// (the collector is off from the first quiesce on: what prep leaves behind - a pooled
				// object, garbage with finalizers - stays exactly as it is until the traced call)
				c17Quiesce()
				f0 := c.op.prep(secrets[b.first], c.variant)
				secp256k1.VerifInstrReset()
				f0()
				base2 := c17Take()
				c17Quiesce()
				f1 := c.op.prep(s, c.variant)
				secp256k1.VerifInstrReset()
				f1()
				d = c17Diff(base2)
				debug.SetGCPercent(c17GCPercent)
				GCStormPaused.Store(false)
				if d == "" {
					w.Class("c17:difference-not-reproduced-with-finalizers-drained-and-collector-off")
					if base.nonzero == b.base.nonzero && len(buckets) == 1 {
						base = base2
					}
					b.base = base2
					continue
				}
				shNote := ""
				if sh != "" {
					shNote = " (both published outputs have the shape " + sh + ")"
				}
				w.Fail("c17/trace/"+c.op.name, fmt.Sprintf("%s (variant %d): control flow or lookup pattern depends on the secret%s: %s [first secret %x (%s), this secret %x (%s)]", c.op.name, c.variant, shNote, d, secrets[b.first].v, secrets[b.first].class, s.v, s.class), "secret_a", hb(secrets[b.first].v), "secret_b", hb(s.v))
				return
			}
		}
		compared, shapes := 0, map[string]int{}
		for sh, b := range buckets {
			if b.member > 1 {
				compared += b.member
			}
			if sh != "" {
				shapes[sh] = b.member
			}
		}
		if (c.op.maxSecrets == 0 && compared < len(secrets)/2) || compared < 2 {
			r.Inconclusive("%s (variant %d): only %d of %d secrets fell into an output-shape bucket with a second member", c.op.name, c.variant, compared, len(secrets))
		}
		w.Class("c17:op:" + c.op.name)
		w.Class("c17:single-fingerprint")
		summary[fmt.Sprintf("%s#%d", c.op.name, c.variant)] = map[string]any{"secrets": len(secrets), "secrets_compared": compared, "blocks_executed": base.nonzero, "index_events": base.idxCount, "distinct_fingerprints_per_output_shape": 1, "published_output_shapes": shapes}
		if i < 3 {
			w.Sample(map[string]any{"op": c.op.name, "variant": c.variant, "secrets": len(secrets), "blocks_executed": base.nonzero, "index_events_per_call": base.idxCount})
		}
	})
	r.Extra("per_operation", summary)
	names := make([]string, 0, len(summary))
	for k := range summary {
		names = append(names, k)
	}
	sort.Strings(names)
	_ = os.Getenv
}

var c17GCPercent = 400

type c17Sentinel struct {
	p   *int
	pad [48]byte
}

//go:noinline
func c17PlantSentinel(done chan struct{}) {
	s := &c17Sentinel{p: new(int)}
	runtime.SetFinalizer(s, func(*c17Sentinel) { close(done) })
}

// c17Quiesce lets every finalizer that is already due run to completion and leaves the collector
// switched off (the caller switches it on again): a full collection queues what is due, a sentinel
// planted afterwards is finalized by the next collection, behind everything queued before it.
func c17Quiesce() {
	GCStormPaused.Store(true)
	if p := debug.SetGCPercent(-1); p >= 0 {
		c17GCPercent = p
	}
	runtime.GC()
	done := make(chan struct{})
	c17PlantSentinel(done)
	for i := 0; i < 20; i++ {
		runtime.GC()
		select {
		case <-done:
			return
		case <-time.After(20 * time.Millisecond):
		}
	}
}
