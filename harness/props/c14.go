package props

import (
	"bytes"
	"crypto"
	"fmt"
	"io"
	"math/big"
	"runtime"
	"sync"

	secp256k1 "gitlab.com/yawning/secp256k1-voi"
	"gitlab.com/yawning/secp256k1-voi/secec"
	"gitlab.com/yawning/secp256k1-voi/secec/bitcoin"

	"verifharness/gen"
	"verifharness/hk"
	"verifharness/mon"
	"verifharness/oracle"
)

func init() { Register("C14", runC14) }

func runC14(r *mon.Run) {
	n := bigN
	for _, c := range []string{"c14:Py-even,Ry-even", "c14:Py-even,Ry-odd", "c14:Py-odd,Ry-even", "c14:Py-odd,Ry-odd", "c14:aux=zero", "c14:aux=ones", "c14:aux=one-hot-byte", "c14:aux=only-word-0", "c14:aux=only-word-1", "c14:aux=only-word-2", "c14:aux=only-word-3", "c14:aux=one-word-zero", "c14:concurrent-sign", "c14:signer-opts-variety", "c14:msglen=0", "c14:msglen!=32",
		"c14:reader:fail<32", "c14:reader:chunks", "c14:frompoint:odd-y", "c14:frompoint:even-y", "c14:frompoint:identity", "c14:frompoint:rep-nontrivial", "c14:fromECDSA"} {
		r.Require(c)
	}
	if !hk.HaveBtc {
		r.Note("hook group verif_btc unavailable: signSchnorr/verifySchnorrSelf observed only through the public Sign")
	}
	r.Each("c14/sign", r.N(2500, 100000), func(w *mon.W, i int) {
		rng := w.Rng
		d, dc := keyValue(rng)
		P := oracle.MulG(d)
		aux := rng.Bytes(32)
		switch i % 6 {
		case 0:
			aux = make([]byte, 32)
			w.Class("c14:aux=zero")
		case 1:
			aux = bytes.Repeat([]byte{0xff}, 32)
			w.Class("c14:aux=ones")
		case 2:
			// structured aux (BIP-340 allows a counter or timestamp): mostly zero with a
			// non-zero byte / 64-bit word at one position, in either byte order position
			aux = make([]byte, 32)
			switch rng.Intn(3) {
			case 0:
				aux[(i/6)%32] = byte(1 + rng.Intn(255))
				w.Class("c14:aux=one-hot-byte")
			case 1:
				wd := (i / 6) % 4
				rng.Fill(aux[8*wd : 8*wd+8])
				aux[8*wd] |= 1
				w.Class(fmt.Sprintf("c14:aux=only-word-%d", wd))
			default:
				wd := (i / 6) % 4
				rng.Fill(aux)
				for j := 8 * wd; j < 8*wd+8; j++ {
					aux[j] = 0
				}
				w.Class("c14:aux=one-word-zero")
			}
		}
		ml := []int{32, 0, 1, 31, 33, 64, 100, 300}[i%8]
		if i%5 == 0 {
			ml = rng.Intn(301)
		}
		msg := rng.Bytes(ml)
		if ml == 0 {
			w.Class("c14:msglen=0")
		}
		if ml != 32 {
			w.Class("c14:msglen!=32")
		}
		want := oracle.BIP340Sign(d, aux, msg)
		if want == nil {
			return // k' = 0: unreachable in practice
		}
		// class by parities (oracle side)
		R := oracle.LiftX(oracle.FromBytes(want[:32]), 0)
		dEven := new(big.Int).Set(d)
		if P.Y.Bit(0) == 1 {
			dEven.Sub(n, d)
		}
		e := oracle.BIP340Challenge(want[:32], b32(P.X), msg)
		kUsed := oracle.SubM(oracle.FromBytes(want[32:]), oracle.MulM(e, dEven, n), n) // the (possibly negated) nonce: even-y R
		_ = R
		// the raw nonce k' had odd-y R iff negation happened; recompute k' from the spec
		db := b32(dEven)
		ha := oracle.TaggedHash("BIP0340/aux", aux)
		t := make([]byte, 32)
		for j := range t {
			t[j] = db[j] ^ ha[j]
		}
		k0 := oracle.Mod(oracle.FromBytes(oracle.TaggedHash("BIP0340/nonce", t, b32(P.X), msg)), n)
		ry := "even"
		if k0.Cmp(kUsed) != 0 {
			ry = "odd"
		}
		py := "even"
		if P.Y.Bit(0) == 1 {
			py = "odd"
		}
		w.Class(fmt.Sprintf("c14:Py-%s,Ry-%s", py, ry))
		w.Case(true, []byte("sign"), b32(d), aux, msg)
		if i < 3 {
			w.Sample(map[string]any{"op": "SchnorrPrivateKey.Sign", "d": hb(d), "aux": hx(aux), "msg": hx(msg), "class": dc + fmt.Sprintf(",Py-%s,Ry-%s", py, ry)})
		}
		det := []any{"d", hb(d), "aux", hx(aux), "msg", hx(msg)}
		var sk *bitcoin.SchnorrPrivateKey
		var err error
		if i%2 == 0 {
			sk, err = bitcoin.NewSchnorrPrivateKey(b32(d))
		} else {
			sk = bitcoin.NewSchnorrPrivateKeyFromECDSA(mustPriv(d))
			w.Class("c14:fromECDSA")
		}
		if err != nil || sk == nil {
			w.Fail("c14/NewSchnorrPrivateKey", fmt.Sprintf("valid key rejected: %v", err), det...)
			return
		}
		keepMsg := append([]byte{}, msg...)
		rd := &fixedReader{data: append(append([]byte{}, aux...), rng.Bytes(40)...)}
		if i%2 == 1 {
			hl, hcheck := hostileLayout(msg, rng.Bytes(16))
			s2, err2 := sk.Sign(&fixedReader{data: aux}, hl[0], nil)
			if err2 != nil || !bytes.Equal(s2, want) {
				w.Fail("c14/Sign:layout", fmt.Sprintf("Sign over a message slice with spare capacity = %x (err %v), BIP-340 Sign(d, aux, m) = %x", s2, err2, want), det...)
			}
			if m := hcheck(); m != "" {
				w.Fail("c14/Sign:buffer", "Sign wrote to the message buffer or beyond it: "+m, det...)
			}
		}
		if i%3 == 2 {
			// the caller overwrites every value the key objects hand out, then signs
			for _, b := range [][]byte{sk.Bytes(), sk.PublicKey().Bytes(), sk.Scalar().Bytes(), sk.PublicKey().Point().CompressedBytes()} {
				for j := range b {
					b[j] += 0xc3
				}
			}
			hp := sk.PublicKey().Point()
			hp.Double(hp)
			hs := sk.Scalar()
			hs.Add(hs, hs)
		}
		// the opts argument of crypto.Signer carries no meaning for BIP-340 (the message is
		// signed as is): every value gives the same signature
		if i%4 == 1 {
			for _, o := range []crypto.SignerOpts{crypto.Hash(0), crypto.SHA256, crypto.SHA512, crypto.SHA1, &secec.ECDSAOptions{}, &secec.ECDSAOptions{Hash: crypto.SHA384, Encoding: secec.EncodingCompact}} {
				so, err := sk.Sign(&fixedReader{data: aux}, msg, o)
				if err != nil || !bytes.Equal(so, want) {
					w.Fail("c14/Sign:opts", fmt.Sprintf("Sign with opts %T %v over a %d-byte message = %x (err %v), BIP-340 Sign(d, aux, m) = %x", o, o, len(msg), so, err, want), det...)
				}
			}
			w.Class("c14:signer-opts-variety")
		}
		if i%4 == 3 {
			// hostile (memory safe) auxiliary-randomness readers: one scribbles over the spare
			// capacity behind the 32 bytes it is asked for - the signature is still
			// BIP-340 Sign(d, aux, m); one changes the caller's message buffer while the
			// randomness is read - the signature is then valid for the message before or
			// after the change, and two such calls never pair one R with two different s
			w.Class("c14:hostile-reader")
			so, err := sk.Sign(&fixedReader{data: aux, spill: rng.Bytes(1 + rng.Intn(8)), chunk: gen.Pick(rng, 0, 1, 9)}, msg, nil)
			if err != nil || !bytes.Equal(so, want) {
				w.Fail("c14/Sign:reader-spill", fmt.Sprintf("Sign with a reader that scribbles over the spare capacity behind its 32 bytes = %x (err %v), BIP-340 Sign(d, aux, m) = %x", so, err, want), det...)
			}
			if len(msg) > 0 {
				var outs [][]byte
				posts := [][]byte{rng.Bytes(len(msg)), rng.Bytes(len(msg))}
				for _, pm := range posts {
					buf := append([]byte{}, msg...)
					rdm := &fixedReader{data: aux}
					rdm.onRead = func() { copy(buf, pm) }
					sm, err := sk.Sign(rdm, buf, nil)
					if err != nil {
						w.Fail("c14/Sign:message-changes", fmt.Sprintf("Sign failed when the message buffer changed during the randomness read: %v", err), det...)
						continue
					}
					if !oracle.BIP340Verify(b32(P.X), msg, sm) && !oracle.BIP340Verify(b32(P.X), pm, sm) {
						w.Fail("c14/Sign:message-changes", fmt.Sprintf("the message buffer changed from %x to %x during the randomness read; the signature %x is valid for neither (nonce and challenge computed from different snapshots)", msg, pm, sm), append(det, "msg_after", hx(pm))...)
					}
					outs = append(outs, sm)
				}
				if len(outs) == 2 && bytes.Equal(outs[0][:32], outs[1][:32]) && !bytes.Equal(outs[0][32:], outs[1][32:]) {
					w.Fail("c14/Sign:message-changes:nonce-reuse", fmt.Sprintf("two Sign calls (same key, aux and initial message; message buffer overwritten with different bytes during the randomness read) share R = %x but have different s: one nonce signed two different challenges", outs[0][:32]), det...)
				}
			}
		}
		sig, err := sk.Sign(rd, msg, nil)
		if err != nil {
			w.Fail("c14/Sign:err", err.Error(), det...)
			return
		}
		if !bytes.Equal(sig, want) {
			w.Fail("c14/Sign", fmt.Sprintf("Sign = %x, BIP-340 Sign(d, aux, m) = %x", sig, want), det...)
		}
		if rd.Consumed() != 32 {
			w.Fail("c14/Sign:consumed", fmt.Sprintf("Sign consumed %d bytes of auxiliary randomness, expected 32", rd.Consumed()), det...)
		}
		if !oracle.BIP340Verify(b32(P.X), msg, sig) {
			w.Fail("c14/Sign:verify", "the signature does not pass BIP-340 Verify under the x-only key", det...)
		}
		if !sk.PublicKey().Verify(msg, sig) {
			w.Fail("c14/Sign:libverify", "the library rejects its own Schnorr signature", det...)
		}
		if !bytes.Equal(msg, keepMsg) {
			w.Fail("c14/Sign:operand", "Sign modified the message")
		}
		if hk.HaveBtc {
			var a [32]byte
			copy(a[:], aux)
			s2, err := hk.SignSchnorr(&a, sk, msg)
			if err != nil || !bytes.Equal(s2, want) {
				w.Fail("c14/signSchnorr", fmt.Sprintf("signSchnorr = %x err=%v, expected %x", s2, err, want), det...)
			}
			if !hk.VerifySchnorrSelf(sk, msg, want) {
				w.Fail("c14/verifySchnorrSelf", "self-verification rejects a valid signature", det...)
			}
			bad := append([]byte{}, want...)
			bad[rng.Intn(64)] ^= 1 << uint(rng.Intn(8))
			if hk.VerifySchnorrSelf(sk, msg, bad) != oracle.BIP340Verify(b32(P.X), msg, bad) {
				w.Fail("c14/verifySchnorrSelf:corrupt", "self-verification disagrees with BIP-340 Verify on a corrupted signature", det...)
			}
			if g := hk.SchnorrSigningScalar(sk); !bytes.Equal(g, b32(dEven)) {
				w.Fail("c14/signing-scalar", fmt.Sprintf("signing scalar = %x, expected d negated to the even-y key = %x", g, dEven), det...)
			}
		}
		// key accessors
		if !bytes.Equal(sk.Bytes(), b32(d)) || bigFromScalar(sk.Scalar()).Cmp(d) != 0 {
			w.Fail("c14/key:Bytes", fmt.Sprintf("private key Bytes()/Scalar() = %x, expected d' = %x", sk.Bytes(), d), det...)
		}
		checkSchnorrPub(w, "PrivateKey.PublicKey", sk.PublicKey(), P)
		if pk, ok := sk.Public().(*bitcoin.SchnorrPublicKey); !ok || !pk.Equal(sk.PublicKey()) {
			w.Fail("c14/key:Public", "Public() does not return the public key")
		}
		// reader faults
		switch i % 4 {
		case 0:
			j := rng.Intn(32)
			w.Class("c14:reader:fail<32")
			if s3, err := sk.Sign(&fixedReader{data: aux[:j], errAfter: errScripted}, msg, nil); err == nil || s3 != nil {
				w.Fail("c14/Sign:reader-fail", fmt.Sprintf("Sign produced a signature although the randomness source failed after %d bytes", j), det...)
			}
		case 1:
			w.Class("c14:reader:chunks")
			if s3, err := sk.Sign(&fixedReader{data: aux, chunk: 1 + rng.Intn(9)}, msg, nil); err != nil || !bytes.Equal(s3, want) {
				w.Fail("c14/Sign:reader-chunks", "a chunked reader delivering the same 32 bytes gives a different signature", det...)
			}
			if s3, err := sk.Sign(&fixedReader{data: aux, chunk: gen.Pick(rng, 0, 7), stalls: gen.Pick(rng, 2, 100, 101, 400)}, msg, nil); err != nil || !bytes.Equal(s3, want) {
				w.Fail("c14/Sign:reader-stalls", "a reader that answers (0, nil) many times before delivering the same 32 bytes gives a different signature", det...)
			}
			if i%8 == 5 {
				// the same 32 bytes through the standard library's reader types and through a reader
				// offering every optional io interface
				for _, sr := range stdReaders(aux, rng.Bytes(24)) {
					s3, err := sk.Sign(sr.rd, msg, nil)
					if err != nil || !bytes.Equal(s3, want) {
						w.Fail("c14/Sign:reader-std-type", fmt.Sprintf("a %s delivering the same 32 bytes gives %x (err %v)", sr.name, s3, err), det...)
					}
					if l := sr.left(); l >= 0 && sr.total-l != 32 {
						w.Fail("c14/Sign:reader-std-type:consumed", fmt.Sprintf("Sign took %d bytes from a %s holding %d, expected exactly 32", sr.total-l, sr.name, sr.total), det...)
					}
					if sr.done != nil {
						sr.done()
					}
				}
				w.Class("c14:reader:std-types")
			}
			if i%8 == 1 {
				w.Class("c14:reader:async-fill+stack-move")
				if s3, err := sk.Sign(&fixedReader{data: aux, async: true}, msg, nil); err != nil || !bytes.Equal(s3, want) {
					w.Fail("c14/Sign:reader-async", fmt.Sprintf("a reader whose bytes are written by another goroutine while the signer's stack moves gives %x (err %v)", s3, err), det...)
				}
				// a key object that nobody references after the call, and a collection (with
				// finalizers) in the middle of it
				one, err1 := bitcoin.NewSchnorrPrivateKey(b32(d))
				if err1 == nil {
					s4, err := one.Sign(&fixedReader{data: aux, onRead: func() { runtime.GC(); runtime.GC(); runtime.Gosched() }}, msg, nil)
					if err != nil || !bytes.Equal(s4, want) {
						w.Fail("c14/Sign:one-shot-key+gc", fmt.Sprintf("Sign with a key object that is not used afterwards, a garbage collection running during the entropy read: %x (err %v)", s4, err), det...)
					}
				}
			}
		case 2:
			// nil reader: system randomness; must still verify
			if s3, err := sk.Sign(nil, msg, nil); err != nil || !oracle.BIP340Verify(b32(P.X), msg, s3) {
				w.Fail("c14/Sign:nil-reader", "Sign with the system randomness source does not produce a valid signature", det...)
			}
		}
	})

	// --- key pairs derived from ECDSA keys and curve points -----------------------------------------
	pool := knownPointPool(r.Seed, r.N(10, 40))
	r.Each("c14/from-point", r.N(3000, 120000), func(w *mon.W, i int) {
		rng := w.Rng
		P := pool[rng.Intn(len(pool))]
		if i%7 == 0 {
			P = pool[0]
		}
		z, cz := repZ(rng)
		if cz != "Z=1" {
			w.Class("c14:frompoint:rep-nontrivial")
		}
		lp := pointRep(P.P, z)
		before := snapPoint(lp)
		k, err := bitcoin.NewSchnorrPublicKeyFromPoint(lp)
		w.Case(true, []byte("frompoint"), []byte(P.Name), b32(z))
		if P.P.Inf {
			w.Class("c14:frompoint:identity")
			if err == nil || k != nil {
				w.Fail("c14/NewSchnorrPublicKeyFromPoint:identity", "the identity was accepted")
			}
			return
		}
		if P.P.Y.Bit(0) == 1 {
			w.Class("c14:frompoint:odd-y")
		} else {
			w.Class("c14:frompoint:even-y")
		}
		if err != nil {
			w.Fail("c14/NewSchnorrPublicKeyFromPoint", fmt.Sprintf("valid point %s[%s] rejected: %v", P.Name, cz, err))
			return
		}
		checkSchnorrPub(w, "NewSchnorrPublicKeyFromPoint", k, P.P)
		if !snapPoint(lp).equal(before) {
			w.Fail("c14/NewSchnorrPublicKeyFromPoint:operand", "the constructor modified its argument")
		}
		// the caller goes on using ITS point (accumulator patterns: acc.Add(acc, G) per key)
		wreckPoint(lp, i)
		w.Class("c14:frompoint:source-destroyed-afterwards")
		checkSchnorrPub(w, "NewSchnorrPublicKeyFromPoint (after the caller changed the point it had passed)", k, P.P)
		k2 := bitcoin.NewSchnorrPublicKeyFromECDSA(mustPub(P.P))
		checkSchnorrPub(w, "NewSchnorrPublicKeyFromECDSA", k2, P.P)
		if !k.Equal(k2) {
			w.Fail("c14/Equal", "the same x-only key built two ways is not Equal")
		}
		if P.K != nil && P.K.Sign() != 0 {
			// signatures by the private key verify under the from-point key
			sk, err := bitcoin.NewSchnorrPrivateKey(b32(P.K))
			if err == nil {
				msg := rng.Bytes(rng.Intn(80))
				sig, err := sk.Sign(&fixedReader{data: rng.Bytes(32)}, msg, nil)
				if err != nil || !k.Verify(msg, sig) {
					w.Fail("c14/from-point:verify", "a signature by the matching private key does not verify under the from-point key")
				}
			}
		}
		if p, _ := mon.Panics(func() { _, _ = bitcoin.NewSchnorrPublicKeyFromPoint(new(secp256k1.Point)) }); !p && i%50 == 0 {
			w.Fail("c14/NewSchnorrPublicKeyFromPoint:uninitialised", "an uninitialised Point was accepted without a panic")
		}
	})

	r.Each("c14/generate", r.N(30, 300), func(w *mon.W, i int) {
		sk, err := bitcoin.GenerateSchnorrKey()
		if err != nil {
			w.Fail("c14/GenerateSchnorrKey", err.Error())
			return
		}
		d := oracle.FromBytes(sk.Bytes())
		w.Case(true, sk.Bytes())
		if d.Sign() == 0 || d.Cmp(n) >= 0 {
			w.Fail("c14/GenerateSchnorrKey:range", "generated key out of range")
			return
		}
		checkSchnorrPub(w, "GenerateSchnorrKey", sk.PublicKey(), oracle.MulG(d))
		_ = secec.PrivateKeySize
	})

	// --- the signature is a function of (key, aux, message) also when one key object signs
	// from several goroutines at once: every call has its own aux and message; the entropy
	// reader yields the processor between handing out the bytes and returning, which widens
	// the window between "aux read" and "aux used" (per-key scratch state shows here).
	r.Seq("c14/concurrent-sign", r.N(6, 60), func(w *mon.W, i int) {
		rng := w.Rng
		d, _ := keyValue(rng)
		sk, err := bitcoin.NewSchnorrPrivateKey(b32(d))
		if err != nil {
			w.Fail("c14/NewSchnorrPrivateKey", err.Error())
			return
		}
		const G, per = 8, 12
		type job struct{ aux, msg, sig []byte }
		jobs := make([][]job, G)
		for g := range jobs {
			for j := 0; j < per; j++ {
				jobs[g] = append(jobs[g], job{aux: rng.Bytes(32), msg: rng.Bytes(rng.Intn(80))})
			}
		}
		var wg sync.WaitGroup
		gate := make(chan struct{})
		for g := 0; g < G; g++ {
			wg.Add(1)
			go func(g int) {
				defer wg.Done()
				<-gate
				for j := range jobs[g] {
					sig, err := sk.Sign(&yieldingReader{data: jobs[g][j].aux}, jobs[g][j].msg, nil)
					if err == nil {
						jobs[g][j].sig = sig
					}
				}
			}(g)
		}
		close(gate)
		wg.Wait()
		w.ClassN("c14:concurrent-sign", G*per)
		for g := range jobs {
			for j, jb := range jobs[g] {
				w.Case(true, []byte("concurrent-sign"), b32(d), jb.aux, jb.msg)
				if want := oracle.BIP340Sign(d, jb.aux, jb.msg); !bytes.Equal(jb.sig, want) {
					w.Fail("c14/concurrent-sign", fmt.Sprintf("goroutine %d call %d: Sign on a shared key object returned %x, BIP-340 Sign(d, aux, m) for THIS call's aux and message is %x", g, j, jb.sig, want), "d", hb(d), "aux", hx(jb.aux), "msg", hx(jb.msg))
					return
				}
			}
		}
	})
	// results that are functions of the arguments alone do not depend on the process-wide system entropy stream
	runDegradedEntropy(r, "c14", r.N(30, 400), "schnorrsign")
}

// yieldingReader hands out its bytes and then yields the processor a few times
// before returning, so that other goroutines run between the read and its use.
type yieldingReader struct {
	data []byte
	pos  int
}

func (y *yieldingReader) Read(p []byte) (int, error) {
	n := copy(p, y.data[y.pos:])
	y.pos += n
	for i := 0; i < 4; i++ {
		runtime.Gosched()
	}
	if n == 0 {
		return 0, io.EOF
	}
	return n, nil
}

// checkSchnorrPub asserts the x-only key exposes the even-y point of p
// and its x-coordinate.
func checkSchnorrPub(w *mon.W, ctor string, k *bitcoin.SchnorrPublicKey, p *oracle.Pt) {
	even := p
	if p.Y.Bit(0) == 1 {
		even = oracle.Neg(p)
	}
	if g := k.Bytes(); !bytes.Equal(g, b32(p.X)) {
		w.Fail("c14/"+ctor+":Bytes", fmt.Sprintf("%s: Bytes() = %x, expected x = %x", ctor, g, p.X))
	}
	if msg := expectPoint(k.Point(), even); msg != "" {
		w.Fail("c14/"+ctor+":Point", ctor+": Point() is not the even-y point: "+msg)
	}
	k2, err := bitcoin.NewSchnorrPublicKey(b32(p.X))
	if err != nil || !k.Equal(k2) || !k2.Equal(k) {
		w.Fail("c14/"+ctor+":Equal", ctor+": key is not Equal to an import of its own bytes")
	}
}
