//go:build verif

package props

import (
	"bytes"
	"encoding/hex"
	"fmt"
	"math/big"

	"verifharness/gen"
	"verifharness/hk"
	"verifharness/mon"
	"verifharness/oracle"
)

func init() { Register("C01", runC01) }

func feAPI() *modAPI[hk.FE, *hk.FE] {
	api := &modAPI[hk.FE, *hk.FE]{
		name:   "p",
		m:      bigP,
		rawGet: func(e *hk.FE) ([4]uint64, bool) { return e.VerifRawLimbs(), true },
		rawSet: func(e *hk.FE, l [4]uint64) bool { e.VerifSetRawLimbs(l); return true },
	}
	if hk.HaveFiat {
		api.fiat = hk.FiatField
		api.reduce = hk.FieldReduceSaturated
	}
	return api
}

func runC01(r *mon.Run) {
	api := feAPI()
	m := bigP
	api.runCommon(r, r.N(30000, 1500000), r.N(9000, 300000), r.N(9000, 450000), r.N(9000, 450000))
	api.runFiat(r, r.N(18000, 900000))
	api.runHistories(r, r.N(150, 8000))
	if !hk.HaveFiat {
		r.Note("hook group verif_fiat unavailable: raw fiat entry points, pow3mod4, setShortBytes, reduceSaturated not driven")
	}

	// --- Pow2k, IsOdd, String, constructors ------------------------------
	r.Require("p:pow2k:k=1", "p:pow2k:k>=256", "p:isodd:odd", "p:isodd:even")
	r.Each("p/pow2k+parity+ctors", r.N(3000, 60000), func(w *mon.W, i int) {
		rng := w.Rng
		a, ca := rng.Value(m)
		k := uint(1 + i%300)
		if i%7 == 0 {
			k = uint(1 + rng.Intn(8))
		}
		if k == 1 {
			w.Class("p:pow2k:k=1")
		}
		if k >= 256 {
			w.Class("p:pow2k:k>=256")
		}
		ea := api.mk(rng, a)
		rcv := hk.NewFE()
		if i%2 == 1 {
			rcv = ea
		}
		rcv.Pow2k(ea, k)
		want := new(big.Int).Set(a)
		for j := uint(0); j < k; j++ {
			want = oracle.MulM(want, want, m)
		}
		w.Case(ca != "uniform" || i%2 == 1, []byte("pow2k"), b32(a), []byte(fmt.Sprint(k, i%2)))
		if got, bad := api.val(rcv); bad != "" || got.Cmp(want) != 0 {
			w.Fail("p/Pow2k", fmt.Sprintf("Pow2k(%x, %d) = %x, expected %x %s", a, k, got, want, bad), "a", hb(a), "k", k)
		}
		if i%50 == 0 {
			if p, _ := mon.Panics(func() { hk.NewFE().Pow2k(ea, 0) }); !p {
				w.Fail("p/Pow2k:k0", "Pow2k with k = 0 did not panic (documented: k MUST be non-zero)")
			}
		}
		// IsOdd is the parity of the canonical integer, not of the Montgomery form
		b, _ := rng.Value(m)
		eb := api.mk(rng, b)
		if b.Bit(0) == 1 {
			w.Class("p:isodd:odd")
		} else {
			w.Class("p:isodd:even")
		}
		if g := eb.IsOdd(); g != uint64(b.Bit(0)) {
			w.Fail("p/IsOdd", fmt.Sprintf("IsOdd(%x) = %d", b, g), "a", hb(b))
		}
		if s := eb.String(); s != hex.EncodeToString(b32(b)) {
			w.Fail("p/String", fmt.Sprintf("String(%x) = %q", b, s), "a", hb(b))
		}
		u := rng.U64()
		if i%3 == 0 {
			u = gen.Pick(rng, uint64(0), 1, 1<<63, ^uint64(0), 1<<32+977, 977)
		}
		if got, bad := api.val(hk.NewFEFromUint64(u)); bad != "" || got.Cmp(new(big.Int).SetUint64(u)) != 0 {
			w.Fail("p/NewElementFromUint64", fmt.Sprintf("NewElementFromUint64(%#x) = %x %s", u, got, bad), "u", u)
		}
		if got, bad := api.val(hk.NewFEFrom(eb)); bad != "" || got.Cmp(b) != 0 {
			w.Fail("p/NewElementFrom", fmt.Sprintf("NewElementFrom(%x) = %x %s", b, got, bad))
		}
		// canonical constructors / predicates on any 32-byte string
		src, _ := rng.Bytes32Any(m)
		var arr [32]byte
		copy(arr[:], src)
		canonical := oracle.FromBytes(src).Cmp(m) < 0
		if g := hk.FEBytesAreCanonical(&arr); g != canonical {
			w.Fail("p/BytesAreCanonical", fmt.Sprintf("BytesAreCanonical(%x) = %v", src, g), "src", src)
		}
		fe, err := hk.NewFEFromCanonicalBytes(&arr)
		if canonical != (err == nil) || (err != nil && fe != nil) {
			w.Fail("p/NewElementFromCanonicalBytes", fmt.Sprintf("NewElementFromCanonicalBytes(%x): err=%v", src, err), "src", src)
		} else if err == nil {
			if got, bad := api.val(fe); bad != "" || got.Cmp(oracle.FromBytes(src)) != 0 {
				w.Fail("p/NewElementFromCanonicalBytes", fmt.Sprintf("NewElementFromCanonicalBytes(%x) = %x %s", src, got, bad), "src", src)
			}
		}
		prev := rng.Below(m)
		e := api.mk(rng, prev)
		pan, _ := mon.Panics(func() { e.MustSetCanonicalBytes(&arr) })
		got, bad := api.val(e)
		if pan == canonical {
			w.Fail("p/MustSetCanonicalBytes", fmt.Sprintf("MustSetCanonicalBytes(%x): panicked=%v", src, pan), "src", src)
		} else if bad != "" || (canonical && got.Cmp(oracle.FromBytes(src)) != 0) || (!canonical && got.Cmp(prev) != 0) {
			w.Fail("p/MustSetCanonicalBytes:value", fmt.Sprintf("MustSetCanonicalBytes(%x): receiver = %x %s", src, got, bad), "src", src)
		}
	})

	// --- Sqrt / SqrtRatio ---------------------------------------------------
	r.Require("p:sqrt:square", "p:sqrt:nonsquare", "p:sqrt:zero", "p:sqrtratio:qr", "p:sqrtratio:nqr", "p:sqrtratio:u=0", "p:sqrtratio:alias")
	eleven := big.NewInt(11)
	r.Each("p/sqrt", r.N(4000, 120000), func(w *mon.W, i int) {
		rng := w.Rng
		a, ca := rng.Value(m)
		if rng.Chance(1, 3) {
			t, _ := rng.Value(m)
			a = oracle.MulM(t, t, m) // guaranteed square
		}
		sq := oracle.IsSquareP(a)
		switch {
		case a.Sign() == 0:
			w.Class("p:sqrt:zero")
		case sq:
			w.Class("p:sqrt:square")
		default:
			w.Class("p:sqrt:nonsquare")
		}
		ea := api.mk(rng, a)
		rcv := api.mk(rng, rng.Below(m))
		if i%2 == 1 {
			rcv = ea
		}
		ret, flag := rcv.Sqrt(ea)
		got, bad := api.val(rcv)
		w.Case(ca != "uniform" || !sq, []byte("sqrt"), b32(a), []byte{byte(i % 2)})
		switch {
		case ret != rcv:
			w.Fail("p/Sqrt:ret", "Sqrt did not return its receiver")
		case bad != "":
			w.Fail("p/Sqrt:inv", bad, "a", hb(a))
		case flag != boolU64(sq):
			w.Fail("p/Sqrt:flag", fmt.Sprintf("Sqrt(%x) flag = %d, but is-square = %v", a, flag, sq), "a", hb(a))
		case sq && oracle.MulM(got, got, m).Cmp(a) != 0:
			w.Fail("p/Sqrt", fmt.Sprintf("Sqrt(%x) = %x, which does not square to the argument", a, got), "a", hb(a))
		case !sq && got.Sign() != 0:
			w.Fail("p/Sqrt:nonsquare", fmt.Sprintf("Sqrt(%x) of a non-square = %x, expected 0 with a cleared flag", a, got), "a", hb(a))
		}
		// SqrtRatio(u, v != 0): flag <=> u/v square ; y^2 v = u resp. Z u (Z = -11)
		u, _ := rng.Value(m)
		v, _ := rng.Value(m)
		if v.Sign() == 0 {
			v = big.NewInt(int64(1 + rng.Intn(9)))
		}
		if rng.Chance(1, 3) { // make u/v a square
			t, _ := rng.Value(m)
			u = oracle.MulM(oracle.MulM(t, t, m), v, m)
		}
		ratio := oracle.MulM(u, oracle.InvM(v, m), m)
		qr := oracle.IsSquareP(ratio)
		if u.Sign() == 0 {
			w.Class("p:sqrtratio:u=0")
		}
		if qr {
			w.Class("p:sqrtratio:qr")
		} else {
			w.Class("p:sqrtratio:nqr")
		}
		eu, ev := api.mk(rng, u), api.mk(rng, v)
		z := hk.NewFE()
		switch i % 4 {
		case 1:
			z = eu
			w.Class("p:sqrtratio:alias")
		case 2:
			z = ev
			w.Class("p:sqrtratio:alias")
		}
		if i%16 == 3 {
			ev = eu
			v = u
			if v.Sign() == 0 {
				return
			}
			ratio = big.NewInt(1)
			qr = true
		}
		_, fl := z.SqrtRatio(eu, ev)
		y, bad := api.val(z)
		w.Case(true, []byte("sqrtratio"), b32(u), b32(v), []byte{byte(i % 16)})
		if bad != "" {
			w.Fail("p/SqrtRatio:inv", bad, "u", hb(u), "v", hb(v))
			return
		}
		yyv := oracle.MulM(oracle.MulM(y, y, m), v, m)
		if fl != boolU64(qr) {
			w.Fail("p/SqrtRatio:flag", fmt.Sprintf("SqrtRatio(%x,%x) flag = %d, but u/v square = %v", u, v, fl, qr), "u", hb(u), "v", hb(v))
		} else if qr && yyv.Cmp(u) != 0 {
			w.Fail("p/SqrtRatio", fmt.Sprintf("SqrtRatio(%x,%x) = %x: y^2*v != u", u, v, y), "u", hb(u), "v", hb(v))
		} else if !qr && yyv.Cmp(oracle.MulM(oracle.NegM(eleven, m), u, m)) != 0 {
			w.Fail("p/SqrtRatio:nqr", fmt.Sprintf("SqrtRatio(%x,%x) = %x: y^2*v != Z*u for a non-square ratio", u, v, y), "u", hb(u), "v", hb(v))
		}
		if hk.HaveFiat && i%4 == 0 {
			// pow3mod4: x^((p-3)/4)
			e := new(big.Int).Rsh(new(big.Int).Sub(m, big.NewInt(3)), 2)
			ex := api.mk(rng, a)
			out := hk.NewFE()
			if i%8 == 0 {
				out = ex
			}
			hk.FieldPow3mod4(out, ex)
			if got, bad := api.val(out); bad != "" || got.Cmp(oracle.ExpM(a, e, m)) != 0 {
				w.Fail("p/pow3mod4", fmt.Sprintf("pow3mod4(%x) = %x %s", a, got, bad), "a", hb(a))
			}
		}
	})

	// --- SetWideBytes ---------------------------------------------------------
	for l := 32; l <= 64; l++ {
		r.Require(fmt.Sprintf("p:wide:len=%d", l))
	}
	r.Require("p:wide:value=0 mod p", "p:wide:max", "p:wide:zero-extended-equal", "p:wide:reduction-resonant", "p:wide:fold-window")
	two192 := new(big.Int).Lsh(big.NewInt(1), 192)
	r.Each("p/wide", r.N(6600, 200000), func(w *mon.W, i int) {
		rng := w.Rng
		l := 32 + i%33
		w.Class(fmt.Sprintf("p:wide:len=%d", l))
		src := rng.Bytes(l)
		kind := (i / 33) % 8
		switch kind {
		case 0:
			for j := range src {
				src[j] = 0xff
			}
			w.Class("p:wide:max")
		case 1: // multiple of p that fits
			maxv := new(big.Int).Lsh(big.NewInt(1), uint(8*l))
			kmax := new(big.Int).Div(new(big.Int).Sub(maxv, big.NewInt(1)), m)
			k := rng.Range(big.NewInt(0), kmax)
			v := new(big.Int).Mul(k, m)
			d := int64(rng.Intn(3) - 1)
			v.Add(v, big.NewInt(d))
			if v.Sign() < 0 || v.Cmp(maxv) >= 0 {
				v.Mul(k, m)
				d = 0
			}
			v.FillBytes(src)
			if d == 0 {
				w.Class("p:wide:value=0 mod p")
			}
		case 2: // parts individually zero / maximal
			for j := range src {
				src[j] = 0
			}
			full := make([]byte, 64)
			for _, part := range [][2]int{{0, 16}, {16, 40}, {40, 64}} {
				mode := rng.Intn(3)
				for j := part[0]; j < part[1]; j++ {
					switch mode {
					case 1:
						full[j] = 0xff
					case 2:
						full[j] = byte(rng.U64())
					}
				}
			}
			copy(src, full[64-l:])
		case 3: // top bytes zero: must equal the shorter string
			z := 1 + rng.Intn(l-31)
			for j := 0; j < z && j < l-1; j++ {
				src[j] = 0
			}
			w.Class("p:wide:zero-extended-equal")
		case 4: // sparse
			for j := range src {
				src[j] = 0
			}
			src[rng.Intn(l)] = 1 << uint(rng.Intn(8))
		case 5: // words resonating with the reduction constant 2^256 mod p
			src = rng.ResonantWide(l, 0x1000003d1)
			w.Class("p:wide:reduction-resonant")
		case 6: // the folded value lands on a carry boundary of the second / final fold
			src = rng.FoldWindow(l, new(big.Int).Sub(oracle.Two256, m))
			w.Class("p:wide:fold-window")
		}
		keep := append([]byte{}, src...)
		v := oracle.FromBytes(src)
		want := oracle.Mod(v, m)
		e := api.mk(rng, rng.Below(m))
		ret := e.SetWideBytes(src)
		got, bad := api.val(e)
		w.Case(true, []byte("wide"), src)
		w.Sample(map[string]any{"op": "SetWideBytes", "len": l, "src": hx(src)})
		if ret != e {
			w.Fail("p/SetWideBytes:ret", "SetWideBytes did not return its receiver")
		}
		if bad != "" || got.Cmp(want) != 0 {
			w.Fail(fmt.Sprintf("p/SetWideBytes/len=%d", l), fmt.Sprintf("SetWideBytes(%x) = %x, expected %x %s", src, got, want, bad), "src", src, "len", l)
		}
		if !bytes.Equal(src, keep) {
			w.Fail("p/SetWideBytes:src", "SetWideBytes modified its source", "src", keep)
		}
		if i < 66 {
			// out-of-contract lengths panic instead of mis-decoding
			for _, bl := range []int{0, 1, 31, 65, 66, 96} {
				if p, _ := mon.Panics(func() { hk.NewFE().SetWideBytes(make([]byte, bl)) }); !p {
					w.Fail("p/SetWideBytes:len", fmt.Sprintf("SetWideBytes accepted a %d-byte string", bl))
				}
			}
		}
		if hk.HaveFiat {
			sl := rng.Intn(32)
			sb := rng.Bytes(sl)
			if rng.Chance(1, 4) {
				for j := range sb {
					sb[j] = 0xff
				}
			}
			out := api.mk(rng, rng.Below(m))
			hk.FieldSetShortBytes(out, sb)
			if got, bad := api.val(out); bad != "" || got.Cmp(oracle.FromBytes(sb)) != 0 {
				w.Fail("p/setShortBytes", fmt.Sprintf("setShortBytes(%x) = %x %s", sb, got, bad), "src", sb)
			}
			_ = two192
		}
	})
}
