package props

import (
	"fmt"
	"math/big"

	secp256k1 "gitlab.com/yawning/secp256k1-voi"

	"verifharness/gen"
	"verifharness/hk"
	"verifharness/mon"
	"verifharness/oracle"
)

// Concurrent phases of the two arithmetic properties (C01, C02).  The ring operations
// are pure functions of their operands; a process-wide memo of the last inversion /
// square root (looked up and loaded in two steps), or a pooled temporary, makes the
// result depend on what another goroutine computes at the same moment on ITS operands.
// A memo only matters when operands recur: the hot set is a handful of values, each
// used by every goroutine, the operations that are expensive enough to be worth
// caching (inverse, square root, ratio root, repeated squaring, wide reduction) first.

func flag1(f uint64) byte {
	if f == 1 {
		return 1
	}
	if f == 0 {
		return 0
	}
	return 0xee
}

func famField(rng *gen.Rng, n int) []hammerOp {
	if !hk.HaveCore {
		return nil
	}
	p := bigP
	var ops []hammerOp
	vals := make([]*big.Int, n)
	for i := range vals {
		vals[i] = rng.Below(p)
		if vals[i].Sign() == 0 {
			vals[i] = big.NewInt(int64(i + 2))
		}
	}
	vals[0] = big.NewInt(2)
	if n > 2 {
		vals[1] = new(big.Int).Sub(p, big.NewInt(1))
		vals[2] = oracle.InvM(big.NewInt(2), p) // so that Invert(2) and Invert(1/2) are both hot
	}
	for i, a := range vals {
		i, a := i, a
		fa := hamFE(a)
		b := vals[(i+1)%n]
		fb := hamFE(b)
		sq := oracle.MulM(a, a, p)
		fsq := hamFE(sq)
		ops = append(ops, hammerOp{fmt.Sprintf("Element.Invert(a%d)", i), b32(oracle.InvM(a, p)), func() []byte { return hk.NewFE().Invert(fa).Bytes() }})
		ops = append(ops, hammerOp{fmt.Sprintf("Element.Invert(a%d) in place", i), b32(oracle.InvM(a, p)), func() []byte { x := hk.NewFEFrom(fa); return x.Invert(x).Bytes() }})
		// a square root of a^2: either root, reported through its square, and the flag
		ops = append(ops, hammerOp{fmt.Sprintf("Element.Sqrt(a%d^2)", i), append(b32(sq), 1), func() []byte {
			r, f := hk.NewFE().Sqrt(fsq)
			return append(hk.NewFE().Square(r).Bytes(), flag1(f))
		}})
		{
			wantF := byte(0)
			want := make([]byte, 32)
			if oracle.IsSquareP(a) {
				wantF, want = 1, b32(a)
			}
			ops = append(ops, hammerOp{fmt.Sprintf("Element.Sqrt(a%d)", i), append(want, wantF), func() []byte {
				r, f := hk.NewFE().Sqrt(fa)
				return append(hk.NewFE().Square(r).Bytes(), flag1(f))
			}})
			ops = append(ops, hammerOp{fmt.Sprintf("Element.Sqrt(a%d) in place", i), append(append([]byte{}, want...), wantF), func() []byte {
				x := hk.NewFEFrom(fa)
				r, f := x.Sqrt(x)
				return append(hk.NewFE().Square(r).Bytes(), flag1(f))
			}})
		}
		{
			// SqrtRatio(u, v): flag = (u/v is a square); r^2 * v = u, or = 11^-1... the non-square branch is
			// judged only by its flag and by r^2*v = Z*u with Z = -11
			u, v := a, b
			ratio := oracle.MulM(u, oracle.InvM(v, p), p)
			var want []byte
			if oracle.IsSquareP(ratio) {
				want = append(b32(u), 1)
			} else {
				want = append(b32(oracle.MulM(oracle.Mod(big.NewInt(-11), p), u, p)), 0)
			}
			ops = append(ops, hammerOp{fmt.Sprintf("Element.SqrtRatio(a%d,a%d)", i, (i+1)%n), want, func() []byte {
				r, f := hk.NewFE().SqrtRatio(fa, fb)
				t := hk.NewFE().Square(r)
				return append(t.Multiply(t, fb).Bytes(), flag1(f))
			}})
		}
		ops = append(ops, hammerOp{fmt.Sprintf("Element.Multiply(a%d,a%d)", i, (i+1)%n), b32(oracle.MulM(a, b, p)), func() []byte { return hk.NewFE().Multiply(fa, fb).Bytes() }})
		ops = append(ops, hammerOp{fmt.Sprintf("Element.Square(a%d)", i), b32(sq), func() []byte { return hk.NewFE().Square(fa).Bytes() }})
		k := uint(1 + (i*37)%200)
		ops = append(ops, hammerOp{fmt.Sprintf("Element.Pow2k(a%d,%d)", i, k), b32(oracle.ExpM(a, new(big.Int).Lsh(big.NewInt(1), k), p)), func() []byte { return hk.NewFE().Pow2k(fa, k).Bytes() }})
		ops = append(ops, hammerOp{fmt.Sprintf("Element.Add/Subtract/Negate(a%d,a%d)", i, (i+1)%n), append(append(b32(oracle.AddM(a, b, p)), b32(oracle.SubM(a, b, p))...), b32(oracle.NegM(a, p))...), func() []byte {
			return append(append(hk.NewFE().Add(fa, fb).Bytes(), hk.NewFE().Subtract(fa, fb).Bytes()...), hk.NewFE().Negate(fa).Bytes()...)
		}})
		for _, l := range []int{32, 48, 64, 33 + i%31} {
			wide := rng.Bytes(l)
			ops = append(ops, hammerOp{fmt.Sprintf("Element.SetWideBytes(%d bytes #%d)", l, i), b32(oracle.Mod(oracle.FromBytes(wide), p)), func() []byte { return hk.NewFE().SetWideBytes(wide).Bytes() }})
		}
		enc := arr32(a)
		ops = append(ops, hammerOp{fmt.Sprintf("Element.SetBytes/Equal/IsOdd(a%d)", i), append(b32(a), 0, 1, byte(a.Bit(0))), func() []byte {
			x, red := hk.NewFE().SetBytes(enc)
			return append(x.Bytes(), flag1(red), flag1(x.Equal(fa)), flag1(x.IsOdd()))
		}})
	}
	return ops
}

func famScalarArith(rng *gen.Rng, n int) []hammerOp {
	m := bigN
	var ops []hammerOp
	vals := make([]*big.Int, n)
	for i := range vals {
		vals[i] = rng.Below(m)
		if vals[i].Sign() == 0 {
			vals[i] = big.NewInt(int64(i + 2))
		}
	}
	vals[0] = big.NewInt(2)
	if n > 2 {
		vals[1] = new(big.Int).Sub(m, big.NewInt(1))
		vals[2] = oracle.InvM(big.NewInt(2), m)
	}
	for i, a := range vals {
		i, a := i, a
		sa := scalarFromBig(a)
		b := vals[(i+1)%n]
		sb := scalarFromBig(b)
		c := vals[(i+2)%n]
		sc := scalarFromBig(c)
		ops = append(ops, hammerOp{fmt.Sprintf("Scalar.Invert(a%d)", i), b32(oracle.InvM(a, m)), func() []byte { return secp256k1.NewScalar().Invert(sa).Bytes() }})
		ops = append(ops, hammerOp{fmt.Sprintf("Scalar.Invert(a%d) in place", i), b32(oracle.InvM(a, m)), func() []byte { x := secp256k1.NewScalarFrom(sa); return x.Invert(x).Bytes() }})
		ops = append(ops, hammerOp{fmt.Sprintf("Scalar.Multiply(a%d,a%d)", i, (i+1)%n), b32(oracle.MulM(a, b, m)), func() []byte { return secp256k1.NewScalar().Multiply(sa, sb).Bytes() }})
		ops = append(ops, hammerOp{fmt.Sprintf("Scalar.Square(a%d)", i), b32(oracle.MulM(a, a, m)), func() []byte { return secp256k1.NewScalar().Square(sa).Bytes() }})
		ops = append(ops, hammerOp{fmt.Sprintf("Scalar.Add/Subtract/Negate(a%d,a%d)", i, (i+1)%n), append(append(b32(oracle.AddM(a, b, m)), b32(oracle.SubM(a, b, m))...), b32(oracle.NegM(a, m))...), func() []byte {
			return append(append(secp256k1.NewScalar().Add(sa, sb).Bytes(), secp256k1.NewScalar().Subtract(sa, sb).Bytes()...), secp256k1.NewScalar().Negate(sa).Bytes()...)
		}})
		ops = append(ops, hammerOp{fmt.Sprintf("Scalar.Sum/Product(a%d,a%d,a%d)", i, (i+1)%n, (i+2)%n), append(b32(oracle.AddM(oracle.AddM(a, b, m), c, m)), b32(oracle.MulM(oracle.MulM(a, b, m), c, m))...), func() []byte {
			return append(secp256k1.NewScalar().Sum(sa, sb, sc).Bytes(), secp256k1.NewScalar().Product(sa, sb, sc).Bytes()...)
		}})
		raw := rng.Bytes(32)
		if i%2 == 0 {
			raw = b32(new(big.Int).Add(m, big.NewInt(int64(i))))
		}
		var rawA [32]byte
		copy(rawA[:], raw)
		rv := oracle.FromBytes(raw)
		red := byte(0)
		if rv.Cmp(m) >= 0 {
			red = 1
		}
		half := byte(0)
		if oracle.Mod(rv, m).Cmp(oracle.HalfN) > 0 {
			half = 1
		}
		ops = append(ops, hammerOp{fmt.Sprintf("Scalar.SetBytes/IsGreaterThanHalfN(#%d)", i), append(b32(oracle.Mod(rv, m)), red, half), func() []byte {
			x, f := secp256k1.NewScalar().SetBytes(&rawA)
			return append(x.Bytes(), flag1(f), flag1(x.IsGreaterThanHalfN()))
		}})
	}
	return ops
}

func init() {
	hammerBuilders["C01"] = func(rng *gen.Rng, w *mon.W) (hot, churn []hammerOp) { return famField(rng, 4), nil }
	hammerBuilders["C02"] = func(rng *gen.Rng, w *mon.W) (hot, churn []hammerOp) { return famScalarArith(rng, 4), nil }
}

func hamFE(v *big.Int) *hk.FE {
	fe, err := hk.NewFEFromCanonicalBytes(arr32(v))
	if err != nil {
		panic(err)
	}
	return fe
}
