package props

import (
	"bytes"
	"fmt"
	"math/big"

	secp256k1 "gitlab.com/yawning/secp256k1-voi"
	"gitlab.com/yawning/secp256k1-voi/secec"
	"gitlab.com/yawning/secp256k1-voi/secec/bitcoin"

	"verifharness/gen"
	"verifharness/mon"
	"verifharness/oracle"
)

// "Same buffer, new contents": a caller that reads messages into one buffer presents
// every input through the SAME backing array.  A decoder that remembers its last input
// by the slice it was given (a memo keyed on the pointer, a result that keeps pointing
// into the caller's memory) answers from the past.  Single goroutine; every answer is
// compared with the reference model's answer for the bytes that are in the buffer NOW,
// and results handed out earlier are re-read after the buffer has changed.

type reuseParser struct {
	name string
	// parse returns a canonical rendering of the result ("error" for a rejection) and a
	// function that renders the SAME result object again later (nil if there is none)
	parse func(in []byte) (out []byte, again func() []byte)
	// model answer for the same bytes
	want func(in []byte) []byte
	// inputs of one length: valid ones, invalid ones
	inputs func(rng *gen.Rng) [][]byte
}

var reuseErr = []byte("error")

func sec1Inputs(rng *gen.Rng, compressed bool) [][]byte {
	var out [][]byte
	for len(out) < 6 {
		x := rng.Below(bigP)
		m := oracle.LiftX(x, uint(rng.Intn(2)))
		if m == nil {
			if compressed && len(out)%3 == 2 {
				out = append(out, append([]byte{2}, b32(x)...)) // not on the curve
			}
			continue
		}
		if compressed {
			out = append(out, oracle.EncodeCompressed(m))
		} else {
			e := oracle.EncodeUncompressed(m)
			if len(out)%3 == 2 {
				e[64] ^= 1 // y off by one: not on the curve
			}
			out = append(out, e)
		}
	}
	return out
}

func spkiInputs(rng *gen.Rng) [][]byte {
	var out [][]byte
	for _, e := range sec1Inputs(rng, false) {
		out = append(out, oracle.SPKIWrite(e))
	}
	ff := append([]byte{}, out[0]...)
	for i := len(ff) - 64; i < len(ff); i++ {
		ff[i] = 0xff
	}
	return append(out, ff)
}

func reuseParsers(id string) []reuseParser {
	pointWant := func(in []byte) []byte {
		m, err := oracle.DecodePoint(in)
		if err != nil {
			return reuseErr
		}
		return oracle.EncodeUncompressed(m)
	}
	keyWant := func(in []byte) []byte {
		m, err := oracle.DecodePoint(in)
		if err != nil || m.Inf {
			return reuseErr
		}
		return append(oracle.EncodeUncompressed(m), oracle.EncodeCompressed(m)...)
	}
	keyRender := func(k *secec.PublicKey) []byte {
		return append(append([]byte{}, k.Point().UncompressedBytes()...), k.CompressedBytes()...)
	}
	var ps []reuseParser
	switch id {
	case "C06", "C18":
		for _, comp := range []bool{true, false} {
			comp := comp
			ps = append(ps, reuseParser{fmt.Sprintf("NewPointFromBytes(compressed=%v)", comp), func(in []byte) ([]byte, func() []byte) {
				p, err := secp256k1.NewPointFromBytes(in)
				if err != nil {
					return reuseErr, nil
				}
				return p.UncompressedBytes(), func() []byte { return p.UncompressedBytes() }
			}, pointWant, func(rng *gen.Rng) [][]byte { return sec1Inputs(rng, comp) }})
			ps = append(ps, reuseParser{fmt.Sprintf("Point.SetBytes(compressed=%v) on one receiver", comp), func() func(in []byte) ([]byte, func() []byte) {
				rcv := secp256k1.NewIdentityPoint()
				return func(in []byte) ([]byte, func() []byte) {
					if _, err := rcv.SetBytes(in); err != nil {
						return reuseErr, nil
					}
					return rcv.UncompressedBytes(), nil
				}
			}(), pointWant, func(rng *gen.Rng) [][]byte { return sec1Inputs(rng, comp) }})
		}
	case "C10":
		for _, comp := range []bool{true, false} {
			comp := comp
			ps = append(ps, reuseParser{fmt.Sprintf("NewPublicKey(compressed=%v)", comp), func(in []byte) ([]byte, func() []byte) {
				k, err := secec.NewPublicKey(in)
				if err != nil {
					return reuseErr, nil
				}
				return keyRender(k), func() []byte { return keyRender(k) }
			}, keyWant, func(rng *gen.Rng) [][]byte { return sec1Inputs(rng, comp) }})
		}
		fallthrough
	case "C12":
		ps = append(ps, reuseParser{"ParseASN1PublicKey", func(in []byte) ([]byte, func() []byte) {
			k, err := secec.ParseASN1PublicKey(in)
			if err != nil {
				return reuseErr, nil
			}
			r := func() []byte { return append(keyRender(k), k.ASN1Bytes()...) }
			return r(), r
		}, func(in []byte) []byte {
			m, _, ok := oracle.SPKIParseStrict(in)
			if !ok || m == nil || m.Inf {
				return reuseErr
			}
			return append(append(oracle.EncodeUncompressed(m), oracle.EncodeCompressed(m)...), oracle.SPKIWrite(oracle.EncodeUncompressed(m))...)
		}, spkiInputs})
		if id == "C12" {
			ps = append(ps, reuseParser{"ParseASN1Signature", func(in []byte) ([]byte, func() []byte) {
				r, s, err := secec.ParseASN1Signature(in)
				if err != nil {
					return reuseErr, nil
				}
				f := func() []byte { return append(append([]byte{}, r.Bytes()...), s.Bytes()...) }
				return f(), f
			}, func(in []byte) []byte {
				r, s, ok := oracle.DERSigCanonicalAccept(in)
				if !ok {
					return reuseErr
				}
				return append(b32(r), b32(s)...)
			}, func(rng *gen.Rng) [][]byte {
				// 70-byte encodings (both integers 32 bytes with the top bit clear), some out of range
				var out [][]byte
				for len(out) < 6 {
					r, s := rng.Below(bigN), rng.Below(bigN)
					if len(out) == 3 {
						r = new(big.Int).Add(bigN, big.NewInt(int64(rng.Intn(5))))
					}
					d := oracle.DERWriteSig(r, s)
					if len(d) == 70 {
						out = append(out, d)
					}
				}
				return out
			}})
			ps = append(ps, reuseParser{"ParseCompactSignature", func(in []byte) ([]byte, func() []byte) {
				r, s, err := secec.ParseCompactSignature(in)
				if err != nil {
					return reuseErr, nil
				}
				f := func() []byte { return append(append([]byte{}, r.Bytes()...), s.Bytes()...) }
				return f(), f
			}, func(in []byte) []byte {
				r, s := oracle.FromBytes(in[:32]), oracle.FromBytes(in[32:])
				if r.Sign() == 0 || s.Sign() == 0 || r.Cmp(bigN) >= 0 || s.Cmp(bigN) >= 0 {
					return reuseErr
				}
				return append([]byte{}, in...)
			}, func(rng *gen.Rng) [][]byte {
				var out [][]byte
				for i := 0; i < 6; i++ {
					r, s := rng.Below(bigN), rng.Below(bigN)
					if i == 2 {
						s = new(big.Int).Set(bigN)
					}
					if r.Sign() == 0 || s.Sign() == 0 {
						continue
					}
					out = append(out, append(b32(r), b32(s)...))
				}
				return out
			}})
		}
	case "C13":
		ps = append(ps, reuseParser{"NewSchnorrPublicKey", func(in []byte) ([]byte, func() []byte) {
			k, err := bitcoin.NewSchnorrPublicKey(in)
			if err != nil {
				return reuseErr, nil
			}
			f := func() []byte { return append(append([]byte{}, k.Bytes()...), k.Point().UncompressedBytes()...) }
			return f(), f
		}, func(in []byte) []byte {
			m := oracle.BIP340LiftX(oracle.FromBytes(in))
			if m == nil {
				return reuseErr
			}
			return append(b32(m.X), oracle.EncodeUncompressed(m)...)
		}, func(rng *gen.Rng) [][]byte {
			var out [][]byte
			for _, e := range sec1Inputs(rng, true) {
				out = append(out, e[1:])
			}
			return out
		}})
	}
	return ps
}

// runBufferReuse: for every parser of the property, sequences over one backing buffer.
func runBufferReuse(r *mon.Run, id string, n int) {
	ps := reuseParsers(id)
	if len(ps) == 0 {
		return
	}
	lc := "c" + id[1:]
	r.Require(lc+":buffer-reuse:accept-after-reject", lc+":buffer-reuse:results-reread")
	r.Seq(lc+"/same-buffer-new-contents", n, func(w *mon.W, i int) {
		p := ps[i%len(ps)]
		rng := w.Rng
		inputs := p.inputs(rng)
		if len(inputs) < 3 {
			return
		}
		arena := make([]byte, len(inputs[0]), len(inputs[0])+rng.Intn(40))
		type kept struct {
			again func() []byte
			was   []byte
			step  int
		}
		var keep []kept
		prevErr := false
		steps := 8 + rng.Intn(8)
		for st := 0; st < steps; st++ {
			in := inputs[rng.Intn(len(inputs))]
			if st%4 == 3 {
				in = inputs[0] // come back to the first one
			}
			if len(in) != len(arena) {
				continue
			}
			copy(arena, in)
			want := p.want(in)
			got, again := p.parse(arena)
			w.Case(true, []byte(p.name), in, []byte{byte(st)})
			if !bytes.Equal(got, want) {
				w.Fail(lc+"/same-buffer/"+p.name, fmt.Sprintf("%s on input #%d of a sequence presented through ONE reused buffer = %s, the reference model says %s for these bytes", p.name, st, hx(got), hx(want)),
					"input", hx(in), "step", st)
				return
			}
			if prevErr && !bytes.Equal(want, reuseErr) {
				w.Class(lc + ":buffer-reuse:accept-after-reject")
			}
			prevErr = bytes.Equal(want, reuseErr)
			// what earlier calls returned belongs to the caller and must not follow the buffer
			for _, k := range keep {
				if now := k.again(); !bytes.Equal(now, k.was) {
					w.Fail(lc+"/same-buffer:result-follows-buffer/"+p.name, fmt.Sprintf("the result of %s at step %d changed after the caller reused its input buffer (step %d): was %s, now %s", p.name, k.step, st, hx(k.was), hx(now)))
					return
				}
				w.Class(lc + ":buffer-reuse:results-reread")
			}
			if again != nil && len(keep) < 4 {
				keep = append(keep, kept{again, got, st})
			}
		}
	})
}
