package props

import (
	"bytes"
	"fmt"
	"math/big"
	"runtime"

	secp256k1 "gitlab.com/yawning/secp256k1-voi"
	"gitlab.com/yawning/secp256k1-voi/secec"
	"gitlab.com/yawning/secp256k1-voi/secec/bitcoin"

	"verifharness/mon"
	"verifharness/oracle"
)

// Value copies.  Point, Scalar and the key types are plain structs; `q := *p`, a `[]Point`,
// a key embedded by value are ordinary Go (the library itself keeps arrays of Points).  A
// copy must be an independent object: whatever happens to the original afterwards - decoded
// into again, negated in place, dropped and collected (finalizers!) - must not show in the
// copy, and the other way round.  A lazily cached encoding behind a shared pointer, a
// finalizer tied to the constructor's object, break exactly that.
func init() {
	for _, id := range []string{"C02", "C03", "C14", "C18"} {
		id := id
		prev := registry[id].Run
		registry[id].Run = func(r *mon.Run) {
			prev(r)
			if r.Config == "asm" || r.Config == "purego" || r.Config == "386" {
				runValueCopies(r, id)
			}
		}
	}
}

func runValueCopies(r *mon.Run, id string) {
	lc := "c" + id[1:]
	r.Require(lc + ":value-copy")
	n := r.N(200, 6000)
	if id == "C14" {
		n = r.N(40, 1000)
	}
	r.Seq(lc+"/value-copies", n, func(w *mon.W, i int) {
		rng := w.Rng
		w.Class(lc + ":value-copy")
		w.Case(true, []byte("value-copy"), []byte{byte(i), byte(i >> 8)})
		if id != "C03" && id != "C14" {
			// Scalar: decode, observe, copy by value, decode something else into the original
			a, b := rng.Below(bigN), rng.Below(bigN)
			orig, _ := secp256k1.NewScalarFromCanonicalBytes(arr32(a))
			_ = orig.Bytes()
			kept := *orig
			switch i % 4 {
			case 0:
				_, _ = orig.SetCanonicalBytes(arr32(b))
			case 1:
				orig.SetBytes(arr32(b))
			case 2:
				orig.Negate(orig)
			default:
				orig.Add(orig, scalarFromBig(b))
			}
			if got := kept.Bytes(); !bytes.Equal(got, b32(a)) || kept.Equal(scalarFromBig(a)) != 1 {
				w.Fail(lc+"/value-copy:scalar", fmt.Sprintf("a Scalar copied by value (%x) changed when the original was written to: Bytes() = %x, Equal(old value) = %d", a, got, kept.Equal(scalarFromBig(a))))
				return
			}
			// and the other way round
			kept.Multiply(&kept, &kept)
			_ = kept.Bytes()
			var wantO *big.Int
			switch i % 4 {
			case 0, 1:
				wantO = b
			case 2:
				wantO = oracle.NegM(a, bigN)
			default:
				wantO = oracle.AddM(a, b, bigN)
			}
			if got := orig.Bytes(); !bytes.Equal(got, b32(wantO)) {
				w.Fail(lc+"/value-copy:scalar-orig", fmt.Sprintf("a Scalar changed when a value copy of it was written to: Bytes() = %x, expected %x", got, wantO))
				return
			}
		}
		if id != "C02" && id != "C14" {
			// Point: observe (encodings may be cached), copy by value, change one of the two in place
			k := nonzero(rng.Below(bigN))
			m := oracle.MulG(k)
			z, _ := repZ(rng)
			p := pointRep(m, z)
			if p == nil {
				return
			}
			_ = p.CompressedBytes()
			_ = p.IsYOdd()
			q := *p
			var wantQ *oracle.Pt
			switch i % 5 {
			case 0:
				q.Negate(&q)
				wantQ = oracle.Neg(m)
			case 1:
				q.ConditionalNegate(&q, 1)
				wantQ = oracle.Neg(m)
			case 2:
				q.Double(&q)
				wantQ = oracle.Dbl(m)
			case 3:
				q.Add(&q, secp256k1.NewGeneratorPoint())
				wantQ = oracle.Add(m, oracle.G())
			default:
				_, _ = q.SetBytes(oracle.EncodeCompressed(oracle.G()))
				wantQ = oracle.G()
			}
			if msg := observersAgree(p, m); msg != "" {
				w.Fail(lc+"/value-copy:point", fmt.Sprintf("a Point (%s) changed after a value copy of it was modified in place (case %d): %s", hx(oracle.EncodeCompressed(m)), i%5, msg))
				return
			}
			if msg := observersAgree(&q, wantQ); msg != "" {
				w.Fail(lc+"/value-copy:point-copy", fmt.Sprintf("a value copy of a Point, modified in place (case %d), is wrong: %s", i%5, msg))
				return
			}
			// elements of a slice of Point VALUES
			arr := []secp256k1.Point{*p, q}
			arr[0].Subtract(&arr[0], &arr[1])
			if msg := observersAgree(p, m); msg != "" {
				w.Fail(lc+"/value-copy:point-slice", "a Point changed after an element of a []Point holding a copy of it was modified: "+msg)
				return
			}
		}
		if (id == "C18" && i%4 == 0) || id == "C14" {
			// keys: a value copy outlives the object the constructor returned (dropped, collected,
			// finalizers run); the copy must still be the key
			d, _ := keyValue(rng)
			msg := rng.Bytes(20)
			aux := rng.Bytes(32)
			var skc bitcoin.SchnorrPrivateKey
			var pkc secec.PrivateKey
			func() {
				sk, err := bitcoin.NewSchnorrPrivateKey(b32(d))
				if err != nil {
					return
				}
				skc = *sk
				pk := mustPriv(d)
				pkc = *pk
				skE := bitcoin.NewSchnorrPrivateKeyFromECDSA(pk)
				_ = skE
			}()
			for g := 0; g < 3; g++ {
				runtime.GC()
				runtime.Gosched()
			}
			if got := skc.Bytes(); got != nil {
				want := oracle.BIP340Sign(d, aux, msg)
				sig, err := skc.Sign(&fixedReader{data: aux}, msg, nil)
				if err != nil || !bytes.Equal(sig, want) {
					w.Fail(lc+"/value-copy:schnorr-key", fmt.Sprintf("a value copy of a SchnorrPrivateKey, used after the constructor's object was dropped and collected: Sign = %x (err %v), BIP-340 says %x; Bytes() = %x", sig, err, want, got), "d", hb(d))
					return
				}
			}
			if !bytes.Equal(pkc.Bytes(), b32(d)) || !bytes.Equal(pkc.PublicKey().Bytes(), oracle.EncodeUncompressed(oracle.MulG(d))) {
				w.Fail(lc+"/value-copy:private-key", fmt.Sprintf("a value copy of a PrivateKey, used after the constructor's object was dropped and collected, holds %x / %x", pkc.Bytes(), pkc.PublicKey().Bytes()), "d", hb(d))
				return
			}
			dig := rng.Bytes(32)
			r0, s0, _, _, _ := oracle.RFC6979Sign(d, dig)
			if sig, err := pkc.Sign(secec.RFC6979SHA256(), dig, nil); err != nil || !bytes.Equal(sig, oracle.DERWriteSig(r0, s0)) {
				w.Fail(lc+"/value-copy:private-key-sign", fmt.Sprintf("a value copy of a PrivateKey (original dropped and collected): Sign = %x (err %v), expected %x", sig, err, oracle.DERWriteSig(r0, s0)), "d", hb(d))
			}
		}
	})
}
