package props

import (
	"bytes"
	"crypto"
	"fmt"
	"math/big"

	secp256k1 "gitlab.com/yawning/secp256k1-voi"
	"gitlab.com/yawning/secp256k1-voi/secec"
	"gitlab.com/yawning/secp256k1-voi/secec/bitcoin"

	"verifharness/gen"
	"verifharness/hk"
	"verifharness/mon"
	"verifharness/oracle"
)

func init() { Register("C07", runC07) }

var hashSizes = map[crypto.Hash]int{crypto.SHA224: 28, crypto.SHA256: 32, crypto.SHA384: 48, crypto.SHA512: 64}

// verifyTuple draws a verification instance.
func verifyTuple(rng *gen.Rng, i int) sigTuple {
	specials := specialRPoints()
	switch i % 14 {
	case 12:
		return steeredU2Tuple(rng)
	case 13:
		return wrapRecoverTuple(rng)
	case 0, 1:
		t := honestTuple(rng, false)
		t.S, t.V = oracle.LowS(t.S, t.V)
		t.Class = "low-s," + t.Class
		return t
	case 2:
		t := honestTuple(rng, false)
		lo, lv := oracle.LowS(t.S, t.V)
		t.S = new(big.Int).Sub(bigN, lo) // the high representative
		t.V = lv ^ 1                     // negating s flips the parity bit of the id that recovers Q
		t.Class = "high-s," + t.Class
		return t
	case 3:
		// R with x >= n : r = x - n
		for try := 0; try < 20; try++ {
			sp := specials[rng.Intn(len(specials))]
			if sp.P.X.Cmp(bigN) >= 0 {
				if t, ok := chosenRTuple(rng, sp.P, "x(R)>=n"); ok {
					return t
				}
			}
		}
	case 4:
		// R with small x (x + n < p is another candidate)
		for try := 0; try < 20; try++ {
			sp := specials[rng.Intn(len(specials))]
			if sp.P.X.Cmp(new(big.Int).Sub(bigP, bigN)) < 0 {
				if t, ok := chosenRTuple(rng, sp.P, "x(R)<p-n"); ok {
					return t
				}
			}
		}
	case 5:
		return infinityTuple(rng)
	case 6:
		// e = 0: digest zero or digest = n
		t := honestTuple(rng, false)
		dig := make([]byte, 32)
		if rng.Bool() {
			copy(dig, b32(bigN))
		}
		e := big.NewInt(0)
		for {
			k := rng.Below(bigN)
			if rr, ss, v, ok := oracle.ECDSASignWithK(t.D, e, k); ok {
				t.Digest, t.R, t.S, t.V, t.Class = dig, rr, ss, v, "e=0,"+t.Class
				return t
			}
		}
	case 7:
		// one-bit corruption of a component
		t := honestTuple(rng, false)
		switch rng.Intn(4) {
		case 0:
			t.R = new(big.Int).Xor(t.R, new(big.Int).Lsh(big.NewInt(1), uint(rng.Intn(256))))
			t.Class = "corrupt-r," + t.Class
		case 1:
			t.S = new(big.Int).Xor(t.S, new(big.Int).Lsh(big.NewInt(1), uint(rng.Intn(256))))
			t.Class = "corrupt-s," + t.Class
		case 2:
			t.Digest = append([]byte{}, t.Digest...)
			t.Digest[rng.Intn(32)] ^= 1 << uint(rng.Intn(8))
			t.Class = "corrupt-digest," + t.Class
		default:
			t.Q = oracle.Add(t.Q, oracle.G())
			if t.Q.Inf {
				t.Q = oracle.G()
			}
			t.D = nil
			t.Class = "wrong-key," + t.Class
		}
		return t
	case 8:
		// r or s out of range / zero
		t := honestTuple(rng, false)
		if rng.Bool() {
			t.R, _ = sigValue(rng)
		} else {
			t.S, _ = sigValue(rng)
		}
		t.Class = "rs-boundary-value," + t.Class
		return t
	case 9:
		// digest lengths 0..64 with nil options
		t := honestTuple(rng, true)
		if rng.Chance(1, 3) {
			t.Digest = t.Digest[:rng.Intn(32)]
			t.Class = "digest-truncated<32," + t.Class
		}
		return t
	case 10:
		// leftmost-bytes rule: sign over the first 32 bytes, present a longer digest
		t := honestTuple(rng, false)
		t.Digest = append(append([]byte{}, t.Digest...), rng.Bytes(gen.Pick(rng, 1, 16, 32))...)
		t.Class = "digest-extended," + t.Class
		return t
	}
	// i%14 == 11: a valid signature with a tiny s (s + n still fits in 32
	// bytes, so a reducing byte-level parser would accept the alias s + n):
	// choose k and s, solve e = s*k - r*d.
	d, dc := keyValue(rng)
	for {
		k := rng.Below(bigN)
		if k.Sign() == 0 {
			continue
		}
		R := oracle.MulG(k)
		rr := oracle.Mod(R.X, bigN)
		var sv *big.Int
		switch rng.Intn(6) {
		case 4:
			sv = new(big.Int).Set(oracle.HalfN) // the largest admissible low s
		case 5:
			sv = new(big.Int).Add(oracle.HalfN, big.NewInt(1)) // the smallest high s
		case 0:
			sv = big.NewInt(int64(1 + rng.Intn(3)))
		case 1:
			sv = new(big.Int).Sub(new(big.Int).Sub(oracle.Two256, bigN), big.NewInt(int64(1+rng.Intn(3)))) // largest s with s+n < 2^256
		default:
			sv = rng.Below(new(big.Int).Sub(oracle.Two256, bigN))
		}
		if rr.Sign() == 0 || sv.Sign() == 0 {
			continue
		}
		e := oracle.Mod(new(big.Int).Sub(oracle.MulM(sv, k, bigN), oracle.MulM(rr, d, bigN)), bigN)
		dig := b32(e)
		if alt := new(big.Int).Add(e, bigN); rng.Bool() && alt.Cmp(oracle.Two256) < 0 {
			dig = b32(alt)
		}
		v := int(R.Y.Bit(0))
		if R.X.Cmp(bigN) >= 0 {
			v |= 2
		}
		cl := "tiny-s,"
		if sv.Cmp(oracle.HalfN) >= 0 {
			cl = "tiny-s,s=halfN(+1),"
			if sv.Cmp(oracle.HalfN) > 0 {
				v ^= 0 // the id belongs to this (high) s: R = kG was used as is
			}
		}
		return sigTuple{Q: oracle.MulG(d), D: d, Digest: dig, R: rr, S: sv, V: v, Class: cl + dc}
	}
}

// steeredU2Tuple builds a VALID signature whose u2 = r/s - the scalar the
// verifier feeds to the variable-base (GLV) multiply - lies in one of the GLV
// decomposition's rare windows: choose u1, u2, set R = (u1 + u2 d)G,
// r = x(R) mod n, s = r/u2, e = u1 s.
func steeredU2Tuple(rng *gen.Rng) sigTuple {
	d, dc := keyValue(rng)
	lam := oracle.Lambda
	if rng.Bool() {
		lam = oracle.MulM(lam, lam, bigN)
	}
	glvOnce.Do(func() {
		glvByLambda = map[string]*glvConsts{}
		l2 := oracle.MulM(oracle.Lambda, oracle.Lambda, bigN)
		glvByLambda[oracle.Lambda.String()] = deriveGLV(oracle.Lambda)
		glvByLambda[l2.String()] = deriveGLV(l2)
	})
	for {
		u2, cl := glvScalar(rng, glvByLambda[lam.String()], lam)
		u1 := rng.Below(bigN)
		if u2.Sign() == 0 {
			continue
		}
		R := oracle.MulG(oracle.AddM(u1, oracle.MulM(u2, d, bigN), bigN))
		if R.Inf {
			continue
		}
		rr := oracle.Mod(R.X, bigN)
		if rr.Sign() == 0 {
			continue
		}
		sv := oracle.MulM(rr, oracle.InvFast(u2, bigN), bigN)
		e := oracle.MulM(u1, sv, bigN)
		v := int(R.Y.Bit(0))
		if R.X.Cmp(bigN) >= 0 {
			v |= 2
		}
		return sigTuple{Q: oracle.MulG(d), D: d, Digest: b32(e), R: rr, S: sv, V: v, Class: "steered-u2," + cl + "," + dc}
	}
}

// wrapRecoverTuple builds (Q, e, r, s) around a point R' with r = x(R') + p - n:
// with bit 1 of the recovery id set the candidate x-coordinate r + n equals
// p + x(R'), which is NOT a field element; an implementation that lets it wrap
// to x(R') recovers Q and accepts the recoverable signature.  The tuple itself
// does not satisfy the predicate (x(R') mod n != r).
func wrapRecoverTuple(rng *gen.Rng) sigTuple {
	pmn := new(big.Int).Sub(bigP, bigN)
	for {
		k := rng.Below(bigN)
		if k.Sign() == 0 {
			continue
		}
		Rp := oracle.MulG(k)
		rr := new(big.Int).Add(Rp.X, pmn)
		if rr.Cmp(bigN) >= 0 {
			continue
		}
		sv := rng.Below(bigN)
		if sv.Sign() == 0 {
			continue
		}
		dig, gc := digestValue(rng, false)
		e, _ := oracle.DigestToE(dig)
		q := oracle.Mul(oracle.InvFast(rr, bigN), oracle.Sub(oracle.Mul(sv, Rp), oracle.MulG(e)))
		if q.Inf {
			continue
		}
		return sigTuple{Q: q, Digest: dig, R: rr, S: sv, V: 2 | int(Rp.Y.Bit(0)), Class: "wrap-recover," + gc}
	}
}

func runC07(r *mon.Run) {
	for _, c := range []string{"c07:accept", "c07:reject", "c07:class:high-s", "c07:class:chosen-R:x(R)>=n", "c07:class:chosen-R:x(R)<p-n", "c07:class:R=infinity",
		"c07:class:e=0", "c07:class:rs-boundary-value", "c07:class:digest-extended", "c07:stage:range", "c07:stage:infinity", "c07:stage:x-compare",
		"c07:stage:short-digest", "c07:stage:malleability", "c07:recoverable:accept", "c07:recoverable:wrong-id", "c07:recoverable:malleability-reject", "c07:class:tiny-s", "c07:short-hash-option", "c07:class:steered-u2", "c07:class:wrap-recover", "c07:alias:s+n", "c07:alias:r+n", "c07:btc:accept", "c07:btc:envelope-reject"} {
		r.Require(c)
	}
	if !hk.HaveSecec {
		r.Note("hook group verif_secec unavailable: the private-key (SEC 1 4.1.5) verification path is not compared")
	}
	halfN := oracle.HalfN
	r.Each("c07/verify", r.N(3000, 120000), func(w *mon.W, i int) {
		rng := w.Rng
		t := verifyTuple(rng, i)
		cls := t.Class
		for j := 0; j < len(cls); j++ {
			if cls[j] == ',' {
				cls = cls[:j]
				break
			}
		}
		w.Class("c07:class:" + cls)
		pub := mustPub(t.Q)
		inRange := t.R.Sign() > 0 && t.R.Cmp(bigN) < 0 && t.S.Sign() > 0 && t.S.Cmp(bigN) < 0
		core := oracle.ECDSAVerify(t.Q, t.Digest, t.R, t.S) // the SEC 1 4.1.4 predicate
		// stage accounting (oracle side)
		switch {
		case len(t.Digest) < 32:
			w.Class("c07:stage:short-digest")
		case !inRange:
			w.Class("c07:stage:range")
		case core:
			w.Class("c07:accept")
		default:
			e, _ := oracle.DigestToE(t.Digest)
			sInv := oracle.InvFast(t.S, bigN)
			R := oracle.Add(oracle.MulG(oracle.MulM(e, sInv, bigN)), oracle.Mul(oracle.MulM(t.R, sInv, bigN), t.Q))
			if R.Inf {
				w.Class("c07:stage:infinity")
			} else {
				w.Class("c07:stage:x-compare")
			}
		}
		if !core {
			w.Class("c07:reject")
		}
		w.Case(true, []byte("verify"), oracle.EncodeCompressed(t.Q), t.Digest, t.R.Bytes(), t.S.Bytes())
		if i < 3 {
			w.Sample(map[string]any{"class": t.Class, "Q": hx(oracle.EncodeCompressed(t.Q)), "digest": hx(t.Digest), "r": hb(t.R), "s": hb(t.S), "predicate": core})
		}
		det := []any{"class", t.Class, "Q", hx(oracle.EncodeUncompressed(t.Q)), "digest", hx(t.Digest), "r", t.R.Text(16), "s", t.S.Text(16)}
		fail := func(key, what string, got, want bool) {
			w.Fail("c07/"+key+"/"+cls, fmt.Sprintf("%s = %v, SEC 1 4.1.4 predicate (with the stated extras) = %v  [%s]", what, got, want, t.Class), det...)
		}
		// VerifyRaw on scalars (r,s < n; zero allowed)
		if t.R.Cmp(bigN) < 0 && t.S.Cmp(bigN) < 0 {
			lr, ls := scalarFromBig(t.R), scalarFromBig(t.S)
			if g := pub.VerifyRaw(t.Digest, lr, ls); g != core {
				fail("VerifyRaw", "VerifyRaw", g, core)
			}
			if hk.HaveSecec && t.D != nil {
				if g := hk.VerifyWithPrivateKey(mustPriv(t.D), t.Digest, lr, ls); g != core {
					fail("verify-with-private-key", "private-key verification path", g, core)
				}
			}
			if bigFromScalar(lr).Cmp(t.R) != 0 || bigFromScalar(ls).Cmp(t.S) != 0 {
				w.Fail("c07/VerifyRaw:operand", "VerifyRaw modified r or s", det...)
			}
		}
		// byte encodings x malleability x hash selection
		der := oracle.DERWriteSig(t.R, t.S)
		canBytes := t.R.BitLen() <= 256 && t.S.BitLen() <= 256
		var compact []byte
		if canBytes {
			compact = append(b32(t.R), b32(t.S)...)
		}
		lowS := t.S.Cmp(halfN) <= 0
		hashes := []crypto.Hash{0, crypto.SHA256, crypto.SHA224, crypto.SHA384, crypto.SHA512}
		for _, rejectMall := range []bool{false, true} {
			h := hashes[(i+int(boolU64(rejectMall)))%len(hashes)]
			if rng.Chance(1, 2) {
				h = 0
			}
			lenOK := len(t.Digest) == 32
			if h != 0 {
				lenOK = len(t.Digest) == hashSizes[h]
			}
			base := core && lenOK && inRange && (!rejectMall || lowS)
			if core && lenOK && rejectMall && !lowS {
				w.Class("c07:stage:malleability")
			}
			opts := &secec.ECDSAOptions{Hash: h, RejectMalleable: rejectMall, Encoding: secec.EncodingASN1}
			if i%2 == 1 {
				hl, hcheck := hostileLayout(t.Digest, der)
				if g := pub.Verify(hl[0], hl[1], opts); g != base || hcheck() != "" {
					fail("Verify/ASN1:layout", fmt.Sprintf("Verify(ASN.1, hash=%v, rejectMalleable=%v) with digest and signature as sub-slices of one buffer (buffer change: %q)", h, rejectMall, hcheck()), g, base)
				}
			}
			if g := pub.Verify(t.Digest, der, opts); g != base {
				fail("Verify/ASN1", fmt.Sprintf("Verify(ASN.1, hash=%v, rejectMalleable=%v)", h, rejectMall), g, base)
			}
			if canBytes {
				opts.Encoding = secec.EncodingCompact
				if g := pub.Verify(t.Digest, compact, opts); g != base {
					fail("Verify/Compact", fmt.Sprintf("Verify(compact, hash=%v, rejectMalleable=%v)", h, rejectMall), g, base)
				}
			}
		}
		// a hash SHORTER than 32 bytes selected in the options, a digest of exactly that
		// length, and a signature that is valid for the digest zero-extended to 32 bytes:
		// "digests under 32 bytes are always rejected", whatever the options say
		if i%5 == 0 && t.D != nil {
			h := gen.Pick(rng, crypto.SHA224, crypto.SHA1, crypto.MD5, crypto.RIPEMD160, crypto.SHA512_224)
			short := rng.Bytes(h.Size())
			padded := append(append([]byte{}, short...), make([]byte, 32-len(short))...)
			e, _ := oracle.DigestToE(padded)
			for {
				k := rng.Below(bigN)
				rr, ss, v, ok := oracle.ECDSASignWithK(t.D, e, k)
				if !ok {
					continue
				}
				ss, v = oracle.LowS(ss, v)
				w.Class("c07:short-hash-option")
				for _, enc := range []secec.SignatureEncoding{secec.EncodingASN1, secec.EncodingCompact, secec.EncodingCompactRecoverable} {
					var sig []byte
					switch enc {
					case secec.EncodingASN1:
						sig = oracle.DERWriteSig(rr, ss)
					case secec.EncodingCompact:
						sig = append(b32(rr), b32(ss)...)
					default:
						sig = append(append(b32(rr), b32(ss)...), byte(v))
					}
					if g := mustPub(oracle.MulG(t.D)).Verify(short, sig, &secec.ECDSAOptions{Hash: h, Encoding: enc}); g {
						w.Fail("c07/Verify/short-hash", fmt.Sprintf("Verify accepted a %d-byte digest (options select %v, encoding %d); the signature is valid for the digest zero-extended to 32 bytes", len(short), h, enc), "d", hb(t.D), "digest", hx(short), "r", hb(rr), "s", hb(ss))
					}
				}
				if g := mustPub(oracle.MulG(t.D)).VerifyRaw(short, scalarFromBig(rr), scalarFromBig(ss)); g {
					w.Fail("c07/VerifyRaw/short-hash", "VerifyRaw accepted a digest shorter than 32 bytes", "digest", hx(short))
				}
				break
			}
		}
		// nil options: ASN.1, any digest length >= 32, any s
		if g := pub.Verify(t.Digest, der, nil); g != (core && inRange) {
			fail("Verify/nil-opts", "Verify(nil options)", g, core && inRange)
		}
		// an undefined encoding selector accepts nothing
		// (negative, just-out-of-range, byte-/word-truncating to a defined selector), whichever
		// wire form the signature is presented in
		{
			ue := undefinedEncoding(rng)
			forms := [][]byte{der}
			if canBytes {
				cp := append(b32(t.R), b32(t.S)...)
				forms = append(forms, cp, append(append([]byte{}, cp...), byte(rng.Intn(4))))
			}
			for _, f := range forms {
				if g := pub.Verify(t.Digest, f, &secec.ECDSAOptions{Encoding: ue, RejectMalleable: rng.Bool()}); g {
					fail("Verify/bad-encoding", fmt.Sprintf("Verify(undefined encoding %d, %d-byte signature)", int(ue), len(f)), g, false)
				}
			}
		}
		// recoverable: every id; accept iff in range, digest 32 bytes, id in [0,3] and the id reconstructs Q
		if canBytes {
			ids := []int{0, 1, 2, 3, 4 + rng.Intn(252)}
			opts := &secec.ECDSAOptions{Encoding: secec.EncodingCompactRecoverable}
			for _, id := range ids {
				if !(i%4 == 0 || id == t.V || id == (t.V^1)) {
					continue // keep the oracle's recovery cost bounded
				}
				want := false
				if inRange && len(t.Digest) == 32 && id < 4 {
					if q := oracle.ECDSARecover(t.Digest, t.R, t.S, id); q != nil && q.Eq(t.Q) {
						want = true
					}
				}
				if want {
					w.Class("c07:recoverable:accept")
					if !core {
						w.Fail("c07/oracle-consistency", "recovery reconstructs Q but the predicate rejects (oracle inconsistency)", det...)
					}
				} else if core && id < 4 {
					w.Class("c07:recoverable:wrong-id")
				}
				sig := append(append([]byte{}, compact...), byte(id))
				if g := pub.Verify(t.Digest, sig, opts); g != want {
					fail("Verify/Recoverable", fmt.Sprintf("Verify(recoverable, id=%d)", id), g, want)
				}
				// the malleability option applies to every encoding
				if want && !lowS {
					w.Class("c07:recoverable:malleability-reject")
				}
				if g := pub.Verify(t.Digest, sig, &secec.ECDSAOptions{Encoding: secec.EncodingCompactRecoverable, RejectMalleable: true}); g != (want && lowS) {
					fail("Verify/Recoverable+RejectMalleable", fmt.Sprintf("Verify(recoverable, id=%d, rejectMalleable=true)", id), g, want && lowS)
				}
			}
		}
		// non-canonical aliases r+n / s+n of a VALID signature (they fit in 32
		// bytes only for components below 2^256-n): every byte-level entry point
		// must reject them - a parser that reduces instead of rejecting accepts.
		if core && inRange && len(t.Digest) == 32 {
			for ci, comp := range []*big.Int{t.R, t.S} {
				al := new(big.Int).Add(comp, bigN)
				if al.Cmp(oracle.Two256) >= 0 {
					continue
				}
				name := []string{"r+n", "s+n"}[ci]
				w.Class("c07:alias:" + name)
				ar, as := t.R, t.S
				if ci == 0 {
					ar = al
				} else {
					as = al
				}
				ac := append(b32(ar), b32(as)...)
				for _, rm := range []bool{false, true} {
					if g := pub.Verify(t.Digest, ac, &secec.ECDSAOptions{Encoding: secec.EncodingCompact, RejectMalleable: rm}); g {
						fail("Verify/Compact/alias-"+name, fmt.Sprintf("Verify(compact with %s in place of the component, rejectMalleable=%v)", name, rm), g, false)
					}
					if g := pub.Verify(t.Digest, oracle.DERWriteSig(ar, as), &secec.ECDSAOptions{Encoding: secec.EncodingASN1, RejectMalleable: rm}); g {
						fail("Verify/ASN1/alias-"+name, fmt.Sprintf("Verify(ASN.1 with %s in place of the component, rejectMalleable=%v)", name, rm), g, false)
					}
				}
				for id := 0; id < 4; id++ {
					if g := pub.Verify(t.Digest, append(append([]byte{}, ac...), byte(id)), &secec.ECDSAOptions{Encoding: secec.EncodingCompactRecoverable}); g {
						fail("Verify/Recoverable/alias-"+name, fmt.Sprintf("Verify(recoverable with %s in place of the component, id=%d)", name, id), g, false)
					}
				}
				if g := bitcoin.VerifyASN1(pub, t.Digest, append(oracle.DERWriteSig(ar, as), 0x01)); g {
					fail("bitcoin.VerifyASN1/alias-"+name, "bitcoin.VerifyASN1 with "+name+" in place of the component", g, false)
				}
			}
		}
		// Bitcoin entry point: BIP-66 envelope + sighash, 32-byte digest, low s
		{
			sig, mcl := derSigMutant(rng, t.R, t.S)
			if rng.Chance(1, 2) {
				sig, mcl = der, "canonical"
			}
			sigh := append(append([]byte{}, sig...), byte(rng.U64()))
			if rng.Chance(1, 10) {
				sigh = sig // missing sighash byte
				mcl += ",no-sighash"
			}
			want := false
			if oracle.BIP66Valid(sigh) {
				if rr, ss, ok := oracle.DERParseSigStrict(sigh[:len(sigh)-1]); ok {
					want = len(t.Digest) == 32 && ss.Cmp(halfN) <= 0 && oracle.ECDSAVerify(t.Q, t.Digest, rr, ss)
				}
			} else if mcl != "canonical" {
				w.Class("c07:btc:envelope-reject")
			}
			if want {
				w.Class("c07:btc:accept")
			}
			if g := bitcoin.VerifyASN1(pub, t.Digest, sigh); g != want {
				w.Fail("c07/bitcoin.VerifyASN1/"+mcl, fmt.Sprintf("bitcoin.VerifyASN1(sig=%x [%s]) = %v, expected %v", sigh, mcl, g, want), det...)
			}
		}
		_ = secp256k1.ScalarSize
	})
	// --- the verifier's hash selector x digest length matrix: every identifier the standard
	// library defines (linked into this binary or not - the harness links none of x/crypto's),
	// a signature that IS valid for the digest: accepted iff the length is the size of the
	// selected hash and at least 32 bytes
	{
		lens := []int{16, 20, 28, 31, 32, 33, 36, 47, 48, 49, 63, 64, 65, 96}
		r.Require("c07:hash-matrix:accept", "c07:hash-matrix:reject")
		r.Each("c07/hash-matrix", 20*len(lens), func(w *mon.W, i int) {
			rng := w.Rng
			h := crypto.Hash(i % 20)
			l := lens[i/20]
			d, _ := keyValue(rng)
			pub := mustPub(oracle.MulG(d))
			dig := rng.Bytes(l)
			size := stdHashSize[h]
			if h == 0 {
				size = 32
			}
			want := l == size && l >= 32
			w.Case(true, []byte("hash-matrix"), []byte{byte(h), byte(l)})
			padded := dig
			if l < 32 {
				padded = append(append([]byte{}, dig...), make([]byte, 32-l)...)
			}
			r0, s0, v0, _, _ := oracle.RFC6979Sign(d, padded)
			for _, enc := range []secec.SignatureEncoding{secec.EncodingASN1, secec.EncodingCompact, secec.EncodingCompactRecoverable} {
				var sig []byte
				switch enc {
				case secec.EncodingASN1:
					sig = oracle.DERWriteSig(r0, s0)
				case secec.EncodingCompact:
					sig = append(b32(r0), b32(s0)...)
				default:
					sig = append(append(b32(r0), b32(s0)...), byte(v0))
				}
				got := pub.Verify(dig, sig, &secec.ECDSAOptions{Hash: h, Encoding: enc, RejectMalleable: rng.Bool()})
				if want {
					w.Class("c07:hash-matrix:accept")
				} else {
					w.Class("c07:hash-matrix:reject")
				}
				if got != want {
					w.Fail("c07/hash-matrix", fmt.Sprintf("Verify(%d-byte digest, Hash: %d (%d-byte digests), encoding %d) = %v for a signature valid for that digest, expected %v", l, int(h), size, int(enc), got, want),
						"d", hb(d), "digest", hx(dig), "r", hb(r0), "s", hb(s0))
				}
			}
		})
	}

	// --- key objects that come out of RecoverPublicKey and are kept: recover A, recover B
	// (and verify through the recoverable encoding, which recovers internally), then use A
	r.Require("c07:recovered-key:kept-across-recoveries")
	r.Seq("c07/recovered-key", r.N(40, 1500), func(w *mon.W, i int) {
		rng := w.Rng
		type rec struct {
			d          *big.Int
			dig        []byte
			r, s       *big.Int
			v          int
			key        *secec.PublicKey
			der, crsig []byte
		}
		mk := func() *rec {
			d, _ := keyValue(rng)
			dig := rng.Bytes(32)
			r0, s0, v0, _, _ := oracle.RFC6979Sign(d, dig)
			k, err := secec.RecoverPublicKey(dig, scalarFromBig(r0), scalarFromBig(s0), byte(v0))
			if err != nil {
				w.Fail("c07/recovered-key:recover", "RecoverPublicKey failed for an honest signature: "+err.Error(), "d", hb(d))
				return nil
			}
			return &rec{d, dig, r0, s0, v0, k, oracle.DERWriteSig(r0, s0), append(append(b32(r0), b32(s0)...), byte(v0))}
		}
		n := 2 + rng.Intn(4)
		var recs []*rec
		for j := 0; j < n; j++ {
			x := mk()
			if x == nil {
				return
			}
			recs = append(recs, x)
			if rng.Bool() {
				// a verification through the recoverable encoding in between
				y := recs[rng.Intn(len(recs))]
				_ = y.key.Verify(y.dig, y.crsig, &secec.ECDSAOptions{Encoding: secec.EncodingCompactRecoverable})
			}
		}
		w.Case(true, []byte("recovered-key"), []byte{byte(n)}, recs[0].dig)
		w.Class("c07:recovered-key:kept-across-recoveries")
		for j, x := range recs {
			Q := oracle.MulG(x.d)
			if !bytes.Equal(x.key.Bytes(), oracle.EncodeUncompressed(Q)) || !bytes.Equal(x.key.Point().UncompressedBytes(), oracle.EncodeUncompressed(Q)) {
				w.Fail("c07/recovered-key:point", fmt.Sprintf("key %d of %d recovered in a row no longer holds its point: Bytes %x, Point %x, expected %x", j, n, x.key.Bytes(), x.key.Point().UncompressedBytes(), oracle.EncodeUncompressed(Q)))
				return
			}
			for k, y := range recs {
				want := x.d.Cmp(y.d) == 0 // the key classes repeat: two of the recovered keys may be the same key
				if got := x.key.Verify(y.dig, y.der, nil); got != want {
					w.Fail("c07/recovered-key:verify", fmt.Sprintf("key %d (recovered, then kept while %d more keys were recovered).Verify(signature %d) = %v, expected %v", j, n-1-j, k, got, want), "d", hb(x.d))
					return
				}
				if got := x.key.VerifyRaw(y.dig, scalarFromBig(y.r), scalarFromBig(y.s)); got != want {
					w.Fail("c07/recovered-key:verifyraw", fmt.Sprintf("key %d (recovered, kept).VerifyRaw(signature %d) = %v, expected %v", j, k, got, want), "d", hb(x.d))
					return
				}
			}
		}
	})

	runColdStart(r, "c07", r.N(18, 300), "verify", "btcverify", "recover")
	// results that are functions of the arguments alone do not depend on the process-wide system entropy stream
	runDegradedEntropy(r, "c07", r.N(20, 300), "verify")
}
