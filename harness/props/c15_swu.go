//go:build verif

package props

import (
	"fmt"
	"math/big"

	"verifharness/hk"
	"verifharness/mon"
	"verifharness/oracle"
)

func init() {
	if hk.HaveSWU {
		c15SWU = runC15SWU
	}
}

func feFromBig(v *big.Int) *hk.FE {
	fe, err := hk.NewFEFromCanonicalBytes(arr32(v))
	if err != nil {
		panic(err)
	}
	return fe
}

func runC15SWU(r *mon.Run) {
	r.Require("c15:swu:exceptional-u", "c15:iso:denominator-zero", "c15:iso:generic")
	r.Each("c15/swu+iso", r.N(6000, 300000), func(w *mon.W, i int) {
		rng := w.Rng
		u, cl := uValue(rng)
		if cl == "u=0" || cl == "u^2=1/11" {
			w.Class("c15:swu:exceptional-u")
		}
		want := oracle.MapToCurveSimpleSWU(u)
		x, y := hk.SWUMap(feFromBig(u))
		gx, gy := oracle.FromBytes(x.Bytes()), oracle.FromBytes(y.Bytes())
		w.Case(true, []byte("swu"), b32(u))
		if gx.Cmp(want.X) != 0 || gy.Cmp(want.Y) != 0 {
			w.Fail("c15/map_to_curve_simple_swu/"+cl, fmt.Sprintf("map_to_curve_simple_swu(%x) = (%x, %x), RFC 9380 6.6.2 gives (%x, %x)", u, gx, gy, want.X, want.Y), "u", hb(u))
		}
		if !oracle.EIso.OnCurve(&oracle.Pt{X: gx, Y: gy}) {
			w.Fail("c15/map_to_curve_simple_swu:oncurve", "the SWU output is not on E'", "u", hb(u))
		}
		// the isogeny on that point
		wantI := oracle.IsoMap(want)
		ix, iy, ok := hk.SWUIsoMap(x, y)
		if wantI.Inf {
			if ok != 0 {
				w.Fail("c15/iso_map:exceptional", "iso_map did not flag a zero denominator", "u", hb(u))
			}
		} else {
			w.Class("c15:iso:generic")
			if ok != 1 || oracle.FromBytes(ix.Bytes()).Cmp(wantI.X) != 0 || oracle.FromBytes(iy.Bytes()).Cmp(wantI.Y) != 0 {
				w.Fail("c15/iso_map", fmt.Sprintf("iso_map(%x, %x) = (%x, %x, ok=%d), expected (%x, %x)", gx, gy, ix.Bytes(), iy.Bytes(), ok, wantI.X, wantI.Y), "u", hb(u))
			}
		}
		// iso_map at the roots of its x-denominator (reachable only through the hook): flag = 0
		if i%10 == 0 {
			for _, rx := range oracle.IsoXDenRoots() {
				_, _, ok := hk.SWUIsoMap(feFromBig(rx), feFromBig(rng.Below(bigP)))
				w.Class("c15:iso:denominator-zero")
				if ok != 0 {
					w.Fail("c15/iso_map:denominator", fmt.Sprintf("iso_map at x' = %x (x-denominator zero) did not report the exceptional case", rx))
				}
			}
			if len(oracle.IsoXDenRoots()) == 0 {
				w.Class("c15:iso:denominator-zero") // the quadratic has no root in F_p: nothing to reach
			}
		}
	})
}
