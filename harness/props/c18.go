package props

import (
	"bytes"
	"fmt"
	"math/big"

	secp256k1 "gitlab.com/yawning/secp256k1-voi"
	"gitlab.com/yawning/secp256k1-voi/secec"
	"gitlab.com/yawning/secp256k1-voi/secec/bitcoin"

	"verifharness/gen"
	"verifharness/hk"
	"verifharness/mon"
	"verifharness/oracle"
)

func init() { Register("C18", runC18) }

const (
	c18Points  = 8
	c18Scalars = 6
	c18Keys    = 3
)

// c18State is the pool and its shadow model.
type c18State struct {
	w   *mon.W
	rng *gen.Rng

	pts  [c18Points]*Point
	mpts [c18Points]*oracle.Pt // nil = uninitialised
	scs  [c18Scalars]*Scalar
	mscs [c18Scalars]*big.Int

	priv  [c18Keys]*secec.PrivateKey
	mpriv [c18Keys]*big.Int
	pub   [c18Keys]*secec.PublicKey
	mpub  [c18Keys]*oracle.Pt
	spriv [c18Keys]*bitcoin.SchnorrPrivateKey
	mspr  [c18Keys]*big.Int
	spub  [c18Keys]*bitcoin.SchnorrPublicKey
	mspub [c18Keys]*oracle.Pt // even-y point

	pool []namedPt
	step int

	reseed bool // a call panicked: the state of its receiver is unspecified, re-seed it
}

type lightSnap struct {
	raw    rawPoint
	hasRaw bool
	valid  bool
	enc    []byte
}

func lightSnapPoint(p *Point) lightSnap {
	var s lightSnap
	s.raw, s.hasRaw = getRaw(p)
	if s.hasRaw {
		s.valid = s.raw.Valid
		return s
	}
	pan, _ := mon.Panics(func() { p.IsIdentity() })
	s.valid = !pan
	if s.valid {
		s.enc = p.UncompressedBytes()
	}
	return s
}

func (a lightSnap) equal(b lightSnap) bool {
	if a.hasRaw {
		return a.raw == b.raw
	}
	return a.valid == b.valid && bytes.Equal(a.enc, b.enc)
}

func (st *c18State) snapAll() ([c18Points]lightSnap, [c18Scalars][]byte) {
	var ps [c18Points]lightSnap
	var ss [c18Scalars][]byte
	for i := range st.pts {
		ps[i] = lightSnapPoint(st.pts[i])
	}
	for i := range st.scs {
		if l, ok := hk.ScalarRaw(st.scs[i]); ok {
			ss[i] = []byte(fmt.Sprint(l))
		} else {
			ss[i] = st.scs[i].Bytes()
		}
	}
	return ps, ss
}

func (st *c18State) fail(key, format string, a ...any) {
	st.w.Fail("c18/"+key, fmt.Sprintf("step %d: ", st.step)+fmt.Sprintf(format, a...))
}

// checkPoint compares pool point i with its shadow.
func (st *c18State) checkPoint(i int, ctx string) {
	if st.reseed {
		return
	}
	p, m := st.pts[i], st.mpts[i]
	raw, ok := getRaw(p)
	if m == nil {
		if ok && raw.Valid {
			st.fail(ctx+":uninit", "%s: P%d should still be uninitialised", ctx, i)
		}
		if !ok {
			if pan, _ := mon.Panics(func() { p.IsIdentity() }); !pan {
				st.fail(ctx+":uninit", "%s: P%d should still be uninitialised", ctx, i)
			}
		}
		return
	}
	if abs, ok, err := checkPointInvariant(p); ok {
		if err != nil {
			st.fail(ctx+":invariant", "%s: P%d: %v", ctx, i, err)
		} else if !abs.Eq(m) {
			st.fail(ctx+":value", "%s: P%d denotes %v, model %v", ctx, i, abs, m)
		} else if msg := observersAgree(p, m); msg != "" {
			st.fail(ctx+":observers", "%s: P%d has the right raw coordinates but %s", ctx, i, msg)
		}
		return
	}
	if msg := expectPoint(p, m); msg != "" {
		st.fail(ctx+":value", "%s: P%d: %s", ctx, i, msg)
	}
}

func (st *c18State) checkScalar(i int, ctx string) {
	got := st.scs[i].Bytes()
	if !bytes.Equal(got, b32(st.mscs[i])) {
		st.fail(ctx+":value", "%s: S%d = %x, model %x", ctx, i, got, st.mscs[i])
	}
	if l, ok := hk.ScalarRaw(st.scs[i]); ok && oracle.FromLimbs(l).Cmp(bigN) >= 0 {
		st.fail(ctx+":canonical", "%s: S%d has a raw limb vector >= n", ctx, i)
	}
}

// frame asserts that nothing except the listed objects changed.
func (st *c18State) frame(ps [c18Points]lightSnap, ss [c18Scalars][]byte, exceptP, exceptS int, ctx string) {
	for i := range st.pts {
		if i != exceptP && !lightSnapPoint(st.pts[i]).equal(ps[i]) {
			st.fail(ctx+":frame", "%s modified P%d, which is neither its receiver nor ...", ctx, i)
		}
	}
	for i := range st.scs {
		var cur []byte
		if l, ok := hk.ScalarRaw(st.scs[i]); ok {
			cur = []byte(fmt.Sprint(l))
		} else {
			cur = st.scs[i].Bytes()
		}
		if i != exceptS && !bytes.Equal(cur, ss[i]) {
			st.fail(ctx+":frame", "%s modified S%d", ctx, i)
		}
	}
}

// expectPanic runs f; wantPanic says whether the model demands a panic.
func (st *c18State) expectPanic(ctx string, wantPanic bool, f func()) (panicked bool) {
	p, val := mon.Panics(f)
	if p {
		st.reseed = true
	}
	if p != wantPanic {
		if p {
			st.fail(ctx+":panic", "%s panicked (%v) although every Point operand is initialised", ctx, val)
		} else {
			st.fail(ctx+":nopanic", "%s used an uninitialised Point as an operand without panicking", ctx)
		}
	}
	return p
}

func (st *c18State) scribble(b []byte) {
	// the whole backing array the caller was handed, spare capacity included (a caller that
	// appends to a returned slice writes there)
	b = b[:cap(b)]
	for i := range b {
		b[i] += 0xA5 // (not XOR: two hand-outs that alias each other would cancel)
	}
}

func runC18(r *mon.Run) {
	n := bigN
	for _, c := range []string{"c18:panic:uninit-operand", "c18:uninit-receiver-ok", "c18:decode:fail", "c18:decode:ok", "c18:alias:rcv=operand", "c18:key:from-pool-scalar",
		"c18:key:from-pool-point", "c18:key:behaviour-check", "c18:handed-out:scalar-into-pool", "c18:handed-out:point-into-pool", "c18:ctor:fail", "c18:alias:rcv-in-vector", "c18:alias:long-list", "c18:alias:receiver-deep-in-long-list", "c18:ctor:recover-identity", "c18:ctor:recovered-key-into-pool"} {
		r.Require(c)
	}
	runUninitMatrix(r)
	steps := r.N(220, 500)
	pool := knownPointPool(r.Seed, 6)
	r.Each("c18/histories", r.N(160, 6000), func(w *mon.W, seq int) {
		rng := w.Rng
		st := &c18State{w: w, rng: rng, pool: pool}
		for i := range st.pts {
			st.pts[i] = new(Point)
			if i >= 2 { // two start uninitialised
				P := pool[rng.Intn(len(pool))]
				z, _ := repZ(rng)
				st.pts[i], st.mpts[i] = pointRep(P.P, z), P.P
			}
		}
		for i := range st.scs {
			v, _ := rng.Value(n)
			st.scs[i], st.mscs[i] = scalarFromBig(v), v
		}
		for i := 0; i < c18Keys; i++ {
			d, _ := keyValue(rng)
			st.priv[i], st.mpriv[i] = mustPriv(d), d
			st.pub[i], st.mpub[i] = st.priv[i].PublicKey(), oracle.MulG(d)
			st.spriv[i], st.mspr[i] = bitcoin.NewSchnorrPrivateKeyFromECDSA(st.priv[i]), d
			_, ev := evenKey(d)
			st.spub[i], st.mspub[i] = st.spriv[i].PublicKey(), ev
		}
		for st.step = 0; st.step < steps && !w.Failed(); st.step++ {
			st.doStep()
			w.Case(true, []byte(fmt.Sprint(seq, st.step)))
		}
		if seq < 2 {
			w.Sample(map[string]any{"op": "API history", "steps": steps, "pool": fmt.Sprintf("%d points (2 start uninitialised), %d scalars, %d key sets", c18Points, c18Scalars, c18Keys)})
		}
	})
}

func (st *c18State) doStep() {
	rng, w := st.rng, st.w
	n := bigN
	ps, ss := st.snapAll()
	d, a, b := rng.Intn(c18Points), rng.Intn(c18Points), rng.Intn(c18Points)
	sd, sa, sb := rng.Intn(c18Scalars), rng.Intn(c18Scalars), rng.Intn(c18Scalars)
	P := &st.pts
	M := &st.mpts
	if d == a || d == b {
		w.Class("c18:alias:rcv=operand")
	}
	opA, opB := M[a] != nil, M[b] != nil
	st.reseed = false
	defer func() {
		if st.reseed {
			q := st.pool[rng.Intn(len(st.pool))]
			z, _ := repZ(rng)
			st.pts[d], st.mpts[d] = pointRep(q.P, z), q.P
		}
	}()
	op := rng.Intn(48)
	if rng.Chance(1, 25) {
		// a pool slot becomes a fresh zero-value Point again
		st.pts[d], st.mpts[d] = new(Point), nil
		return
	}
	w.Trace("op%d d=%d a=%d b=%d sd=%d sa=%d sb=%d", op, d, a, b, sd, sa, sb)
	note := func(uninit bool) {
		if uninit {
			w.Class("c18:panic:uninit-operand")
		} else if M[d] == nil {
			w.Class("c18:uninit-receiver-ok")
		}
	}
	switch op {
	case 0:
		P[d].Identity()
		M[d] = oracle.Infinity()
		st.checkPoint(d, "Identity")
		st.frame(ps, ss, d, -1, "Identity")
	case 1:
		P[d].Generator()
		M[d] = oracle.G()
		st.checkPoint(d, "Generator")
		st.frame(ps, ss, d, -1, "Generator")
	case 2, 3:
		bad := !opA || !opB
		note(bad)
		if !st.expectPanic("Add", bad, func() { P[d].Add(P[a], P[b]) }) && !bad {
			M[d] = oracle.Add(M[a], M[b])
		}
		st.checkPoint(d, "Add")
		st.frame(ps, ss, d, -1, "Add")
	case 4:
		bad := !opA || !opB
		note(bad)
		if !st.expectPanic("Subtract", bad, func() { P[d].Subtract(P[a], P[b]) }) && !bad {
			M[d] = oracle.Sub(M[a], M[b])
		}
		st.checkPoint(d, "Subtract")
		st.frame(ps, ss, d, -1, "Subtract")
	case 5:
		note(!opA)
		if !st.expectPanic("Double", !opA, func() { P[d].Double(P[a]) }) && opA {
			M[d] = oracle.Dbl(M[a])
		}
		st.checkPoint(d, "Double")
		st.frame(ps, ss, d, -1, "Double")
	case 6:
		note(!opA)
		if !st.expectPanic("Negate", !opA, func() { P[d].Negate(P[a]) }) && opA {
			M[d] = oracle.Neg(M[a])
		}
		st.checkPoint(d, "Negate")
		st.frame(ps, ss, d, -1, "Negate")
	case 7:
		ctrl := gen.Pick(rng, gen.CtrlValues...)
		note(!opA)
		if !st.expectPanic("ConditionalNegate", !opA, func() { P[d].ConditionalNegate(P[a], ctrl) }) && opA {
			if ctrl != 0 {
				M[d] = oracle.Neg(M[a])
			} else {
				M[d] = M[a]
			}
		}
		st.checkPoint(d, "ConditionalNegate")
		st.frame(ps, ss, d, -1, "ConditionalNegate")
	case 8:
		ctrl := gen.Pick(rng, gen.CtrlValues...)
		bad := !opA || !opB
		note(bad)
		if !st.expectPanic("ConditionalSelect", bad, func() { P[d].ConditionalSelect(P[a], P[b], ctrl) }) && !bad {
			if ctrl != 0 {
				M[d] = M[b]
			} else {
				M[d] = M[a]
			}
		}
		st.checkPoint(d, "ConditionalSelect")
		st.frame(ps, ss, d, -1, "ConditionalSelect")
	case 9:
		bad := !opA || !opB
		var eq uint64
		if !st.expectPanic("Equal", bad, func() { eq = P[a].Equal(P[b]) }) && !bad {
			if eq != boolU64(M[a].Eq(M[b])) {
				st.fail("Equal", "Equal(P%d,P%d) = %d", a, b, eq)
			}
		}
		if bad {
			w.Class("c18:panic:uninit-operand")
		}
		st.frame(ps, ss, -1, -1, "Equal")
	case 10:
		var enc1, enc2, xb []byte
		var odd, isid uint64
		var xerr error
		if !st.expectPanic("observers", !opA, func() {
			isid = P[a].IsIdentity()
			odd = P[a].IsYOdd()
			enc1 = P[a].UncompressedBytes()
			enc2 = P[a].CompressedBytes()
			xb, xerr = P[a].XBytes()
		}) && opA {
			if isid != boolU64(M[a].Inf) || !bytes.Equal(enc1, oracle.EncodeUncompressed(M[a])) || !bytes.Equal(enc2, oracle.EncodeCompressed(M[a])) {
				st.fail("observers", "observers of P%d disagree with the model %v", a, M[a])
			}
			if !M[a].Inf && (odd != uint64(M[a].Y.Bit(0)) || xerr != nil || !bytes.Equal(xb, b32(M[a].X))) {
				st.fail("observers", "IsYOdd/XBytes of P%d disagree with the model", a)
			}
			if M[a].Inf && (xerr == nil || xb != nil) {
				st.fail("observers", "XBytes of the identity did not fail")
			}
			st.scribble(enc1)
			st.scribble(enc2)
			st.scribble(xb)
		}
		if !opA {
			w.Class("c18:panic:uninit-operand")
		}
		st.frame(ps, ss, -1, -1, "observers")
	case 11:
		note(!opA)
		if !st.expectPanic("Set", !opA, func() { P[d].Set(P[a]) }) && opA {
			M[d] = M[a]
		}
		st.checkPoint(d, "Set")
		st.frame(ps, ss, d, -1, "Set")
	case 12:
		var q *Point
		if !st.expectPanic("NewPointFrom", !opA, func() { q = secp256k1.NewPointFrom(P[a]) }) && opA {
			if q == P[a] {
				st.fail("NewPointFrom", "returned its argument")
			}
			P[d], M[d] = q, M[a]
		}
		if !opA {
			w.Class("c18:panic:uninit-operand")
		}
		st.checkPoint(d, "NewPointFrom")
	case 13, 14:
		// variable-base multiplication (oracle cost: keep the share low)
		note(!opA)
		if !st.expectPanic("ScalarMult", !opA, func() { P[d].ScalarMult(st.scs[sa], P[a]) }) && opA {
			M[d] = oracle.Mul(st.mscs[sa], M[a])
		}
		st.checkPoint(d, "ScalarMult")
		st.frame(ps, ss, d, -1, "ScalarMult")
	case 15:
		P[d].ScalarBaseMult(st.scs[sa])
		M[d] = oracle.MulG(st.mscs[sa])
		st.checkPoint(d, "ScalarBaseMult")
		st.frame(ps, ss, d, -1, "ScalarBaseMult")
	case 16:
		l := rng.Intn(4)
		long := rng.Chance(1, 5)
		if long {
			// a long list (pool objects repeat in it): the receiver may be ANY element,
			// also one far down the list, beyond wherever an implementation splits its work
			l = gen.Pick(rng, 33, 64, 65, 66, 100, 128, 129, 130, 65+rng.Intn(80))
			if rng.Chance(1, 4) {
				// several hundred terms: where chunked / bucketed implementations split again
				l = gen.Pick(rng, 256, 257, 258, 300, 511, 512, 513, 700, 1025)
				if rng.Chance(1, 6) {
					l = gen.Pick(rng, 2049, 4097, 4100, 8193) // and beyond the next powers of two
				}
				w.Class("c18:alias:long-list>=256")
			}
			w.Class("c18:alias:long-list")
		}
		idxP, idxS := make([]int, l), make([]int, l)
		ptsL, scL := make([]*Point, l), make([]*Scalar, l)
		bad := false
		for k := 0; k < l; k++ {
			idxP[k], idxS[k] = rng.Intn(c18Points), rng.Intn(c18Scalars)
			if long && M[idxP[k]] == nil && k%7 != 3 {
				idxP[k] = a // mostly initialised operands, or every long list would just panic
			}
		}
		if long && rng.Chance(2, 3) {
			for k := range idxP {
				if idxP[k] == d {
					idxP[k] = a // the receiver appears exactly where it is put below
				}
			}
			at := gen.Pick(rng, l-1, 64, 65, l/2, 32+rng.Intn(l-32), 256, 257, 512, l-2, 1024, 2048, 4096, l-1, l-2)
			if at >= l {
				at = l - 1
			}
			if a != d {
				idxP[at] = d
				w.Class("c18:alias:receiver-deep-in-long-list")
			}
		}
		for k := 0; k < l; k++ {
			ptsL[k], scL[k] = P[idxP[k]], st.scs[idxS[k]]
			bad = bad || M[idxP[k]] == nil
		}
		vt := rng.Bool()
		note(bad)
		name := "MultiScalarMult"
		if vt {
			name = "MultiScalarMultVartime"
		}
		if !st.expectPanic(name, bad, func() {
			if vt {
				P[d].MultiScalarMultVartime(scL, ptsL)
			} else {
				P[d].MultiScalarMult(scL, ptsL)
			}
		}) && !bad {
			// sum over the DISTINCT pool points of (sum of their scalars) * point
			coef := map[int]*big.Int{}
			for k := 0; k < l; k++ {
				if coef[idxP[k]] == nil {
					coef[idxP[k]] = new(big.Int)
				}
				coef[idxP[k]] = oracle.AddM(coef[idxP[k]], st.mscs[idxS[k]], bigN)
			}
			sum := oracle.Infinity()
			for pi := 0; pi < c18Points; pi++ {
				if c := coef[pi]; c != nil {
					sum = oracle.Add(sum, oracle.Mul(c, M[pi]))
				}
			}
			M[d] = sum
		}
		st.checkPoint(d, name)
		st.frame(ps, ss, d, -1, name)
	case 17:
		note(!opA)
		if !st.expectPanic("DoubleScalarMultBasepointVartime", !opA, func() { P[d].DoubleScalarMultBasepointVartime(st.scs[sa], st.scs[sb], P[a]) }) && opA {
			M[d] = oracle.Add(oracle.MulG(st.mscs[sa]), oracle.Mul(st.mscs[sb], M[a]))
		}
		st.checkPoint(d, "DoubleScalarMultBasepointVartime")
		st.frame(ps, ss, d, -1, "DoubleScalarMultBasepointVartime")
	case 18, 19, 20:
		// decoders on valid and invalid strings; failure leaves the receiver exactly as it was
		src, _ := sec1String(rng, st.pool)
		var q *Point
		var err error
		var want *oracle.Pt
		var werr error
		name := []string{"SetBytes", "SetCompressedBytes", "SetUncompressedBytes"}[op-18]
		switch op {
		case 18:
			q, err = P[d].SetBytes(src)
			want, werr = oracle.DecodePoint(src)
		case 19:
			q, err = P[d].SetCompressedBytes(src)
			want, werr = oracle.DecodeCompressedOnly(src)
		case 20:
			q, err = P[d].SetUncompressedBytes(src)
			want, werr = oracle.DecodeUncompressedOnly(src)
		}
		st.scribble(src) // the caller's buffer is the caller's
		if (err == nil) != (werr == nil) {
			st.fail(name, "%s: library err=%v, strict decoder err=%v", name, err, werr)
		} else if err != nil {
			w.Class("c18:decode:fail")
			if q != nil {
				st.fail(name+":nil", "%s returned an object together with an error", name)
			}
			st.frame(ps, ss, -1, -1, name+"(failed)") // includes the receiver
		} else {
			w.Class("c18:decode:ok")
			M[d] = want
			st.frame(ps, ss, d, -1, name)
		}
		st.checkPoint(d, name)
	case 21:
		src := uniformBytesFor(rng, rng.Below(bigP))
		u := oracle.Mod(oracle.FromBytes(src), bigP)
		P[d].SetUniformBytes(src)
		st.scribble(src)
		M[d] = oracle.MapToCurve(u)
		st.checkPoint(d, "SetUniformBytes")
		st.frame(ps, ss, d, -1, "SetUniformBytes")
	case 22:
		// construction from coordinates / recovery: failure returns no object
		var xb, yb [32]byte
		m := st.pool[1+rng.Intn(len(st.pool)-1)].P
		copy(xb[:], b32(m.X))
		copy(yb[:], b32(m.Y))
		ok := true
		if rng.Bool() {
			yb[rng.Intn(32)] ^= 1 << uint(rng.Intn(8))
			y := oracle.FromBytes(yb[:])
			ok = y.Cmp(bigP) < 0 && oracle.OnCurve(&oracle.Pt{X: m.X, Y: y})
		}
		q, err := secp256k1.NewPointFromCoords(&xb, &yb)
		if (err == nil) != ok || (err != nil && q != nil) {
			st.fail("NewPointFromCoords", "err=%v expected ok=%v", err, ok)
		} else if ok {
			P[d], M[d] = q, &oracle.Pt{X: m.X, Y: oracle.FromBytes(yb[:])}
		} else {
			w.Class("c18:ctor:fail")
		}
		st.checkPoint(d, "NewPointFromCoords")
	case 23:
		id := rng.Intn(6)
		want := oracle.RecoverPoint(st.mscs[sa], id)
		q, err := secp256k1.RecoverPoint(st.scs[sa], byte(id))
		if (err == nil) != (want != nil) || (err != nil && q != nil) {
			st.fail("RecoverPoint", "err=%v, model %v", err, want)
		} else if want != nil {
			P[d], M[d] = q, want
		} else {
			w.Class("c18:ctor:fail")
		}
		st.checkPoint(d, "RecoverPoint")
		st.frame(ps, ss, d, -1, "RecoverPoint")
	// ---- scalars ----------------------------------------------------------------
	case 24:
		st.scs[sd].Add(st.scs[sa], st.scs[sb])
		st.mscs[sd] = oracle.AddM(st.mscs[sa], st.mscs[sb], n)
		st.checkScalar(sd, "Scalar.Add")
		st.frame(ps, ss, -1, sd, "Scalar.Add")
	case 25:
		st.scs[sd].Multiply(st.scs[sa], st.scs[sb])
		st.mscs[sd] = oracle.MulM(st.mscs[sa], st.mscs[sb], n)
		st.checkScalar(sd, "Scalar.Multiply")
		st.frame(ps, ss, -1, sd, "Scalar.Multiply")
	case 26:
		st.scs[sd].Subtract(st.scs[sa], st.scs[sb])
		st.mscs[sd] = oracle.SubM(st.mscs[sa], st.mscs[sb], n)
		st.checkScalar(sd, "Scalar.Subtract")
		st.frame(ps, ss, -1, sd, "Scalar.Subtract")
	case 27:
		st.scs[sd].Invert(st.scs[sa])
		st.mscs[sd] = oracle.InvM(st.mscs[sa], n)
		st.checkScalar(sd, "Scalar.Invert")
		st.frame(ps, ss, -1, sd, "Scalar.Invert")
	case 28:
		src, _ := rng.Bytes32Any(n)
		var arr [32]byte
		copy(arr[:], src)
		v := oracle.FromBytes(src)
		ret, err := st.scs[sd].SetCanonicalBytes(&arr)
		st.scribble(arr[:])
		if v.Cmp(n) < 0 {
			if err != nil {
				st.fail("Scalar.SetCanonicalBytes", "canonical input rejected")
			}
			st.mscs[sd] = v
			st.frame(ps, ss, -1, sd, "Scalar.SetCanonicalBytes")
		} else {
			w.Class("c18:decode:fail")
			if err == nil || ret != nil {
				st.fail("Scalar.SetCanonicalBytes", "non-canonical input accepted")
			}
			st.frame(ps, ss, -1, -1, "Scalar.SetCanonicalBytes(failed)")
		}
		st.checkScalar(sd, "Scalar.SetCanonicalBytes")
	case 29:
		src, _ := rng.Bytes32Any(n)
		var arr [32]byte
		copy(arr[:], src)
		st.scs[sd].SetBytes(&arr)
		st.scribble(arr[:])
		st.mscs[sd] = oracle.Mod(oracle.FromBytes(src), n)
		st.checkScalar(sd, "Scalar.SetBytes")
		st.frame(ps, ss, -1, sd, "Scalar.SetBytes")
	case 30:
		ctrl := gen.Pick(rng, gen.CtrlValues...)
		st.scs[sd].ConditionalSelect(st.scs[sa], st.scs[sb], ctrl)
		if ctrl != 0 {
			st.mscs[sd] = st.mscs[sb]
		} else {
			st.mscs[sd] = st.mscs[sa]
		}
		st.checkScalar(sd, "Scalar.ConditionalSelect")
		st.frame(ps, ss, -1, sd, "Scalar.ConditionalSelect")
	case 31:
		bts := st.scs[sa].Bytes()
		if !bytes.Equal(bts, b32(st.mscs[sa])) {
			st.fail("Scalar.Bytes", "S%d.Bytes() = %x", sa, bts)
		}
		st.scribble(bts)
		st.checkScalar(sa, "Scalar.Bytes+scribble")
		st.frame(ps, ss, -1, -1, "Scalar.Bytes")
	case 44, 45:
		// Sum / Product over pool entries: the receiver may be any (or several) of the entries
		l := rng.Intn(6)
		vec := make([]*Scalar, l)
		acc := big.NewInt(int64(op - 44)) // 0 for Sum, 1 for Product
		name := []string{"Scalar.Sum", "Scalar.Product"}[op-44]
		for i := range vec {
			j := rng.Intn(c18Scalars)
			if rng.Chance(1, 3) {
				j = sd
			}
			if j == sd {
				w.Class("c18:alias:rcv-in-vector")
			}
			vec[i] = st.scs[j]
			if op == 44 {
				acc = oracle.AddM(acc, st.mscs[j], n)
			} else {
				acc = oracle.MulM(acc, st.mscs[j], n)
			}
		}
		if op == 44 {
			st.scs[sd].Sum(vec...)
		} else {
			st.scs[sd].Product(vec...)
		}
		st.mscs[sd] = acc
		st.checkScalar(sd, name)
		st.frame(ps, ss, -1, sd, name)
	case 46:
		switch rng.Intn(4) {
		case 0:
			st.scs[sd].Negate(st.scs[sa])
			st.mscs[sd] = oracle.NegM(st.mscs[sa], n)
		case 1:
			st.scs[sd].Square(st.scs[sa])
			st.mscs[sd] = oracle.MulM(st.mscs[sa], st.mscs[sa], n)
		case 2:
			ctrl := gen.Pick(rng, gen.CtrlValues...)
			st.scs[sd].ConditionalNegate(st.scs[sa], ctrl)
			if ctrl != 0 {
				st.mscs[sd] = oracle.NegM(st.mscs[sa], n)
			} else {
				st.mscs[sd] = st.mscs[sa]
			}
		default:
			st.scs[sd].Set(st.scs[sa])
			st.mscs[sd] = st.mscs[sa]
		}
		st.checkScalar(sd, "Scalar.unary")
		st.frame(ps, ss, -1, sd, "Scalar.unary")
	// ---- keys: values passed in are copied, values handed out are copies ---------------
	case 32:
		k := rng.Intn(c18Keys)
		nk, err := secec.NewPrivateKeyFromScalar(st.scs[sa])
		if st.mscs[sa].Sign() == 0 {
			w.Class("c18:ctor:fail")
			if err == nil || nk != nil {
				st.fail("NewPrivateKeyFromScalar", "zero scalar accepted")
			}
		} else if err != nil {
			st.fail("NewPrivateKeyFromScalar", "valid scalar rejected: %v", err)
		} else {
			w.Class("c18:key:from-pool-scalar")
			st.priv[k], st.mpriv[k] = nk, st.mscs[sa] // S[sa] stays in the pool and will be mutated by later steps
		}
		st.frame(ps, ss, -1, -1, "NewPrivateKeyFromScalar")
	case 33:
		k := rng.Intn(c18Keys)
		var nk *secec.PublicKey
		var err error
		if !st.expectPanic("NewPublicKeyFromPoint", !opA, func() { nk, err = secec.NewPublicKeyFromPoint(P[a]) }) && opA {
			if M[a].Inf {
				w.Class("c18:ctor:fail")
				if err == nil || nk != nil {
					st.fail("NewPublicKeyFromPoint", "identity accepted")
				}
			} else if err != nil {
				st.fail("NewPublicKeyFromPoint", "valid point rejected: %v", err)
			} else {
				w.Class("c18:key:from-pool-point")
				st.pub[k], st.mpub[k] = nk, M[a]
			}
		}
		if !opA {
			w.Class("c18:panic:uninit-operand")
		}
		st.frame(ps, ss, -1, -1, "NewPublicKeyFromPoint")
	case 34:
		k := rng.Intn(c18Keys)
		var nk *bitcoin.SchnorrPublicKey
		var err error
		if !st.expectPanic("NewSchnorrPublicKeyFromPoint", !opA, func() { nk, err = bitcoin.NewSchnorrPublicKeyFromPoint(P[a]) }) && opA {
			if M[a].Inf {
				w.Class("c18:ctor:fail")
				if err == nil || nk != nil {
					st.fail("NewSchnorrPublicKeyFromPoint", "identity accepted")
				}
			} else if err != nil {
				st.fail("NewSchnorrPublicKeyFromPoint", "valid point rejected: %v", err)
			} else {
				w.Class("c18:key:from-pool-point")
				ev := M[a]
				if ev.Y.Bit(0) == 1 {
					ev = oracle.Neg(ev)
				}
				st.spub[k], st.mspub[k] = nk, ev
			}
		}
		if !opA {
			w.Class("c18:panic:uninit-operand")
		}
		st.frame(ps, ss, -1, -1, "NewSchnorrPublicKeyFromPoint")
	case 35:
		// private key from bytes; the caller then scribbles over the buffer
		k := rng.Intn(c18Keys)
		dv, _ := keyValue(rng)
		buf := b32(dv)
		bad := rng.Chance(1, 4)
		if bad {
			buf = gen.Pick(rng, make([]byte, 32), b32(n), bytes.Repeat([]byte{0xff}, 32), buf[:31])
		}
		nk, err := secec.NewPrivateKey(buf)
		st.scribble(buf)
		if bad {
			w.Class("c18:ctor:fail")
			if err == nil || nk != nil {
				st.fail("NewPrivateKey", "invalid key bytes accepted")
			}
		} else if err != nil {
			st.fail("NewPrivateKey", "valid key rejected: %v", err)
		} else {
			st.priv[k], st.mpriv[k] = nk, dv
			buf2 := b32(dv)
			sk, err := bitcoin.NewSchnorrPrivateKey(buf2)
			st.scribble(buf2)
			if err != nil {
				st.fail("NewSchnorrPrivateKey", "valid key rejected: %v", err)
			} else {
				st.spriv[k], st.mspr[k] = sk, dv
			}
		}
	case 36:
		// public key from bytes (then scribbled)
		k := rng.Intn(c18Keys)
		src, _ := sec1String(rng, st.pool)
		want, werr := oracle.DecodePoint(src)
		ok := werr == nil && !want.Inf
		nk, err := secec.NewPublicKey(src)
		st.scribble(src)
		if (err == nil) != ok || (err != nil && nk != nil) {
			st.fail("NewPublicKey", "err=%v, expected accept=%v", err, ok)
		} else if ok {
			st.pub[k], st.mpub[k] = nk, want
			switch rng.Intn(3) {
			case 0:
				// the same key through the SubjectPublicKeyInfo parser (buffer scribbled afterwards)
				der := oracle.SPKIWrite(oracle.EncodeUncompressed(want))
				pk2, err := secec.ParseASN1PublicKey(der)
				st.scribble(der)
				if err != nil {
					st.fail("ParseASN1PublicKey", "valid SubjectPublicKeyInfo rejected: %v", err)
				} else {
					st.pub[k] = pk2
				}
			case 1:
				// x-only import (buffer scribbled afterwards)
				ev := want
				if ev.Y.Bit(0) == 1 {
					ev = oracle.Neg(ev)
				}
				xb := b32(ev.X)
				spk, err := bitcoin.NewSchnorrPublicKey(xb)
				st.scribble(xb)
				if err != nil {
					st.fail("NewSchnorrPublicKey", "valid x-only key rejected: %v", err)
				} else {
					st.spub[k], st.mspub[k] = spk, ev
					// keep the invariant "spriv[k] belongs to spub[k]" out of it: spub is only checked against mspub
				}
			}
		} else {
			w.Class("c18:ctor:fail")
		}
	case 47:
		// public key by recovery from a signature: a constructor like the others - it
		// returns a key that holds a valid non-identity point, or an error and NO object
		k := rng.Intn(c18Keys)
		kk := oracle.AddM(rng.Below(new(big.Int).Sub(bigN, big.NewInt(1))), big.NewInt(1), bigN)
		R := oracle.MulG(kk)
		rr := oracle.Mod(R.X, bigN)
		id := int(R.Y.Bit(0))
		if R.X.Cmp(bigN) >= 0 {
			id |= 2
		}
		ss := oracle.AddM(rng.Below(new(big.Int).Sub(bigN, big.NewInt(1))), big.NewInt(1), bigN)
		dig := rng.Bytes(32)
		kind := rng.Intn(4)
		switch kind {
		case 0:
			// s*R = e*G: the recovered point would be the identity
			dig = b32(oracle.MulM(ss, kk, bigN))
			w.Class("c18:ctor:recover-identity")
		case 1:
			id = 4 + rng.Intn(250)
		case 2:
			if rng.Bool() {
				rr = big.NewInt(0)
			} else {
				ss = big.NewInt(0)
			}
		}
		if rr.Sign() != 0 || kind == 2 {
			lr, ls := scalarFromBig(rr), scalarFromBig(ss)
			want := oracle.ECDSARecover(dig, rr, ss, id)
			nk, err := secec.RecoverPublicKey(dig, lr, ls, byte(id))
			st.scribble(dig)
			lr.Add(lr, ls)
			switch {
			case (err == nil) != (want != nil):
				st.fail("RecoverPublicKey", "err=%v, the model recovers a key: %v", err, want != nil)
			case err != nil && nk != nil:
				st.fail("RecoverPublicKey", "failed (%v) but returned a key object", err)
			case err == nil:
				if nk.Point().IsIdentity() == 1 {
					st.fail("RecoverPublicKey", "returned a key object holding the point at infinity")
				} else {
					st.pub[k], st.mpub[k] = nk, want
					w.Class("c18:ctor:recovered-key-into-pool")
				}
			default:
				w.Class("c18:ctor:fail")
			}
		}
	case 37:
		// hand-outs go into the pool (and will be mutated by later steps) or are scribbled
		k := rng.Intn(c18Keys)
		switch rng.Intn(6) {
		case 0:
			st.scs[sd], st.mscs[sd] = st.priv[k].Scalar(), st.mpriv[k]
			w.Class("c18:handed-out:scalar-into-pool")
		case 1:
			P[d], M[d] = st.pub[k].Point(), st.mpub[k]
			w.Class("c18:handed-out:point-into-pool")
		case 2:
			P[d], M[d] = st.spub[k].Point(), st.mspub[k]
			w.Class("c18:handed-out:point-into-pool")
		case 3:
			st.scs[sd], st.mscs[sd] = st.spriv[k].Scalar(), st.mspr[k]
			w.Class("c18:handed-out:scalar-into-pool")
		case 4:
			st.scribble(st.priv[k].Bytes())
			st.scribble(st.pub[k].Bytes())
			st.scribble(st.pub[k].CompressedBytes())
			st.scribble(st.pub[k].ASN1Bytes())
		default:
			st.scribble(st.spriv[k].Bytes())
			st.scribble(st.spub[k].Bytes())
			pp := st.priv[k].PublicKey().Point()
			pp.Negate(pp) // mutating a handed-out point
		}
		st.checkPoint(d, "hand-out")
		st.checkScalar(sd, "hand-out")
	default:
		// periodic behaviour check of every key against the model
		w.Class("c18:key:behaviour-check")
		k := rng.Intn(c18Keys)
		if !bytes.Equal(st.priv[k].Bytes(), b32(st.mpriv[k])) || !bytes.Equal(st.priv[k].Scalar().Bytes(), b32(st.mpriv[k])) {
			st.fail("key:private", "private key %d no longer holds its scalar", k)
		}
		if !bytes.Equal(st.priv[k].PublicKey().Bytes(), oracle.EncodeUncompressed(oracle.MulG(st.mpriv[k]))) {
			st.fail("key:private-public", "private key %d: cached public key differs from d*G", k)
		}
		pk := st.pub[k]
		if !bytes.Equal(pk.Bytes(), oracle.EncodeUncompressed(st.mpub[k])) || !bytes.Equal(pk.CompressedBytes(), oracle.EncodeCompressed(st.mpub[k])) ||
			!bytes.Equal(pk.ASN1Bytes(), oracle.SPKIWrite(oracle.EncodeUncompressed(st.mpub[k]))) {
			st.fail("key:public-bytes", "public key %d: cached encodings differ from the encodings of its point", k)
		}
		if msg := expectPoint(pk.Point(), st.mpub[k]); msg != "" {
			st.fail("key:public-point", "public key %d: %s", k, msg)
		}
		if !bytes.Equal(st.spub[k].Bytes(), b32(st.mspub[k].X)) {
			st.fail("key:schnorr-public", "Schnorr public key %d: Bytes() differs from x of its point", k)
		}
		if msg := expectPoint(st.spub[k].Point(), st.mspub[k]); msg != "" {
			st.fail("key:schnorr-point", "Schnorr public key %d: %s", k, msg)
		}
		if !bytes.Equal(st.spriv[k].Bytes(), b32(st.mspr[k])) {
			st.fail("key:schnorr-private", "Schnorr private key %d no longer holds its scalar", k)
		}
		switch rng.Intn(3) {
		case 0:
			sh, err := st.priv[k].ECDH(pk)
			if err != nil || !bytes.Equal(sh, b32(oracle.Mul(st.mpriv[k], st.mpub[k]).X)) {
				st.fail("key:ecdh", "ECDH(priv %d, pub %d) differs from the model", k, k)
			}
		case 1:
			dig := rng.Bytes(32)
			sig, err := st.priv[k].Sign(secec.RFC6979SHA256(), dig, nil)
			r0, s0, _, _, _ := oracle.RFC6979Sign(st.mpriv[k], dig)
			if err != nil || !bytes.Equal(sig, oracle.DERWriteSig(r0, s0)) {
				st.fail("key:sign", "private key %d signs differently from the model", k)
			}
		default:
			msg := rng.Bytes(rng.Intn(60))
			aux := rng.Bytes(32)
			sig, err := st.spriv[k].Sign(&fixedReader{data: aux}, msg, nil)
			if err != nil || !bytes.Equal(sig, oracle.BIP340Sign(st.mspr[k], aux, msg)) {
				st.fail("key:schnorr-sign", "Schnorr private key %d signs differently from the model", k)
			}
		}
		st.frame(ps, ss, -1, -1, "key behaviour")
	}
}

// runUninitMatrix: every public method x every Point operand position:
// an uninitialised operand panics, an uninitialised receiver is fine.
func runUninitMatrix(r *mon.Run) {
	type entry struct {
		name string
		nOps int // number of Point operands (receiver excluded unless it is an operand)
		call func(v *Point, o []*Point, s *Scalar)
		rcv  bool // has a write-only receiver that may be uninitialised
	}
	tab := []entry{
		{"Add", 2, func(v *Point, o []*Point, s *Scalar) { v.Add(o[0], o[1]) }, true},
		{"Subtract", 2, func(v *Point, o []*Point, s *Scalar) { v.Subtract(o[0], o[1]) }, true},
		{"Double", 1, func(v *Point, o []*Point, s *Scalar) { v.Double(o[0]) }, true},
		{"Negate", 1, func(v *Point, o []*Point, s *Scalar) { v.Negate(o[0]) }, true},
		{"ConditionalNegate", 1, func(v *Point, o []*Point, s *Scalar) { v.ConditionalNegate(o[0], 1) }, true},
		{"ConditionalSelect", 2, func(v *Point, o []*Point, s *Scalar) { v.ConditionalSelect(o[0], o[1], 0) }, true},
		{"Set", 1, func(v *Point, o []*Point, s *Scalar) { v.Set(o[0]) }, true},
		{"Equal", 2, func(v *Point, o []*Point, s *Scalar) { o[0].Equal(o[1]) }, false},
		{"IsIdentity", 1, func(v *Point, o []*Point, s *Scalar) { o[0].IsIdentity() }, false},
		{"IsYOdd", 1, func(v *Point, o []*Point, s *Scalar) { o[0].IsYOdd() }, false},
		{"UncompressedBytes", 1, func(v *Point, o []*Point, s *Scalar) { o[0].UncompressedBytes() }, false},
		{"CompressedBytes", 1, func(v *Point, o []*Point, s *Scalar) { o[0].CompressedBytes() }, false},
		{"XBytes", 1, func(v *Point, o []*Point, s *Scalar) { _, _ = o[0].XBytes() }, false},
		{"NewPointFrom", 1, func(v *Point, o []*Point, s *Scalar) { secp256k1.NewPointFrom(o[0]) }, false},
		{"ScalarMult", 1, func(v *Point, o []*Point, s *Scalar) { v.ScalarMult(s, o[0]) }, true},
		{"DoubleScalarMultBasepointVartime", 1, func(v *Point, o []*Point, s *Scalar) { v.DoubleScalarMultBasepointVartime(s, s, o[0]) }, true},
		{"MultiScalarMult[1]", 1, func(v *Point, o []*Point, s *Scalar) { v.MultiScalarMult([]*Scalar{s}, []*Point{o[0]}) }, true},
		{"MultiScalarMult[2]", 2, func(v *Point, o []*Point, s *Scalar) { v.MultiScalarMult([]*Scalar{s, s}, []*Point{o[0], o[1]}) }, true},
		{"MultiScalarMult[3]", 3, func(v *Point, o []*Point, s *Scalar) {
			v.MultiScalarMult([]*Scalar{s, s, s}, []*Point{o[0], o[1], o[2]})
		}, true},
		{"MultiScalarMultVartime[1]", 1, func(v *Point, o []*Point, s *Scalar) { v.MultiScalarMultVartime([]*Scalar{s}, []*Point{o[0]}) }, true},
		{"MultiScalarMultVartime[2]", 2, func(v *Point, o []*Point, s *Scalar) { v.MultiScalarMultVartime([]*Scalar{s, s}, []*Point{o[0], o[1]}) }, true},
		{"MultiScalarMultVartime[3]", 3, func(v *Point, o []*Point, s *Scalar) {
			v.MultiScalarMultVartime([]*Scalar{s, s, s}, []*Point{o[0], o[1], o[2]})
		}, true},
		{"NewPublicKeyFromPoint", 1, func(v *Point, o []*Point, s *Scalar) { _, _ = secec.NewPublicKeyFromPoint(o[0]) }, false},
		{"NewSchnorrPublicKeyFromPoint", 1, func(v *Point, o []*Point, s *Scalar) { _, _ = bitcoin.NewSchnorrPublicKeyFromPoint(o[0]) }, false},
		{"ScalarBaseMult", 0, func(v *Point, o []*Point, s *Scalar) { v.ScalarBaseMult(s) }, true},
		{"Identity", 0, func(v *Point, o []*Point, s *Scalar) { v.Identity() }, true},
		{"Generator", 0, func(v *Point, o []*Point, s *Scalar) { v.Generator() }, true},
		{"SetUniformBytes", 0, func(v *Point, o []*Point, s *Scalar) { v.SetUniformBytes(make([]byte, 48)) }, true},
		{"SetBytes", 0, func(v *Point, o []*Point, s *Scalar) { _, _ = v.SetBytes(oracle.EncodeCompressed(oracle.G())) }, true},
	}
	positions := 0
	for _, e := range tab {
		positions += e.nOps
	}
	r.Extra("uninitialised_operand_positions", positions)
	r.Require("c18:matrix:operand-position", "c18:matrix:uninit-receiver")
	r.Each("c18/uninit-matrix", len(tab)*r.N(4, 40), func(w *mon.W, i int) {
		e := tab[i%len(tab)]
		rng := w.Rng
		s := scalarFromBig(rng.Below(bigN))
		mk := func() *Point {
			z, _ := repZ(rng)
			return pointRep(oracle.MulG(nonzero(rng.Below(bigN))), z)
		}
		w.Case(true, []byte(e.name), []byte(fmt.Sprint(i/len(tab))))
		// all operands valid: no panic, also with an uninitialised receiver
		ops := make([]*Point, e.nOps)
		for k := range ops {
			ops[k] = mk()
		}
		if p, val := mon.Panics(func() { e.call(new(Point), ops, s) }); p {
			w.Fail("c18/matrix/"+e.name+":receiver", fmt.Sprintf("%s panicked with valid operands and a zero-value receiver: %v", e.name, val))
		}
		if e.rcv {
			w.Class("c18:matrix:uninit-receiver")
		}
		for pos := 0; pos < e.nOps; pos++ {
			for k := range ops {
				ops[k] = mk()
			}
			ops[pos] = new(Point)
			w.Class("c18:matrix:operand-position")
			if p, _ := mon.Panics(func() { e.call(mk(), ops, s) }); !p {
				w.Fail(fmt.Sprintf("c18/matrix/%s/operand%d", e.name, pos), fmt.Sprintf("%s computed with an uninitialised Point as operand %d instead of panicking", e.name, pos))
			}
		}
	})
}
