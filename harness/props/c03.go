package props

import (
	"bytes"
	"fmt"
	"math/big"

	secp256k1 "gitlab.com/yawning/secp256k1-voi"

	"verifharness/gen"
	"verifharness/hk"
	"verifharness/mon"
	"verifharness/oracle"
)

func init() { Register("C03", runC03) }

// relation classifies an ordered pair of abstract points.
func relation(p, q *oracle.Pt) string {
	switch {
	case p.Inf && q.Inf:
		return "both-inf"
	case p.Inf:
		return "P=inf"
	case q.Inf:
		return "Q=inf"
	case p.Eq(q):
		return "P=Q"
	case p.Eq(oracle.Neg(q)):
		return "P=-Q"
	case q.Eq(oracle.Dbl(p)):
		return "Q=2P"
	case p.Eq(oracle.Dbl(q)):
		return "P=2Q"
	}
	return "generic"
}

func runC03(r *mon.Run) {
	pool := knownPointPool(r.Seed, r.N(6, 40))
	np := len(pool)
	r.Extra("pool_size", np)
	for _, c := range []string{"rel:both-inf", "rel:P=inf", "rel:Q=inf", "rel:P=Q", "rel:P=-Q", "rel:Q=2P", "rel:generic",
		"alias:distinct", "alias:v=p", "alias:v=q", "alias:p=q", "alias:v=p=q", "rep:nontrivial"} {
		r.Require("c03:" + c)
	}
	if !hk.HaveCore {
		r.Note("core hooks unavailable: only Z=1 representatives and results of earlier operations are used; raw invariants not observed")
	}

	binops := []string{"Add", "Subtract", "Equal", "Select", "addComplete", "addMixed"}
	reps := r.N(2, 6)
	total := np * np * reps
	r.Each("c03/pairwise", total, func(w *mon.W, i int) {
		rng := w.Rng
		pi, qi := (i/reps)%np, (i/reps)/np
		P, Q := pool[pi], pool[qi]
		rel := relation(P.P, Q.P)
		w.Class("c03:rel:" + rel)
		zp, cp := repZ(rng)
		zq, cq := repZ(rng)
		if cp != "Z=1" || cq != "Z=1" {
			w.Class("c03:rep:nontrivial")
		}
		for oi, op := range binops {
			if (op == "addComplete" || op == "addMixed") && !hk.HaveMul {
				continue
			}
			lp, lq := pointRep(P.P, zp), pointRep(Q.P, zq)
			alias := []string{"distinct", "v=p", "v=q", "p=q", "v=p=q"}[(i+oi)%5]
			if (alias == "p=q" || alias == "v=p=q") && rel != "P=Q" && rel != "both-inf" {
				alias = []string{"distinct", "v=p", "v=q"}[(i+oi)%3]
			}
			w.Class("c03:alias:" + alias)
			v := new(Point)
			if rng.Bool() {
				v = pointRep(pool[rng.Intn(np)].P, big.NewInt(7)) // dirty receiver
			}
			switch alias {
			case "v=p":
				v = lp
			case "v=q":
				v = lq
			case "p=q":
				lq = lp
			case "v=p=q":
				lq = lp
				v = lp
			}
			sp, sq := snapPoint(lp), snapPoint(lq)
			var want *oracle.Pt
			desc := fmt.Sprintf("%s(%s[%s], %s[%s]) alias=%s", op, P.Name, cp, Q.Name, cq, alias)
			key := "c03/" + op + "/" + rel
			w.Case(true, []byte(op), []byte(P.Name), []byte(Q.Name), b32(zp), b32(zq), []byte(alias))
			switch op {
			case "Add":
				want = oracle.Add(P.P, Q.P)
				v.Add(lp, lq)
			case "Subtract":
				want = oracle.Sub(P.P, Q.P)
				v.Subtract(lp, lq)
			case "addComplete":
				want = oracle.Add(P.P, Q.P)
				hk.AddComplete(v, lp, lq)
			case "addMixed":
				if Q.P.Inf {
					continue // the mixed formula excludes an infinite addend by contract
				}
				want = oracle.Add(P.P, Q.P)
				// affine addend = (x,y) of Q in Montgomery limbs
				hk.AddMixedRaw(v, lp, montLimbsP(Q.P.X), montLimbsP(Q.P.Y))
			case "Equal":
				eq := lp.Equal(lq)
				if eq != boolU64(P.P.Eq(Q.P.Clone())) {
					w.Fail(key, fmt.Sprintf("%s = %d, abstract equality = %v", desc, eq, P.P.Eq(Q.P)), "P", P.P, "Q", Q.P, "zp", hb(zp), "zq", hb(zq))
				}
				if lq.Equal(lp) != eq {
					w.Fail(key+":sym", desc+": Equal is not symmetric")
				}
				continue
			case "Select":
				ctrl := gen.CtrlValues[(i+oi)%len(gen.CtrlValues)]
				want = P.P
				if ctrl != 0 {
					want = Q.P
				}
				v.ConditionalSelect(lp, lq, ctrl)
				desc += fmt.Sprintf(" ctrl=%#x", ctrl)
			}
			if msg := expectPoint(v, want); msg != "" {
				w.Fail(key, desc+": "+msg, "P", P.P, "Q", Q.P, "zp", hb(zp), "zq", hb(zq), "alias", alias)
			}
			if v != lp && !snapPoint(lp).equal(sp) {
				w.Fail(key+":operand", desc+": operand p was modified")
			}
			if v != lq && !snapPoint(lq).equal(sq) {
				w.Fail(key+":operand", desc+": operand q was modified")
			}
		}
		if i < 3 {
			w.Sample(map[string]any{"P": P.Name, "Q": Q.Name, "repP": cp, "repQ": cq, "relation": rel, "ops": binops})
		}
	})

	// --- exceptional relations with random points and representatives ----------
	r.Each("c03/relations", r.N(3000, 120000), func(w *mon.W, i int) {
		rng := w.Rng
		var base *oracle.Pt
		if rng.Chance(1, 3) {
			base = pool[rng.Intn(np)].P
		} else {
			base = oracle.MulG(rng.Below(bigN))
		}
		var P, Q *oracle.Pt
		relWant := []string{"P=Q", "P=-Q", "Q=2P", "P=2Q", "both-inf", "P=inf", "Q=inf"}[i%7]
		switch relWant {
		case "P=Q":
			P, Q = base, base
		case "P=-Q":
			P, Q = base, oracle.Neg(base)
		case "Q=2P":
			P, Q = base, oracle.Dbl(base)
		case "P=2Q":
			P, Q = oracle.Dbl(base), base
		case "both-inf":
			P, Q = oracle.Infinity(), oracle.Infinity()
		case "P=inf":
			P, Q = oracle.Infinity(), base
		case "Q=inf":
			P, Q = base, oracle.Infinity()
		}
		rel := relation(P, Q)
		w.Class("c03:rel:" + rel)
		zp, _ := repZ(rng)
		zq, _ := repZ(rng)
		lp, lq := pointRep(P, zp), pointRep(Q, zq)
		w.Case(true, []byte(relWant), oracle.EncodeCompressed(P), b32(zp), b32(zq))
		det := []any{"P", P, "Q", Q, "zp", hb(zp), "zq", hb(zq)}
		if msg := expectPoint(new(Point).Add(lp, lq), oracle.Add(P, Q)); msg != "" {
			w.Fail("c03/Add/"+rel, "Add ("+rel+"): "+msg, det...)
		}
		if msg := expectPoint(new(Point).Subtract(lp, lq), oracle.Sub(P, Q)); msg != "" {
			w.Fail("c03/Subtract/"+rel, "Subtract ("+rel+"): "+msg, det...)
		}
		if g := lp.Equal(lq); g != boolU64(P.Eq(Q)) {
			w.Fail("c03/Equal/"+rel, fmt.Sprintf("Equal (%s) = %d", rel, g), det...)
		}
		if hk.HaveMul {
			if msg := expectPoint(hk.AddComplete(new(Point), lp, lq), oracle.Add(P, Q)); msg != "" {
				w.Fail("c03/addComplete/"+rel, "addComplete ("+rel+"): "+msg, det...)
			}
			if !Q.Inf {
				if msg := expectPoint(hk.AddMixedRaw(new(Point), lp, montLimbsP(Q.X), montLimbsP(Q.Y)), oracle.Add(P, Q)); msg != "" {
					w.Fail("c03/addMixed/"+rel, "addMixed ("+rel+"): "+msg, det...)
				}
			}
		}
		// in-place forms
		v := pointRep(P, zp)
		if msg := expectPoint(v.Add(v, lq), oracle.Add(P, Q)); msg != "" {
			w.Fail("c03/Add/"+rel+":inplace", "v.Add(v,q) ("+rel+"): "+msg, det...)
		}
		v = pointRep(Q, zq)
		if msg := expectPoint(v.Subtract(lp, v), oracle.Sub(P, Q)); msg != "" {
			w.Fail("c03/Subtract/"+rel+":inplace", "v.Subtract(p,v) ("+rel+"): "+msg, det...)
		}
	})

	// --- near-equal pairs for the observers: distinct points that agree in one
	// coordinate or in a small linear combination a*x + b*y of the coordinates
	// (the second and third intersection of a line of slope -a/b through P).
	// An Equal that merges its two cross-multiplied comparisons (sums the
	// differences, compares only X, only Y, ...) answers 1 on exactly such pairs,
	// in every projective representative.
	r.Require("c03:near-equal:same-y", "c03:near-equal:same-x", "c03:near-equal:collinear")
	r.Each("c03/near-equal", r.N(1200, 60000), func(w *mon.W, i int) {
		rng := w.Rng
		base := oracle.MulG(rng.Below(bigN))
		if rng.Chance(1, 4) {
			base = pool[1+rng.Intn(np-1)].P
		}
		if base.Inf || base.X.Sign() == 0 {
			return
		}
		var Q *oracle.Pt
		cls := ""
		switch i % 6 {
		case 0:
			Q, cls = oracle.Neg(base), "same-x"
		case 1:
			// endomorphism image (beta*x, y): same y, different x
			beta := oracle.ExpM(big.NewInt(2), new(big.Int).Div(new(big.Int).Sub(bigP, big.NewInt(1)), big.NewInt(3)), bigP) // a primitive cube root of unity (2 is not a cube mod p, checked below)
			if beta.Cmp(big.NewInt(1)) == 0 {
				return
			}
			if rng.Bool() {
				beta = oracle.MulM(beta, beta, bigP)
			}
			Q, cls = &oracle.Pt{X: oracle.MulM(beta, base.X, bigP), Y: new(big.Int).Set(base.Y)}, "same-y"
		default:
			// line through base with slope m = -a/b
			ab := [][2]int64{{1, 1}, {1, -1}, {1, 2}, {2, 1}, {1, 3}, {3, -1}, {1, -2}, {2, -1}}[rng.Intn(8)]
			m := oracle.MulM(oracle.NegM(big.NewInt(ab[0]), bigP), oracle.InvM(oracle.Mod(big.NewInt(ab[1]), bigP), bigP), bigP)
			c := oracle.SubM(base.Y, oracle.MulM(m, base.X, bigP), bigP)
			S := oracle.SubM(oracle.MulM(m, m, bigP), base.X, bigP)
			T := oracle.MulM(oracle.SubM(oracle.MulM(c, c, bigP), big.NewInt(7), bigP), oracle.InvM(base.X, bigP), bigP)
			disc := oracle.SubM(oracle.MulM(S, S, bigP), oracle.MulM(big.NewInt(4), T, bigP), bigP)
			if !oracle.IsSquareP(disc) {
				return // the line meets the curve in no other rational point
			}
			sq := oracle.SqrtP(disc)
			if rng.Bool() {
				sq = oracle.NegM(sq, bigP)
			}
			xq := oracle.MulM(oracle.AddM(S, sq, bigP), oracle.InvM(big.NewInt(2), bigP), bigP)
			Q = &oracle.Pt{X: xq, Y: oracle.AddM(oracle.MulM(m, oracle.SubM(xq, base.X, bigP), bigP), base.Y, bigP)}
			cls = "collinear"
			if Q.Eq(base) {
				return // tangent line
			}
		}
		if !oracle.OnCurve(Q) {
			w.Fail("c03/oracle", "harness: constructed near-equal point is not on the curve", "P", base, "Q", Q)
			return
		}
		if Q.Eq(base) {
			return
		}
		w.Class("c03:near-equal:" + cls)
		zp, _ := repZ(rng)
		zq, _ := repZ(rng)
		lp, lq := pointRep(base, zp), pointRep(Q, zq)
		w.Case(true, []byte("near-equal"), []byte(cls), oracle.EncodeCompressed(base), oracle.EncodeCompressed(Q), b32(zp), b32(zq))
		det := []any{"P", base, "Q", Q, "zp", hb(zp), "zq", hb(zq), "class", cls}
		if g := lp.Equal(lq); g != 0 {
			w.Fail("c03/Equal/near-equal:"+cls, fmt.Sprintf("Equal = %d for two DISTINCT points (%s)", g, cls), det...)
		}
		if g := lq.Equal(lp); g != 0 {
			w.Fail("c03/Equal/near-equal:"+cls, fmt.Sprintf("Equal (swapped) = %d for two DISTINCT points (%s)", g, cls), det...)
		}
		if msg := expectPoint(new(Point).Add(lp, lq), oracle.Add(base, Q)); msg != "" {
			w.Fail("c03/Add/near-equal:"+cls, "Add ("+cls+"): "+msg, det...)
		}
		if msg := expectPoint(new(Point).Subtract(lp, lq), oracle.Sub(base, Q)); msg != "" {
			w.Fail("c03/Subtract/near-equal:"+cls, "Subtract ("+cls+"): "+msg, det...)
		}
		if i < 3 {
			w.Sample(map[string]any{"monitor": "near-equal", "class": cls, "P": base.String(), "Q": Q.String()})
		}
	})

	// --- operand SUMS steered into the carry windows of "multiply by a small constant":
	// the complete formulas multiply sums of coordinates by b3 = 21 (and by 2, 3, 8);
	// an implementation that does this by repeated doubling / limb scaling with a lazy
	// reduction goes wrong only when k*(stored value) lies just below a multiple of 2^256.
	// For affine operands the sum is x1 + x2 (and y1 + y2): choose P, then Q with
	// x(Q) = target - x(P), where the STORED (Montgomery) form of target is
	// floor(j*2^256/k) - eps.  Half of the candidates are on the curve; eps is searched.
	r.Require("c03:small-multiple-window:x-sum")
	r.Each("c03/small-multiple-window", r.N(400, 20000), func(w *mon.W, i int) {
		rng := w.Rng
		P := pool[1+rng.Intn(np-1)].P
		if rng.Bool() || P.Inf {
			P = oracle.MulG(rng.Below(bigN))
		}
		if P.Inf {
			return
		}
		k := int64([]int{21, 21, 21, 3, 2, 4, 8, 9, 12, 24, 42, 63}[i%12])
		j := int64(1 + rng.Intn(int(k)))
		var Q *oracle.Pt
		var eps int64
		for try := 0; try < 64 && Q == nil; try++ {
			eps = int64(rng.U64() % (1 << 34))
			if try < 8 {
				eps = int64(try)
			}
			raw := new(big.Int).Div(new(big.Int).Mul(big.NewInt(j), oracle.Two256), big.NewInt(k))
			raw.Sub(raw, big.NewInt(eps))
			raw.Mod(raw, oracle.Two256)
			if raw.Cmp(bigP) >= 0 {
				continue
			}
			target := oracle.FromMont(raw, bigP)
			xq := oracle.SubM(target, P.X, bigP)
			if cand := oracle.LiftX(xq, uint(rng.Intn(2))); cand != nil && !cand.Eq(P) && !cand.Eq(oracle.Neg(P)) {
				Q = cand
			}
		}
		if Q == nil {
			return
		}
		w.Class("c03:small-multiple-window:x-sum")
		w.Case(true, []byte("smw"), oracle.EncodeCompressed(P), oracle.EncodeCompressed(Q))
		det := []any{"P", P, "Q", Q, "k", k, "j", j, "eps", eps}
		one := big.NewInt(1)
		lp, lq := pointRep(P, one), pointRep(Q, one)
		for _, c := range []struct {
			name string
			got  *Point
			want *oracle.Pt
		}{
			{"Add(P,Q)", new(Point).Add(lp, lq), oracle.Add(P, Q)},
			{"Add(Q,P)", new(Point).Add(lq, lp), oracle.Add(P, Q)},
			{"Subtract(P,-Q)", new(Point).Subtract(lp, pointRep(oracle.Neg(Q), one)), oracle.Add(P, Q)},
			{"Double(P+Q)", new(Point).Double(new(Point).Add(lp, lq)), oracle.Dbl(oracle.Add(P, Q))},
		} {
			if msg := expectPoint(c.got, c.want); msg != "" {
				w.Fail("c03/small-multiple-window/"+c.name, fmt.Sprintf("%s with the stored form of x(P)+x(Q) = floor(%d*2^256/%d) - %d: %s", c.name, j, k, eps, msg), det...)
				return
			}
		}
		if hk.HaveMul {
			if msg := expectPoint(hk.AddMixedRaw(new(Point), lp, montLimbsP(Q.X), montLimbsP(Q.Y)), oracle.Add(P, Q)); msg != "" {
				w.Fail("c03/small-multiple-window/addMixed", "addMixed: "+msg, det...)
			}
		}
	})

	unops := []string{"Double", "Negate", "CondNegate", "Set", "NewPointFrom", "doubleComplete", "observers"}
	r.Require("c03:un:inf", "c03:un:odd-y", "c03:un:even-y")
	r.Each("c03/unary", np*r.N(4, 24), func(w *mon.W, i int) {
		rng := w.Rng
		P := pool[i%np]
		z, cz := repZ(rng)
		if P.P.Inf {
			w.Class("c03:un:inf")
		} else if P.P.Y.Bit(0) == 1 {
			w.Class("c03:un:odd-y")
		} else {
			w.Class("c03:un:even-y")
		}
		for oi, op := range unops {
			if op == "doubleComplete" && !hk.HaveMul {
				continue
			}
			lp := pointRep(P.P, z)
			aliased := (i/np+oi)%2 == 1
			v := new(Point)
			if aliased {
				v = lp
			}
			sp := snapPoint(lp)
			var want *oracle.Pt
			key := "c03/" + op
			desc := fmt.Sprintf("%s(%s[%s]) aliased=%v", op, P.Name, cz, aliased)
			w.Case(true, []byte(op), []byte(P.Name), b32(z), []byte{byte(boolU64(aliased))})
			switch op {
			case "Double":
				want = oracle.Dbl(P.P)
				v.Double(lp)
			case "doubleComplete":
				want = oracle.Dbl(P.P)
				hk.DoubleComplete(v, lp)
			case "Negate":
				want = oracle.Neg(P.P)
				v.Negate(lp)
			case "CondNegate":
				ctrl := gen.CtrlValues[(i+oi)%len(gen.CtrlValues)]
				want = P.P
				if ctrl != 0 {
					want = oracle.Neg(P.P)
				}
				v.ConditionalNegate(lp, ctrl)
				desc += fmt.Sprintf(" ctrl=%#x", ctrl)
			case "Set":
				want = P.P
				v.Set(lp)
			case "NewPointFrom":
				want = P.P
				v = secp256k1.NewPointFrom(lp)
				if v == lp {
					w.Fail(key+":copy", "NewPointFrom returned its argument")
				}
				aliased = false
			case "observers":
				if g := lp.IsIdentity(); g != boolU64(P.P.Inf) {
					w.Fail("c03/IsIdentity", fmt.Sprintf("IsIdentity(%s[%s]) = %d", P.Name, cz, g), "P", P.P, "z", hb(z))
				}
				if !P.P.Inf {
					if g := lp.IsYOdd(); g != uint64(P.P.Y.Bit(0)) {
						w.Fail("c03/IsYOdd", fmt.Sprintf("IsYOdd(%s[%s]) = %d, expected %d", P.Name, cz, g, P.P.Y.Bit(0)), "P", P.P, "z", hb(z))
					}
				} else {
					// parity of the identity is not defined; it must only not depend on the representative
					z2, _ := repZ(rng)
					if g1, g2 := lp.IsYOdd(), pointRep(P.P, z2).IsYOdd(); g1 != g2 {
						w.Fail("c03/IsYOdd:inf", fmt.Sprintf("IsYOdd of two representatives of the identity differ: %d vs %d", g1, g2), "z", hb(z), "z2", hb(z2))
					}
				}
				xb, err := lp.XBytes()
				if P.P.Inf {
					if err == nil || xb != nil {
						w.Fail("c03/XBytes", "XBytes of the identity did not fail")
					}
				} else if err != nil || !bytes.Equal(xb, b32(P.P.X)) {
					w.Fail("c03/XBytes", fmt.Sprintf("XBytes(%s[%s]) = %x err=%v", P.Name, cz, xb, err), "P", P.P, "z", hb(z))
				}
				if msg := expectPoint(lp, P.P); msg != "" {
					w.Fail("c03/encode", fmt.Sprintf("encodings of %s[%s]: %s", P.Name, cz, msg), "P", P.P, "z", hb(z))
				}
				// encoders hand out fresh slices
				e1 := lp.CompressedBytes()
				for j := range e1 {
					e1[j] += 0x55
				}
				if !bytes.Equal(lp.CompressedBytes(), oracle.EncodeCompressed(P.P)) {
					w.Fail("c03/encode:alias", "mutating the slice returned by CompressedBytes changed the point")
				}
				if !snapPoint(lp).equal(sp) {
					w.Fail("c03/observers:operand", "an observer modified its receiver")
				}
				continue
			}
			if msg := expectPoint(v, want); msg != "" {
				w.Fail(key, desc+": "+msg, "P", P.P, "z", hb(z))
			}
			if !aliased && !snapPoint(lp).equal(sp) {
				w.Fail(key+":operand", desc+": operand was modified")
			}
		}
	})

	// --- drift histories: results are reused without rescaling ------------------
	r.Require("c03:drift:through-inf", "c03:drift:doubling-via-add", "c03:drift:reset:Identity", "c03:drift:reset:SetBytes(identity)", "c03:drift:reset:Generator", "c03:drift:reset:decode")
	steps := r.N(150, 600)
	r.Each("c03/drift", r.N(120, 3000), func(w *mon.W, i int) {
		rng := w.Rng
		const regs = 6
		var lib [regs]*Point
		var abs [regs]*oracle.Pt
		for j := range lib {
			P := pool[rng.Intn(np)]
			lib[j], _ = freshPointVia(rng, P.P, nil)
			abs[j] = P.P
		}
		for s := 0; s < steps; s++ {
			d, a, b := rng.Intn(regs), rng.Intn(regs), rng.Intn(regs)
			op := rng.Intn(14)
			var want *oracle.Pt
			switch op {
			case 10, 11, 12, 13:
				// the in-place setters on a register WITH A PAST (whatever the object held before -
				// an affine point from a decoder, a projective result - and whatever per-object
				// hint went with it must be gone afterwards)
				switch op {
				case 10:
					want = oracle.Infinity()
					w.Trace("r%d.Identity()", d)
					lib[d].Identity()
					w.Class("c03:drift:reset:Identity")
				case 11:
					want = oracle.Infinity()
					w.Trace("r%d.SetBytes({0x00})", d)
					if _, err := lib[d].SetBytes([]byte{0x00}); err != nil {
						w.Fail("c03/drift:SetBytes", "SetBytes({0x00}) failed: "+err.Error())
						return
					}
					w.Class("c03:drift:reset:SetBytes(identity)")
				case 12:
					want = oracle.G()
					w.Trace("r%d.Generator()", d)
					lib[d].Generator()
					w.Class("c03:drift:reset:Generator")
				default:
					P := pool[rng.Intn(np)]
					if P.P.Inf {
						P = pool[1]
					}
					want = P.P
					var err error
					switch rng.Intn(3) {
					case 0:
						w.Trace("r%d.SetCompressedBytes(%s)", d, P.Name)
						_, err = lib[d].SetCompressedBytes(oracle.EncodeCompressed(P.P))
					case 1:
						w.Trace("r%d.SetUncompressedBytes(%s)", d, P.Name)
						_, err = lib[d].SetUncompressedBytes(oracle.EncodeUncompressed(P.P))
					default:
						w.Trace("r%d.SetBytes(%s)", d, P.Name)
						_, err = lib[d].SetBytes(oracle.EncodeUncompressed(P.P))
					}
					if err != nil || want.Inf {
						w.Fail("c03/drift:decode", fmt.Sprintf("decoding a valid encoding of %s into a reused register failed: %v", P.Name, err))
						return
					}
					w.Class("c03:drift:reset:decode")
				}
			case 7:
				ctrl := gen.Pick(rng, gen.CtrlValues...)
				want = abs[a]
				if ctrl != 0 {
					want = oracle.Neg(abs[a])
				}
				w.Trace("r%d = ConditionalNegate(r%d, %#x)", d, a, ctrl)
				lib[d].ConditionalNegate(lib[a], ctrl)
			case 8:
				want = abs[a]
				w.Trace("r%d = Set(r%d)", d, a)
				lib[d].Set(lib[a])
			case 9:
				// observers of some OTHER register in between (their internal temporaries
				// must not leak into later constructions), then a fresh identity as operand
				o := rng.Intn(regs)
				_ = lib[o].IsYOdd()
				_ = lib[o].CompressedBytes()
				want = abs[a]
				w.Trace("r%d = Add(r%d, NewIdentityPoint()) after observers of r%d", d, a, o)
				lib[d].Add(lib[a], secp256k1.NewIdentityPoint())
			case 0, 1:
				want = oracle.Add(abs[a], abs[b])
				if !abs[a].Inf && abs[a].Eq(abs[b]) {
					w.Class("c03:drift:doubling-via-add")
				}
				w.Trace("r%d = Add(r%d, r%d)", d, a, b)
				lib[d].Add(lib[a], lib[b])
			case 2:
				want = oracle.Sub(abs[a], abs[b])
				w.Trace("r%d = Subtract(r%d, r%d)", d, a, b)
				lib[d].Subtract(lib[a], lib[b])
			case 3:
				want = oracle.Dbl(abs[a])
				w.Trace("r%d = Double(r%d)", d, a)
				lib[d].Double(lib[a])
			case 4:
				want = oracle.Neg(abs[a])
				w.Trace("r%d = Negate(r%d)", d, a)
				lib[d].Negate(lib[a])
			case 5:
				ctrl := gen.Pick(rng, gen.CtrlValues...)
				want = abs[a]
				if ctrl != 0 {
					want = abs[b]
				}
				w.Trace("r%d = ConditionalSelect(r%d, r%d, %#x)", d, a, b, ctrl)
				lib[d].ConditionalSelect(lib[a], lib[b], ctrl)
			case 6:
				P := pool[rng.Intn(np)]
				z, cz := repZ(rng)
				want = P.P
				var how string
				lib[d], how = freshPointVia(rng, P.P, lib[d])
				w.Trace("r%d = fresh %s via %s (%s)", d, P.Name, how, cz)
				_ = z
			}
			if want.Inf && op < 3 {
				w.Class("c03:drift:through-inf")
			}
			abs[d] = want
			// cheap check every step: raw invariant + abstract value via the oracle
			if got, ok, err := checkPointInvariant(lib[d]); ok {
				if err != nil {
					w.Fail("c03/drift:inv", fmt.Sprintf("step %d: %v", s, err))
					return
				}
				if !got.Eq(want) {
					w.Fail("c03/drift", fmt.Sprintf("step %d: register r%d denotes %v, expected %v", s, d, got, want))
					return
				}
			}
			// every public observer of the written register, every step
			if msg := observersAgree(lib[d], want); msg != "" {
				w.Fail("c03/drift:observers", fmt.Sprintf("step %d: r%d: %s", s, d, msg))
				return
			}
			// (and the remaining checks every few steps, always without hooks)
			if !hk.HaveCore || s%8 == 0 {
				if msg := expectPoint(lib[d], want); msg != "" {
					w.Fail("c03/drift:enc", fmt.Sprintf("step %d: r%d: %s", s, d, msg))
					return
				}
				o := rng.Intn(regs)
				if g := lib[d].Equal(lib[o]); g != boolU64(abs[d].Eq(abs[o])) {
					w.Fail("c03/drift:equal", fmt.Sprintf("step %d: Equal(r%d, r%d) = %d, abstract equality %v", s, d, o, g, abs[d].Eq(abs[o])))
					return
				}
				if g := lib[d].IsIdentity(); g != boolU64(want.Inf) {
					w.Fail("c03/drift:isidentity", fmt.Sprintf("step %d: IsIdentity(r%d) = %d", s, d, g))
					return
				}
			}
			w.Case(true, []byte(fmt.Sprint(i, s)))
		}
	})
}
