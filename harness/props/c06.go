package props

import (
	"bytes"
	"fmt"
	"math/big"

	secp256k1 "gitlab.com/yawning/secp256k1-voi"

	"verifharness/gen"
	"verifharness/mon"
	"verifharness/oracle"
)

func init() { Register("C06", runC06) }

// nonResidueX returns an x < p with x^3+7 a non-residue near the given start.
func nonResidueX(start *big.Int) *big.Int {
	x := oracle.Mod(start, bigP)
	for i := 0; i < 1000; i++ {
		if !oracle.IsSquareP(oracle.Secp.RHS(x)) {
			return x
		}
		x = oracle.AddM(x, big.NewInt(1), bigP)
	}
	panic("no non-residue x found")
}

// sec1String draws a byte string from the hostile SEC 1 classes.
func sec1String(r *gen.Rng, pool []namedPt) ([]byte, string) {
	P := pool[1+r.Intn(len(pool)-1)].P // non-identity
	if r.Chance(1, 3) {
		P = oracle.MulG(r.Below(bigN))
		if P.Inf {
			P = oracle.G()
		}
	}
	unc := oracle.EncodeUncompressed(P)
	cmp := oracle.EncodeCompressed(P)
	put := func(dst []byte, v *big.Int) { // v < 2^256
		copy(dst, b32(v))
	}
	switch r.Intn(26) {
	case 24, 25:
		// a VALID encoding re-cut: prefix byte dropped (raw X||Y, bare X), leading or
		// trailing bytes removed or added, the body of one form under the length of the
		// other - lengths a decoder must reject no matter how plausible the bytes are
		b := append([]byte{}, unc...)
		if r.Chance(1, 3) {
			b = append([]byte{}, cmp...)
		}
		switch r.Intn(7) {
		case 6:
			// the valid encoding inside a DER wrapper other formats carry it in
			// (OCTET STRING of PKCS #11 / X9.62 ECPoint, BIT STRING, SEQUENCE)
			switch r.Intn(3) {
			case 0:
				return append([]byte{0x04, byte(len(b))}, b...), "valid-body-recut:der-wrapped"
			case 1:
				return append([]byte{0x03, byte(len(b) + 1), 0}, b...), "valid-body-recut:der-wrapped"
			default:
				return append([]byte{0x30, byte(len(b))}, b...), "valid-body-recut:der-wrapped"
			}
		case 0:
			return b[1:], "valid-body-recut:prefix-dropped"
		case 1:
			return b[r.Intn(len(b)):], "valid-body-recut:front-removed"
		case 2:
			return b[:r.Intn(len(b))], "valid-body-recut:back-removed"
		case 3:
			return append(r.Bytes(1+r.Intn(3)), b...), "valid-body-recut:front-added"
		case 4:
			return append(append([]byte{b[0]}, b[0]), b[1:]...), "valid-body-recut:prefix-doubled"
		default:
			// X||Y under the compressed prefix, X alone under the uncompressed prefix
			if r.Bool() {
				return append([]byte{byte(2 + r.Intn(2))}, unc[1:]...), "valid-body-recut:wrong-prefix-for-length"
			}
			return append([]byte{4}, unc[1:33]...), "valid-body-recut:wrong-prefix-for-length"
		}
	case 22, 23:
		// OFF-curve (x, y) whose curve-equation sides y^2 and x^3+7 differ, in their STORED
		// (Montgomery) form, in exactly one 64-bit limb or one bit: an equality helper that
		// skips or narrows a limb accepts exactly these.  y^2 = x^3 + 7 + delta needs a
		// square on the right; x is re-drawn until it is.
		for try := 0; try < 40; try++ {
			x := r.Below(bigP)
			var l [4]uint64
			k := r.Intn(4)
			switch r.Intn(3) {
			case 0:
				l[k] = uint64(1) << uint(r.Intn(64))
			case 1:
				l[k] = r.U64() | 1
			default:
				l[k] = uint64(1) << 63
			}
			delta := oracle.FromMont(oracle.FromLimbs(l), bigP)
			if r.Bool() {
				delta = oracle.NegM(delta, bigP)
			}
			rhs := oracle.AddM(oracle.Secp.RHS(x), delta, bigP)
			if delta.Sign() == 0 || !oracle.IsSquareP(rhs) {
				continue
			}
			y := oracle.SqrtP(rhs)
			return append(append([]byte{4}, b32(x)...), b32(y)...), "off-curve:sides-differ-in-one-montgomery-limb"
		}
		return unc, "valid-uncompressed"
	case 0:
		return unc, "valid-uncompressed"
	case 1:
		return cmp, "valid-compressed"
	case 2:
		return []byte{0}, "valid-identity"
	case 3:
		// every length x first byte
		l := r.Intn(67)
		b := r.Bytes(l)
		if l > 0 {
			b[0] = byte(r.Intn(256))
			if r.Bool() {
				b[0] = gen.Pick(r, byte(0), 2, 3, 4, 6, 7)
			}
		}
		return b, "random-any-length"
	case 4:
		// valid body, every prefix
		b := append([]byte{}, unc...)
		if r.Bool() {
			b = append([]byte{}, cmp...)
		}
		b[0] = byte(r.Intn(256))
		return b, "valid-body-any-prefix"
	case 5:
		// x + p alias (only fits for x < 2^256 - p): an abscissa drawn from the whole gap, structured
		// after the limbs of p, then the few fixed special points
		if r.Chance(2, 3) {
			sp := gapPointX(r)
			b := append([]byte{}, oracle.EncodeUncompressed(sp)...)
			if r.Bool() {
				b = append([]byte{}, oracle.EncodeCompressed(sp)...)
			}
			put(b[1:33], new(big.Int).Add(sp.X, bigP))
			return b, "x+p-alias"
		}
		for _, sp := range specialPoints() {
			if sp.P.X.Cmp(new(big.Int).Sub(oracle.Two256, bigP)) < 0 && r.Chance(1, 2) {
				b := append([]byte{}, oracle.EncodeUncompressed(sp.P)...)
				if r.Bool() {
					b = append([]byte{}, oracle.EncodeCompressed(sp.P)...)
				}
				put(b[1:33], new(big.Int).Add(sp.P.X, bigP))
				return b, "x+p-alias"
			}
		}
		b := append([]byte{}, unc...)
		put(b[1:33], new(big.Int).Add(bigP, big.NewInt(int64(r.Intn(1000)))))
		return b, "x>=p"
	case 6:
		if r.Chance(2, 3) {
			if sp := gapPointY(r); sp != nil {
				b := append([]byte{}, oracle.EncodeUncompressed(sp)...)
				put(b[33:65], new(big.Int).Add(sp.Y, bigP))
				return b, "y+p-alias"
			}
		}
		for _, sp := range specialPoints() {
			if sp.P.Y.Cmp(new(big.Int).Sub(oracle.Two256, bigP)) < 0 {
				b := append([]byte{}, oracle.EncodeUncompressed(sp.P)...)
				put(b[33:65], new(big.Int).Add(sp.P.Y, bigP))
				return b, "y+p-alias"
			}
		}
		fallthrough
	case 7:
		b := append([]byte{}, unc...)
		put(b[33:65], new(big.Int).Add(bigP, r.Below(new(big.Int).Sub(oracle.Two256, bigP))))
		return b, "y>=p"
	case 8:
		b := append([]byte{}, cmp...)
		put(b[1:33], gen.Pick(r, bigP, new(big.Int).Sub(oracle.Two256, big.NewInt(1)), new(big.Int).Add(bigP, big.NewInt(1))))
		return b, "x>=p"
	case 9:
		x := nonResidueX(r.Below(bigP))
		b := append([]byte{byte(2 + r.Intn(2))}, b32(x)...)
		return b, "compressed-nonresidue-x"
	case 10:
		x := nonResidueX(r.Below(bigP))
		b := append([]byte{4}, b32(x)...)
		b = append(b, b32(r.Below(bigP))...)
		return b, "uncompressed-nonresidue-x"
	case 11:
		b := append([]byte{}, unc...)
		put(b[33:65], oracle.NegM(P.Y, bigP))
		return b, "valid-uncompressed" // -P is also valid
	case 12:
		b := append([]byte{}, unc...)
		d := int64(1)
		if r.Bool() {
			d = -1
		}
		put(b[33:65], oracle.AddM(P.Y, big.NewInt(d), bigP))
		return b, "y-off-by-one"
	case 13:
		b := append([]byte{}, unc...)
		d := int64(1)
		if r.Bool() {
			d = -1
		}
		put(b[1:33], oracle.AddM(P.X, big.NewInt(d), bigP))
		return b, "x-off-by-one"
	case 14:
		// hybrid with right / wrong parity
		b := append([]byte{}, unc...)
		b[0] = byte(6 + (int(P.Y.Bit(0))+r.Intn(2))%2)
		return b, "hybrid"
	case 15:
		l := gen.Pick(r, 33, 65, 1, 64, 32)
		b := make([]byte, l)
		if r.Bool() && l > 1 {
			b[0] = gen.Pick(r, byte(2), 3, 4)
		}
		return b, "zeros"
	case 16:
		// truncation / extension by one byte
		b := append([]byte{}, unc...)
		if r.Bool() {
			b = append([]byte{}, cmp...)
		}
		if r.Bool() {
			return b[:len(b)-1], "truncated"
		}
		return append(b, byte(r.U64())), "extended"
	case 17:
		// compressed with flipped parity: still valid, denotes -P
		b := append([]byte{}, cmp...)
		b[0] ^= 1
		return b, "valid-compressed"
	case 18:
		// one flipped bit somewhere
		b := append([]byte{}, unc...)
		if r.Bool() {
			b = append([]byte{}, cmp...)
		}
		b[r.Intn(len(b))] ^= 1 << uint(r.Intn(8))
		return b, "bitflip"
	case 19:
		// a twist point: x with non-residue RHS presented uncompressed with y^2 = -(x^3+7)... just random y
		sp := specialPoints()[r.Intn(len(specialPoints()))].P
		if r.Bool() {
			return oracle.EncodeCompressed(sp), "valid-special-coordinate"
		}
		return oracle.EncodeUncompressed(sp), "valid-special-coordinate"
	case 20:
		// x = 0 / y = 0 combinations
		b := make([]byte, 65)
		b[0] = 4
		if r.Bool() {
			put(b[1:33], P.X)
		} else {
			put(b[33:65], P.Y)
		}
		return b, "zero-coordinate"
	default:
		b := r.Bytes(gen.Pick(r, 33, 65))
		b[0] = gen.Pick(r, byte(2), 3, 4)
		return b, "random-right-length"
	}
}

func runC06(r *mon.Run) {
	pool := knownPointPool(r.Seed, r.N(8, 40))
	np := len(pool)
	for _, c := range []string{"valid-uncompressed", "valid-compressed", "valid-identity", "x+p-alias", "y+p-alias", "x>=p", "y>=p", "compressed-nonresidue-x", "hybrid",
		"y-off-by-one", "truncated", "extended", "zeros", "valid-special-coordinate", "valid-body-recut:prefix-dropped", "valid-body-recut:front-removed", "valid-body-recut:wrong-prefix-for-length"} {
		r.Require("c06:str:" + c)
	}
	r.Require("c06:accept", "c06:reject", "c06:rcv:uninitialised", "c06:rcv:point")
	type decoder struct {
		name string
		call func(v *Point, b []byte) (*Point, error)
		want func(b []byte) (*oracle.Pt, error)
		rcv  bool
	}
	decs := []decoder{
		{"SetBytes", func(v *Point, b []byte) (*Point, error) { return v.SetBytes(b) }, oracle.DecodePoint, true},
		{"SetCompressedBytes", func(v *Point, b []byte) (*Point, error) { return v.SetCompressedBytes(b) }, oracle.DecodeCompressedOnly, true},
		{"SetUncompressedBytes", func(v *Point, b []byte) (*Point, error) { return v.SetUncompressedBytes(b) }, oracle.DecodeUncompressedOnly, true},
		{"NewPointFromBytes", func(v *Point, b []byte) (*Point, error) { return secp256k1.NewPointFromBytes(b) }, oracle.DecodePoint, false},
	}
	r.Each("c06/strings", r.N(60000, 2500000), func(w *mon.W, i int) {
		rng := w.Rng
		src, cl := sec1String(rng, pool)
		w.Class("c06:str:" + cl)
		keep := append([]byte{}, src...)
		_, oerr := oracle.DecodePoint(src)
		w.Case(oerr == nil || len(src) == 1 || len(src) == 33 || len(src) == 65, []byte("str"), src)
		if i < 3 {
			w.Sample(map[string]any{"op": "SetBytes/SetCompressedBytes/SetUncompressedBytes/NewPointFromBytes", "src": hx(src), "class": cl, "oracle_accepts": oerr == nil})
		}
		for _, d := range decs {
			want, werr := d.want(src)
			var v *Point
			var before pointSnap
			var prev *oracle.Pt
			if rng.Bool() {
				v = new(Point) // uninitialised receiver
				w.Class("c06:rcv:uninitialised")
			} else {
				prev = pool[rng.Intn(np)].P
				z, _ := repZ(rng)
				v = pointRep(prev, z)
				w.Class("c06:rcv:point")
			}
			before = snapPoint(v)
			got, err := d.call(v, src)
			key := "c06/" + d.name + "/" + cl
			if (err == nil) != (werr == nil) {
				w.Fail(key, fmt.Sprintf("%s(%x): library err=%v, strict SEC 1 decoder err=%v", d.name, src, err, werr), "src", src, "class", cl)
				continue
			}
			if err != nil {
				w.Class("c06:reject")
				if got != nil {
					w.Fail(key+":nil", d.name+" returned a point together with an error", "src", src)
				}
				if d.rcv && !snapPoint(v).equal(before) {
					w.Fail(key+":rcv", fmt.Sprintf("%s(%x) failed but modified its receiver", d.name, src), "src", src, "class", cl)
				}
				continue
			}
			w.Class("c06:accept")
			if d.rcv && got != v {
				w.Fail(key+":ret", d.name+" did not return its receiver", "src", src)
			}
			if msg := expectPoint(got, want); msg != "" {
				w.Fail(key+":value", fmt.Sprintf("%s(%x): %s", d.name, src, msg), "src", src, "class", cl)
				continue
			}
			// decode-then-encode in the same format is the identity
			var re []byte
			switch len(src) {
			case 33:
				re = got.CompressedBytes()
			default:
				re = got.UncompressedBytes()
			}
			if !bytes.Equal(re, src) {
				w.Fail(key+":reencode", fmt.Sprintf("%s(%x) re-encodes to %x", d.name, src, re), "src", src)
			}
		}
		if !bytes.Equal(src, keep) {
			w.Fail("c06:src", "a decoder modified its input", "src", keep)
		}
	})

	// --- encode -> decode -> Equal for arbitrary representatives ---------------------
	r.Each("c06/roundtrip", np*r.N(3, 30), func(w *mon.W, i int) {
		rng := w.Rng
		P := pool[i%np]
		z, cz := repZ(rng)
		lp := pointRep(P.P, z)
		w.Case(true, []byte("rt"), []byte(P.Name), b32(z))
		// values handed out are the caller's: scribble over every returned encoding, encode again
		for rep := 0; rep < 2; rep++ {
			c, u := lp.CompressedBytes(), lp.UncompressedBytes()
			xb, _ := lp.XBytes()
			if !bytes.Equal(c, oracle.EncodeCompressed(P.P)) || !bytes.Equal(u, oracle.EncodeUncompressed(P.P)) || (!P.P.Inf && !bytes.Equal(xb, b32(P.P.X))) {
				w.Fail("c06/encode", fmt.Sprintf("encodings of %s[%s] (pass %d, after the previously returned slices were overwritten by the caller): compressed %x uncompressed %x x %x", P.Name, cz, rep, c, u, xb), "P", P.P, "z", hb(z))
			}
			for _, b := range [][]byte{c, u, xb} {
				for j := range b {
					b[j] += 0x5b
				}
			}
		}
		for _, enc := range [][]byte{lp.CompressedBytes(), lp.UncompressedBytes()} {
			q, err := secp256k1.NewPointFromBytes(enc)
			if err != nil {
				w.Fail("c06/roundtrip", fmt.Sprintf("encoding %x of %s[%s] does not decode: %v", enc, P.Name, cz, err), "P", P.P, "z", hb(z))
				continue
			}
			if q.Equal(lp) != 1 {
				w.Fail("c06/roundtrip:equal", fmt.Sprintf("decode(encode(%s[%s])) != original", P.Name, cz), "P", P.P, "z", hb(z))
			}
		}
	})

	// --- construction from coordinates ---------------------------------------------------
	r.Require("c06:coords:accept", "c06:coords:x>=p", "c06:coords:y>=p", "c06:coords:off-curve")
	r.Each("c06/coords", r.N(15000, 600000), func(w *mon.W, i int) {
		rng := w.Rng
		src, cl := sec1String(rng, pool)
		var xb, yb [32]byte
		if len(src) == 65 {
			copy(xb[:], src[1:33])
			copy(yb[:], src[33:65])
		} else {
			// derive from a point / garbage
			P := pool[1+rng.Intn(np-1)].P
			copy(xb[:], b32(P.X))
			copy(yb[:], b32(P.Y))
			if rng.Chance(1, 3) {
				rng.Fill(yb[:])
			}
		}
		x, y := oracle.FromBytes(xb[:]), oracle.FromBytes(yb[:])
		ok := x.Cmp(bigP) < 0 && y.Cmp(bigP) < 0 && oracle.OnCurve(&oracle.Pt{X: x, Y: y})
		switch {
		case ok:
			w.Class("c06:coords:accept")
		case x.Cmp(bigP) >= 0:
			w.Class("c06:coords:x>=p")
		case y.Cmp(bigP) >= 0:
			w.Class("c06:coords:y>=p")
		default:
			w.Class("c06:coords:off-curve")
		}
		w.Case(true, []byte("coords"), xb[:], yb[:])
		p, err := secp256k1.NewPointFromCoords(&xb, &yb)
		if (err == nil) != ok || (err != nil && p != nil) {
			w.Fail("c06/NewPointFromCoords/"+cl, fmt.Sprintf("NewPointFromCoords(%x, %x): err=%v, expected accept=%v", xb, yb, err, ok), "x", xb[:], "y", yb[:])
		} else if ok {
			if msg := expectPoint(p, &oracle.Pt{X: x, Y: y}); msg != "" {
				w.Fail("c06/NewPointFromCoords:value", msg, "x", xb[:], "y", yb[:])
			}
		}
	})

	// --- x-coordinate as a scalar + recovery id ----------------------------------------------
	r.Require("c06:recover:id>=4", "c06:recover:x+n<p,on-curve", "c06:recover:x+n<p,off-curve", "c06:recover:x+n>=p", "c06:recover:accept-low", "c06:recover:off-curve-low")
	pmn := new(big.Int).Sub(bigP, bigN)
	r.Each("c06/recover", r.N(12000, 500000), func(w *mon.W, i int) {
		rng := w.Rng
		var xs *big.Int
		switch i % 6 {
		case 0:
			xs = rng.Below(pmn) // x + n < p possible
		case 1:
			// x' = n + d on the curve -> xs = d
			for _, sp := range specialPoints() {
				if sp.P.X.Cmp(bigN) >= 0 {
					xs = new(big.Int).Sub(sp.P.X, bigN)
					if rng.Bool() {
						break
					}
				}
			}
		case 2:
			xs = oracle.Mod(pool[1+rng.Intn(np-1)].P.X, bigN)
		case 3:
			xs = new(big.Int).Add(pmn, big.NewInt(int64(rng.Intn(5)-2)))
		default:
			xs, _ = rng.Value(bigN)
		}
		if xs == nil {
			xs = rng.Below(bigN)
		}
		id := i / 6 % 256
		if rng.Chance(2, 3) {
			id = rng.Intn(4)
		}
		want := oracle.RecoverPoint(xs, id)
		switch {
		case id >= 4:
			w.Class("c06:recover:id>=4")
		case id&2 != 0 && xs.Cmp(pmn) >= 0:
			w.Class("c06:recover:x+n>=p")
		case id&2 != 0 && want != nil:
			w.Class("c06:recover:x+n<p,on-curve")
		case id&2 != 0:
			w.Class("c06:recover:x+n<p,off-curve")
		case want != nil:
			w.Class("c06:recover:accept-low")
		default:
			w.Class("c06:recover:off-curve-low")
		}
		w.Case(true, []byte("recover"), b32(xs), []byte{byte(id)})
		ls := scalarFromBig(xs)
		p, err := secp256k1.RecoverPoint(ls, byte(id))
		if (err == nil) != (want != nil) || (err != nil && p != nil) {
			w.Fail(fmt.Sprintf("c06/RecoverPoint/id&3=%d", id&3), fmt.Sprintf("RecoverPoint(%x, id=%d): err=%v, model accepts=%v", xs, id, err, want != nil), "x", hb(xs), "id", id)
		} else if want != nil {
			if msg := expectPoint(p, want); msg != "" {
				w.Fail("c06/RecoverPoint:value", fmt.Sprintf("RecoverPoint(%x, id=%d): %s", xs, id, msg), "x", hb(xs), "id", id)
			}
		}
		if bigFromScalar(ls).Cmp(xs) != 0 {
			w.Fail("c06/RecoverPoint:operand", "RecoverPoint modified its scalar", "x", hb(xs))
		}
	})

	// --- no hidden state: decodes of RELATED inputs in adversarial order ------------------
	// The decoders are functions of their input.  A memo / cache / reused scratch keyed on
	// part of the input (x only, the body without the prefix, the last result) shows only
	// when related encodings are decoded back to back: same x with the other parity, with
	// an invalid prefix, compressed after uncompressed, recovery ids 0..3 in a row.
	// Single goroutine, so nothing else runs between two steps.
	r.Require("c06:seq:steps", "c06:seq:parity-flip-after-success", "c06:seq:bad-prefix-after-success")
	r.Seq("c06/sequences", r.N(400, 20000), func(w *mon.W, i int) {
		rng := w.Rng
		P := pool[1+rng.Intn(np-1)].P
		if rng.Bool() {
			P = oracle.MulG(rng.Below(bigN))
		}
		if P.Inf {
			return
		}
		N := oracle.Neg(P)
		xb := b32(P.X)
		enc := func(prefix byte) []byte { return append([]byte{prefix}, xb...) }
		type step struct {
			name string
			in   []byte
			rec  int // >= 0: RecoverPoint(x mod n, rec) instead of a byte decode
		}
		par := byte(2 + P.Y.Bit(0))
		menu := []step{
			{"same-parity", enc(par), -1}, {"other-parity", enc(par ^ 1), -1},
			{"uncompressed", oracle.EncodeUncompressed(P), -1}, {"uncompressed-negated", oracle.EncodeUncompressed(N), -1},
			{"bad-prefix-05", enc(5), -1}, {"bad-prefix-00", enc(0), -1}, {"hybrid-06", append([]byte{6}, oracle.EncodeUncompressed(P)[1:]...), -1},
			{"hybrid-07", append([]byte{7}, oracle.EncodeUncompressed(P)[1:]...), -1}, {"bad-prefix-ff", enc(0xff), -1},
			{"recover", nil, 0}, {"recover", nil, 1}, {"recover", nil, 2}, {"recover", nil, 3},
		}
		w.Case(true, []byte("sequence"), xb, []byte{byte(i)})
		prevOK, prev := false, ""
		rcv := secp256k1.NewIdentityPoint()
		for k := 0; k < 10; k++ {
			st := menu[rng.Intn(len(menu))]
			w.Class("c06:seq:steps")
			if prevOK && st.name == "other-parity" {
				w.Class("c06:seq:parity-flip-after-success")
			}
			if prevOK && len(st.name) > 10 && st.name[:10] == "bad-prefix" {
				w.Class("c06:seq:bad-prefix-after-success")
			}
			var want *oracle.Pt
			var got *Point
			var err error
			desc := st.name
			if st.rec >= 0 {
				if P.X.Cmp(bigN) >= 0 {
					continue
				}
				want = oracle.RecoverPoint(P.X, st.rec)
				got, err = secp256k1.RecoverPoint(scalarFromBig(P.X), byte(st.rec))
				desc = fmt.Sprintf("RecoverPoint(x, %d)", st.rec)
			} else {
				if wp, werr := oracle.DecodePoint(st.in); werr == nil {
					want = wp
				}
				switch rng.Intn(3) {
				case 0:
					got, err = secp256k1.NewPointFromBytes(st.in)
					desc = "NewPointFromBytes(" + st.name + ")"
				case 1:
					got, err = rcv.SetBytes(st.in)
					desc = "SetBytes(" + st.name + ") on a reused receiver"
				default:
					if len(st.in) == 33 {
						got, err = secp256k1.NewIdentityPoint().SetCompressedBytes(st.in)
						desc = "SetCompressedBytes(" + st.name + ")"
					} else {
						got, err = secp256k1.NewIdentityPoint().SetUncompressedBytes(st.in)
						desc = "SetUncompressedBytes(" + st.name + ")"
					}
				}
			}
			if (err == nil) != (want != nil) {
				w.Fail("c06/sequence:verdict", fmt.Sprintf("step %d %s right after [%s]: err=%v, strict decoder accepts=%v (x = %x)", k, desc, prev, err, want != nil, P.X), "x", hx(xb), "step", desc, "previous", prev)
				return
			}
			if want != nil {
				if msg := expectPoint(got, want); msg != "" {
					w.Fail("c06/sequence:value", fmt.Sprintf("step %d %s right after [%s]: %s", k, desc, prev, msg), "x", hx(xb), "step", desc, "previous", prev)
					return
				}
			}
			prevOK, prev = want != nil, desc
		}
	})
}
