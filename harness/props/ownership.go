package props

import (
	"bytes"
	"fmt"
	"math/big"
	"runtime"
	"runtime/debug"
	"strings"
	"sync"
	"sync/atomic"

	secp256k1 "gitlab.com/yawning/secp256k1-voi"
	"gitlab.com/yawning/secp256k1-voi/secec"
	"gitlab.com/yawning/secp256k1-voi/secec/bitcoin"
	"gitlab.com/yawning/secp256k1-voi/secec/h2c"

	"verifharness/mon"
	"verifharness/oracle"
)

// Two ownership monitors that cut across the functional properties (single goroutine).
//
// (1) "The caller owns what a call returns."  The same deterministic call is made several
//     times on ONE long-lived object with the same inputs; after each call everything it
//     handed out (scalars, points, byte slices, derived keys' hand-outs) is destroyed in
//     place - negated, zeroed, overwritten.  Every call must still give the value the first
//     one gave (and the reference model's).  A per-object or process-wide memo that hands
//     out its own storage is correct until somebody does this.
//
// (2) "An object is its value, not its address."  Point, Scalar and the key types are plain
//     structs; `*p = *q` puts a new value at an old address.  The same operation is called
//     through ONE pointer whose pointee is overwritten by value between the calls (A, B, A,
//     C); each result is that of the current value.  A cache keyed on the pointer, or a hint
//     stored next to the object that the assignment carries along, breaks this.

func init() {
	for _, id := range []string{"C04", "C06", "C07", "C08", "C10", "C11", "C13", "C14", "C15", "C16"} {
		id := id
		prev := registry[id].Run
		registry[id].Run = func(r *mon.Run) {
			prev(r)
			if !isYield(r) {
				runOwnership(r, id)
			}
		}
	}
}

func wreckScalar(s *Scalar, i int) {
	if s == nil {
		return
	}
	switch i % 3 {
	case 0:
		s.Negate(s)
	case 1:
		s.Zero()
	default:
		s.Add(s, secp256k1.NewScalarFromUint64(0x1234567))
	}
}

func wreckPoint(p *Point, i int) {
	if p == nil {
		return
	}
	switch i % 3 {
	case 0:
		p.Negate(p)
	case 1:
		p.Identity()
	default:
		p.Double(p)
	}
}

func wreckBytes(b []byte) {
	b = b[:cap(b)]
	for i := range b {
		b[i] ^= 0x5a + byte(i)
	}
}

func runOwnership(r *mon.Run, id string) {
	lc := "c" + id[1:]
	r.Require(lc + ":ownership:same-address-new-value")
	if id != "C04" && id != "C16" {
		r.Require(lc + ":ownership:repeat-after-wrecking-results")
	}
	n := r.N(60, 2500)
	r.Seq(lc+"/ownership", n, func(w *mon.W, i int) {
		rng := w.Rng
		w.Case(true, []byte("ownership"), []byte(id), []byte{byte(i), byte(i >> 8)})
		const reps = 4
		// one repeated call: f returns a canonical encoding of the result and wrecks what was handed out
		repeat := func(name string, want []byte, f func(rep int) []byte) bool {
			for rep := 0; rep < reps; rep++ {
				got := f(rep)
				if want == nil {
					want = got
				}
				if !bytes.Equal(got, want) {
					w.Fail(lc+"/ownership/repeat/"+name, fmt.Sprintf("%s, call #%d with the same inputs on the same object, after the caller destroyed in place everything the earlier calls returned: %s, expected %s", name, rep+1, hx(got), hx(want)))
					return false
				}
			}
			w.Class(lc + ":ownership:repeat-after-wrecking-results")
			return true
		}
		d, _ := keyValue(rng)
		Q := oracle.MulG(d)
		dig, _ := digestValue(rng, false)
		switch id {
		case "C08", "C11", "C07":
			priv := mustPriv(d)
			r0, s0, v0, _, _ := oracle.RFC6979Sign(d, dig)
			if id == "C08" {
				if !repeat("SignRaw(RFC 6979)", append(append(b32(r0), b32(s0)...), byte(v0)), func(rep int) []byte {
					lr, ls, v, err := priv.SignRaw(secec.RFC6979SHA256(), dig)
					if err != nil {
						return []byte(err.Error())
					}
					out := append(append(lr.Bytes(), ls.Bytes()...), v)
					wreckScalar(lr, rep)
					wreckScalar(ls, rep+1)
					wreckScalar(priv.Scalar(), rep)
					wreckPoint(priv.PublicKey().Point(), rep)
					return out
				}) {
					return
				}
				ent := rng.Bytes(32)
				if !repeat("SignRaw(fixed entropy)", nil, func(rep int) []byte {
					lr, ls, v, err := priv.SignRaw(&fixedReader{data: ent}, dig)
					if err != nil {
						return []byte(err.Error())
					}
					out := append(append(lr.Bytes(), ls.Bytes()...), v)
					wreckScalar(lr, rep+2)
					wreckScalar(ls, rep)
					return out
				}) {
					return
				}
				for _, enc := range []secec.SignatureEncoding{secec.EncodingASN1, secec.EncodingCompact, secec.EncodingCompactRecoverable} {
					enc := enc
					if !repeat(fmt.Sprintf("Sign(RFC 6979, encoding %d)", enc), nil, func(rep int) []byte {
						sig, err := priv.Sign(secec.RFC6979SHA256(), dig[:32], &secec.ECDSAOptions{Encoding: enc, SelfVerify: rep%2 == 1})
						if err != nil {
							return []byte(err.Error())
						}
						out := append([]byte{}, sig...)
						wreckBytes(sig)
						return out
					}) {
						return
					}
				}
			}
			if id == "C11" || id == "C07" {
				lr, ls := scalarFromBig(r0), scalarFromBig(s0)
				if !repeat("RecoverPublicKey", oracle.EncodeUncompressed(Q), func(rep int) []byte {
					k, err := secec.RecoverPublicKey(dig, lr, ls, byte(v0))
					if err != nil {
						return []byte(err.Error())
					}
					out := k.Bytes()
					if !k.VerifyRaw(dig, lr, ls) {
						out = append(out, []byte(" (does not verify)")...)
					}
					wreckPoint(k.Point(), rep)
					wreckBytes(k.Bytes())
					wreckBytes(k.CompressedBytes())
					wreckBytes(k.ASN1Bytes())
					return out
				}) {
					return
				}
				pub := mustPub(Q)
				if !repeat("VerifyRaw", []byte{1}, func(rep int) []byte {
					ok := pub.VerifyRaw(dig, lr, ls)
					wreckPoint(pub.Point(), rep)
					wreckBytes(pub.Bytes())
					if ok {
						return []byte{1}
					}
					return []byte{0}
				}) {
					return
				}
			}
		case "C10":
			priv := mustPriv(d)
			d2, _ := keyValue(rng)
			peer := mustPub(oracle.MulG(d2))
			if !repeat("ECDH", b32(oracle.MulG(oracle.MulM(d, d2, bigN)).X), func(rep int) []byte {
				ss, err := priv.ECDH(peer)
				if err != nil {
					return []byte(err.Error())
				}
				out := append([]byte{}, ss...)
				wreckBytes(ss)
				wreckScalar(priv.Scalar(), rep)
				wreckBytes(priv.Bytes())
				wreckPoint(peer.Point(), rep)
				wreckPoint(priv.PublicKey().Point(), rep+1)
				wreckBytes(peer.Bytes())
				return out
			}) {
				return
			}
		case "C13", "C14":
			sk, err := bitcoin.NewSchnorrPrivateKey(b32(d))
			if err != nil {
				return
			}
			aux := rng.Bytes(32)
			msg := rng.Bytes(rng.Intn(70))
			want := oracle.BIP340Sign(d, aux, msg)
			if !repeat("Schnorr Sign(fixed aux)", want, func(rep int) []byte {
				sig, err := sk.Sign(&fixedReader{data: aux}, msg, nil)
				if err != nil {
					return []byte(err.Error())
				}
				out := append([]byte{}, sig...)
				wreckBytes(sig)
				wreckScalar(sk.Scalar(), rep)
				wreckPoint(sk.PublicKey().Point(), rep)
				wreckBytes(sk.PublicKey().Bytes())
				return out
			}) {
				return
			}
			xb := b32(Q.X)
			if !repeat("NewSchnorrPublicKey + Verify", []byte{1}, func(rep int) []byte {
				pk, err := bitcoin.NewSchnorrPublicKey(xb)
				if err != nil {
					return []byte(err.Error())
				}
				ok := pk.Verify(msg, want)
				wreckPoint(pk.Point(), rep)
				wreckBytes(pk.Bytes())
				if ok {
					return []byte{1}
				}
				return []byte{0}
			}) {
				return
			}
		case "C15":
			dst := rng.Bytes([]int{16, 255, 256, 300}[i%4])
			msg := rng.Bytes(rng.Intn(80))
			m, _, err := oracle.HashToCurveRO(msg, dst)
			if err != nil {
				return
			}
			if !repeat(fmt.Sprintf("hash-to-curve RO (%d-byte tag)", len(dst)), oracle.EncodeUncompressed(m), func(rep int) []byte {
				p, err := h2c.Secp256k1_XMD_SHA256_SSWU_RO(dst, msg)
				if err != nil {
					return []byte(err.Error())
				}
				out := p.UncompressedBytes()
				wreckPoint(p, rep)
				return out
			}) {
				return
			}
		case "C06":
			enc := oracle.EncodeCompressed(Q)
			if i%2 == 1 {
				enc = oracle.EncodeUncompressed(Q)
			}
			if !repeat("NewPointFromBytes", oracle.EncodeUncompressed(Q), func(rep int) []byte {
				p, err := secp256k1.NewPointFromBytes(enc)
				if err != nil {
					return []byte(err.Error())
				}
				out := p.UncompressedBytes()
				wreckPoint(p, rep)
				return out
			}) {
				return
			}
		}

		// --- (2) same address, new value ------------------------------------------------------
		vals := make([]*big.Int, 3)
		for j := range vals {
			vals[j] = nonzero(rng.Below(bigN))
		}
		order := []int{0, 1, 0, 2, 2, 1}
		s, _ := glvOrValue(rng)
		if s.Sign() == 0 {
			s = big.NewInt(3)
		}
		sc := scalarFromBig(s)
		failAt := func(name string, step int, got, want []byte) {
			w.Fail(lc+"/ownership/same-address/"+name, fmt.Sprintf("%s through one pointer whose pointee was overwritten by value (step %d of values A,B,A,C,C,B): %s, expected %s", name, step, hx(got), hx(want)))
		}
		switch id {
		case "C04", "C16", "C06":
			slot := new(Point)
			for step, j := range order {
				z, _ := repZ(rng)
				*slot = *pointRep(oracle.MulG(vals[j]), z)
				want := oracle.EncodeUncompressed(oracle.MulG(oracle.MulM(s, vals[j], bigN)))
				var got []byte
				name := "ScalarMult(s, *P)"
				switch {
				case id == "C16" && step%2 == 0:
					name = "DoubleScalarMultBasepointVartime(0, s, *P)"
					got = new(Point).DoubleScalarMultBasepointVartime(secp256k1.NewScalar(), sc, slot).UncompressedBytes()
				case id == "C16":
					name = "MultiScalarMultVartime([s], [*P])"
					got = new(Point).MultiScalarMultVartime([]*Scalar{sc}, []*Point{slot}).UncompressedBytes()
				case id == "C06":
					name = "UncompressedBytes(*P)"
					want = oracle.EncodeUncompressed(oracle.MulG(vals[j]))
					got = slot.UncompressedBytes()
					if !bytes.Equal(slot.CompressedBytes(), oracle.EncodeCompressed(oracle.MulG(vals[j]))) {
						got = append([]byte("compressed form: "), slot.CompressedBytes()...)
					}
				default:
					got = new(Point).ScalarMult(sc, slot).UncompressedBytes()
				}
				if !bytes.Equal(got, want) {
					failAt(name, step, got, want)
					return
				}
			}
		case "C10":
			priv := mustPriv(d)
			slot := new(secec.PublicKey)
			pslot := new(secec.PrivateKey)
			for step, j := range order {
				*slot = *mustPub(oracle.MulG(vals[j]))
				want := b32(oracle.MulG(oracle.MulM(d, vals[j], bigN)).X)
				got, err := priv.ECDH(slot)
				if err != nil || !bytes.Equal(got, want) {
					failAt("ECDH(*peer)", step, got, want)
					return
				}
				*pslot = *mustPriv(vals[j])
				want = b32(oracle.MulG(oracle.MulM(d, vals[j], bigN)).X)
				got, err = pslot.ECDH(mustPub(Q))
				if err != nil || !bytes.Equal(got, want) || !bytes.Equal(pslot.PublicKey().Bytes(), oracle.EncodeUncompressed(oracle.MulG(vals[j]))) {
					failAt("(*priv).ECDH / PublicKey", step, got, want)
					return
				}
			}
		case "C07", "C11":
			slot := new(secec.PublicKey)
			r0, s0, _, _, _ := oracle.RFC6979Sign(vals[0], dig)
			lr, ls := scalarFromBig(r0), scalarFromBig(s0)
			for step, j := range order {
				*slot = *mustPub(oracle.MulG(vals[j]))
				want := j == 0
				if got := slot.VerifyRaw(dig, lr, ls); got != want {
					failAt("VerifyRaw via *pub (signature by A)", step, []byte(fmt.Sprint(got)), []byte(fmt.Sprint(want)))
					return
				}
				if got := slot.Verify(dig[:32], oracle.DERWriteSig(r0, s0), nil); got != want {
					failAt("Verify via *pub (signature by A)", step, []byte(fmt.Sprint(got)), []byte(fmt.Sprint(want)))
					return
				}
			}
		case "C08":
			slot := new(secec.PrivateKey)
			for step, j := range order {
				*slot = *mustPriv(vals[j])
				r0, s0, v0, _, _ := oracle.RFC6979Sign(vals[j], dig)
				lr, ls, v, err := slot.SignRaw(secec.RFC6979SHA256(), dig)
				if err != nil || bigFromScalar(lr).Cmp(r0) != 0 || bigFromScalar(ls).Cmp(s0) != 0 || int(v) != v0 {
					failAt("(*priv).SignRaw(RFC 6979)", step, nil, append(b32(r0), b32(s0)...))
					return
				}
			}
		case "C13", "C14":
			slot := new(bitcoin.SchnorrPrivateKey)
			pslot := new(bitcoin.SchnorrPublicKey)
			aux := rng.Bytes(32)
			msg := rng.Bytes(33)
			sigA := oracle.BIP340Sign(vals[0], aux, msg)
			for step, j := range order {
				sk, err := bitcoin.NewSchnorrPrivateKey(b32(vals[j]))
				if err != nil {
					return
				}
				*slot = *sk
				want := oracle.BIP340Sign(vals[j], aux, msg)
				got, err := slot.Sign(&fixedReader{data: aux}, msg, nil)
				if err != nil || !bytes.Equal(got, want) {
					failAt("(*SchnorrPrivateKey).Sign", step, got, want)
					return
				}
				pk, err := bitcoin.NewSchnorrPublicKey(b32(oracle.MulG(vals[j]).X))
				if err != nil {
					return
				}
				*pslot = *pk
				if ok := pslot.Verify(msg, sigA); ok != (j == 0) {
					failAt("(*SchnorrPublicKey).Verify (signature by A)", step, []byte(fmt.Sprint(ok)), []byte(fmt.Sprint(j == 0)))
					return
				}
			}
		case "C15":
			// the tag and message at one address with new contents are covered by c15/buffer-reuse
		}
		w.Class(lc + ":ownership:same-address-new-value")
	})
}

// Concurrent FIRST use of fresh objects, then the callers overwrite what they were given (C18, and
// phase 1b of C20 in the race build).  A lazily built encoding or key that is published by the
// first caller - and handed to a concurrent first caller as the published object itself rather than
// as a copy - is wrong only from the moment that caller writes to "its" slice.
func init() {
	for _, id := range []string{"C05", "C07", "C08", "C10", "C11", "C13", "C14", "C18"} {
		id := id
		prev := registry[id].Run
		registry[id].Run = func(r *mon.Run) {
			prev(r)
			if isYield(r) {
				return
			}
			if id == "C18" {
				runConcurrentFirstUse(r, "c18", r.N(700, 8000), nCheapAccessors)
			} else {
				// the other properties that are about key objects: every accessor AND every operation
				runConcurrentFirstUse(r, strings.ToLower(id), r.N(250, 3000), 1<<30)
			}
		}
	}
}

func runConcurrentFirstUse(r *mon.Run, lc string, rounds int, nAcc int) {
	r.Require(lc + ":concurrent-first-use:rounds")
	G := 8
	r.Seq(lc+"/concurrent-first-use", 1, func(w *mon.W, _ int) {
		for round := 0; round < rounds; round++ {
			acc := freshAccessors(r.Seed, round, 1000)
			ref := freshAccessors(r.Seed, round, 1000)
			nAcc := nAcc
			if nAcc > len(acc) {
				nAcc = len(acc)
			}
			outs := make([][][]byte, G)
			pans := make([]any, G)
			stacks := make([]string, G)
			var ready, goFlag atomic.Int32
			var wg sync.WaitGroup
			for g := 0; g < G; g++ {
				wg.Add(1)
				go func(g int) {
					defer wg.Done()
					my := make([][]byte, nAcc)
					defer func() {
						outs[g] = my
						if e := recover(); e != nil {
							pans[g] = e
							stacks[g] = string(debug.Stack())
						}
					}()
					ready.Add(1)
					for goFlag.Load() == 0 {
						runtime.Gosched()
					}
					for j := 0; j < nAcc; j++ {
						// even rounds: all goroutines start at the SAME accessor (another one every round) and
						// go on in step; odd rounds: every goroutine starts somewhere else
						k := (j + round/2) % nAcc
						if round%2 == 1 {
							k = (j + g*3 + round) % nAcc
						}
						my[k] = acc[k]()
					}
				}(g)
			}
			for ready.Load() < int32(G) {
				runtime.Gosched()
			}
			goFlag.Store(1)
			wg.Wait()
			for g := 0; g < G; g++ {
				if pans[g] != nil {
					if mon.PanicInHarness(stacks[g]) {
						r.Inconclusive("harness panic in the concurrent first-use monitor: %v", pans[g])
						return
					}
					w.Fail(lc+"/concurrent-first-use:panic", fmt.Sprintf("round %d, goroutine %d: one of %d simultaneous FIRST calls on fresh objects panicked: %v", round, g, G, pans[g]))
					return
				}
			}
			wants := make([][]byte, nAcc)
			for k := 0; k < nAcc; k++ {
				wants[k] = ref[k]()
				for g := 0; g < G; g++ {
					if !bytes.Equal(outs[g][k], wants[k]) {
						w.Fail(lc+"/concurrent-first-use:result", fmt.Sprintf("round %d, goroutine %d: accessor #%d as one of %d simultaneous FIRST calls on fresh objects returned %x, alone it returns %x", round, g, k, G, outs[g][k], wants[k]))
						return
					}
				}
			}
			for g := 0; g < G; g++ {
				for k := range outs[g] {
					wreckBytes(outs[g][k])
				}
			}
			for k := 0; k < nAcc; k++ {
				if got := acc[k](); !bytes.Equal(got, wants[k]) {
					w.Fail(lc+"/concurrent-first-use:after-callers-overwrote-results", fmt.Sprintf("round %d: accessor #%d returns %x after the goroutines that made the %d simultaneous FIRST calls overwrote the slices they were given; expected %x", round, k, got, G, wants[k]))
					return
				}
			}
		}
		w.ClassN(lc+":concurrent-first-use:rounds", int64(rounds))
		w.Case(true, []byte("concurrent-first-use"))
	})
}
