package props

import (
	"fmt"
	"math/big"

	secp256k1 "gitlab.com/yawning/secp256k1-voi"

	"verifharness/mon"
	"verifharness/oracle"
)

func init() { Register("C16", runC16) }

func runC16(r *mon.Run) {
	n := bigN
	pool := knownPointPool(r.Seed, r.N(6, 24))
	// only points with known discrete log keep the oracle cheap; the
	// special-coordinate points (unknown log) are used in a smaller share
	var known, unknown []namedPt
	for _, p := range pool {
		if p.K != nil {
			known = append(known, p)
		} else {
			unknown = append(unknown, p)
		}
	}
	for _, c := range []string{"c16:len=0", "c16:len=1", "c16:len=2", "c16:len>=13", "c16:zero-scalar", "c16:inf-point", "c16:dup-point", "c16:P,-P", "c16:s,-s",
		"c16:rcv-in-inputs", "c16:rcv-multiple", "c16:sum=inf", "c16:partial-inf", "c16:rep-nontrivial", "c16:same-object-twice"} {
		r.Require(c)
	}
	r.Require("c16:len>=31:around-2^k", "c16:scalar-family", "c16:scalar-family:len>=200")
	r.Each("c16/multi", r.N(1500, 50000), func(w *mon.W, i int) {
		rng := w.Rng
		l := i % 13
		if i%17 == 0 {
			l = 13 + rng.Intn(28)
		}
		if i%97 == 5 || i%97 == 54 {
			// long lists around powers of two (chunked / batched implementations split there)
			l = []int{31, 32, 33, 63, 64, 65, 127, 128, 129, 130, 255, 256, 257, 300, 513, 1025, 2049, 4097, 4100, 8193}[(i/97)%20]
			w.Class("c16:len>=31:around-2^k")
		}
		if l >= 13 {
			w.Class("c16:len>=13")
		} else {
			w.Class(fmt.Sprintf("c16:len=%d", l))
		}
		sv := make([]*big.Int, l)
		pv := make([]namedPt, l)
		scal := make([]*Scalar, l)
		pts := make([]*Point, l)
		for j := 0; j < l; j++ {
			sv[j], _ = rng.Value(n)
			if rng.Chance(1, 3) {
				sv[j] = rng.Below(n)
			}
			if rng.Chance(1, 4) {
				sv[j], _ = glvSteered(rng) // matters for the one-term lists (delegated to the GLV multiply)
			}
			if rng.Chance(1, 10) || unknownShare(rng, len(unknown)) {
				pv[j] = unknown[rng.Intn(len(unknown))]
			} else {
				pv[j] = known[rng.Intn(len(known))]
			}
		}
		// list-wide scalar structure: weights a batch actually uses (all equal, small
		// integers, a handful of distinct 4-bit digits, one non-zero digit, powers of two).
		// Window/bucket methods see digit values that never occur and buckets that stay empty.
		if (l >= 13 && rng.Bool()) || (l >= 2 && rng.Chance(1, 8)) {
			fam := rng.Intn(6)
			w.Class("c16:scalar-family")
			if l >= 200 {
				w.Class("c16:scalar-family:len>=200")
			}
			digits := []byte{0, byte(1 + rng.Intn(15)), byte(1 + rng.Intn(15))}
			if rng.Bool() {
				digits = append(digits, byte(1+rng.Intn(15)))
			}
			eq := rng.Below(n)
			for j := 0; j < l; j++ {
				switch fam {
				case 0:
					sv[j] = eq
				case 1:
					sv[j] = big.NewInt(int64(2 * (1 + rng.Intn(3)))) // 2, 4, 6
				case 2:
					sv[j] = big.NewInt(int64(1 + rng.Intn(15)))
				case 3:
					b := make([]byte, 32)
					for k := range b {
						b[k] = digits[rng.Intn(len(digits))]<<4 | digits[rng.Intn(len(digits))]
					}
					sv[j] = oracle.Mod(oracle.FromBytes(b), n)
				case 4:
					sv[j] = oracle.Mod(new(big.Int).Lsh(big.NewInt(int64(digits[1+rng.Intn(len(digits)-1)])), uint(4*rng.Intn(64))), n)
				default:
					sv[j] = new(big.Int).Lsh(big.NewInt(1), uint(rng.Intn(256)))
					sv[j] = oracle.Mod(sv[j], n)
				}
			}
		}
		// structure: duplicates, inverse pairs, cancelling pairs
		if l >= 2 {
			a, b := rng.Intn(l), rng.Intn(l)
			if a != b {
				switch rng.Intn(6) {
				case 0:
					pv[b] = pv[a]
					if rng.Chance(1, 3) {
						// the generator itself more than once (batch verification has a G term per signature)
						g := namedPt{"1G", oracle.G(), big.NewInt(1)}
						pv[a], pv[b] = g, g
						if l >= 3 && rng.Bool() {
							pv[rng.Intn(l)] = g
						}
						w.Class("c16:G-repeated")
					}
					w.Class("c16:dup-point")
				case 1:
					pv[b] = namedPt{"-" + pv[a].Name, oracle.Neg(pv[a].P), negK(pv[a].K)}
					w.Class("c16:P,-P")
				case 2:
					sv[b] = oracle.NegM(sv[a], n)
					w.Class("c16:s,-s")
				case 3:
					// s*P + (-s)*P : the total (or a partial sum) passes through the identity
					pv[b] = pv[a]
					sv[b] = oracle.NegM(sv[a], n)
					w.Class("c16:partial-inf")
				case 4:
					// s*P + s*(-P)
					pv[b] = namedPt{"-" + pv[a].Name, oracle.Neg(pv[a].P), negK(pv[a].K)}
					sv[b] = sv[a]
					w.Class("c16:partial-inf")
				}
			}
		}
		nontrivRep := false
		for j := 0; j < l; j++ {
			if sv[j].Sign() == 0 {
				w.Class("c16:zero-scalar")
			}
			if pv[j].P.Inf {
				w.Class("c16:inf-point")
			}
			z, cz := repZ(rng)
			if cz != "Z=1" {
				nontrivRep = true
			}
			scal[j] = scalarFromBig(sv[j])
			pts[j] = pointRep(pv[j].P, z)
			switch rng.Intn(6) {
			case 0:
				pts[j], _ = pointWithHistory(rng, pv[j].P)
			case 1:
				pts[j], _ = freshPointVia(rng, pv[j].P, nil)
			}
		}
		if nontrivRep {
			w.Class("c16:rep-nontrivial")
		}
		// the same Point / Scalar object may appear twice
		if l >= 2 && rng.Chance(1, 4) {
			a, b := rng.Intn(l), rng.Intn(l)
			if a != b {
				pts[b], pv[b] = pts[a], pv[a]
				if rng.Bool() {
					scal[b], sv[b] = scal[a], sv[a]
				}
				w.Class("c16:same-object-twice")
			}
		}
		// expected sum
		want := oracle.Infinity()
		acc := big.NewInt(0)
		for j := 0; j < l; j++ {
			if pv[j].K != nil {
				acc = oracle.AddM(acc, oracle.MulM(sv[j], pv[j].K, n), n)
			} else {
				want = oracle.Add(want, oracle.Mul(sv[j], pv[j].P))
			}
		}
		want = oracle.Add(want, oracle.MulG(acc))
		if want.Inf && l > 0 {
			w.Class("c16:sum=inf")
		}
		var enc []byte
		for j := 0; j < l; j++ {
			enc = append(enc, b32(sv[j])...)
			enc = append(enc, oracle.EncodeCompressed(pv[j].P)...)
		}
		w.Case(true, []byte("multi"), enc)
		if i < 2 {
			names := []string{}
			for j := range pv {
				names = append(names, pv[j].Name)
			}
			w.Sample(map[string]any{"op": "MultiScalarMult[Vartime]", "len": l, "points": names})
		}
		for vt := 0; vt < 2; vt++ {
			name := []string{"MultiScalarMult", "MultiScalarMultVartime"}[vt]
			// fresh copies of the inputs for each variant (the receiver may alias them)
			ps := make([]*Point, l)
			for j := range ps {
				ps[j] = secp256k1.NewPointFrom(pts[j])
			}
			for j := range ps { // preserve object identity structure
				for k := 0; k < j; k++ {
					if pts[k] == pts[j] {
						ps[j] = ps[k]
					}
				}
			}
			v := new(Point)
			mode := (i + vt) % 4
			rcvIdx := -1
			switch {
			case (mode == 1 || (l >= 31 && mode != 3)) && l > 0:
				rcvIdx = rng.Intn(l)
				if l >= 31 && rng.Bool() {
					// long lists: the receiver at the end and just behind the powers of two, where
					// an implementation that works in chunks starts its second, third ... chunk
					c := []int{l - 1, l - 2, 32, 64, 128, 256, 512, 1024, 2048, 4096, 4097}
					if k := c[rng.Intn(len(c))]; k < l {
						rcvIdx = k
					} else {
						rcvIdx = l - 1
					}
				}
				v = ps[rcvIdx]
				w.Class("c16:rcv-in-inputs")
			case mode == 2 && l > 1:
				// the receiver appears at several positions
				rcvIdx = rng.Intn(l)
				o := rng.Intn(l)
				if o != rcvIdx && pv[o].P.Eq(pv[rcvIdx].P) {
					ps[o] = ps[rcvIdx]
				}
				v = ps[rcvIdx]
				// force a second occurrence by duplicating the entry when allowed
				for o2 := 0; o2 < l; o2++ {
					if o2 != rcvIdx && pts[o2] == pts[rcvIdx] {
						ps[o2] = v
						w.Class("c16:rcv-multiple")
					}
				}
				w.Class("c16:rcv-in-inputs")
			case mode == 3:
				v = pointRep(known[rng.Intn(len(known))].P, big.NewInt(5)) // dirty receiver
			}
			snaps := make([]pointSnap, l)
			for j := range ps {
				snaps[j] = snapPoint(ps[j])
			}
			// the argument SLICES are the caller's too: same pointers in the same order afterwards
			scalArg := append([]*Scalar{}, scal...)
			psKeep := append([]*Point{}, ps...)
			var ret *Point
			if vt == 0 {
				ret = v.MultiScalarMult(scalArg, ps)
			} else {
				ret = v.MultiScalarMultVartime(scalArg, ps)
			}
			for j := range ps {
				if ps[j] != psKeep[j] || scalArg[j] != scal[j] {
					w.Fail("c16/"+name+":argument-slices", fmt.Sprintf("%s reordered or replaced the entries of its argument slices (position %d)", name, j))
					break
				}
			}
			if ret != v {
				w.Fail("c16/"+name+":ret", name+" did not return its receiver")
			}
			if msg := expectPoint(v, want); msg != "" {
				w.Fail(fmt.Sprintf("c16/%s/len=%d", name, min(l, 13)), fmt.Sprintf("%s over %d terms (receiver at input %d): %s", name, l, rcvIdx, msg), "inputs", hx(enc), "rcv_index", rcvIdx)
			}
			for j := range ps {
				if ps[j] != v && !snapPoint(ps[j]).equal(snaps[j]) {
					w.Fail("c16/"+name+":operand", fmt.Sprintf("%s modified input point %d", name, j))
				}
				if bigFromScalar(scal[j]).Cmp(sv[j]) != 0 {
					w.Fail("c16/"+name+":operand", fmt.Sprintf("%s modified input scalar %d", name, j))
				}
			}
		}
	})

	// --- mismatched lengths are refused ------------------------------------------
	r.Require("c16:mismatch:spare-capacity-holds-entries")
	r.Each("c16/mismatch", r.N(60, 600), func(w *mon.W, i int) {
		rng := w.Rng
		ls, lp := rng.Intn(6), rng.Intn(6)
		if ls == lp {
			lp = ls + 1 + rng.Intn(3)
			if rng.Bool() {
				ls, lp = lp, ls
			}
		}
		scal := make([]*Scalar, ls)
		pts := make([]*Point, lp)
		for j := range scal {
			scal[j] = scalarFromBig(rng.Below(n))
		}
		for j := range pts {
			pts[j] = pointFromOracle(known[rng.Intn(len(known))].P)
		}
		if i%2 == 1 {
			// the short argument is the front of a longer backing array (a reused or
			// truncated list, all[:k]) whose spare capacity holds valid entries: the
			// LENGTHS are what must agree, whatever lies behind them
			mx := ls
			if lp > mx {
				mx = lp
			}
			mx += rng.Intn(3)
			allS, allP := make([]*Scalar, mx), make([]*Point, mx)
			for j := range allS {
				allS[j] = scalarFromBig(rng.Below(n))
				allP[j] = pointFromOracle(known[rng.Intn(len(known))].P)
			}
			scal, pts = allS[:ls], allP[:lp]
			w.Class("c16:mismatch:spare-capacity-holds-entries")
		}
		w.Case(true, []byte{byte(ls), byte(lp), byte(i % 2)})
		v := pointFromOracle(oracle.G())
		before := snapPoint(v)
		if p, _ := mon.Panics(func() { v.MultiScalarMult(scal, pts) }); !p {
			w.Fail("c16/mismatch", fmt.Sprintf("MultiScalarMult accepted %d scalars and %d points", ls, lp))
		}
		if p, _ := mon.Panics(func() { v.MultiScalarMultVartime(scal, pts) }); !p {
			w.Fail("c16/mismatch", fmt.Sprintf("MultiScalarMultVartime accepted %d scalars and %d points", ls, lp))
		}
		if !snapPoint(v).equal(before) {
			w.Fail("c16/mismatch:rcv", "a refused call modified the receiver")
		}
	})

	// --- u1*G + u2*P ------------------------------------------------------------------
	r.Require("c16:dsm:u1=0", "c16:dsm:u2=0", "c16:dsm:P=+-G", "c16:dsm:u1G=-u2P", "c16:dsm:rcv=P", "c16:dsm:P=inf", "c16:dsm:u1G=u2P")
	r.Each("c16/double", r.N(1500, 50000), func(w *mon.W, i int) {
		rng := w.Rng
		u1, _ := rng.Value(n)
		u2, _ := rng.Value(n)
		if rng.Chance(1, 3) {
			u2, _ = glvSteered(rng) // u2 goes through the GLV decomposition
			w.Class("c16:dsm:u2-glv-steered")
		}
		if rng.Chance(1, 6) {
			u1, _ = glvSteered(rng)
		}
		P := known[rng.Intn(len(known))]
		if rng.Chance(1, 8) {
			P = unknown[rng.Intn(len(unknown))]
		}
		switch i % 9 {
		case 0:
			u1 = big.NewInt(0)
		case 1:
			u2 = big.NewInt(0)
		case 2:
			P = namedPt{"G", oracle.G(), big.NewInt(1)}
			if rng.Bool() {
				P = namedPt{"-G", oracle.Neg(oracle.G()), new(big.Int).Sub(n, big.NewInt(1))}
			}
			w.Class("c16:dsm:P=+-G")
		case 3:
			// u1*G = -u2*P  (needs known log of P, P != inf)
			if P.K != nil && P.K.Sign() != 0 {
				u1 = oracle.NegM(oracle.MulM(u2, P.K, n), n)
				w.Class("c16:dsm:u1G=-u2P")
			}
		case 4:
			if P.K != nil && P.K.Sign() != 0 {
				u1 = oracle.MulM(u2, P.K, n) // the final addition is a doubling
				w.Class("c16:dsm:u1G=u2P")
			}
		case 5:
			P = pool[0]
		}
		if u1.Sign() == 0 {
			w.Class("c16:dsm:u1=0")
		}
		if u2.Sign() == 0 {
			w.Class("c16:dsm:u2=0")
		}
		if P.P.Inf {
			w.Class("c16:dsm:P=inf")
		}
		var want *oracle.Pt
		if P.K != nil {
			want = oracle.MulG(oracle.AddM(u1, oracle.MulM(u2, P.K, n), n))
		} else {
			want = oracle.Add(oracle.MulG(u1), oracle.Mul(u2, P.P))
		}
		z, cz := repZ(rng)
		lp := pointRep(P.P, z)
		switch rng.Intn(5) {
		case 0:
			lp, _ = pointWithHistory(rng, P.P)
		case 1:
			lp, _ = freshPointVia(rng, P.P, nil)
		}
		v := new(Point)
		aliased := i%3 == 1
		if aliased {
			v = lp
			w.Class("c16:dsm:rcv=P")
		}
		sp := snapPoint(lp)
		w.Case(true, []byte("dsm"), b32(u1), b32(u2), oracle.EncodeCompressed(P.P), b32(z))
		v.DoubleScalarMultBasepointVartime(scalarFromBig(u1), scalarFromBig(u2), lp)
		if msg := expectPoint(v, want); msg != "" {
			w.Fail("c16/DoubleScalarMultBasepointVartime", fmt.Sprintf("DoubleScalarMultBasepointVartime(u1=%x, u2=%x, P=%s[%s], rcv=P:%v): %s", u1, u2, P.Name, cz, aliased, msg), "u1", hb(u1), "u2", hb(u2), "P", P.P, "z", hb(z))
		}
		if !aliased && !snapPoint(lp).equal(sp) {
			w.Fail("c16/DoubleScalarMultBasepointVartime:operand", "the point operand was modified")
		}
	})
	runColdStart(r, "c16", r.N(18, 300), "dsm", "msm", "msmv")
}

func unknownShare(r interface{ Intn(int) int }, n int) bool { return n > 0 && r.Intn(12) == 0 }

func negK(k *big.Int) *big.Int {
	if k == nil {
		return nil
	}
	return oracle.NegM(k, bigN)
}
