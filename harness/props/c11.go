package props

import (
	"bytes"
	"fmt"
	"math/big"

	secp256k1 "gitlab.com/yawning/secp256k1-voi"
	"gitlab.com/yawning/secp256k1-voi/secec"

	"verifharness/mon"
	"verifharness/oracle"
)

func init() { Register("C11", runC11) }

func runC11(r *mon.Run) {
	n := bigN
	pmn := new(big.Int).Sub(bigP, bigN)
	for _, c := range []string{"c11:honest", "c11:r<p-n,bit1,on-curve", "c11:r<p-n,bit1,off-curve", "c11:r>=p-n,bit1", "c11:r>=p-n,bit1,wraps-to-curve-x", "c11:r-not-x-coordinate", "c11:Q=infinity", "c11:r=0", "c11:s=0",
		"c11:steered-u2", "c11:steered-u2:glv:short-scalar-window", "c11:steered-u2:glv:limb-carry-boundary", "c11:id>=4", "c11:digest<32", "c11:digest>32", "c11:recovered", "c11:failed", "c11:x(R)>=n-valid"} {
		r.Require(c)
	}
	specials := specialRPoints()
	r.Each("c11/recover", r.N(2500, 100000), func(w *mon.W, i int) {
		rng := w.Rng
		var rr, ss *big.Int
		var dig []byte
		cl := ""
		ids := []int{0, 1, 2, 3}
		var signer *oracle.Pt
		emitted := -1
		switch i % 12 {
		case 10, 11:
			// a VALID signature whose recovery multipliers u2 = s/r (variable-base, GLV) and
			// u1 = -e/r (fixed-base) are steered into the rare windows of the scalar
			// decomposition: R = kG, r = x(R) mod n, s = u2 r, e = -u1 r, d = u1 + u2 k
			for {
				u2, c2 := glvSteered(rng)
				u1, c1 := rng.Below(n), "uniform"
				if rng.Chance(1, 3) {
					u1, c1 = glvSteered(rng)
				}
				k := nonzero(rng.Below(n))
				R := oracle.MulG(k)
				rr = oracle.Mod(R.X, n)
				dd := oracle.AddM(u1, oracle.MulM(u2, k, n), n)
				if rr.Sign() == 0 || u2.Sign() == 0 || dd.Sign() == 0 {
					continue
				}
				ss = oracle.MulM(u2, rr, n)
				dig = b32(oracle.NegM(oracle.MulM(u1, rr, n), n))
				signer = oracle.MulG(dd)
				emitted = int(R.Y.Bit(0))
				if R.X.Cmp(n) >= 0 {
					emitted |= 2
				}
				cl = "steered-u2"
				w.Class("c11:steered-u2:" + c2)
				w.Class("c11:steered-u1:" + c1)
				break
			}
		case 0, 1:
			t := honestTuple(rng, false)
			t.S, t.V = oracle.LowS(t.S, t.V)
			rr, ss, dig, signer, emitted, cl = t.R, t.S, t.Digest, t.Q, t.V, "honest"
		case 2:
			// small r: r + n < p is a second x candidate
			for {
				rr = rng.Below(pmn)
				if rr.Sign() != 0 {
					break
				}
			}
			if rng.Bool() {
				for _, sp := range specials {
					if sp.P.X.Cmp(bigN) >= 0 && rng.Bool() {
						rr = new(big.Int).Sub(sp.P.X, bigN) // r + n is on the curve
						break
					}
				}
			}
			ss, dig = nonzero(rng.Below(n)), rng.Bytes(32)
			if oracle.LiftX(new(big.Int).Add(rr, bigN), 0) != nil {
				cl = "r<p-n,bit1,on-curve"
			} else {
				cl = "r<p-n,bit1,off-curve"
			}
			ids = []int{2, 3, 0, 1}
		case 3:
			rr = new(big.Int).Add(pmn, rng.Below(new(big.Int).Sub(n, pmn)))
			ss, dig, cl = nonzero(rng.Below(n)), rng.Bytes(32), "r>=p-n,bit1"
			if rng.Bool() {
				// r = p - n + delta with delta a (small) x-coordinate ON the curve:
				// r + n = p + delta, which an implementation that reduces mod p
				// instead of rejecting turns into the valid x-coordinate delta.
				var small []*big.Int
				for _, sp := range specials {
					if sp.P.X.BitLen() <= 32 {
						small = append(small, sp.P.X)
					}
				}
				if len(small) > 0 {
					rr = new(big.Int).Add(pmn, small[rng.Intn(len(small))])
					cl = "r>=p-n,bit1,wraps-to-curve-x"
				}
			}
			ids = []int{2, 3, 0, 1}
		case 4:
			rr = oracle.Mod(nonResidueX(rng.Below(bigP)), n)
			if rr.Sign() == 0 {
				rr = big.NewInt(5) // x = 5: 5^3+7 = 132
			}
			ss, dig = nonzero(rng.Below(n)), rng.Bytes(32)
			cl = "r-not-x-coordinate"
			if oracle.LiftX(rr, 0) != nil {
				cl = "random-r-on-curve"
			}
		case 5:
			// s*R = e*G  => Q = infinity.  R = kG, e = s*k.
			k := nonzero(rng.Below(n))
			R := oracle.MulG(k)
			rr = oracle.Mod(R.X, n)
			ss = nonzero(rng.Below(n))
			e := oracle.MulM(ss, k, n)
			dig = b32(e)
			cl = "Q=infinity"
			v := int(R.Y.Bit(0))
			if R.X.Cmp(n) >= 0 {
				v |= 2
			}
			ids = []int{v, v ^ 1, 2, 3}
		case 6:
			rr, ss, dig = big.NewInt(0), nonzero(rng.Below(n)), rng.Bytes(32)
			cl = "r=0"
			if rng.Bool() {
				rr, ss, cl = nonzero(rng.Below(n)), big.NewInt(0), "s=0"
			}
		case 7:
			t := honestTuple(rng, false)
			rr, ss, dig, signer, emitted = t.R, t.S, t.Digest, t.Q, t.V
			cl = "id>=4"
			ids = []int{4 + rng.Intn(252), 4, 255, emitted | 4, emitted | 0x80}
		case 8:
			t := honestTuple(rng, true)
			rr, ss, dig, signer, emitted = t.R, t.S, t.Digest, t.Q, t.V
			if rng.Bool() {
				dig = dig[:rng.Intn(32)]
				cl = "digest<32"
			} else {
				if len(dig) == 32 {
					dig = append(dig, rng.Bytes(1+rng.Intn(32))...)
				}
				cl = "digest>32"
			}
		default:
			// chosen R with x >= n: valid with bit 1 set
			for try := 0; try < 30 && cl == ""; try++ {
				sp := specials[rng.Intn(len(specials))]
				if sp.P.X.Cmp(n) >= 0 {
					if t, ok := chosenRTuple(rng, sp.P, "x(R)>=n"); ok {
						rr, ss, dig, signer, emitted, cl = t.R, t.S, t.Digest, t.Q, t.V, "x(R)>=n-valid"
					}
				}
			}
			if cl == "" {
				t := honestTuple(rng, false)
				rr, ss, dig, signer, emitted, cl = t.R, t.S, t.Digest, t.Q, t.V, "honest"
			}
		}
		w.Class("c11:" + cl)
		lr, ls := scalarFromBig(rr), scalarFromBig(ss)
		w.Case(true, []byte("recover"), dig, b32(rr), b32(ss), []byte(fmt.Sprint(ids)))
		if i < 3 {
			w.Sample(map[string]any{"op": "RecoverPublicKey", "class": cl, "digest": hx(dig), "r": hb(rr), "s": hb(ss), "ids": ids})
		}
		for _, id := range ids {
			want := oracle.ECDSARecover(dig, rr, ss, id)
			got, err := secec.RecoverPublicKey(dig, lr, ls, byte(id))
			det := []any{"class", cl, "digest", hx(dig), "r", hb(rr), "s", hb(ss), "id", id}
			key := fmt.Sprintf("c11/RecoverPublicKey/%s", cl)
			if (err == nil) != (want != nil) || (err != nil && got != nil) {
				w.Fail(key, fmt.Sprintf("RecoverPublicKey(id=%d) [%s]: err=%v, model recovers=%v", id, cl, err, want != nil), det...)
				continue
			}
			if want == nil {
				w.Class("c11:failed")
				continue
			}
			w.Class("c11:recovered")
			if !bytes.Equal(got.Bytes(), oracle.EncodeUncompressed(want)) {
				w.Fail(key+":value", fmt.Sprintf("RecoverPublicKey(id=%d) = %x, expected Q = r^-1(sR - eG) = %x", id, got.Bytes(), oracle.EncodeUncompressed(want)), det...)
				continue
			}
			// every returned key verifies (r,s) on that digest
			if !got.VerifyRaw(dig, lr, ls) || !oracle.ECDSAVerify(want, dig, rr, ss) {
				w.Fail(key+":verify", fmt.Sprintf("the key recovered with id=%d does not verify the signature", id), det...)
			}
			if signer != nil && id < 4 {
				if (id == emitted) != want.Eq(signer) && len(dig) >= 32 {
					// for an honest signature: the emitted id recovers the signer and no other id does
					w.Fail(key+":signer", fmt.Sprintf("id=%d recovers the signer: %v (emitted id %d)", id, want.Eq(signer), emitted), det...)
				}
			}
		}
		if bigFromScalar(lr).Cmp(rr) != 0 || bigFromScalar(ls).Cmp(ss) != 0 {
			w.Fail("c11:operand", "RecoverPublicKey modified r or s")
		}
	})

	// --- the caller reuses its argument OBJECTS in place: one scratch r, one scratch s and one
	// digest buffer are overwritten with the next signature and passed again (a decode loop).
	// A memo keyed on the identity of an argument (its pointer, its backing array) instead of
	// its value returns the previous answer.  Single goroutine.
	r.Require("c11:argument-reuse")
	r.Seq("c11/argument-reuse", r.N(40, 1500), func(w *mon.W, i int) {
		rng := w.Rng
		lr, ls := secp256k1.NewScalar(), secp256k1.NewScalar()
		dig := make([]byte, 32)
		var held []*secec.PublicKey
		var heldWant []*oracle.Pt
		for k := 0; k < 6; k++ {
			t := honestTuple(rng, false)
			if _, err := lr.SetCanonicalBytes(arr32(t.R)); err != nil {
				return
			}
			if _, err := ls.SetCanonicalBytes(arr32(t.S)); err != nil {
				return
			}
			copy(dig, t.Digest[:32])
			w.Class("c11:argument-reuse")
			w.Case(true, []byte("reuse"), dig, b32(t.R), b32(t.S))
			for _, id := range []int{t.V, t.V ^ 1} {
				want := oracle.ECDSARecover(dig, t.R, t.S, id)
				got, err := secec.RecoverPublicKey(dig, lr, ls, byte(id))
				if (err == nil) != (want != nil) {
					w.Fail("c11/argument-reuse:verdict", fmt.Sprintf("signature #%d through reused r/s/digest objects, id=%d: err=%v, model recovers=%v", k, id, err, want != nil), "digest", hx(dig), "r", hb(t.R), "s", hb(t.S))
					return
				}
				if want != nil {
					if !bytes.Equal(got.Bytes(), oracle.EncodeUncompressed(want)) {
						w.Fail("c11/argument-reuse:value", fmt.Sprintf("signature #%d through reused r/s/digest objects, id=%d: recovered %x, expected %x", k, id, got.Bytes(), oracle.EncodeUncompressed(want)), "digest", hx(dig), "r", hb(t.R), "s", hb(t.S))
						return
					}
					held, heldWant = append(held, got), append(heldWant, want)
				}
			}
		}
		// keys recovered earlier are still the keys they were
		for j, k := range held {
			if msg := expectPoint(k.Point(), heldWant[j]); msg != "" || !bytes.Equal(k.Bytes(), oracle.EncodeUncompressed(heldWant[j])) {
				w.Fail("c11/argument-reuse:held", fmt.Sprintf("a key recovered earlier changed after later recoveries: %s", msg))
				return
			}
		}
	})
}

// the last clause of the property: a signature produced by THIS library's signer carries an id
// that recovers the signer, and no other id does
func init() {
	prev := registry["C11"].Run
	registry["C11"].Run = func(r *mon.Run) {
		r.Require("c11:library-signer")
		r.Each("c11/library-signer", r.N(400, 20000), func(w *mon.W, i int) {
			rng := w.Rng
			d, dcl := keyValue(rng)
			priv := mustPriv(d)
			Q := oracle.MulG(d)
			dig, _ := digestValue(rng, false)
			var rs, ss *Scalar
			var v byte
			var err error
			if i%2 == 0 {
				rs, ss, v, err = priv.SignRaw(secec.RFC6979SHA256(), dig)
			} else {
				rs, ss, v, err = priv.SignRaw(&fixedReader{data: rng.Bytes(32)}, dig)
			}
			w.Case(true, []byte("library-signer"), b32(d), dig)
			w.Class("c11:library-signer")
			if err != nil {
				w.Fail("c11/library-signer:sign", "SignRaw failed: "+err.Error(), "d", hb(d), "class", dcl)
				return
			}
			for id := byte(0); id < 4; id++ {
				k, err := secec.RecoverPublicKey(dig, rs, ss, id)
				isSigner := err == nil && bytes.Equal(k.Bytes(), oracle.EncodeUncompressed(Q))
				if isSigner != (id == v) {
					w.Fail("c11/library-signer", fmt.Sprintf("SignRaw emitted id %d; RecoverPublicKey(id=%d) recovers the signer: %v (err %v)", v, id, isSigner, err), "d", hb(d), "digest", hx(dig), "r", hx(rs.Bytes()), "s", hx(ss.Bytes()), "class", dcl)
					return
				}
			}
		})
		prev(r)
	}
}

func nonzero(v *big.Int) *big.Int {
	if v.Sign() == 0 {
		return big.NewInt(1)
	}
	return v
}
