package props

import (
	"bytes"
	"fmt"
	"math/big"

	"gitlab.com/yawning/secp256k1-voi/secec"

	"verifharness/mon"
	"verifharness/oracle"
)

func init() { Register("C11", runC11) }

func runC11(r *mon.Run) {
	n := bigN
	pmn := new(big.Int).Sub(bigP, bigN)
	for _, c := range []string{"c11:honest", "c11:r<p-n,bit1,on-curve", "c11:r<p-n,bit1,off-curve", "c11:r>=p-n,bit1", "c11:r>=p-n,bit1,wraps-to-curve-x", "c11:r-not-x-coordinate", "c11:Q=infinity", "c11:r=0", "c11:s=0",
		"c11:id>=4", "c11:digest<32", "c11:digest>32", "c11:recovered", "c11:failed", "c11:x(R)>=n-valid"} {
		r.Require(c)
	}
	specials := specialRPoints()
	r.Each("c11/recover", r.N(2500, 100000), func(w *mon.W, i int) {
		rng := w.Rng
		var rr, ss *big.Int
		var dig []byte
		cl := ""
		ids := []int{0, 1, 2, 3}
		var signer *oracle.Pt
		emitted := -1
		switch i % 10 {
		case 0, 1:
			t := honestTuple(rng, false)
			t.S, t.V = oracle.LowS(t.S, t.V)
			rr, ss, dig, signer, emitted, cl = t.R, t.S, t.Digest, t.Q, t.V, "honest"
		case 2:
			// small r: r + n < p is a second x candidate
			for {
				rr = rng.Below(pmn)
				if rr.Sign() != 0 {
					break
				}
			}
			if rng.Bool() {
				for _, sp := range specials {
					if sp.P.X.Cmp(bigN) >= 0 && rng.Bool() {
						rr = new(big.Int).Sub(sp.P.X, bigN) // r + n is on the curve
						break
					}
				}
			}
			ss, dig = nonzero(rng.Below(n)), rng.Bytes(32)
			if oracle.LiftX(new(big.Int).Add(rr, bigN), 0) != nil {
				cl = "r<p-n,bit1,on-curve"
			} else {
				cl = "r<p-n,bit1,off-curve"
			}
			ids = []int{2, 3, 0, 1}
		case 3:
			rr = new(big.Int).Add(pmn, rng.Below(new(big.Int).Sub(n, pmn)))
			ss, dig, cl = nonzero(rng.Below(n)), rng.Bytes(32), "r>=p-n,bit1"
			if rng.Bool() {
				// r = p - n + delta with delta a (small) x-coordinate ON the curve:
				// r + n = p + delta, which an implementation that reduces mod p
				// instead of rejecting turns into the valid x-coordinate delta.
				var small []*big.Int
				for _, sp := range specials {
					if sp.P.X.BitLen() <= 32 {
						small = append(small, sp.P.X)
					}
				}
				if len(small) > 0 {
					rr = new(big.Int).Add(pmn, small[rng.Intn(len(small))])
					cl = "r>=p-n,bit1,wraps-to-curve-x"
				}
			}
			ids = []int{2, 3, 0, 1}
		case 4:
			rr = oracle.Mod(nonResidueX(rng.Below(bigP)), n)
			if rr.Sign() == 0 {
				rr = big.NewInt(5) // x = 5: 5^3+7 = 132
			}
			ss, dig = nonzero(rng.Below(n)), rng.Bytes(32)
			cl = "r-not-x-coordinate"
			if oracle.LiftX(rr, 0) != nil {
				cl = "random-r-on-curve"
			}
		case 5:
			// s*R = e*G  => Q = infinity.  R = kG, e = s*k.
			k := nonzero(rng.Below(n))
			R := oracle.MulG(k)
			rr = oracle.Mod(R.X, n)
			ss = nonzero(rng.Below(n))
			e := oracle.MulM(ss, k, n)
			dig = b32(e)
			cl = "Q=infinity"
			v := int(R.Y.Bit(0))
			if R.X.Cmp(n) >= 0 {
				v |= 2
			}
			ids = []int{v, v ^ 1, 2, 3}
		case 6:
			rr, ss, dig = big.NewInt(0), nonzero(rng.Below(n)), rng.Bytes(32)
			cl = "r=0"
			if rng.Bool() {
				rr, ss, cl = nonzero(rng.Below(n)), big.NewInt(0), "s=0"
			}
		case 7:
			t := honestTuple(rng, false)
			rr, ss, dig, signer, emitted = t.R, t.S, t.Digest, t.Q, t.V
			cl = "id>=4"
			ids = []int{4 + rng.Intn(252), 4, 255, emitted | 4, emitted | 0x80}
		case 8:
			t := honestTuple(rng, true)
			rr, ss, dig, signer, emitted = t.R, t.S, t.Digest, t.Q, t.V
			if rng.Bool() {
				dig = dig[:rng.Intn(32)]
				cl = "digest<32"
			} else {
				if len(dig) == 32 {
					dig = append(dig, rng.Bytes(1+rng.Intn(32))...)
				}
				cl = "digest>32"
			}
		default:
			// chosen R with x >= n: valid with bit 1 set
			for try := 0; try < 30 && cl == ""; try++ {
				sp := specials[rng.Intn(len(specials))]
				if sp.P.X.Cmp(n) >= 0 {
					if t, ok := chosenRTuple(rng, sp.P, "x(R)>=n"); ok {
						rr, ss, dig, signer, emitted, cl = t.R, t.S, t.Digest, t.Q, t.V, "x(R)>=n-valid"
					}
				}
			}
			if cl == "" {
				t := honestTuple(rng, false)
				rr, ss, dig, signer, emitted, cl = t.R, t.S, t.Digest, t.Q, t.V, "honest"
			}
		}
		w.Class("c11:" + cl)
		lr, ls := scalarFromBig(rr), scalarFromBig(ss)
		w.Case(true, []byte("recover"), dig, b32(rr), b32(ss), []byte(fmt.Sprint(ids)))
		if i < 3 {
			w.Sample(map[string]any{"op": "RecoverPublicKey", "class": cl, "digest": hx(dig), "r": hb(rr), "s": hb(ss), "ids": ids})
		}
		for _, id := range ids {
			want := oracle.ECDSARecover(dig, rr, ss, id)
			got, err := secec.RecoverPublicKey(dig, lr, ls, byte(id))
			det := []any{"class", cl, "digest", hx(dig), "r", hb(rr), "s", hb(ss), "id", id}
			key := fmt.Sprintf("c11/RecoverPublicKey/%s", cl)
			if (err == nil) != (want != nil) || (err != nil && got != nil) {
				w.Fail(key, fmt.Sprintf("RecoverPublicKey(id=%d) [%s]: err=%v, model recovers=%v", id, cl, err, want != nil), det...)
				continue
			}
			if want == nil {
				w.Class("c11:failed")
				continue
			}
			w.Class("c11:recovered")
			if !bytes.Equal(got.Bytes(), oracle.EncodeUncompressed(want)) {
				w.Fail(key+":value", fmt.Sprintf("RecoverPublicKey(id=%d) = %x, expected Q = r^-1(sR - eG) = %x", id, got.Bytes(), oracle.EncodeUncompressed(want)), det...)
				continue
			}
			// every returned key verifies (r,s) on that digest
			if !got.VerifyRaw(dig, lr, ls) || !oracle.ECDSAVerify(want, dig, rr, ss) {
				w.Fail(key+":verify", fmt.Sprintf("the key recovered with id=%d does not verify the signature", id), det...)
			}
			if signer != nil && id < 4 {
				if (id == emitted) != want.Eq(signer) && len(dig) >= 32 {
					// for an honest signature: the emitted id recovers the signer and no other id does
					w.Fail(key+":signer", fmt.Sprintf("id=%d recovers the signer: %v (emitted id %d)", id, want.Eq(signer), emitted), det...)
				}
			}
		}
		if bigFromScalar(lr).Cmp(rr) != 0 || bigFromScalar(ls).Cmp(ss) != 0 {
			w.Fail("c11:operand", "RecoverPublicKey modified r or s")
		}
	})
}

func nonzero(v *big.Int) *big.Int {
	if v.Sign() == 0 {
		return big.NewInt(1)
	}
	return v
}
