package props

import (
	"bufio"
	"bytes"
	"crypto/sha256"
	"fmt"
	"math/big"
	"os"
	"runtime"
	"syscall"
	"unsafe"

	secp256k1 "gitlab.com/yawning/secp256k1-voi"
	"gitlab.com/yawning/secp256k1-voi/secec"
	"gitlab.com/yawning/secp256k1-voi/secec/bitcoin"
	"gitlab.com/yawning/secp256k1-voi/secec/h2c"

	"verifharness/gen"
	"verifharness/hk"
	"verifharness/mon"
	"verifharness/oracle"
)

func init() { Register("C19", runC19) }

const pageSize = 4096

// guarded is an mmap'd arena: [PROT_NONE page][2 data pages][PROT_NONE page].
type guarded struct {
	mem  []byte
	data []byte // the two accessible pages
}

func newGuarded() (*guarded, error) {
	mem, err := syscall.Mmap(-1, 0, 4*pageSize, syscall.PROT_READ|syscall.PROT_WRITE, syscall.MAP_ANON|syscall.MAP_PRIVATE)
	if err != nil {
		return nil, err
	}
	if err := syscall.Mprotect(mem[:pageSize], syscall.PROT_NONE); err != nil {
		return nil, err
	}
	if err := syscall.Mprotect(mem[3*pageSize:], syscall.PROT_NONE); err != nil {
		return nil, err
	}
	return &guarded{mem: mem, data: mem[pageSize : 3*pageSize]}, nil
}

func (g *guarded) free() { _ = syscall.Munmap(g.mem) }

var idLimbsY = oracle.Limbs(oracle.RmodP) // Montgomery form of 1

func limbsToBytes(dst []byte, l []uint64) {
	for i, w := range l {
		for j := 0; j < 8; j++ {
			dst[i*8+j] = byte(w >> (8 * uint(j)))
		}
	}
}

// runLookups drives lookupProjectivePoint / lookupAffinePoint on
// caller-built tables placed against guard pages, destination between
// canaries.  kind: 0 projective (15 x 104 bytes, 12 coordinate limbs),
// 1 affine (15 x 64 bytes, 8 limbs).
func runLookups(r *mon.Run) {
	pointSize, affineSize, elemSize := hk.Layout()
	if runtime.GOARCH != "amd64" {
		// no assembly on this target: the portable lookups are plain bounds-checked Go, and the
		// raw-memory harness below is laid out for the amd64 struct sizes.  The lookups are still
		// exercised on this target through the cross-build transcript and C05's multiplications.
		r.Note(fmt.Sprintf("raw-memory lookup monitor skipped on GOARCH=%s (Point %d bytes, affine point %d bytes); the transcript monitor runs", runtime.GOARCH, pointSize, affineSize))
		return
	}
	if pointSize != 104 || affineSize != 64 || elemSize != 32 {
		r.Inconclusive("unexpected memory layout: Point %d bytes, affine point %d bytes, element %d bytes (lookup monitors assume 104/64/32)", pointSize, affineSize, elemSize)
		return
	}
	r.Require("c19:lookup:single-bit", "c19:lookup:all-ones", "c19:lookup:random", "c19:lookup:table-at-page-end", "c19:lookup:table-at-page-start", "c19:lookup:idx=0", "c19:lookup:idx=15")
	type job struct {
		kind, slot, limb, bit int // bit -1: other pattern
		pattern               string
	}
	var jobs []job
	for kind := 0; kind < 2; kind++ {
		nl := 12
		if kind == 1 {
			nl = 8
		}
		for slot := 0; slot < 15; slot++ {
			for limb := 0; limb < nl; limb++ {
				jobs = append(jobs, job{kind, slot, limb, 0, "single-bit"}) // all 64 bits inside the job
			}
		}
		for k := 0; k < r.N(40, 4000); k++ {
			jobs = append(jobs, job{kind, 0, 0, -1, []string{"random", "all-ones", "all-zero", "random"}[k%4]})
		}
	}
	r.Extra("lookup_single_bit_family_exhaustive", true)
	r.Each("c19/lookups", len(jobs), func(w *mon.W, ji int) {
		j := jobs[ji]
		rng := w.Rng
		g, err := newGuarded()
		if err != nil {
			r.Inconclusive("mmap failed: %v", err)
			return
		}
		defer g.free()
		stride, nl := 104, 12
		if j.kind == 1 {
			stride, nl = 64, 8
		}
		tblBytes := 15 * stride
		bits := []int{-1}
		if j.pattern == "single-bit" {
			bits = bits[:0]
			for b := 0; b < 64; b++ {
				bits = append(bits, b)
			}
		}
		for _, bit := range bits {
			for placement := 0; placement < 2; placement++ {
				// table flush against the trailing guard page, or right after the leading one
				off := 2*pageSize - tblBytes
				cls := "c19:lookup:table-at-page-end"
				if placement == 1 {
					off = 0
					cls = "c19:lookup:table-at-page-start"
				}
				if placement == 1 && bit >= 0 && bit%8 != 0 {
					continue // second placement on a subset only (keeps the exhaustive family at one placement)
				}
				w.Class(cls)
				tb := g.data[off : off+tblBytes]
				for i := range tb {
					tb[i] = 0
				}
				limbs := make([][]uint64, 15) // coordinate limbs per slot
				for s := 0; s < 15; s++ {
					limbs[s] = make([]uint64, nl)
					switch j.pattern {
					case "random":
						for k := range limbs[s] {
							limbs[s][k] = rng.U64()
						}
					case "all-ones":
						for k := range limbs[s] {
							limbs[s][k] = ^uint64(0)
						}
					}
				}
				if bit >= 0 {
					limbs[j.slot][j.limb] = 1 << uint(bit)
				}
				for s := 0; s < 15; s++ {
					limbsToBytes(tb[s*stride:], limbs[s])
					if j.kind == 0 {
						// validity flag + padding of each table entry: arbitrary, must never leak into the output
						tb[s*stride+96] = byte(rng.U64())
						for k := 97; k < 104; k++ {
							tb[s*stride+k] = byte(rng.U64())
						}
					}
				}
				w.Class("c19:lookup:" + j.pattern)
				// destination in the other data page region, between canaries
				dOff := 2*pageSize - tblBytes - 512
				if placement == 1 {
					dOff = pageSize + 1024
				}
				dOff &^= 15
				region := g.data[dOff-64 : dOff+stride+64]
				for idx := uint64(0); idx < 16; idx++ {
					if idx == 0 {
						w.Class("c19:lookup:idx=0")
					}
					if idx == 15 {
						w.Class("c19:lookup:idx=15")
					}
					for k := range region {
						region[k] = 0xA5
					}
					dst := g.data[dOff : dOff+stride]
					if j.kind == 1 && idx == 0 {
						for k := range dst {
							dst[k] = 0 // callers pass a zeroed affine destination; index 0 is then "no entry"
						}
					}
					before := append([]byte{}, region...)
					if j.kind == 0 {
						hk.LookupProjective((*[15]secp256k1.Point)(unsafe.Pointer(&tb[0])), (*secp256k1.Point)(unsafe.Pointer(&dst[0])), idx)
					} else {
						hk.LookupAffine((*[15]hk.AffineEntry)(unsafe.Pointer(&tb[0])), (*hk.AffineEntry)(unsafe.Pointer(&dst[0])), idx)
					}
					want := make([]byte, 8*nl)
					switch {
					case idx > 0:
						limbsToBytes(want, limbs[idx-1])
					case j.kind == 0:
						l := make([]uint64, 12)
						copy(l[4:8], idLimbsY[:])
						limbsToBytes(want, l)
					}
					w.Case(true, []byte{byte(j.kind), byte(j.slot), byte(j.limb), byte(bit + 1), byte(placement), byte(idx)}, []byte(j.pattern), []byte(fmt.Sprint(ji)))
					key := fmt.Sprintf("c19/lookup/%s/idx=%d", []string{"projective", "affine"}[j.kind], idx)
					det := []any{"kind", []string{"projective", "affine"}[j.kind], "pattern", j.pattern, "slot", j.slot, "limb", j.limb, "bit", bit, "idx", idx, "placement", placement}
					if !bytes.Equal(dst[:8*nl], want) {
						w.Fail(key, fmt.Sprintf("lookup(%s table, idx=%d) wrote coordinates %x, expected %x", []string{"projective", "affine"}[j.kind], idx, dst[:8*nl], want), det...)
					}
					// bytes before and after the destination object must be untouched
					if !bytes.Equal(region[:64], before[:64]) || !bytes.Equal(region[64+stride:], before[64+stride:]) {
						w.Fail(key+":overwrite", "the lookup wrote outside its destination", det...)
					}
					// the padding after the coordinates (projective: bytes 97..103) stays; the validity
					// flag (byte 96) is not pinned: the portable lookup sets it, the assembly does not.
					if j.kind == 0 && !bytes.Equal(dst[97:104], before[64+97:64+104]) {
						w.Fail(key+":padding", "the lookup wrote the padding bytes after the coordinates", det...)
					}
				}
				// the table itself is read-only
				for s := 0; s < 15; s++ {
					chk := make([]byte, 8*nl)
					limbsToBytes(chk, limbs[s])
					if !bytes.Equal(tb[s*stride:s*stride+8*nl], chk) {
						w.Fail("c19/lookup:table-modified", "the lookup modified its table", "slot", s)
					}
				}
			}
		}
	})
}

// transcript runs a seeded workload through the public API and writes one
// line per call; the driver compares the files produced by the builds.
func transcript(r *mon.Run, path string) {
	f, err := os.Create(path)
	if err != nil {
		r.Inconclusive("cannot create transcript: %v", err)
		return
	}
	defer f.Close()
	bw := bufio.NewWriterSize(f, 1<<20)
	defer bw.Flush()
	pool := knownPointPool(r.Seed, 12)
	n := bigN
	total := r.N(6000, 120000)
	ops := 0
	r.Seq("c19/transcript", 1, func(w *mon.W, _ int) {
		for i := 0; i < total; i++ {
			rng := gen.New(r.Seed, i, "C19", "transcript")
			emit := func(op string, parts ...[]byte) {
				h := sha256.New()
				for _, p := range parts {
					h.Write([]byte{byte(len(p)), byte(len(p) >> 8)})
					h.Write(p)
				}
				fmt.Fprintf(bw, "%d %s %x\n", i, op, h.Sum(nil)[:16])
				ops++
			}
			pt := func() *Point {
				P := pool[rng.Intn(len(pool))]
				z, _ := repZ(rng)
				return pointRep(P.P, z)
			}
			sc := func() *Scalar { v, _ := rng.Value(n); return scalarFromBig(v) }
			// receivers: a fresh object, the zero value, or an object that already holds a point
			// (the generator, an earlier result in whatever representative) - a routine that
			// relies on what its destination contains differs between the builds only then
			rcv := func() *Point {
				switch rng.Intn(5) {
				case 0:
					return new(Point)
				case 1:
					return secp256k1.NewIdentityPoint()
				case 2:
					return secp256k1.NewGeneratorPoint()
				case 3:
					return new(Point).ScalarBaseMult(sc())
				default:
					return pt()
				}
			}
			switch i % 16 {
			case 0:
				emit("ScalarMult", rcv().ScalarMult(sc(), pt()).UncompressedBytes())
			case 1:
				emit("ScalarBaseMult", rcv().ScalarBaseMult(sc()).CompressedBytes())
			case 2:
				l := rng.Intn(6)
				ss, ps := make([]*Scalar, l), make([]*Point, l)
				for k := range ss {
					ss[k], ps[k] = sc(), pt()
				}
				emit("MultiScalarMult", rcv().MultiScalarMult(ss, ps).UncompressedBytes(), rcv().MultiScalarMultVartime(ss, ps).UncompressedBytes())
			case 3:
				emit("DoubleScalarMultBasepointVartime", rcv().DoubleScalarMultBasepointVartime(sc(), sc(), pt()).UncompressedBytes())
			case 4:
				a, b := pt(), pt()
				emit("PointArith", rcv().Add(a, b).UncompressedBytes(), rcv().Subtract(a, b).CompressedBytes(), rcv().Double(a).UncompressedBytes(), []byte{byte(a.Equal(b)), byte(a.IsYOdd()), byte(a.IsIdentity())})
			case 5:
				src, _ := sec1String(rng, pool)
				p, err := secp256k1.NewPointFromBytes(src)
				out := []byte("err")
				if err == nil {
					out = p.UncompressedBytes()
				}
				emit("NewPointFromBytes", src, out)
			case 6:
				a, b := sc(), sc()
				emit("ScalarArith", secp256k1.NewScalar().Multiply(a, b).Bytes(), secp256k1.NewScalar().Invert(a).Bytes(), secp256k1.NewScalar().Subtract(a, b).Bytes(), []byte{byte(a.IsGreaterThanHalfN())})
				// the word-level predicates on values whose stored limbs / whose distance to the
				// half order is a word with related 32-bit halves (32-bit builds handle 64-bit
				// words as register pairs)
				{
					var l [4]uint64
					j := rng.Intn(4)
					l[j] = rng.HalfWord()
					hw := oracle.FromLimbs(l)
					var preds []byte
					if hw.Cmp(n) < 0 {
						z := scalarFromBig(oracle.FromMont(hw, n))
						al := oracle.Limbs(oracle.ToMont(bigFromScalar(a), n))
						al[j] ^= l[j]
						preds = append(preds, byte(z.IsZero()), byte(z.Equal(secp256k1.NewScalar())))
						if a2 := oracle.FromLimbs(al); a2.Cmp(n) < 0 {
							preds = append(preds, byte(a.Equal(scalarFromBig(oracle.FromMont(a2, n)))))
						}
					}
					for _, v := range []*big.Int{new(big.Int).Add(oracle.HalfN, hw), new(big.Int).Sub(oracle.HalfN, hw)} {
						if v.Sign() > 0 && v.Cmp(n) < 0 {
							preds = append(preds, byte(scalarFromBig(v).IsGreaterThanHalfN()))
						}
					}
					emit("ScalarPredicates/half-word", preds)
				}
			case 7, 8:
				d, _ := keyValue(rng)
				dig, _ := digestValue(rng, false)
				k := mustPriv(d)
				enc := secec.SignatureEncoding(rng.Intn(3))
				var rd = secec.RFC6979SHA256()
				if rng.Bool() {
					rd = &fixedReader{data: rng.Bytes(32)}
				}
				sig, err := k.Sign(rd, dig, &secec.ECDSAOptions{Encoding: enc, SelfVerify: rng.Bool()})
				ok := err == nil && k.PublicKey().Verify(dig, sig, &secec.ECDSAOptions{Encoding: enc, RejectMalleable: true})
				emit("Sign+Verify", sig, []byte{byte(boolU64(ok))}, k.PublicKey().Bytes())
			case 9:
				t := verifyTuple(rng, rng.Intn(12))
				pub := mustPub(t.Q)
				res := []byte{}
				if t.R.Cmp(n) < 0 && t.S.Cmp(n) < 0 {
					lr, ls := scalarFromBig(t.R), scalarFromBig(t.S)
					res = append(res, byte(boolU64(pub.VerifyRaw(t.Digest, lr, ls))))
					for id := 0; id < 4; id++ {
						q, err := secec.RecoverPublicKey(t.Digest, lr, ls, byte(id))
						if err == nil {
							res = append(res, q.CompressedBytes()...)
						} else {
							res = append(res, 0xee)
						}
					}
				}
				emit("VerifyRaw+Recover", res)
			case 10:
				a, _ := keyValue(rng)
				b, _ := keyValue(rng)
				s, err := mustPriv(a).ECDH(mustPriv(b).PublicKey())
				emit("ECDH", s, []byte(fmt.Sprint(err)))
			case 11:
				d, _ := keyValue(rng)
				sk, _ := bitcoin.NewSchnorrPrivateKey(b32(d))
				msg := rng.Bytes(rng.Intn(100))
				sig, err := sk.Sign(&fixedReader{data: rng.Bytes(32)}, msg, nil)
				ok := err == nil && sk.PublicKey().Verify(msg, sig)
				emit("Schnorr", sig, []byte{byte(boolU64(ok))}, sk.PublicKey().Bytes())
			case 12:
				dst, msg := rng.Bytes(1+rng.Intn(300)), rng.Bytes(rng.Intn(100))
				p1, _ := h2c.Secp256k1_XMD_SHA256_SSWU_RO(dst, msg)
				p2, _ := h2c.Secp256k1_XMD_SHA256_SSWU_NU(dst, msg)
				emit("h2c", p1.UncompressedBytes(), p2.CompressedBytes())
			case 13:
				u, _ := uValue(rng)
				emit("SetUniformBytes", new(Point).SetUniformBytes(uniformBytesFor(rng, u)).UncompressedBytes())
			case 14:
				xs, _ := rng.Value(n)
				id := byte(rng.Intn(6))
				p, err := secp256k1.RecoverPoint(scalarFromBig(xs), id)
				out := []byte("err")
				if err == nil {
					out = p.UncompressedBytes()
				}
				emit("RecoverPoint", out)
			case 15:
				a, b := pt(), pt()
				ctrl := gen.Pick(rng, gen.CtrlValues...)
				emit("Select/Negate", new(Point).ConditionalSelect(a, b, ctrl).UncompressedBytes(), new(Point).ConditionalNegate(a, ctrl).CompressedBytes(), new(Point).Negate(b).UncompressedBytes())
			}
		}
		w.ClassN("c19:transcript:calls", int64(ops))
		w.Case(true, []byte("transcript"), []byte(fmt.Sprint(total)))
		w.Sample(map[string]any{"op": "cross-build transcript", "calls": ops, "compared_by": "bin/check (asm vs purego line by line)"})
	})
	_ = big.NewInt
	_ = oracle.P
}

func runC19(r *mon.Run) {
	if hk.HaveMul {
		runLookups(r)
	} else {
		r.Note("hook group verif_mul unavailable: the lookup routines are observed only through the multiplication entry points (transcript)")
	}
	if path := os.Getenv("VERIF_TRANSCRIPT"); path != "" {
		transcript(r, path)
		r.Require("c19:transcript:calls")
	} else {
		r.Note("VERIF_TRANSCRIPT not set: cross-build transcript not produced")
	}
}
