package props

import (
	"bytes"
	"crypto"
	"fmt"
	"io"
	"math/big"
	"sync"

	"gitlab.com/yawning/secp256k1-voi/secec"
	"gitlab.com/yawning/secp256k1-voi/secec/bitcoin"

	"verifharness/gen"
	"verifharness/mon"
	"verifharness/oracle"
)

func init() { Register("C08", runC08) }

func runC08(r *mon.Run) {
	for _, c := range []string{"c08:Ry-even,s-kept", "c08:Ry-even,s-negated", "c08:Ry-odd,s-kept", "c08:Ry-odd,s-negated", "c08:rand:scripted", "c08:rand:rfc6979", "c08:rand:nil",
		"c08:enc:asn1", "c08:enc:compact", "c08:enc:recoverable", "c08:selfverify", "c08:err:digest-length", "c08:err:short-digest", "c08:err:bad-encoding", "c08:nil-opts-long-digest",
		"c08:pub-y-odd", "c08:pub-y-even", "c08:key-used-before-signing"} {
		r.Require(c)
	}
	halfN := oracle.HalfN
	r.Each("c08/sign", r.N(1500, 60000), func(w *mon.W, i int) {
		rng := w.Rng
		d, dc := keyValue(rng)
		priv := mustPriv(d)
		Q := oracle.MulG(d)
		if Q.Y.Bit(0) == 1 {
			w.Class("c08:pub-y-odd")
		} else {
			w.Class("c08:pub-y-even")
		}
		dig, gc := digestValue(rng, false)
		entropy := rng.Bytes(32)
		if rng.Chance(1, 6) {
			entropy = make([]byte, 32) // all-zero entropy
		}
		mode := i % 4 // 0,1 scripted; 2 rfc6979; 3 nil (crypto/rand)
		mkRand := func() io.Reader {
			switch mode {
			case 2:
				return secec.RFC6979SHA256()
			case 3:
				return nil
			}
			return &fixedReader{data: append(append([]byte{}, entropy...), rng.Bytes(64)...)}
		}
		w.Class([]string{"c08:rand:scripted", "c08:rand:scripted", "c08:rand:rfc6979", "c08:rand:nil"}[mode])
		det := []any{"d", hb(d), "digest", hx(dig), "entropy", hx(entropy), "rand_mode", mode, "key_class", dc, "digest_class", gc}
		w.Case(true, []byte("sign"), b32(d), dig, entropy, []byte{byte(mode)})
		if i < 3 {
			w.Sample(map[string]any{"op": "SignRaw/Sign", "d": hb(d), "digest": hx(dig), "rand_mode": []string{"scripted", "scripted", "rfc6979", "nil"}[mode]})
		}

		if i%3 == 0 {
			// the key has a life before it signs: a BIP-340 key is derived from it, and the
			// caller overwrites / reuses everything the key handed out
			_ = bitcoin.NewSchnorrPrivateKeyFromECDSA(priv)
			_ = bitcoin.NewSchnorrPublicKeyFromECDSA(priv.PublicKey())
			hs := priv.Scalar()
			hs.Negate(hs)
			hp := priv.PublicKey().Point()
			hp.Negate(hp)
			for _, b := range [][]byte{priv.Bytes(), priv.PublicKey().Bytes(), priv.PublicKey().CompressedBytes()} {
				for j := range b {
					b[j] += 0x3d
				}
			}
			w.Class("c08:key-used-before-signing")
		}
		lr, ls, v, err := priv.SignRaw(mkRand(), dig)
		if err != nil {
			w.Fail("c08/SignRaw:err", fmt.Sprintf("SignRaw failed for an admissible digest: %v", err), det...)
			return
		}
		rr, ss := bigFromScalar(lr), bigFromScalar(ls)
		det = append(det, "r", hb(rr), "s", hb(ss), "v", v)
		if rr.Sign() == 0 || ss.Sign() == 0 {
			w.Fail("c08/SignRaw:zero", "SignRaw returned r or s = 0", det...)
			return
		}
		if ss.Cmp(halfN) > 0 {
			w.Fail("c08/SignRaw:low-s", fmt.Sprintf("SignRaw returned s = %x > (n-1)/2", ss), det...)
		}
		if v > 3 {
			w.Fail("c08/SignRaw:id-range", fmt.Sprintf("recovery id %d out of [0,3]", v), det...)
		}
		if !oracle.ECDSAVerify(Q, dig, rr, ss) {
			w.Fail("c08/SignRaw:verify", "the signature does not satisfy the SEC 1 4.1.4 predicate under the signer's key", det...)
			return
		}
		if !priv.PublicKey().VerifyRaw(dig, lr, ls) {
			w.Fail("c08/SignRaw:libverify", "the library does not verify its own signature", det...)
		}
		// nonce recomputed by the oracle: k = s^-1 (e + r d) (or its negation when s was negated)
		e, _ := oracle.DigestToE(dig)
		k := oracle.MulM(oracle.InvFast(ss, bigN), oracle.AddM(e, oracle.MulM(rr, d, bigN), bigN), bigN)
		Rk := oracle.MulG(k)
		// Which of k / n-k did the signer use?  With the signer's k the un-normalised s is
		// k^-1(e+rd); the emitted s is that or its negation.  R = kG has x = r (mod n) for both.
		if oracle.Mod(Rk.X, bigN).Cmp(rr) != 0 {
			w.Fail("c08/SignRaw:nonce", "x(kG) mod n != r for the recomputed nonce", det...)
		}
		// recovery: the emitted id recovers the signer, no other id in 0..3 does
		for id := 0; id < 4; id++ {
			q := oracle.ECDSARecover(dig, rr, ss, id)
			isSigner := q != nil && q.Eq(Q)
			if id == int(v) && !isSigner {
				w.Fail("c08/SignRaw:recover", fmt.Sprintf("the emitted recovery id %d does not recover the signer", v), det...)
			}
			if id != int(v) && isSigner {
				w.Fail("c08/SignRaw:recover-unique", fmt.Sprintf("recovery id %d (not the emitted %d) also recovers the signer", id, v), det...)
			}
			lq, lerr := secec.RecoverPublicKey(dig, lr, ls, byte(id))
			libSigner := lerr == nil && bytes.Equal(lq.Bytes(), oracle.EncodeUncompressed(Q))
			if libSigner != isSigner {
				w.Fail("c08/RecoverPublicKey", fmt.Sprintf("RecoverPublicKey(id=%d) recovers the signer: %v, model: %v", id, libSigner, isSigner), det...)
			}
		}
		// scripted / RFC 6979: the signature is a deterministic function; classify with the oracle's RFC 6979
		if mode == 2 {
			r0, s0, v0, kUsed, _ := oracle.RFC6979Sign(d, dig)
			if r0.Cmp(rr) != 0 || s0.Cmp(ss) != 0 || v0 != int(v) {
				w.Fail("c08/SignRaw:rfc6979", fmt.Sprintf("RFC 6979 signature differs from the model: model (r,s,v) = (%x, %x, %d)", r0, s0, v0), det...)
			}
			Ru := oracle.MulG(kUsed)
			rawS := oracle.MulM(oracle.InvFast(kUsed, bigN), oracle.AddM(e, oracle.MulM(rr, d, bigN), bigN), bigN)
			neg := rawS.Cmp(halfN) > 0
			w.Class(fmt.Sprintf("c08:Ry-%s,s-%s", map[uint]string{0: "even", 1: "odd"}[Ru.Y.Bit(0)], map[bool]string{false: "kept", true: "negated"}[neg]))
		}
		if mode <= 1 {
			// determinism: same (d, digest, entropy) => same signature
			lr2, ls2, v2, err2 := priv.SignRaw(mkRand(), dig)
			if err2 != nil || lr2.Equal(lr) != 1 || ls2.Equal(ls) != 1 || v2 != v {
				w.Fail("c08/SignRaw:determinism", "two SignRaw calls with identical (key, digest, entropy) differ", det...)
			}
		}

		// Sign in each encoding, self-verification on/off
		encs := []secec.SignatureEncoding{secec.EncodingASN1, secec.EncodingCompact, secec.EncodingCompactRecoverable}
		enc := encs[(i/4)%3]
		w.Class([]string{"c08:enc:asn1", "c08:enc:compact", "c08:enc:recoverable"}[(i/4)%3])
		var prevSig []byte
		for _, selfVerify := range []bool{false, true} {
			if selfVerify {
				w.Class("c08:selfverify")
			}
			opts := &secec.ECDSAOptions{Encoding: enc, SelfVerify: selfVerify}
			if rng.Bool() {
				opts.Hash = crypto.SHA256
			}
			sig, err := priv.Sign(mkRand(), dig, opts)
			if err != nil {
				w.Fail("c08/Sign:err", fmt.Sprintf("Sign(encoding %d, selfVerify %v) failed: %v", enc, selfVerify, err), det...)
				continue
			}
			if mode != 3 {
				// deterministic modes: identical to SignRaw's (r,s,v) and independent of SelfVerify
				if prevSig != nil && !bytes.Equal(prevSig, sig) {
					w.Fail("c08/Sign:selfverify", "turning on SelfVerify changed the signature bytes", det...)
				}
				prevSig = sig
			}
			// parse back with the oracle parsers and with the library parsers
			var pr, ps *big.Int
			pv := -1
			switch enc {
			case secec.EncodingASN1:
				var ok bool
				pr, ps, ok = oracle.DERParseSigStrict(sig)
				if !ok {
					w.Fail("c08/Sign:asn1", fmt.Sprintf("Sign produced %x, which is not strict DER of (r,s) in range", sig), det...)
					continue
				}
				l1, l2, lerr := secec.ParseASN1Signature(sig)
				if lerr != nil || bigFromScalar(l1).Cmp(pr) != 0 || bigFromScalar(l2).Cmp(ps) != 0 {
					w.Fail("c08/Sign:asn1-parse", "ParseASN1Signature does not return the signed (r,s)", det...)
				}
			case secec.EncodingCompact, secec.EncodingCompactRecoverable:
				wantLen := 64
				if enc == secec.EncodingCompactRecoverable {
					wantLen = 65
				}
				if len(sig) != wantLen {
					w.Fail("c08/Sign:compact-len", fmt.Sprintf("compact signature has %d bytes", len(sig)), det...)
					continue
				}
				pr, ps = oracle.FromBytes(sig[:32]), oracle.FromBytes(sig[32:64])
				if wantLen == 65 {
					pv = int(sig[64])
					l1, l2, lv, lerr := secec.ParseCompactRecoverableSignature(sig)
					if lerr != nil || bigFromScalar(l1).Cmp(pr) != 0 || bigFromScalar(l2).Cmp(ps) != 0 || int(lv) != pv {
						w.Fail("c08/Sign:recoverable-parse", "ParseCompactRecoverableSignature does not return the signed (r,s,v)", det...)
					}
				} else {
					l1, l2, lerr := secec.ParseCompactSignature(sig)
					if lerr != nil || bigFromScalar(l1).Cmp(pr) != 0 || bigFromScalar(l2).Cmp(ps) != 0 {
						w.Fail("c08/Sign:compact-parse", "ParseCompactSignature does not return the signed (r,s)", det...)
					}
				}
			}
			if mode != 3 && (pr.Cmp(rr) != 0 || ps.Cmp(ss) != 0 || (pv >= 0 && pv != int(v))) {
				w.Fail("c08/Sign:vs-SignRaw", "Sign and SignRaw disagree for identical inputs", det...)
			}
			if pr.Sign() == 0 || pr.Cmp(bigN) >= 0 || ps.Sign() == 0 || ps.Cmp(halfN) > 0 {
				w.Fail("c08/Sign:range", fmt.Sprintf("Sign produced out-of-range or high s: r=%x s=%x", pr, ps), det...)
			}
			if !oracle.ECDSAVerify(Q, dig, pr, ps) {
				w.Fail("c08/Sign:verify", "the encoded signature does not verify under the signer's key", det...)
			}
			if pv >= 0 {
				if q := oracle.ECDSARecover(dig, pr, ps, pv); q == nil || !q.Eq(Q) {
					w.Fail("c08/Sign:recover", "the encoded recovery id does not recover the signer", det...)
				}
			}
			vo := &secec.ECDSAOptions{Encoding: enc, RejectMalleable: true}
			if !priv.PublicKey().Verify(dig, sig, vo) {
				w.Fail("c08/Sign:libverify", fmt.Sprintf("PublicKey.Verify rejects the library's own signature (encoding %d)", enc), det...)
			}
		}

		// inadmissible inputs are errors, not signatures
		switch i % 5 {
		case 0:
			h := gen.Pick(rng, crypto.SHA384, crypto.SHA512, crypto.SHA224, crypto.SHA1)
			sig, err := priv.Sign(mkRand(), dig, &secec.ECDSAOptions{Hash: h})
			w.Class("c08:err:digest-length")
			if err == nil || sig != nil {
				w.Fail("c08/Sign:digest-length", fmt.Sprintf("Sign accepted a 32-byte digest with Hash=%v", h), det...)
			}
			sig, err = priv.Sign(mkRand(), dig, h) // a bare crypto.Hash as SignerOpts
			if err == nil || sig != nil {
				w.Fail("c08/Sign:digest-length", fmt.Sprintf("Sign accepted a 32-byte digest with opts=%v", h), det...)
			}
		case 1:
			short := dig[:rng.Intn(32)]
			w.Class("c08:err:short-digest")
			if _, _, _, err := priv.SignRaw(mkRand(), short); err == nil {
				w.Fail("c08/SignRaw:short-digest", fmt.Sprintf("SignRaw signed a %d-byte digest", len(short)), det...)
			}
			if sig, err := priv.Sign(mkRand(), short, nil); err == nil || sig != nil {
				w.Fail("c08/Sign:short-digest", fmt.Sprintf("Sign signed a %d-byte digest", len(short)), det...)
			}
		case 2:
			w.Class("c08:err:bad-encoding")
			if sig, err := priv.Sign(mkRand(), dig, &secec.ECDSAOptions{Encoding: secec.SignatureEncoding(3 + rng.Intn(100))}); err == nil || sig != nil {
				w.Fail("c08/Sign:bad-encoding", "Sign produced a signature for an undefined encoding", det...)
			}
			if sig, err := priv.Sign(mkRand(), dig, &secec.ECDSAOptions{Encoding: undefinedEncoding(rng)}); err == nil || sig != nil {
				w.Fail("c08/Sign:bad-encoding", "Sign produced a signature for a negative encoding", det...)
			}
		case 3:
			// nil options: digests of 32..64 bytes are admissible, the leftmost 32 bytes count
			long := append(append([]byte{}, dig...), rng.Bytes(1+rng.Intn(32))...)
			w.Class("c08:nil-opts-long-digest")
			sig, err := priv.Sign(mkRand(), long, nil)
			if err != nil {
				w.Fail("c08/Sign:long-digest", fmt.Sprintf("Sign(nil opts) rejected a %d-byte digest: %v", len(long), err), det...)
			} else if pr, ps, ok := oracle.DERParseSigStrict(sig); !ok || !oracle.ECDSAVerify(Q, long, pr, ps) || !oracle.ECDSAVerify(Q, dig, pr, ps) || ps.Cmp(halfN) > 0 {
				w.Fail("c08/Sign:long-digest", "Sign(nil opts) over a long digest is not a valid low-s DER signature over its leftmost 32 bytes", det...)
			}
		case 4:
			// wrong digest length for the default hash with explicit options
			long := append(append([]byte{}, dig...), 0)
			if sig, err := priv.Sign(mkRand(), long, &secec.ECDSAOptions{}); err == nil || sig != nil {
				w.Fail("c08/Sign:digest-length", "Sign with default options accepted a 33-byte digest", det...)
			}
			w.Class("c08:err:digest-length")
		}
		if !bytes.Equal(priv.Bytes(), b32(d)) {
			w.Fail("c08:key", "signing modified the private key", det...)
		}
	})

	// --- short components: r or s with two or more leading zero octets (2^-15
	// per signature).  The nonce cannot be chosen through the API, so a seeded
	// search over digests finds such signatures; each is then produced in every
	// encoding and must parse back (oracle and library parsers) to the same
	// (r,s,v) and verify.  A DER writer that mishandles short integers, or a
	// compact writer that mis-pads them, only shows here.
	r.Require("c08:short:r", "c08:short:s", "c08:short:asn1", "c08:short:compact", "c08:short:recoverable")
	short := new(big.Int).Lsh(big.NewInt(1), 240)
	r.Each("c08/short-components", r.N(16, 256), func(w *mon.W, i int) {
		rng := w.Rng
		d, _ := keyValue(rng)
		priv := mustPriv(d)
		Q := oracle.MulG(d)
		entropy := rng.Bytes(32)
		rfc := i%2 == 1
		mk := func() io.Reader {
			if rfc {
				return secec.RFC6979SHA256()
			}
			return &fixedReader{data: entropy}
		}
		dig := rng.Bytes(32)
		var rr, ss *big.Int
		var v byte
		found := false
		for try := 0; try < 3000000; try++ {
			dig[0], dig[1], dig[2], dig[3] = byte(try>>24), byte(try>>16), byte(try>>8), byte(try)
			lr, ls, lv, err := priv.SignRaw(mk(), dig)
			if err != nil {
				w.Fail("c08/short:err", err.Error(), "d", hb(d), "digest", hx(dig))
				return
			}
			rb, sb := lr.Bytes(), ls.Bytes()
			if (rb[0] == 0 && rb[1] == 0) || (sb[0] == 0 && sb[1] == 0) {
				rr, ss, v, found = oracle.FromBytes(rb), oracle.FromBytes(sb), lv, true
				break
			}
		}
		if !found {
			return // the required classes stay unreached -> inconclusive
		}
		if rr.Cmp(short) < 0 {
			w.Class("c08:short:r")
		}
		if ss.Cmp(short) < 0 {
			w.Class("c08:short:s")
		}
		det := []any{"d", hb(d), "digest", hx(dig), "entropy", hx(entropy), "rfc6979", rfc, "r", hb(rr), "s", hb(ss), "v", v}
		w.Case(true, []byte("short"), b32(d), dig, entropy)
		if i < 2 {
			w.Sample(map[string]any{"monitor": "short-components", "d": hb(d), "digest": hx(dig), "r": hb(rr), "s": hb(ss)})
		}
		for ei, enc := range []secec.SignatureEncoding{secec.EncodingASN1, secec.EncodingCompact, secec.EncodingCompactRecoverable} {
			w.Class([]string{"c08:short:asn1", "c08:short:compact", "c08:short:recoverable"}[ei])
			sig, err := priv.Sign(mk(), dig, &secec.ECDSAOptions{Encoding: enc, SelfVerify: i%4 >= 2})
			if err != nil {
				w.Fail("c08/short:Sign", fmt.Sprintf("Sign(encoding %d) failed: %v", enc, err), det...)
				continue
			}
			var pr, ps *big.Int
			pv := -1
			switch enc {
			case secec.EncodingASN1:
				var ok bool
				if pr, ps, ok = oracle.DERParseSigStrict(sig); !ok {
					w.Fail("c08/short:asn1", fmt.Sprintf("Sign produced %x, which is not the strict DER encoding of an in-range (r,s)", sig), det...)
					continue
				}
				if !bytes.Equal(sig, oracle.DERWriteSig(rr, ss)) {
					w.Fail("c08/short:asn1-canonical", fmt.Sprintf("Sign produced %x, expected the DER encoding %x", sig, oracle.DERWriteSig(rr, ss)), det...)
				}
				if l1, l2, lerr := secec.ParseASN1Signature(sig); lerr != nil || bigFromScalar(l1).Cmp(rr) != 0 || bigFromScalar(l2).Cmp(ss) != 0 {
					w.Fail("c08/short:asn1-parse", "ParseASN1Signature does not return the signed (r,s)", det...)
				}
			default:
				if len(sig) != 64+ei-1 {
					w.Fail("c08/short:compact-len", fmt.Sprintf("compact signature has %d bytes", len(sig)), det...)
					continue
				}
				pr, ps = oracle.FromBytes(sig[:32]), oracle.FromBytes(sig[32:64])
				if len(sig) == 65 {
					pv = int(sig[64])
				}
			}
			if pr.Cmp(rr) != 0 || ps.Cmp(ss) != 0 || (pv >= 0 && pv != int(v)) {
				w.Fail("c08/short:vs-SignRaw", fmt.Sprintf("Sign(encoding %d) encodes (r,s,v) = (%x,%x,%d), SignRaw gave (%x,%x,%d)", enc, pr, ps, pv, rr, ss, v), det...)
			}
			if !oracle.ECDSAVerify(Q, dig, pr, ps) || !priv.PublicKey().Verify(dig, sig, &secec.ECDSAOptions{Encoding: enc, RejectMalleable: true}) {
				w.Fail("c08/short:verify", fmt.Sprintf("the encoded signature (encoding %d) does not verify", enc), det...)
			}
		}
	})

	// --- every hash selector with a digest of the matching size, every encoding, SelfVerify off
	// and on: same bytes, valid over the leftmost 32 bytes of the digest
	r.Require("c08:hash:SHA-224", "c08:hash:SHA-384", "c08:hash:SHA-512", "c08:hash:plain-crypto.Hash-opts")
	r.Each("c08/hash-options", r.N(240, 8000), func(w *mon.W, i int) {
		rng := w.Rng
		d, _ := keyValue(rng)
		priv := mustPriv(d)
		Q := oracle.MulG(d)
		h := []crypto.Hash{crypto.SHA384, crypto.SHA512, crypto.SHA224, crypto.SHA512_256, crypto.SHA3_256, crypto.SHA3_512}[i%6]
		dig := rng.Bytes(h.Size())
		enc := secec.SignatureEncoding((i / 6) % 3)
		entropy := rng.Bytes(32)
		w.Class("c08:hash:" + h.String())
		w.Case(true, []byte("hash-options"), b32(d), dig, []byte{byte(h), byte(enc)})
		det := []any{"d", hb(d), "digest", hx(dig), "hash", h.String(), "encoding", int(enc)}
		var sigs [][]byte
		for _, sv := range []bool{false, true} {
			sig, err := priv.Sign(&fixedReader{data: entropy}, dig, &secec.ECDSAOptions{Hash: h, Encoding: enc, SelfVerify: sv})
			if h.Size() < 32 {
				// digests under 32 bytes are inadmissible whatever the selector says
				if err == nil || sig != nil {
					w.Fail("c08/hash-options:short", fmt.Sprintf("Sign accepted a %d-byte digest with Hash=%v", len(dig), h), det...)
				}
				continue
			}
			if err != nil {
				w.Fail("c08/hash-options:err", fmt.Sprintf("Sign(Hash=%v, %d-byte digest, encoding %d, SelfVerify=%v) failed: %v", h, len(dig), enc, sv, err), det...)
				continue
			}
			sigs = append(sigs, sig)
			if !priv.PublicKey().Verify(dig, sig, &secec.ECDSAOptions{Hash: h, Encoding: enc, RejectMalleable: true}) {
				w.Fail("c08/hash-options:verify", fmt.Sprintf("the signature made with Hash=%v does not verify with the same options", h), det...)
			}
			var pr, ps *big.Int
			switch enc {
			case secec.EncodingASN1:
				pr, ps, _ = oracle.DERParseSigStrict(sig)
			default:
				if len(sig) >= 64 {
					pr, ps = oracle.FromBytes(sig[:32]), oracle.FromBytes(sig[32:64])
				}
			}
			if pr == nil || !oracle.ECDSAVerify(Q, dig, pr, ps) {
				w.Fail("c08/hash-options:predicate", fmt.Sprintf("the signature made with Hash=%v does not satisfy the predicate over the leftmost 32 digest bytes", h), det...)
			}
		}
		if len(sigs) == 2 && !bytes.Equal(sigs[0], sigs[1]) {
			w.Fail("c08/hash-options:selfverify", fmt.Sprintf("Hash=%v: turning on SelfVerify changed the output", h), det...)
		}
		// a bare crypto.Hash as SignerOpts (default encoding)
		if i%2 == 0 && h.Size() >= 32 {
			w.Class("c08:hash:plain-crypto.Hash-opts")
			sig, err := priv.Sign(&fixedReader{data: entropy}, dig, h)
			if err != nil {
				w.Fail("c08/hash-options:plain", fmt.Sprintf("Sign(opts = crypto.Hash %v) failed: %v", h, err), det...)
			} else if pr, ps, ok := oracle.DERParseSigStrict(sig); !ok || !oracle.ECDSAVerify(Q, dig, pr, ps) {
				w.Fail("c08/hash-options:plain", "Sign(opts = crypto.Hash) did not produce a valid DER signature", det...)
			}
		}
	})

	// --- the full selector x digest-length matrix: every hash identifier the standard library
	// defines, digest lengths at, around and far from every hash size, SelfVerify off/on, the
	// selector passed as *ECDSAOptions or as a bare crypto.Hash: signed iff the length is
	// exactly the size of the selected hash (and at least 32 bytes), an error otherwise; Verify
	// with the same selector accepts only what Sign may have signed
	hashSize := stdHashSize
	lens := []int{0, 16, 20, 28, 31, 32, 33, 36, 47, 48, 49, 63, 64, 65, 66, 72, 96, 128, 129, 200}
	r.Require("c08:matrix:signed", "c08:matrix:refused", "c08:matrix:len>64", "c08:matrix:selfverify")
	r.Each("c08/hash-matrix", 20*len(lens), func(w *mon.W, i int) {
		rng := w.Rng
		h := crypto.Hash(i % 20) // 0 = "unset" (SHA-256 for *ECDSAOptions)
		l := lens[i/20]
		d, _ := keyValue(rng)
		priv := mustPriv(d)
		Q := oracle.MulG(d)
		dig := rng.Bytes(l)
		if len(dig) >= 32 && rng.Chance(1, 4) {
			copy(dig, b32(oracle.AddM(bigN, big.NewInt(int64(rng.Intn(3))), oracle.Two256))) // leftmost 32 bytes >= n
		}
		size := hashSize[h]
		if h == 0 {
			size = 32
		}
		admissible := l == size && l >= 32
		w.Case(true, []byte("hash-matrix"), []byte{byte(h), byte(l)})
		if l > 64 {
			w.Class("c08:matrix:len>64")
		}
		entropy := rng.Bytes(32)
		var first []byte
		for vi := 0; vi < 5; vi++ {
			var opts crypto.SignerOpts
			name := ""
			enc := secec.SignatureEncoding(rng.Intn(3))
			switch vi {
			case 0, 1, 2, 3:
				sv := vi%2 == 1
				if vi < 2 {
					enc = secec.EncodingCompact
				}
				opts = &secec.ECDSAOptions{Hash: h, Encoding: enc, SelfVerify: sv}
				name = fmt.Sprintf("&ECDSAOptions{Hash: %d, Encoding: %d, SelfVerify: %v}", int(h), int(enc), sv)
				if sv {
					w.Class("c08:matrix:selfverify")
				}
			default:
				if h == 0 {
					continue // a bare crypto.Hash(0) means "no hashing": not a selector
				}
				opts, enc = h, secec.EncodingASN1
				name = fmt.Sprintf("crypto.Hash(%d)", int(h))
			}
			keep := append([]byte{}, dig...)
			sig, err := priv.Sign(&fixedReader{data: entropy}, dig, opts)
			det := []any{"d", hb(d), "digest", hx(keep), "hash", int(h), "opts", name}
			if !bytes.Equal(dig, keep) {
				w.Fail("c08/hash-matrix:input", "Sign modified the caller's digest", det...)
			}
			if !admissible {
				w.Class("c08:matrix:refused")
				if err == nil || sig != nil {
					w.Fail("c08/hash-matrix:inadmissible", fmt.Sprintf("Sign(%d-byte digest, %s) returned a signature (%x); the selected hash has %d-byte digests", l, name, sig, size), det...)
				}
				if po, ok := opts.(*secec.ECDSAOptions); ok && len(dig) >= 32 {
					// what would be the signature over the leftmost 32 bytes must not verify either
					r0, s0, _, _, _ := oracle.RFC6979Sign(d, dig)
					cs := append(b32(r0), b32(s0)...)
					if priv.PublicKey().Verify(dig, cs, &secec.ECDSAOptions{Hash: po.Hash, Encoding: secec.EncodingCompact}) {
						w.Fail("c08/hash-matrix:verify-inadmissible", fmt.Sprintf("Verify(%d-byte digest, Hash: %d) accepted a signature over a digest of inadmissible length", l, int(h)), det...)
					}
				}
				continue
			}
			w.Class("c08:matrix:signed")
			if err != nil {
				w.Fail("c08/hash-matrix:refused", fmt.Sprintf("Sign(%d-byte digest, %s) failed: %v", l, name, err), det...)
				continue
			}
			var pr, ps *big.Int
			if enc == secec.EncodingASN1 {
				pr, ps, _ = oracle.DERParseSigStrict(sig)
			} else if len(sig) >= 64 {
				pr, ps = oracle.FromBytes(sig[:32]), oracle.FromBytes(sig[32:64])
			}
			if pr == nil || !oracle.ECDSAVerify(Q, dig, pr, ps) || ps.Cmp(oracle.HalfN) > 0 {
				w.Fail("c08/hash-matrix:predicate", fmt.Sprintf("Sign(%d-byte digest, %s) = %x is not a valid low-s signature over the leftmost 32 digest bytes", l, name, sig), det...)
				continue
			}
			if vi < 2 {
				if first == nil {
					first = sig
				} else if !bytes.Equal(first, sig) {
					w.Fail("c08/hash-matrix:selfverify", fmt.Sprintf("%s: turning on SelfVerify changed the output", name), det...)
				}
			}
			if po, ok := opts.(*secec.ECDSAOptions); ok {
				if !priv.PublicKey().Verify(dig, sig, &secec.ECDSAOptions{Hash: po.Hash, Encoding: enc, RejectMalleable: true}) {
					w.Fail("c08/hash-matrix:verify", fmt.Sprintf("Verify with %s rejects the signature Sign produced with the same selector", name), det...)
				}
			}
		}
	})

	// --- signing after failures, from several goroutines on one key object: an aborted
	// attempt (entropy source fails) must leave nothing behind that a later or a concurrent
	// signature picks up (pooled scratch returned twice or dirty, state kept in the key)
	r.Require("c08:after-failure:concurrent-signs")
	r.Seq("c08/sign-after-failure", r.N(6, 80), func(w *mon.W, i int) {
		rng := w.Rng
		d, _ := keyValue(rng)
		priv := mustPriv(d)
		Q := oracle.MulG(d)
		for f := 0; f < 4; f++ {
			j := []int{0, 1, 17, 31}[f]
			if _, _, _, err := priv.SignRaw(&fixedReader{data: rng.Bytes(j), errAfter: errScripted}, rng.Bytes(32)); err == nil {
				w.Fail("c08/after-failure:accepted", fmt.Sprintf("SignRaw succeeded although the entropy source failed after %d bytes", j))
			}
		}
		const G, per = 6, 8
		type job struct {
			dig, ent []byte
			r, s     *big.Int
			err      error
		}
		jobs := make([][]job, G)
		for g := range jobs {
			for j := 0; j < per; j++ {
				jobs[g] = append(jobs[g], job{dig: rng.Bytes(32), ent: rng.Bytes(32)})
			}
		}
		var wg sync.WaitGroup
		gate := make(chan struct{})
		for g := 0; g < G; g++ {
			wg.Add(1)
			go func(g int) {
				defer wg.Done()
				<-gate
				for j := range jobs[g] {
					lr, ls, _, err := priv.SignRaw(&yieldingReader{data: jobs[g][j].ent}, jobs[g][j].dig)
					jobs[g][j].err = err
					if err == nil {
						jobs[g][j].r, jobs[g][j].s = bigFromScalar(lr), bigFromScalar(ls)
					}
				}
			}(g)
		}
		close(gate)
		wg.Wait()
		w.ClassN("c08:after-failure:concurrent-signs", G*per)
		for g := range jobs {
			for j, jb := range jobs[g] {
				w.Case(true, []byte("after-failure"), b32(d), jb.dig, jb.ent)
				if jb.err != nil || !oracle.ECDSAVerify(Q, jb.dig, jb.r, jb.s) {
					w.Fail("c08/after-failure:verify", fmt.Sprintf("goroutine %d call %d (one key object, after 4 aborted signatures): the signature does not verify over ITS digest under the signer's key (err %v)", g, j, jb.err), "d", hb(d), "digest", hx(jb.dig))
					return
				}
				// and it is the same signature the call gives when run alone
				lr, ls, _, err := priv.SignRaw(&fixedReader{data: jb.ent}, jb.dig)
				if err != nil || bigFromScalar(lr).Cmp(jb.r) != 0 || bigFromScalar(ls).Cmp(jb.s) != 0 {
					w.Fail("c08/after-failure:determinism", fmt.Sprintf("goroutine %d call %d: the concurrent signature differs from the one the same (key, digest, entropy) gives alone", g, j), "d", hb(d), "digest", hx(jb.dig), "entropy", hx(jb.ent))
					return
				}
			}
		}
	})

	// --- the four (R.y parity) x (s negated) classes with scripted entropy: the oracle
	// cannot predict the hedged nonce, so it reconstructs k from (r,s) and the known d.
	r.Each("c08/parity-classes", r.N(600, 20000), func(w *mon.W, i int) {
		rng := w.Rng
		d, _ := keyValue(rng)
		priv := mustPriv(d)
		dig, _ := digestValue(rng, false)
		entropy := rng.Bytes(32)
		lr, ls, v, err := priv.SignRaw(&fixedReader{data: entropy}, dig)
		if err != nil {
			w.Fail("c08/parity:err", err.Error())
			return
		}
		rr, ss := bigFromScalar(lr), bigFromScalar(ls)
		e, _ := oracle.DigestToE(dig)
		w.Case(true, b32(d), dig, entropy)
		// candidates: k0 = s^-1(e+rd) gives raw s = ss (not negated); k1 = n-k0 gives raw s = n-ss (negated).
		k0 := oracle.MulM(oracle.InvFast(ss, bigN), oracle.AddM(e, oracle.MulM(rr, d, bigN), bigN), bigN)
		R0 := oracle.MulG(k0)
		// emitted id bit0 = parity(R.y) ^ negated.  For k0: negated=false -> bit0 = parity(R0.y).
		// For k1: R = -R0, parity flipped, negated=true -> bit0 = parity(R0.y) as well.  Both consistent:
		wantBit0 := int(R0.Y.Bit(0))
		wantBit1 := 0
		if R0.X.Cmp(bigN) >= 0 {
			wantBit1 = 2
		}
		if int(v) != wantBit0|wantBit1 {
			w.Fail("c08/SignRaw:id", fmt.Sprintf("recovery id %d, expected %d from the reconstructed nonce point", v, wantBit0|wantBit1), "d", hb(d), "digest", hx(dig), "entropy", hx(entropy), "r", hb(rr), "s", hb(ss))
		}
		// which nonce was really used is not observable from (r,s,v) alone; the RFC 6979 mode of
		// c08/sign covers the four classes with a known nonce.
	})
	// results that are functions of the arguments alone do not depend on the process-wide system entropy stream
	runDegradedEntropy(r, "c08", r.N(40, 600), "rfc6979", "hedged")
}

// stdHashSize: digest sizes of the hash identifiers the standard library defines, typed from
// the standards (not read from crypto.Hash.Size, which the library itself uses).
var stdHashSize = map[crypto.Hash]int{crypto.MD4: 16, crypto.MD5: 16, crypto.SHA1: 20, crypto.SHA224: 28, crypto.SHA256: 32, crypto.SHA384: 48, crypto.SHA512: 64,
	crypto.MD5SHA1: 36, crypto.RIPEMD160: 20, crypto.SHA3_224: 28, crypto.SHA3_256: 32, crypto.SHA3_384: 48, crypto.SHA3_512: 64, crypto.SHA512_224: 28,
	crypto.SHA512_256: 32, crypto.BLAKE2s_256: 32, crypto.BLAKE2b_256: 32, crypto.BLAKE2b_384: 48, crypto.BLAKE2b_512: 64}
