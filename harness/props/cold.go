package props

import (
	"bytes"
	"crypto"
	"crypto/sha256"
	"crypto/sha512"
	"encoding/hex"
	"fmt"
	"hash"
	"math/big"
	"os"
	"os/exec"
	"runtime"
	"strconv"
	"strings"
	"sync"
	"sync/atomic"
	"time"
	"unicode/utf8"

	secp256k1 "gitlab.com/yawning/secp256k1-voi"
	"gitlab.com/yawning/secp256k1-voi/secec"
	"gitlab.com/yawning/secp256k1-voi/secec/bitcoin"
	"gitlab.com/yawning/secp256k1-voi/secec/h2c"

	"verifharness/gen"
	"verifharness/mon"
	"verifharness/oracle"
)

// Cold start: one public operation as the FIRST library call of a fresh process.
// State that is initialised on first use (lazily unpacked tables, memoised
// constants, sync.Once-guarded setup reached from only some entry points) is
// invisible to a long-running monitor process, in which some earlier call has
// always warmed it up.  The parent monitor computes the expected result with the
// reference model, the child (`verifrun -cold <spec>`, same binary, same build
// configuration) performs exactly that one call and prints the result.

// ColdMain executes one cold-start spec and prints "COLD <hex>"; called by
// verifrun before anything else touches the library.
func ColdMain(spec string) {
	if os.Getenv("VERIF_WRAP_HASHES") == "1" {
		wrapRegisteredHashes()
	}
	if strings.HasPrefix(spec, "conc|") {
		coldConcurrent(spec)
		return
	}
	if strings.HasPrefix(spec, "seq|") {
		// a short SEQUENCE of operations as the first calls of a fresh process: what the
		// second one finds depends on which entry point initialised the shared state
		var parts []string
		for _, sp := range strings.Split(spec, "|")[1:] {
			parts = append(parts, hex.EncodeToString(coldExec(sp)))
		}
		fmt.Printf("COLD %s\n", strings.Join(parts, ","))
		return
	}
	fmt.Printf("COLD %x\n", coldExec(spec))
}

// coldConcurrent: "conc|G|spec|spec|...": G goroutines are parked on a spinning barrier
// before anything has touched the library; goroutine g then performs spec[g mod K] as ITS
// first library call, all at the same instant.  Prints one "COLD" line with the G results.
func coldConcurrent(spec string) {
	f := strings.Split(spec, "|")
	G, _ := strconv.Atoi(f[1])
	specs := f[2:]
	if G < 1 || len(specs) == 0 {
		panic("bad concurrent cold spec")
	}
	outs := make([][]byte, G)
	var ready, goFlag atomic.Int32
	var wg sync.WaitGroup
	for g := 0; g < G; g++ {
		wg.Add(1)
		go func(g int) {
			defer wg.Done()
			defer func() {
				if p := recover(); p != nil {
					outs[g] = []byte(fmt.Sprintf("panic: %v", p))
				}
			}()
			ready.Add(1)
			for goFlag.Load() == 0 {
				// spin (a goroutine parked on a channel is woken one after the other), but
				// always yield: with fewer Ps than goroutines and no asynchronous preemption
				// a pure spin never lets the releasing goroutine run
				runtime.Gosched()
			}
			outs[g] = coldExec(specs[g%len(specs)])
		}(g)
	}
	for ready.Load() < int32(G) {
		runtime.Gosched()
	}
	goFlag.Store(1)
	wg.Wait()
	var sb strings.Builder
	for g := range outs {
		if g > 0 {
			sb.WriteByte(',')
		}
		sb.WriteString(hex.EncodeToString(outs[g]))
	}
	fmt.Printf("COLD %s\n", sb.String())
}

// coldExec performs the one call a spec describes.
func coldExec(spec string) []byte {
	f := strings.Split(spec, ":")
	arg := func(i int) []byte {
		b, err := hex.DecodeString(f[i])
		if err != nil {
			panic(err)
		}
		return b
	}
	sc := func(i int) *Scalar {
		s, _ := secp256k1.NewScalarFromBytes((*[32]byte)(arg(i)))
		return s
	}
	pt := func(i int) *Point {
		if f[i] == "G" {
			return secp256k1.NewGeneratorPoint()
		}
		p, err := secp256k1.NewPointFromBytes(arg(i))
		if err != nil {
			panic(err)
		}
		return p
	}
	bo := func(b bool) []byte { return []byte{byte(boolU64(b))} }
	var out []byte
	switch f[0] {
	case "dsm":
		out = new(Point).DoubleScalarMultBasepointVartime(sc(1), sc(2), pt(3)).UncompressedBytes()
	case "sbm":
		out = new(Point).ScalarBaseMult(sc(1)).UncompressedBytes()
	case "sm":
		out = new(Point).ScalarMult(sc(1), pt(2)).UncompressedBytes()
	case "msm":
		out = new(Point).MultiScalarMult([]*Scalar{sc(1), sc(3)}, []*Point{pt(2), pt(4)}).UncompressedBytes()
	case "msmv":
		out = new(Point).MultiScalarMultVartime([]*Scalar{sc(1), sc(3)}, []*Point{pt(2), pt(4)}).UncompressedBytes()
	case "pubkey":
		k, err := secec.NewPrivateKey(arg(1))
		if err != nil {
			panic(err)
		}
		out = k.PublicKey().Bytes()
	case "verify":
		k, err := secec.NewPublicKey(arg(1))
		if err != nil {
			panic(err)
		}
		out = bo(k.Verify(arg(2), arg(3), nil))
	case "btcverify":
		k, err := secec.NewPublicKey(arg(1))
		if err != nil {
			panic(err)
		}
		out = bo(bitcoin.VerifyASN1(k, arg(2), arg(3)))
	case "recover":
		k, err := secec.RecoverPublicKey(arg(1), sc(2), sc(3), arg(4)[0])
		if err != nil {
			out = []byte("error")
		} else {
			out = k.Bytes()
		}
	case "schnorrverify":
		k, err := bitcoin.NewSchnorrPublicKey(arg(1))
		if err != nil {
			panic(err)
		}
		out = bo(k.Verify(arg(2), arg(3)))
	case "prehash":
		h, err := bitcoin.PreHashSchnorrMessage(string(arg(1)), arg(2))
		if err != nil {
			out = []byte("error")
		} else {
			out = h
		}
	case "ecdh":
		k, err := secec.NewPrivateKey(arg(1))
		if err != nil {
			panic(err)
		}
		p, err := secec.NewPublicKey(arg(2))
		if err != nil {
			panic(err)
		}
		out, err = k.ECDH(p)
		if err != nil {
			out = []byte("error")
		}
	case "sign":
		k, err := secec.NewPrivateKey(arg(1))
		if err != nil {
			panic(err)
		}
		out, err = k.Sign(secec.RFC6979SHA256(), arg(2), nil)
		if err != nil {
			out = []byte("error")
		}
	case "schnorrsign":
		k, err := bitcoin.NewSchnorrPrivateKey(arg(1))
		if err != nil {
			panic(err)
		}
		out, err = k.Sign(bytes.NewReader(arg(2)), arg(3), nil)
		if err != nil {
			out = []byte("error")
		}
	case "h2c":
		p, err := h2c.Secp256k1_XMD_SHA256_SSWU_RO(arg(1), arg(2))
		if err != nil {
			out = []byte("error")
		} else {
			out = p.UncompressedBytes()
		}
	case "parsepub":
		k, err := secec.ParseASN1PublicKey(arg(1))
		if err != nil {
			out = []byte("error")
		} else {
			out = k.CompressedBytes()
		}
	case "gtable":
		// every single-byte scalar b*256^pos through both fixed-base entry points
		h := sha256.New()
		zero := secp256k1.NewScalar()
		for pos := 0; pos < 32; pos++ {
			for b := 1; b < 256; b++ {
				var sb [32]byte
				sb[31-pos] = byte(b)
				s, _ := secp256k1.NewScalarFromBytes(&sb)
				p1 := new(Point).ScalarBaseMult(s).UncompressedBytes()
				p2 := new(Point).DoubleScalarMultBasepointVartime(s, zero, secp256k1.NewGeneratorPoint()).UncompressedBytes()
				if !bytes.Equal(p1, p2) {
					fmt.Printf("gtable: pos=%d b=%d: ScalarBaseMult=%x, DoubleScalarMultBasepointVartime(s,0,G)=%x\n", pos, b, p1, p2)
				}
				h.Write(p1)
				h.Write(p2)
			}
		}
		out = h.Sum(nil)
	case "generate":
		k, err := secec.GenerateKey()
		if err != nil {
			panic(err)
		}
		d := arg(1)
		sig, err := k.Sign(nil, d, nil)
		out = bo(err == nil && k.PublicKey().Verify(d, sig, nil))
	case "decode":
		p, err := secp256k1.NewPointFromBytes(arg(1))
		if err != nil {
			out = []byte("error")
		} else {
			out = p.UncompressedBytes()
		}
	case "recoverpoint":
		p, err := secp256k1.RecoverPoint(sc(1), arg(2)[0])
		if err != nil {
			out = []byte("error")
		} else {
			out = p.UncompressedBytes()
		}
	case "asn1bytes":
		k, err := secec.NewPublicKey(arg(1))
		if err != nil {
			panic(err)
		}
		out = k.ASN1Bytes()
	case "schnorrpub":
		k, err := bitcoin.NewSchnorrPublicKey(arg(1))
		if err != nil {
			out = []byte("error")
		} else {
			out = k.Point().UncompressedBytes()
		}
	default:
		panic("unknown cold op " + f[0])
	}
	return out
}

// coldCase builds a spec for op and the expected output.
func coldCase(rng *gen.Rng, op string, pool []namedPt) (spec string, want []byte) {
	h := hex.EncodeToString
	n := bigN
	sv := func() *big.Int { v, _ := glvOrValue(rng); return v }
	pv := func() (*oracle.Pt, string) {
		if rng.Chance(1, 3) {
			return oracle.G(), "G"
		}
		P := pool[1+rng.Intn(len(pool)-1)].P
		return P, h(oracle.EncodeCompressed(P))
	}
	d, _ := keyValue(rng)
	Q := oracle.MulG(d)
	dig := rng.Bytes(32)
	switch op {
	case "dsm":
		u1, u2 := sv(), sv()
		P, ps := pv()
		return fmt.Sprintf("dsm:%x:%x:%s", b32(u1), b32(u2), ps), oracle.EncodeUncompressed(oracle.Add(oracle.MulG(u1), oracle.Mul(u2, P)))
	case "sbm":
		s := sv()
		return fmt.Sprintf("sbm:%x", b32(s)), oracle.EncodeUncompressed(oracle.MulG(s))
	case "sm":
		s := sv()
		P, ps := pv()
		return fmt.Sprintf("sm:%x:%s", b32(s), ps), oracle.EncodeUncompressed(oracle.Mul(s, P))
	case "msm", "msmv":
		s1, s2 := sv(), sv()
		P1, p1 := pv()
		P2, p2 := pv()
		return fmt.Sprintf("%s:%x:%s:%x:%s", op, b32(s1), p1, b32(s2), p2), oracle.EncodeUncompressed(oracle.Add(oracle.Mul(s1, P1), oracle.Mul(s2, P2)))
	case "pubkey":
		return fmt.Sprintf("pubkey:%x", b32(d)), oracle.EncodeUncompressed(Q)
	case "verify", "btcverify":
		r0, s0, _, _, _ := oracle.RFC6979Sign(d, dig)
		sig := oracle.DERWriteSig(r0, s0)
		ok := byte(1)
		if rng.Chance(1, 4) {
			dig[rng.Intn(32)] ^= 1
			ok = 0
		}
		if op == "btcverify" {
			sig = append(sig, 0x01)
		}
		return fmt.Sprintf("%s:%x:%x:%x", op, oracle.EncodeCompressed(Q), dig, sig), []byte{ok}
	case "recover":
		r0, s0, v0, _, _ := oracle.RFC6979Sign(d, dig)
		return fmt.Sprintf("recover:%x:%x:%x:%02x", dig, b32(r0), b32(s0), v0), oracle.EncodeUncompressed(Q)
	case "schnorrverify":
		msg := rng.Bytes(rng.Intn(70))
		sig := oracle.BIP340Sign(d, rng.Bytes(32), msg)
		_, P := evenKey(d)
		ok := byte(1)
		if rng.Chance(1, 4) {
			sig[rng.Intn(64)] ^= 4
			ok = 0
			if oracle.BIP340Verify(b32(P.X), msg, sig) {
				ok = 1
			}
		}
		return fmt.Sprintf("schnorrverify:%x:%x:%x", b32(P.X), msg, sig), []byte{ok}
	case "prehash", "prehash-related/0", "prehash-related/1", "prehash-related/2", "prehash-related/3", "prehash-related/4", "prehash-related/5", "prehash-related/6", "prehash-related/7", "prehash-related/8":
		name, msg := prehashName(rng), rng.Bytes(rng.Intn(70))
		if op != "prehash" {
			// the first call of a cold sequence: a name one step away from a tag BIP-340 uses
			k := int(op[len(op)-1] - '0')
			name = []string{"BIP0340/challenge", "BIP0340/aux", "BIP0340/nonce"}[k%3] + []string{"\x00", "\x00\x00\x00", " "}[k/3]
		}
		want := []byte("error")
		if name != "" && utf8.ValidString(name) {
			want = oracle.TaggedHash(name, msg)
		}
		return fmt.Sprintf("prehash:%x:%x", []byte(name), msg), want
	case "ecdh":
		e, _ := keyValue(rng)
		return fmt.Sprintf("ecdh:%x:%x", b32(d), oracle.EncodeUncompressed(oracle.MulG(e))), b32(oracle.MulG(oracle.MulM(d, e, n)).X)
	case "sign":
		r0, s0, _, _, _ := oracle.RFC6979Sign(d, dig)
		return fmt.Sprintf("sign:%x:%x", b32(d), dig), oracle.DERWriteSig(r0, s0)
	case "schnorrsign":
		aux, msg := rng.Bytes(32), rng.Bytes(rng.Intn(70))
		return fmt.Sprintf("schnorrsign:%x:%x:%x", b32(d), aux, msg), oracle.BIP340Sign(d, aux, msg)
	case "h2c":
		dst, msg := rng.Bytes(gen.Pick(rng, 1, 16, 255, 256, 300)), rng.Bytes(rng.Intn(40))
		P, _, _ := oracle.HashToCurveRO(msg, dst)
		return fmt.Sprintf("h2c:%x:%x", dst, msg), oracle.EncodeUncompressed(P)
	case "parsepub":
		return fmt.Sprintf("parsepub:%x", oracle.SPKIWrite(oracle.EncodeUncompressed(Q))), oracle.EncodeCompressed(Q)
	case "generate":
		return fmt.Sprintf("generate:%x", dig), []byte{1}
	case "decode":
		if rng.Chance(1, 5) {
			// an x that is not on the curve must stay an error
			for {
				x := rng.Below(bigP)
				if oracle.LiftX(x, 0) == nil {
					return fmt.Sprintf("decode:%02x%x", 2+rng.Intn(2), b32(x)), []byte("error")
				}
			}
		}
		return fmt.Sprintf("decode:%x", oracle.EncodeCompressed(Q)), oracle.EncodeUncompressed(Q)
	case "recoverpoint":
		// half of the cases use the second candidate x + n (ids 2, 3), which exists only for x < p - n
		if rng.Bool() {
			xs := specialXBelowPMinusN()
			x := xs[rng.Intn(len(xs))]
			id := 2 + rng.Intn(2)
			if R := oracle.RecoverPoint(x, id); R != nil {
				return fmt.Sprintf("recoverpoint:%x:%02x", b32(x), id), oracle.EncodeUncompressed(R)
			}
			return fmt.Sprintf("recoverpoint:%x:%02x", b32(x), id), []byte("error")
		}
		id := int(Q.Y.Bit(0))
		xs := oracle.Mod(Q.X, n)
		if R := oracle.RecoverPoint(xs, id); R != nil {
			return fmt.Sprintf("recoverpoint:%x:%02x", b32(xs), id), oracle.EncodeUncompressed(R)
		}
		return fmt.Sprintf("recoverpoint:%x:%02x", b32(xs), id), []byte("error")
	case "asn1bytes":
		return fmt.Sprintf("asn1bytes:%x", oracle.EncodeCompressed(Q)), oracle.SPKIWrite(oracle.EncodeUncompressed(Q))
	case "schnorrpub":
		_, P := evenKey(d)
		return fmt.Sprintf("schnorrpub:%x", b32(P.X)), oracle.EncodeUncompressed(P)
	case "gtable":
		return "gtable", gtableDigest()
	}
	panic("unknown cold op " + op)
}

var gtableOnce struct {
	sync.Once
	sum []byte
}

// gtableDigest is the expected output of the "gtable" cold op, from the reference model.
func gtableDigest() []byte {
	gtableOnce.Do(func() {
		tbl := oracleGTable()
		h := sha256.New()
		for pos := 0; pos < 32; pos++ {
			for b := 1; b < 256; b++ {
				e := oracle.EncodeUncompressed(tbl[pos][b-1])
				h.Write(e)
				h.Write(e)
			}
		}
		gtableOnce.sum = h.Sum(nil)
	})
	return gtableOnce.sum
}

// coldEnvs: process environments the cold-start children rotate through - run-time CPU feature
// detection switched off (code that picks an implementation at run time takes its portable
// path), an aggressive and a disabled garbage collector, a tiny memory limit.
var coldEnvs = [][]string{nil, {"GODEBUG=cpu.all=off"}, {"GOGC=1"}, {"VERIF_WRAP_HASHES=1"}, {"GODEBUG=cpu.avx2=off,cpu.bmi2=off,cpu.adx=off,cpu.avx=off"}, {"GOGC=off"}, {"GOMEMLIMIT=16MiB", "GOGC=5"},
	{"GODEBUG=asyncpreemptoff=1"}, nil, {"GODEBUG=asyncpreemptoff=1,cpu.all=off", "VERIF_WRAP_HASHES=1"}}

// opaqueHash hides every optional interface of a hash.Hash (binary marshalling above all): what an
// importing program gets when it registers its own - correct - implementation of a hash.
type opaqueHash struct{ h hash.Hash }

func (o opaqueHash) Write(p []byte) (int, error) { return o.h.Write(p) }
func (o opaqueHash) Sum(b []byte) []byte         { return o.h.Sum(b) }
func (o opaqueHash) Reset()                      { o.h.Reset() }
func (o opaqueHash) Size() int                   { return o.h.Size() }
func (o opaqueHash) BlockSize() int              { return o.h.BlockSize() }

func wrapRegisteredHashes() {
	crypto.RegisterHash(crypto.SHA256, func() hash.Hash { return opaqueHash{sha256.New()} })
	crypto.RegisterHash(crypto.SHA512, func() hash.Hash { return opaqueHash{sha512.New()} })
}

// coldProcs are the scheduler widths (GOMAXPROCS of the child) the cold-start
// children are run under; 0 leaves the environment alone.
var coldProcs = []int{0, 7, 1, 3, 13, 2, 11, 32, 5, 9, 31, 6, 14, 19, 23, 64, 4, 29, 17, 21, 33, 10, 25, 27, 8, 12, 15, 18, 22, 26, 28, 37}

// prehashName: domain separators for PreHashSchnorrMessage - above all names RELATED to the tags
// BIP-340 itself uses (equal to one, one with trailing NUL / space / a further component, a
// prefix of one): whatever the library keeps per tag must keep them apart
func prehashName(rng *gen.Rng) string {
	internal := []string{"BIP0340/challenge", "BIP0340/aux", "BIP0340/nonce"}
	t := internal[rng.Intn(3)]
	switch rng.Intn(12) {
	case 0:
		return t
	case 1:
		return t + "\x00"
	case 2:
		return t + "\x00\x00\x00"
	case 3:
		return t + " "
	case 4:
		return t[:len(t)-1]
	case 5:
		return t + "/x"
	case 6:
		return strings.ToLower(t)
	case 7:
		return string(rng.Bytes(1 + rng.Intn(40))) // mostly not valid UTF-8
	case 8:
		return ""
	case 9:
		return strings.Repeat("t", gen.Pick(rng, 31, 32, 33, 55, 56, 64, 65, 200))
	case 10:
		return "\x00"
	default:
		return fmt.Sprintf("app/%d", rng.Intn(1000))
	}
}

// glvOrValue draws a scalar from the GLV-steered or the generic value classes.
func glvOrValue(rng *gen.Rng) (*big.Int, string) {
	if rng.Bool() {
		return keyValue(rng)
	}
	return rng.Value(bigN)
}

// runColdStart runs n cold-start cases over ops.
func runColdStart(r *mon.Run, id string, n int, ops ...string) {
	exe, err := os.Executable()
	if err != nil {
		r.Note("cold-start monitor skipped: " + err.Error())
		return
	}
	pool := knownPointPool(r.Seed, 4)
	for _, op := range ops {
		r.Require(id + ":cold:" + op)
	}
	r.Each(id+"/cold-start", n, func(w *mon.W, i int) {
		op := ops[i%len(ops)]
		seq := (i/len(ops))%3 == 1 && len(ops) > 1
		if seq && op == "prehash" {
			op = fmt.Sprintf("prehash-related/%d", []int{0, 3, 1, 6, 2, 4, 5, 7, 8}[(i/len(ops)/3)%9])
		}
		spec, want := coldCase(w.Rng, op, pool)
		wantHex := hex.EncodeToString(want)
		if seq {
			// a sequence of two or three different operations (every ordered pair comes up)
			k := 2 + w.Rng.Intn(2)
			specs := []string{strings.Fields(spec)[0]}
			wants := []string{wantHex}
			for j := 1; j < k; j++ {
				op2 := ops[(i+j*(1+(i/len(ops))/3))%len(ops)]
				sp2, w2 := coldCase(w.Rng, op2, pool)
				specs = append(specs, strings.Fields(sp2)[0])
				wants = append(wants, hex.EncodeToString(w2))
				op += "," + op2
			}
			spec, wantHex = "seq|"+strings.Join(specs, "|"), strings.Join(wants, ",")
			w.Class(id + ":cold:sequence")
			op = "sequence(" + op + ")"
		}
		w.Case(true, []byte("cold"), []byte(spec))
		cmd := exec.Command(exe, "-cold", strings.Fields(spec)[0])
		cmd.Env = append(os.Environ(), "GORACE=halt_on_error=0")
		if ev := coldEnvs[i%len(coldEnvs)]; ev != nil {
			cmd.Env = append(cmd.Env, ev...)
			spec += " [" + strings.Join(ev, " ") + "]"
			w.Class(id + ":cold:env-variant")
		}
		if i%5 == 3 {
			// a process that sees ONE cpu (runtime.NumCPU() == 1: a container, a small VM): the
			// scheduler affinity is inherited from a taskset wrapper
			if ts, err := exec.LookPath("taskset"); err == nil {
				cmd.Args = append([]string{ts, "-c", "0", exe}, cmd.Args[1:]...)
				cmd.Path = ts
				spec += " [one cpu]"
				w.Class(id + ":cold:one-cpu")
			}
		}
		if np := coldProcs[(i/len(ops))%len(coldProcs)]; np != 0 {
			cmd.Env = append(cmd.Env, fmt.Sprintf("GOMAXPROCS=%d", np))
			spec += fmt.Sprintf(" [GOMAXPROCS=%d]", np)
			w.Class(fmt.Sprintf("%s:cold:GOMAXPROCS=%d", id, np))
		}
		outb, err := cmd.CombinedOutput()
		got := ""
		for _, l := range strings.Split(string(outb), "\n") {
			if strings.HasPrefix(l, "COLD ") {
				got = strings.TrimSpace(l[5:])
			}
		}
		w.Class(id + ":cold:" + ops[i%len(ops)])
		if i < 2 {
			w.Sample(map[string]any{"monitor": "cold-start", "spec": spec})
		}
		if err != nil || got != wantHex {
			want = []byte(wantHex)
			tail := string(outb)
			if len(tail) > 600 {
				tail = tail[len(tail)-600:]
			}
			w.Fail(id+"/cold-start/"+op, fmt.Sprintf("%s as the FIRST library call of a fresh process returned %q (err %v), expected %s", op, got, err, want), "spec", spec, "child_output_tail", tail)
		}
	})
}

var specialXOnce struct {
	sync.Once
	xs []*big.Int
}

// specialXBelowPMinusN: values x < p - n for which x + n is (and some for which it is not) the
// x-coordinate of a curve point - the inputs for which recovery ids 2 and 3 are meaningful.
func specialXBelowPMinusN() []*big.Int {
	specialXOnce.Do(func() {
		lim := new(big.Int).Sub(bigP, bigN)
		for i := int64(0); len(specialXOnce.xs) < 24 && i < 4000; i++ {
			x := big.NewInt(i)
			if x.Cmp(lim) >= 0 {
				break
			}
			onCurve := oracle.LiftX(new(big.Int).Add(x, bigN), 0) != nil
			if onCurve || i%7 == 0 {
				specialXOnce.xs = append(specialXOnce.xs, x)
			}
		}
	})
	return specialXOnce.xs
}

// coldConcOps: the operations whose FIRST use in a process is made by many goroutines at once.
var coldConcOps = map[string][]string{
	"C03": {"decode", "sm"},
	"C04": {"sm", "msmv", "dsm"},
	"C05": {"sbm", "dsm", "pubkey", "sign", "verify"},
	"C06": {"decode", "recoverpoint", "recoverpoint"},
	"C07": {"verify", "btcverify", "recover"},
	"C08": {"sign", "pubkey"},
	"C10": {"ecdh", "pubkey", "decode"},
	"C11": {"recover", "recoverpoint"},
	"C12": {"asn1bytes", "parsepub"},
	"C13": {"schnorrverify", "schnorrpub", "prehash"},
	"C14": {"schnorrsign"},
	"C15": {"h2c"},
	"C16": {"dsm", "msm", "msmv"},
	"C18": {"sbm", "dsm", "decode", "asn1bytes", "sm", "recoverpoint"},
	"C19": {"sbm", "sm", "msm", "dsm"},
	"C20": {"verify", "recover", "ecdh", "sign", "schnorrverify", "schnorrsign", "h2c", "dsm", "msmv", "parsepub", "decode"},
}

// runConcurrentColdStart: n fresh processes; in each, G goroutines make the process's first
// library calls simultaneously (one operation kind per process, distinct arguments per
// goroutine; every third process mixes the kinds).  Children run one after the other: each
// needs all the cores for itself.
func runConcurrentColdStart(r *mon.Run, id string, n int, ops []string) {
	exe, err := os.Executable()
	if err != nil {
		r.Note("concurrent cold-start monitor skipped: " + err.Error())
		return
	}
	lc := "c" + id[1:]
	pool := knownPointPool(r.Seed, 4)
	r.Require(lc + ":cold-concurrent:processes")
	r.Seq(lc+"/cold-start-concurrent", n, func(w *mon.W, i int) {
		G := []int{16, 32, 8, 64, 24}[i%5]
		K := 8
		var specs []string
		var wants [][]byte
		for k := 0; k < K; k++ {
			op := ops[(i/1)%len(ops)]
			if i%3 == 2 {
				op = ops[(i+k)%len(ops)]
			}
			sp, want := coldCase(w.Rng, op, pool)
			specs = append(specs, strings.Fields(sp)[0])
			wants = append(wants, want)
		}
		spec := fmt.Sprintf("conc|%d|%s", G, strings.Join(specs, "|"))
		w.Case(true, []byte("cold-conc"), []byte(spec))
		cmd := exec.Command(exe, "-cold", spec)
		cmd.Env = append(os.Environ(), "GORACE=halt_on_error=0")
		if np := []int{0, 0, 4, 0, 2, 0, 8, 32}[i%8]; np != 0 {
			cmd.Env = append(cmd.Env, fmt.Sprintf("GOMAXPROCS=%d", np))
		}
		if ev := coldEnvs[(i/2)%len(coldEnvs)]; ev != nil {
			cmd.Env = append(cmd.Env, ev...)
		}
		envKeep := cmd.Env
		outb, err, timedOut := runBounded(cmd, 120*time.Second)
		if timedOut {
			// bounded progress: the same calls take milliseconds alone.  Once more, to rule out a
			// stalled machine; a second time-out is a verdict
			cmd2 := exec.Command(exe, "-cold", spec)
			cmd2.Env = envKeep
			if _, _, again := runBounded(cmd2, 120*time.Second); again {
				w.Fail(lc+"/cold-start-concurrent/no-progress", fmt.Sprintf("%d goroutines making the first library calls of a fresh process did not finish within 120 s, twice (environment %v); each call alone takes milliseconds", G, envKeep[len(os.Environ()):]), "spec", spec)
			} else {
				r.Note("a concurrent cold-start child timed out once and finished when repeated")
			}
			return
		}
		var got []string
		for _, l := range strings.Split(string(outb), "\n") {
			if strings.HasPrefix(l, "COLD ") {
				got = strings.Split(strings.TrimSpace(l[5:]), ",")
			}
		}
		w.Class(lc + ":cold-concurrent:processes")
		w.ClassN(lc+":cold-concurrent:first-calls", int64(G))
		if i < 1 {
			w.Sample(map[string]any{"monitor": "cold-start-concurrent", "spec": spec})
		}
		tail := string(outb)
		if len(tail) > 800 {
			tail = tail[len(tail)-800:]
		}
		if err != nil || len(got) != G {
			w.Fail(lc+"/cold-start-concurrent/crash", fmt.Sprintf("%d goroutines making the first library calls of a fresh process: the process failed (err %v)", G, err), "spec", spec, "child_output_tail", tail)
			return
		}
		for g := 0; g < G; g++ {
			if got[g] != hex.EncodeToString(wants[g%K]) {
				op := strings.SplitN(specs[g%K], ":", 2)[0]
				w.Fail(lc+"/cold-start-concurrent/"+op, fmt.Sprintf("%s as one of %d simultaneous FIRST library calls of a fresh process returned %s, expected %x (goroutine %d)", op, G, got[g], wants[g%K], g),
					"spec", specs[g%K], "all", spec, "child_output_tail", tail)
				return
			}
		}
	})
}

// runBounded runs cmd and kills it after d.
func runBounded(cmd *exec.Cmd, d time.Duration) (out []byte, err error, timedOut bool) {
	var buf bytes.Buffer
	cmd.Stdout, cmd.Stderr = &buf, &buf
	if err = cmd.Start(); err != nil {
		return nil, err, false
	}
	done := make(chan error, 1)
	go func() { done <- cmd.Wait() }()
	select {
	case err = <-done:
		return buf.Bytes(), err, false
	case <-time.After(d):
		_ = cmd.Process.Kill()
		<-done
		return buf.Bytes(), fmt.Errorf("killed after %v", d), true
	}
}
