package props

import (
	"bytes"
	"crypto/sha256"
	"encoding/hex"
	"fmt"
	"math/big"
	"os"
	"os/exec"
	"strings"
	"sync"

	secp256k1 "gitlab.com/yawning/secp256k1-voi"
	"gitlab.com/yawning/secp256k1-voi/secec"
	"gitlab.com/yawning/secp256k1-voi/secec/bitcoin"
	"gitlab.com/yawning/secp256k1-voi/secec/h2c"

	"verifharness/gen"
	"verifharness/mon"
	"verifharness/oracle"
)

// Cold start: one public operation as the FIRST library call of a fresh process.
// State that is initialised on first use (lazily unpacked tables, memoised
// constants, sync.Once-guarded setup reached from only some entry points) is
// invisible to a long-running monitor process, in which some earlier call has
// always warmed it up.  The parent monitor computes the expected result with the
// reference model, the child (`verifrun -cold <spec>`, same binary, same build
// configuration) performs exactly that one call and prints the result.

// ColdMain executes one cold-start spec and prints "COLD <hex>"; called by
// verifrun before anything else touches the library.
func ColdMain(spec string) {
	f := strings.Split(spec, ":")
	arg := func(i int) []byte {
		b, err := hex.DecodeString(f[i])
		if err != nil {
			panic(err)
		}
		return b
	}
	sc := func(i int) *Scalar {
		s, _ := secp256k1.NewScalarFromBytes((*[32]byte)(arg(i)))
		return s
	}
	pt := func(i int) *Point {
		if f[i] == "G" {
			return secp256k1.NewGeneratorPoint()
		}
		p, err := secp256k1.NewPointFromBytes(arg(i))
		if err != nil {
			panic(err)
		}
		return p
	}
	bo := func(b bool) []byte { return []byte{byte(boolU64(b))} }
	var out []byte
	switch f[0] {
	case "dsm":
		out = new(Point).DoubleScalarMultBasepointVartime(sc(1), sc(2), pt(3)).UncompressedBytes()
	case "sbm":
		out = new(Point).ScalarBaseMult(sc(1)).UncompressedBytes()
	case "sm":
		out = new(Point).ScalarMult(sc(1), pt(2)).UncompressedBytes()
	case "msm":
		out = new(Point).MultiScalarMult([]*Scalar{sc(1), sc(3)}, []*Point{pt(2), pt(4)}).UncompressedBytes()
	case "msmv":
		out = new(Point).MultiScalarMultVartime([]*Scalar{sc(1), sc(3)}, []*Point{pt(2), pt(4)}).UncompressedBytes()
	case "pubkey":
		k, err := secec.NewPrivateKey(arg(1))
		if err != nil {
			panic(err)
		}
		out = k.PublicKey().Bytes()
	case "verify":
		k, err := secec.NewPublicKey(arg(1))
		if err != nil {
			panic(err)
		}
		out = bo(k.Verify(arg(2), arg(3), nil))
	case "btcverify":
		k, err := secec.NewPublicKey(arg(1))
		if err != nil {
			panic(err)
		}
		out = bo(bitcoin.VerifyASN1(k, arg(2), arg(3)))
	case "recover":
		k, err := secec.RecoverPublicKey(arg(1), sc(2), sc(3), arg(4)[0])
		if err != nil {
			out = []byte("error")
		} else {
			out = k.Bytes()
		}
	case "schnorrverify":
		k, err := bitcoin.NewSchnorrPublicKey(arg(1))
		if err != nil {
			panic(err)
		}
		out = bo(k.Verify(arg(2), arg(3)))
	case "ecdh":
		k, err := secec.NewPrivateKey(arg(1))
		if err != nil {
			panic(err)
		}
		p, err := secec.NewPublicKey(arg(2))
		if err != nil {
			panic(err)
		}
		out, err = k.ECDH(p)
		if err != nil {
			out = []byte("error")
		}
	case "sign":
		k, err := secec.NewPrivateKey(arg(1))
		if err != nil {
			panic(err)
		}
		out, err = k.Sign(secec.RFC6979SHA256(), arg(2), nil)
		if err != nil {
			out = []byte("error")
		}
	case "schnorrsign":
		k, err := bitcoin.NewSchnorrPrivateKey(arg(1))
		if err != nil {
			panic(err)
		}
		out, err = k.Sign(bytes.NewReader(arg(2)), arg(3), nil)
		if err != nil {
			out = []byte("error")
		}
	case "h2c":
		p, err := h2c.Secp256k1_XMD_SHA256_SSWU_RO(arg(1), arg(2))
		if err != nil {
			out = []byte("error")
		} else {
			out = p.UncompressedBytes()
		}
	case "parsepub":
		k, err := secec.ParseASN1PublicKey(arg(1))
		if err != nil {
			out = []byte("error")
		} else {
			out = k.CompressedBytes()
		}
	case "gtable":
		// every single-byte scalar b*256^pos through both fixed-base entry points
		h := sha256.New()
		zero := secp256k1.NewScalar()
		for pos := 0; pos < 32; pos++ {
			for b := 1; b < 256; b++ {
				var sb [32]byte
				sb[31-pos] = byte(b)
				s, _ := secp256k1.NewScalarFromBytes(&sb)
				p1 := new(Point).ScalarBaseMult(s).UncompressedBytes()
				p2 := new(Point).DoubleScalarMultBasepointVartime(s, zero, secp256k1.NewGeneratorPoint()).UncompressedBytes()
				if !bytes.Equal(p1, p2) {
					fmt.Printf("gtable: pos=%d b=%d: ScalarBaseMult=%x, DoubleScalarMultBasepointVartime(s,0,G)=%x\n", pos, b, p1, p2)
				}
				h.Write(p1)
				h.Write(p2)
			}
		}
		out = h.Sum(nil)
	case "generate":
		k, err := secec.GenerateKey()
		if err != nil {
			panic(err)
		}
		d := arg(1)
		sig, err := k.Sign(nil, d, nil)
		out = bo(err == nil && k.PublicKey().Verify(d, sig, nil))
	default:
		panic("unknown cold op " + f[0])
	}
	fmt.Printf("COLD %x\n", out)
}

// coldCase builds a spec for op and the expected output.
func coldCase(rng *gen.Rng, op string, pool []namedPt) (spec string, want []byte) {
	h := hex.EncodeToString
	n := bigN
	sv := func() *big.Int { v, _ := glvOrValue(rng); return v }
	pv := func() (*oracle.Pt, string) {
		if rng.Chance(1, 3) {
			return oracle.G(), "G"
		}
		P := pool[1+rng.Intn(len(pool)-1)].P
		return P, h(oracle.EncodeCompressed(P))
	}
	d, _ := keyValue(rng)
	Q := oracle.MulG(d)
	dig := rng.Bytes(32)
	switch op {
	case "dsm":
		u1, u2 := sv(), sv()
		P, ps := pv()
		return fmt.Sprintf("dsm:%x:%x:%s", b32(u1), b32(u2), ps), oracle.EncodeUncompressed(oracle.Add(oracle.MulG(u1), oracle.Mul(u2, P)))
	case "sbm":
		s := sv()
		return fmt.Sprintf("sbm:%x", b32(s)), oracle.EncodeUncompressed(oracle.MulG(s))
	case "sm":
		s := sv()
		P, ps := pv()
		return fmt.Sprintf("sm:%x:%s", b32(s), ps), oracle.EncodeUncompressed(oracle.Mul(s, P))
	case "msm", "msmv":
		s1, s2 := sv(), sv()
		P1, p1 := pv()
		P2, p2 := pv()
		return fmt.Sprintf("%s:%x:%s:%x:%s", op, b32(s1), p1, b32(s2), p2), oracle.EncodeUncompressed(oracle.Add(oracle.Mul(s1, P1), oracle.Mul(s2, P2)))
	case "pubkey":
		return fmt.Sprintf("pubkey:%x", b32(d)), oracle.EncodeUncompressed(Q)
	case "verify", "btcverify":
		r0, s0, _, _, _ := oracle.RFC6979Sign(d, dig)
		sig := oracle.DERWriteSig(r0, s0)
		ok := byte(1)
		if rng.Chance(1, 4) {
			dig[rng.Intn(32)] ^= 1
			ok = 0
		}
		if op == "btcverify" {
			sig = append(sig, 0x01)
		}
		return fmt.Sprintf("%s:%x:%x:%x", op, oracle.EncodeCompressed(Q), dig, sig), []byte{ok}
	case "recover":
		r0, s0, v0, _, _ := oracle.RFC6979Sign(d, dig)
		return fmt.Sprintf("recover:%x:%x:%x:%02x", dig, b32(r0), b32(s0), v0), oracle.EncodeUncompressed(Q)
	case "schnorrverify":
		msg := rng.Bytes(rng.Intn(70))
		sig := oracle.BIP340Sign(d, rng.Bytes(32), msg)
		_, P := evenKey(d)
		ok := byte(1)
		if rng.Chance(1, 4) {
			sig[rng.Intn(64)] ^= 4
			ok = 0
			if oracle.BIP340Verify(b32(P.X), msg, sig) {
				ok = 1
			}
		}
		return fmt.Sprintf("schnorrverify:%x:%x:%x", b32(P.X), msg, sig), []byte{ok}
	case "ecdh":
		e, _ := keyValue(rng)
		return fmt.Sprintf("ecdh:%x:%x", b32(d), oracle.EncodeUncompressed(oracle.MulG(e))), b32(oracle.MulG(oracle.MulM(d, e, n)).X)
	case "sign":
		r0, s0, _, _, _ := oracle.RFC6979Sign(d, dig)
		return fmt.Sprintf("sign:%x:%x", b32(d), dig), oracle.DERWriteSig(r0, s0)
	case "schnorrsign":
		aux, msg := rng.Bytes(32), rng.Bytes(rng.Intn(70))
		return fmt.Sprintf("schnorrsign:%x:%x:%x", b32(d), aux, msg), oracle.BIP340Sign(d, aux, msg)
	case "h2c":
		dst, msg := rng.Bytes(gen.Pick(rng, 1, 16, 255, 256, 300)), rng.Bytes(rng.Intn(40))
		P, _, _ := oracle.HashToCurveRO(msg, dst)
		return fmt.Sprintf("h2c:%x:%x", dst, msg), oracle.EncodeUncompressed(P)
	case "parsepub":
		return fmt.Sprintf("parsepub:%x", oracle.SPKIWrite(oracle.EncodeUncompressed(Q))), oracle.EncodeCompressed(Q)
	case "generate":
		return fmt.Sprintf("generate:%x", dig), []byte{1}
	case "gtable":
		return "gtable", gtableDigest()
	}
	panic("unknown cold op " + op)
}

var gtableOnce struct {
	sync.Once
	sum []byte
}

// gtableDigest is the expected output of the "gtable" cold op, from the reference model.
func gtableDigest() []byte {
	gtableOnce.Do(func() {
		tbl := oracleGTable()
		h := sha256.New()
		for pos := 0; pos < 32; pos++ {
			for b := 1; b < 256; b++ {
				e := oracle.EncodeUncompressed(tbl[pos][b-1])
				h.Write(e)
				h.Write(e)
			}
		}
		gtableOnce.sum = h.Sum(nil)
	})
	return gtableOnce.sum
}

// coldProcs are the scheduler widths (GOMAXPROCS of the child) the cold-start
// children are run under; 0 leaves the environment alone.
var coldProcs = []int{0, 7, 1, 3, 13, 2, 11, 32, 5, 9, 31, 6, 14, 19, 23, 64, 4, 29, 17, 21, 33, 10, 25, 27, 8, 12, 15, 18, 22, 26, 28, 37}

// glvOrValue draws a scalar from the GLV-steered or the generic value classes.
func glvOrValue(rng *gen.Rng) (*big.Int, string) {
	if rng.Bool() {
		return keyValue(rng)
	}
	return rng.Value(bigN)
}

// runColdStart runs n cold-start cases over ops.
func runColdStart(r *mon.Run, id string, n int, ops ...string) {
	exe, err := os.Executable()
	if err != nil {
		r.Note("cold-start monitor skipped: " + err.Error())
		return
	}
	pool := knownPointPool(r.Seed, 4)
	for _, op := range ops {
		r.Require(id + ":cold:" + op)
	}
	r.Each(id+"/cold-start", n, func(w *mon.W, i int) {
		op := ops[i%len(ops)]
		spec, want := coldCase(w.Rng, op, pool)
		w.Case(true, []byte("cold"), []byte(spec))
		cmd := exec.Command(exe, "-cold", strings.Fields(spec)[0])
		cmd.Env = append(os.Environ(), "GORACE=halt_on_error=0")
		if np := coldProcs[(i/len(ops))%len(coldProcs)]; np != 0 {
			cmd.Env = append(cmd.Env, fmt.Sprintf("GOMAXPROCS=%d", np))
			spec += fmt.Sprintf(" [GOMAXPROCS=%d]", np)
			w.Class(fmt.Sprintf("%s:cold:GOMAXPROCS=%d", id, np))
		}
		outb, err := cmd.CombinedOutput()
		got := ""
		for _, l := range strings.Split(string(outb), "\n") {
			if strings.HasPrefix(l, "COLD ") {
				got = strings.TrimSpace(l[5:])
			}
		}
		w.Class(id + ":cold:" + op)
		if i < 2 {
			w.Sample(map[string]any{"monitor": "cold-start", "spec": spec})
		}
		if err != nil || got != hex.EncodeToString(want) {
			tail := string(outb)
			if len(tail) > 600 {
				tail = tail[len(tail)-600:]
			}
			w.Fail(id+"/cold-start/"+op, fmt.Sprintf("%s as the FIRST library call of a fresh process returned %q (err %v), expected %x", op, got, err, want), "spec", spec, "child_output_tail", tail)
		}
	})
}
