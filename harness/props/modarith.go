package props

import (
	"bytes"
	"fmt"
	"math/big"
	"strings"

	"verifharness/gen"
	"verifharness/mon"
	"verifharness/oracle"
)

// modElem is the method set shared by field.Element and Scalar.
type modElem[T any] interface {
	*T
	Zero() *T
	One() *T
	Add(a, b *T) *T
	Subtract(a, b *T) *T
	Negate(a *T) *T
	Multiply(a, b *T) *T
	Square(a *T) *T
	Invert(a *T) *T
	Set(a *T) *T
	ConditionalNegate(a *T, ctrl uint64) *T
	ConditionalSelect(a, b *T, ctrl uint64) *T
	Equal(a *T) uint64
	IsZero() uint64
	Bytes() []byte
	SetBytes(src *[32]byte) (*T, uint64)
	SetCanonicalBytes(src *[32]byte) (*T, error)
}

// modAPI adapts one modulus (p with field elements, n with scalars).
type modAPI[T any, PT modElem[T]] struct {
	name   string
	m      *big.Int
	rawGet func(PT) ([4]uint64, bool)
	rawSet func(PT, [4]uint64) bool
	fiat   func(op string, out, a, b *[4]uint64, c uint64) bool
	reduce func(dst, src *[4]uint64) uint64
}

func (api *modAPI[T, PT]) newT() PT { return PT(new(T)) }

// mk builds an element with value v in [0,m): through the canonical
// decoder or (when hooks exist) directly as Montgomery limbs.
func (api *modAPI[T, PT]) mk(r *gen.Rng, v *big.Int) PT {
	e := api.newT()
	if r.Bool() {
		if api.rawSet(e, oracle.Limbs(oracle.ToMont(v, api.m))) {
			return e
		}
	}
	if _, err := e.SetCanonicalBytes(arr32(v)); err != nil {
		panic(fmt.Sprintf("harness: mk(%x) mod %s: %v", v, api.name, err))
	}
	return e
}

// val reads an element: the canonical encoding, cross-checked with the
// raw limbs (must be < m and denote the same value).
func (api *modAPI[T, PT]) val(e PT) (*big.Int, string) {
	b := e.Bytes()
	if len(b) != 32 {
		return nil, fmt.Sprintf("Bytes() returned %d bytes", len(b))
	}
	v := oracle.FromBytes(b)
	if v.Cmp(api.m) >= 0 {
		return v, fmt.Sprintf("Bytes() = %x is not canonical (>= modulus)", b)
	}
	if raw, ok := api.rawGet(e); ok {
		rv := oracle.FromLimbs(raw)
		if rv.Cmp(api.m) >= 0 {
			return v, fmt.Sprintf("raw limb vector %x >= modulus", rv)
		}
		if dm := oracle.FromMont(rv, api.m); dm.Cmp(v) != 0 {
			return v, fmt.Sprintf("raw limbs denote %x but Bytes() = %x", dm, v)
		}
	}
	return v, ""
}

// rawEq reports whether e still has exactly the given encoding.
func (api *modAPI[T, PT]) unchanged(e PT, before []byte) bool { return bytes.Equal(e.Bytes(), before) }

// addClass classifies the unreduced sum.
func addClass(a, b, m *big.Int) string {
	s := new(big.Int).Add(a, b)
	switch {
	case s.Cmp(m) < 0:
		return "add:sum<m"
	case s.Cmp(m) == 0:
		return "add:sum=m"
	case s.Cmp(oracle.Two256) < 0:
		return "add:sum in [m,2^256)"
	default:
		return "add:sum>=2^256"
	}
}

// subClass classifies a-b by borrow and by the limb-wise carry pattern of
// the add-back of m onto the wrapped difference.
func subClass(a, b, m *big.Int) string {
	if a.Cmp(b) >= 0 {
		if a.Cmp(b) == 0 {
			return "sub:a=b"
		}
		return "sub:no-borrow"
	}
	d := new(big.Int).Sub(a, b)
	d.Add(d, oracle.Two256)
	dl, ml := oracle.Limbs(d), oracle.Limbs(m)
	pat := ""
	var carry uint64
	for i := 0; i < 4; i++ {
		s := new(big.Int).SetUint64(dl[i])
		s.Add(s, new(big.Int).SetUint64(ml[i]))
		s.Add(s, new(big.Int).SetUint64(carry))
		if s.BitLen() > 64 {
			carry = 1
			pat += "1"
		} else {
			carry = 0
			pat += "0"
		}
	}
	return "sub:borrow,addback-carries=" + pat
}

// subSteered returns (a,b) with a<b whose wrapped difference has chosen
// limb patterns (so the add-back carry chain takes unusual shapes).
func subSteered(r *gen.Rng, m *big.Int) (a, b *big.Int) {
	ml := oracle.Limbs(m)
	// wrapped difference d = 2^256 - delta ; choose d limb by limb.
	var dl [4]uint64
	for i := 0; i < 4; i++ {
		switch r.Intn(5) {
		case 0:
			dl[i] = 0
		case 1:
			// just below the no-carry threshold 2^64 - m_i
			th := -ml[i] // 2^64 - m_i mod 2^64
			if th > 0 {
				dl[i] = th - 1 - uint64(r.Intn(3))
			}
		case 2:
			dl[i] = -ml[i] // exactly at the threshold (carries iff carry-in or equal)
		case 3:
			dl[i] = ^uint64(0)
		default:
			dl[i] = r.U64()
		}
	}
	d := oracle.FromLimbs(dl)
	delta := new(big.Int).Sub(oracle.Two256, d) // b - a
	if delta.Sign() <= 0 || delta.Cmp(m) >= 0 {
		// fall back to a tiny delta
		delta = big.NewInt(int64(1 + r.Intn(1000)))
	}
	// b in [delta, m-1], a = b - delta
	b = r.Range(delta, new(big.Int).Sub(m, big.NewInt(1)))
	a = new(big.Int).Sub(b, delta)
	return
}

// pairFor draws an operand pair for a binary operation with steering.
func (api *modAPI[T, PT]) pairFor(r *gen.Rng, op string) (a, b *big.Int, steer string) {
	m := api.m
	switch op {
	case "Add":
		switch r.Intn(6) {
		case 0, 1:
			a, b = r.AddWindow(m)
			return a, b, "steered:add-window"
		case 2:
			t := gen.Pick(r, new(big.Int).Sub(m, big.NewInt(1)), m, new(big.Int).Sub(oracle.Two256, big.NewInt(1)), oracle.Two256, new(big.Int).Add(oracle.Two256, big.NewInt(1)))
			max := new(big.Int).Sub(new(big.Int).Lsh(m, 1), big.NewInt(2))
			if t.Cmp(max) > 0 {
				t = max
			}
			a, b = r.AddExact(m, t)
			return a, b, "steered:add-exact"
		}
	case "Subtract":
		if r.Chance(1, 2) {
			a, b = subSteered(r, m)
			return a, b, "steered:sub-limbs"
		}
	case "Multiply":
		if r.Chance(1, 3) {
			am, bm := r.MontMulWindow(m)
			if am != nil {
				// am, bm are Montgomery-domain residues: the values are am/R, bm/R.
				return oracle.FromMont(am, m), oracle.FromMont(bm, m), "steered:mont-window"
			}
		}
	}
	a, ca := r.Value(m)
	b, cb := r.Value(m)
	if ca == "uniform" && cb == "uniform" {
		return a, b, "uniform pair"
	}
	return a, b, "special-class operand"
}

// montClass classifies the pre-subtraction Montgomery product of the
// Montgomery forms of a and b.
func montClass(a, b, m *big.Int) string {
	T := gen.MontT(oracle.ToMont(a, m), oracle.ToMont(b, m), m)
	switch {
	case T.Cmp(m) < 0:
		return "mont:T<m"
	case T.Cmp(oracle.Two256) < 0:
		return "mont:T in [m,2^256)"
	default:
		return "mont:T>=2^256"
	}
}

var aliasBin = []string{"distinct", "rcv=a", "rcv=b", "a=b", "rcv=a=b"}

// runCommon executes the monitors shared by C01 and C02.
func (api *modAPI[T, PT]) runCommon(r *mon.Run, nBin, nUn, nSel, nDec int) {
	m := api.m
	model := map[string]func(a, b *big.Int) *big.Int{
		"Add":      func(a, b *big.Int) *big.Int { return oracle.AddM(a, b, m) },
		"Subtract": func(a, b *big.Int) *big.Int { return oracle.SubM(a, b, m) },
		"Multiply": func(a, b *big.Int) *big.Int { return oracle.MulM(a, b, m) },
	}
	ops := []string{"Add", "Subtract", "Multiply"}
	r.Require(api.name+":add:sum in [m,2^256)", api.name+":add:sum>=2^256", api.name+":add:sum<m", api.name+":add:sum=m",
		api.name+":sub:no-borrow", api.name+":sub:a=b", api.name+":mont:T in [m,2^256)", api.name+":mont:T<m",
		api.name+":sub:nocarry-limb0", api.name+":sub:nocarry-midlimb")
	for _, al := range aliasBin {
		r.Require(api.name + ":alias:" + al)
	}

	r.Each(api.name+"/binop", nBin, func(w *mon.W, i int) {
		rng := w.Rng
		op := ops[i%3]
		alias := aliasBin[(i/3)%5]
		a, b, steer := api.pairFor(rng, op)
		if alias == "a=b" || alias == "rcv=a=b" {
			if rng.Bool() {
				b = a
			} else {
				a = b
			}
			steer += ",same"
		}
		w.Class(api.name + ":" + steer)
		switch op {
		case "Add":
			w.Class(api.name + ":" + addClass(a, b, m))
		case "Subtract":
			c := subClass(a, b, m)
			w.Class(api.name + ":" + c)
			if strings.HasPrefix(c, "sub:borrow") {
				pat := c[len(c)-4:]
				if pat[0] == '0' {
					w.Class(api.name + ":sub:nocarry-limb0")
				}
				if pat[1] == '0' || pat[2] == '0' {
					w.Class(api.name + ":sub:nocarry-midlimb")
				}
			}
		case "Multiply":
			w.Class(api.name + ":" + montClass(a, b, m))
		}
		w.Class(api.name + ":alias:" + alias)
		ea, eb := api.mk(rng, a), api.mk(rng, b)
		var rcv PT
		switch alias {
		case "distinct":
			rcv = api.newT()
			if rng.Bool() { // dirty receiver
				rcv = api.mk(rng, rng.Below(m))
			}
		case "rcv=a":
			rcv = ea
		case "rcv=b":
			rcv = eb
		case "a=b":
			eb = ea
			rcv = api.newT()
		case "rcv=a=b":
			eb = ea
			rcv = ea
		}
		aBefore, bBefore := ea.Bytes(), eb.Bytes()
		var ret PT
		switch op {
		case "Add":
			ret = rcv.Add(ea, eb)
		case "Subtract":
			ret = rcv.Subtract(ea, eb)
		case "Multiply":
			ret = rcv.Multiply(ea, eb)
		}
		want := model[op](a, b)
		got, bad := api.val(rcv)
		key := fmt.Sprintf("%s/%s/%s", api.name, op, alias)
		w.Case(!strings.HasPrefix(steer, "uniform pair") || alias != "distinct", []byte(op), []byte(alias), b32(a), b32(b))
		w.Sample(map[string]any{"op": api.name + "." + op, "a": hb(a), "b": hb(b), "alias": alias, "steer": steer})
		if ret != rcv {
			w.Fail(key+":ret", op+" did not return its receiver", "a", hb(a), "b", hb(b))
		}
		if bad != "" {
			w.Fail(key+":inv", op+": "+bad, "a", hb(a), "b", hb(b), "alias", alias)
			return
		}
		if got.Cmp(want) != 0 {
			w.Fail(key, fmt.Sprintf("%s.%s(%x, %x) = %x, expected %x", api.name, op, a, b, got, want), "a", hb(a), "b", hb(b), "alias", alias, "steer", steer, "got", hb(got), "want", hb(want))
		}
		if rcv != ea && !api.unchanged(ea, aBefore) {
			w.Fail(key+":operand", op+" modified operand a", "a", hb(a), "b", hb(b), "alias", alias)
		}
		if rcv != eb && !api.unchanged(eb, bBefore) {
			w.Fail(key+":operand", op+" modified operand b", "a", hb(a), "b", hb(b), "alias", alias)
		}
	})

	unops := []string{"Negate", "Square", "Invert", "Set", "ConditionalNegate0", "ConditionalNegate1"}
	r.Require(api.name+":un:zero", api.name+":un:m-1", api.name+":un:alias", api.name+":sq:mont-window")
	r.Each(api.name+"/unop", nUn, func(w *mon.W, i int) {
		rng := w.Rng
		op := unops[i%len(unops)]
		aliased := (i/len(unops))%2 == 1
		a, ca := rng.Value(m)
		if op == "Square" && rng.Chance(1, 3) {
			if am := rng.MontSquareWindow(m); am != nil {
				a, ca = oracle.FromMont(am, m), "mont-window-sqrt"
				w.Class(api.name + ":sq:mont-window")
			}
		}
		w.Class(api.name + ":un:" + ca)
		if aliased {
			w.Class(api.name + ":un:alias")
		}
		ea := api.mk(rng, a)
		rcv := api.newT()
		if aliased {
			rcv = ea
		} else if rng.Bool() {
			rcv = api.mk(rng, rng.Below(m))
		}
		before := ea.Bytes()
		var want *big.Int
		ctrl := gen.Pick(rng, gen.CtrlValues[1:]...)
		switch op {
		case "Negate":
			rcv.Negate(ea)
			want = oracle.NegM(a, m)
		case "Square":
			rcv.Square(ea)
			want = oracle.MulM(a, a, m)
		case "Invert":
			rcv.Invert(ea)
			want = oracle.InvM(a, m)
		case "Set":
			rcv.Set(ea)
			want = a
		case "ConditionalNegate0":
			rcv.ConditionalNegate(ea, 0)
			want = a
		case "ConditionalNegate1":
			rcv.ConditionalNegate(ea, ctrl)
			want = oracle.NegM(a, m)
		}
		w.Case(ca != "uniform" || aliased, []byte(op), b32(a), []byte{byte(boolU64(aliased))})
		got, bad := api.val(rcv)
		key := fmt.Sprintf("%s/%s", api.name, op)
		if bad != "" {
			w.Fail(key+":inv", op+": "+bad, "a", hb(a))
			return
		}
		if got.Cmp(want) != 0 {
			w.Fail(key, fmt.Sprintf("%s.%s(%x) = %x, expected %x (ctrl=%#x, aliased=%v)", api.name, op, a, got, want, ctrl, aliased), "a", hb(a), "got", hb(got), "want", hb(want))
		}
		if !aliased && !api.unchanged(ea, before) {
			w.Fail(key+":operand", op+" modified its operand", "a", hb(a))
		}
	})

	r.Require(api.name+":sel:ctrl=0", api.name+":sel:ctrl!=0", api.name+":pred:equal", api.name+":pred:unequal-one-limb", api.name+":pred:half-word-structured-difference")
	r.Each(api.name+"/select+predicates", nSel, func(w *mon.W, i int) {
		rng := w.Rng
		a, _ := rng.Value(m)
		b, _ := rng.Value(m)
		if rng.Chance(1, 3) {
			// differ in exactly one bit of the Montgomery form -> one limb differs
			am := oracle.ToMont(a, m)
			bm := new(big.Int).Set(am)
			bit := rng.Intn(256)
			bm.SetBit(bm, bit, bm.Bit(bit)^1)
			if bm.Cmp(m) < 0 {
				b = oracle.FromMont(bm, m)
				w.Class(api.name + ":pred:unequal-one-limb")
			}
		}
		if rng.Chance(1, 6) {
			// the stored (Montgomery) forms are zero / equal except for ONE limb, which holds
			// a word with related 32-bit halves (halves summing to 2^32, equal halves, ...):
			// what a predicate folded over register pairs must still tell from zero
			var l [4]uint64
			l[rng.Intn(4)] = rng.HalfWord()
			if rng.Bool() {
				l[rng.Intn(4)] |= rng.HalfWord()
			}
			if d := oracle.FromLimbs(l); d.Cmp(m) < 0 {
				if rng.Bool() {
					a, b = oracle.FromMont(d, m), big.NewInt(0)
				} else {
					am := oracle.ToMont(a, m)
					al := oracle.Limbs(am)
					for j := range al {
						al[j] ^= l[j]
					}
					if bm := oracle.FromLimbs(al); bm.Cmp(m) < 0 {
						b = oracle.FromMont(bm, m)
					}
				}
				if rng.Bool() {
					a, b = b, a
				}
				w.Class(api.name + ":pred:half-word-structured-difference")
			}
		}
		if rng.Chance(1, 5) {
			b = a
		}
		ctrl := gen.CtrlValues[i%len(gen.CtrlValues)]
		ea, eb := api.mk(rng, a), api.mk(rng, b)
		alias := i % 4
		rcv := api.newT()
		switch alias {
		case 1:
			rcv = ea
		case 2:
			rcv = eb
		}
		rcv.ConditionalSelect(ea, eb, ctrl)
		want := a
		if ctrl != 0 {
			want = b
			w.Class(api.name + ":sel:ctrl!=0")
		} else {
			w.Class(api.name + ":sel:ctrl=0")
		}
		w.Case(true, []byte("sel"), b32(a), b32(b), []byte(fmt.Sprint(ctrl, alias)))
		got, bad := api.val(rcv)
		if bad != "" {
			w.Fail(api.name+"/ConditionalSelect:inv", bad, "a", hb(a), "b", hb(b))
		} else if got.Cmp(want) != 0 {
			w.Fail(api.name+"/ConditionalSelect", fmt.Sprintf("%s.ConditionalSelect(%x,%x,ctrl=%#x) = %x, expected %x", api.name, a, b, ctrl, got, want), "a", hb(a), "b", hb(b), "ctrl", ctrl)
		}
		// predicates on fresh, unaliased elements
		ea, eb = api.mk(rng, a), api.mk(rng, b)
		eq := a.Cmp(b) == 0
		if eq {
			w.Class(api.name + ":pred:equal")
		}
		if g := ea.Equal(eb); g != boolU64(eq) {
			w.Fail(api.name+"/Equal", fmt.Sprintf("%s.Equal(%x,%x) = %d", api.name, a, b, g), "a", hb(a), "b", hb(b))
		}
		if g := ea.Equal(ea); g != 1 {
			w.Fail(api.name+"/Equal", "Equal(a,a) != 1", "a", hb(a))
		}
		if g := ea.IsZero(); g != boolU64(a.Sign() == 0) {
			w.Fail(api.name+"/IsZero", fmt.Sprintf("%s.IsZero(%x) = %d", api.name, a, g), "a", hb(a))
		}
		if g := eb.IsZero(); g != boolU64(b.Sign() == 0) {
			w.Fail(api.name+"/IsZero", fmt.Sprintf("%s.IsZero(%x) = %d", api.name, b, g), "a", hb(b))
		}
		z, o := api.newT(), api.newT()
		api.rawSet(z, [4]uint64{1, 2, 3, 4}) // dirty first (no-op without hooks)
		z.Zero()
		api.rawSet(o, [4]uint64{1, 2, 3, 4})
		o.One()
		if v, bad := api.val(z); bad != "" || v.Sign() != 0 {
			w.Fail(api.name+"/Zero", "Zero() is not 0: "+bad)
		}
		if v, bad := api.val(o); bad != "" || v.Cmp(big.NewInt(1)) != 0 {
			w.Fail(api.name+"/One", "One() is not 1: "+bad)
		}
	})

	r.Require(api.name+":dec:>=m", api.name+":dec:=m", api.name+":dec:<m")
	r.Each(api.name+"/decode+encode", nDec, func(w *mon.W, i int) {
		rng := w.Rng
		src, cls := rng.Bytes32Any(m)
		v := oracle.FromBytes(src)
		canonical := v.Cmp(m) < 0
		switch {
		case canonical:
			w.Class(api.name + ":dec:<m")
		case v.Cmp(m) == 0:
			w.Class(api.name + ":dec:=m")
			w.Class(api.name + ":dec:>=m")
		default:
			w.Class(api.name + ":dec:>=m")
		}
		w.Case(!canonical || cls != "uniform", []byte("dec"), src)
		var arr [32]byte
		copy(arr[:], src)
		// SetBytes: reduce + flag
		prev := rng.Below(m)
		e := api.mk(rng, prev)
		ret, flag := e.SetBytes(&arr)
		got, bad := api.val(e)
		if ret != e {
			w.Fail(api.name+"/SetBytes:ret", "SetBytes did not return its receiver", "src", src)
		}
		if bad != "" {
			w.Fail(api.name+"/SetBytes:inv", bad, "src", src)
		} else if got.Cmp(oracle.Mod(v, m)) != 0 || flag != boolU64(!canonical) {
			w.Fail(api.name+"/SetBytes", fmt.Sprintf("%s.SetBytes(%x) = (%x, flag %d), expected (%x, flag %d)", api.name, src, got, flag, oracle.Mod(v, m), boolU64(!canonical)), "src", src)
		}
		if !bytes.Equal(arr[:], src) {
			w.Fail(api.name+"/SetBytes:src", "SetBytes modified its source", "src", src)
		}
		// SetCanonicalBytes: error + receiver untouched
		e = api.mk(rng, prev)
		rawBefore, _ := api.rawGet(e)
		ret2, err := e.SetCanonicalBytes(&arr)
		got, bad = api.val(e)
		if canonical {
			if err != nil || ret2 != e || bad != "" || got.Cmp(v) != 0 {
				w.Fail(api.name+"/SetCanonicalBytes", fmt.Sprintf("%s.SetCanonicalBytes(%x): err=%v value=%x %s", api.name, src, err, got, bad), "src", src)
			}
		} else {
			rawAfter, _ := api.rawGet(e)
			if err == nil || ret2 != nil {
				w.Fail(api.name+"/SetCanonicalBytes:accept", fmt.Sprintf("%s.SetCanonicalBytes accepted non-canonical %x", api.name, src), "src", src)
			} else if got.Cmp(prev) != 0 || rawBefore != rawAfter {
				w.Fail(api.name+"/SetCanonicalBytes:rcv", fmt.Sprintf("%s.SetCanonicalBytes(%x) failed but changed the receiver from %x to %x", api.name, src, prev, got), "src", src)
			}
		}
		// encode: Bytes of a value is its canonical encoding
		a, _ := rng.Value(m)
		ea := api.mk(rng, a)
		if enc := ea.Bytes(); !bytes.Equal(enc, b32(a)) {
			w.Fail(api.name+"/Bytes", fmt.Sprintf("%s.Bytes() of %x = %x", api.name, a, enc), "a", hb(a))
		}
		// mutating the returned slice must not affect the element
		enc := ea.Bytes()
		for j := range enc {
			enc[j] += 0xfd
		}
		if enc2 := ea.Bytes(); !bytes.Equal(enc2, b32(a)) {
			w.Fail(api.name+"/Bytes:alias", "mutating the slice returned by Bytes() changed the element", "a", hb(a))
		}
		// raw reduceSaturated hook
		if api.reduce != nil {
			in := oracle.Limbs(v)
			var out [4]uint64
			fl := api.reduce(&out, &in)
			if oracle.FromLimbs(out).Cmp(oracle.Mod(v, m)) != 0 || fl != boolU64(!canonical) {
				w.Fail(api.name+"/reduceSaturated", fmt.Sprintf("reduceSaturated(%x) = (%x,%d)", v, oracle.FromLimbs(out), fl), "src", src)
			}
			in2 := in
			fl = api.reduce(&in2, &in2) // aliased
			if oracle.FromLimbs(in2).Cmp(oracle.Mod(v, m)) != 0 || fl != boolU64(!canonical) {
				w.Fail(api.name+"/reduceSaturated:alias", fmt.Sprintf("aliased reduceSaturated(%x) = (%x,%d)", v, oracle.FromLimbs(in2), fl), "src", src)
			}
		}
	})
}

// runFiat drives the raw fiat entry points with operands placed directly
// in the Montgomery domain (hooks required).
func (api *modAPI[T, PT]) runFiat(r *mon.Run, n int) {
	if api.fiat == nil {
		return
	}
	m := api.m
	fops := []string{"mul", "square", "add", "sub", "opp", "tomont", "frommont", "selectznz", "nonzero"}
	r.Require(api.name+":fiat:mul:mont:T in [m,2^256)", api.name+":fiat:tomont:T in [m,2^256)")
	r.Each(api.name+"/fiat-raw", n, func(w *mon.W, i int) {
		rng := w.Rng
		op := fops[i%len(fops)]
		a, _ := rng.Value(m)
		b, _ := rng.Value(m)
		switch op {
		case "mul":
			if rng.Chance(1, 2) {
				if am, bm := rng.MontMulWindow(m); am != nil {
					a, b = am, bm
				}
			}
		case "add":
			if rng.Chance(1, 2) {
				a, b = rng.AddWindow(m)
			}
		case "sub":
			if rng.Chance(1, 2) {
				a, b = subSteered(rng, m)
			}
		case "tomont":
			if rng.Chance(1, 2) {
				if v := rng.ToMontWindow(m); v != nil {
					a = v
				}
			}
		}
		al, bl := oracle.Limbs(a), oracle.Limbs(b)
		var out [4]uint64
		outp := &out
		aliased := rng.Chance(1, 3)
		if aliased && op != "nonzero" {
			outp = &al
		}
		ac := al
		c := gen.CtrlValues[rng.Intn(len(gen.CtrlValues))]
		if !api.fiat(op, outp, &al, &bl, c) {
			return
		}
		got := oracle.FromLimbs(*outp)
		var want *big.Int
		rinv := oracle.FromMont(big.NewInt(1), m) // R^-1
		switch op {
		case "mul":
			want = oracle.MulM(oracle.MulM(a, b, m), rinv, m)
			w.Class(api.name + ":fiat:mul:" + montClassRaw(a, b, m))
		case "square":
			want = oracle.MulM(oracle.MulM(a, a, m), rinv, m)
		case "add":
			want = oracle.AddM(a, b, m)
			w.Class(api.name + ":fiat:" + addClass(a, b, m))
		case "sub":
			want = oracle.SubM(a, b, m)
			w.Class(api.name + ":fiat:" + subClass(a, b, m))
		case "opp":
			want = oracle.NegM(a, m)
		case "tomont":
			want = oracle.ToMont(a, m)
			w.Class(api.name + ":fiat:tomont:" + montClassRaw(a, oracle.MulM(oracle.Two256, oracle.Two256, m), m)[5:])
		case "frommont":
			want = oracle.FromMont(a, m)
		case "selectznz":
			want = a
			if c != 0 {
				want = b
			}
		case "nonzero":
			if (out[0] != 0) != (a.Sign() != 0) {
				w.Fail(api.name+"/fiat/nonzero", fmt.Sprintf("fiat Nonzero(%x) = %#x", a, out[0]), "a", hb(a))
			}
			w.Case(true, []byte(op), b32(a))
			return
		}
		w.Case(true, []byte(op), b32(a), b32(b), []byte(fmt.Sprint(c, aliased)))
		if got.Cmp(want) != 0 {
			w.Fail(api.name+"/fiat/"+op, fmt.Sprintf("fiat %s.%s(%x, %x, c=%#x) = %x, expected %x", api.name, op, a, b, c, got, want), "a", hb(a), "b", hb(b), "aliased", aliased)
		}
		if !aliased && al != ac {
			w.Fail(api.name+"/fiat/"+op+":operand", "fiat routine modified its operand", "a", hb(a))
		}
	})
}

func montClassRaw(am, bm, m *big.Int) string {
	T := gen.MontT(am, bm, m)
	switch {
	case T.Cmp(m) < 0:
		return "mont:T<m"
	case T.Cmp(oracle.Two256) < 0:
		return "mont:T in [m,2^256)"
	default:
		return "mont:T>=2^256"
	}
}

// runHistories: sequences of operations over a small register file with every
// receiver/operand aliasing, each step compared with the integer model.  The
// per-call monitors above use fresh operands for every call; a memo, a cache of the
// last result, a reused scratch or a stale per-object flag only shows when the
// OUTPUT of one call (possibly computed in place) is the INPUT of the next.
// Single goroutine, so process-level state is not disturbed by other workers.
func (api *modAPI[T, PT]) runHistories(r *mon.Run, n int) {
	m := api.m
	r.Require(api.name+":hist:steps", api.name+":hist:in-place-then-reuse")
	r.Seq(api.name+"/histories", n, func(w *mon.W, i int) {
		rng := w.Rng
		const regs = 4
		var lib [regs]PT
		var val [regs]*big.Int
		for j := range lib {
			v, _ := rng.Value(m)
			lib[j], val[j] = api.mk(rng, v), v
		}
		w.Case(true, []byte("hist"), []byte(fmt.Sprint(i)))
		lastInPlace := -1
		for s := 0; s < 48; s++ {
			d, a, b := rng.Intn(regs), rng.Intn(regs), rng.Intn(regs)
			if rng.Chance(1, 3) {
				d = a // in place
			}
			if lastInPlace >= 0 && rng.Chance(1, 2) {
				a = lastInPlace // the value just computed in place is the next operand
				w.Class(api.name + ":hist:in-place-then-reuse")
			}
			var want *big.Int
			op := ""
			switch rng.Intn(10) {
			case 0:
				op, want = "Add", oracle.AddM(val[a], val[b], m)
				lib[d].Add(lib[a], lib[b])
			case 1:
				op, want = "Subtract", oracle.SubM(val[a], val[b], m)
				lib[d].Subtract(lib[a], lib[b])
			case 2:
				op, want = "Multiply", oracle.MulM(val[a], val[b], m)
				lib[d].Multiply(lib[a], lib[b])
			case 3:
				op, want = "Square", oracle.MulM(val[a], val[a], m)
				lib[d].Square(lib[a])
			case 4:
				op, want = "Negate", oracle.NegM(val[a], m)
				lib[d].Negate(lib[a])
			case 5, 6:
				op, want = "Invert", oracle.InvM(val[a], m)
				lib[d].Invert(lib[a])
			case 7:
				ctrl := gen.Pick(rng, gen.CtrlValues...)
				op, want = "ConditionalSelect", val[a]
				if ctrl != 0 {
					want = val[b]
				}
				lib[d].ConditionalSelect(lib[a], lib[b], ctrl)
			case 8:
				ctrl := gen.Pick(rng, gen.CtrlValues...)
				op, want = "ConditionalNegate", val[a]
				if ctrl != 0 {
					want = oracle.NegM(val[a], m)
				}
				lib[d].ConditionalNegate(lib[a], ctrl)
			default:
				v, _ := rng.Value(m)
				op, want = "fresh", v
				lib[d] = api.mk(rng, v)
			}
			lastInPlace = -1
			if d == a && op != "fresh" {
				lastInPlace = d
			}
			val[d] = want
			w.Class(api.name + ":hist:steps")
			got, bad := api.val(lib[d])
			if bad != "" || got.Cmp(want) != 0 {
				w.Fail(api.name+"/history/"+op, fmt.Sprintf("step %d: r%d = %s(r%d, r%d) gave %x %s, expected %x", s, d, op, a, b, got, bad, want))
				return
			}
			// the predicates on the value just written
			o := rng.Intn(regs)
			if g := lib[d].Equal(lib[o]); g != boolU64(val[d].Cmp(val[o]) == 0) {
				w.Fail(api.name+"/history/Equal", fmt.Sprintf("step %d: Equal(r%d, r%d) = %d for %x vs %x", s, d, o, g, val[d], val[o]))
				return
			}
			if g := lib[d].IsZero(); g != boolU64(want.Sign() == 0) {
				w.Fail(api.name+"/history/IsZero", fmt.Sprintf("step %d: IsZero(r%d) = %d for %x", s, d, g, want))
				return
			}
		}
	})
}
