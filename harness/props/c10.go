package props

import (
	"bytes"
	"fmt"
	"math/big"

	secp256k1 "gitlab.com/yawning/secp256k1-voi"
	"gitlab.com/yawning/secp256k1-voi/secec"
	"gitlab.com/yawning/secp256k1-voi/secec/bitcoin"

	"verifharness/gen"
	"verifharness/mon"
	"verifharness/oracle"
)

func init() { Register("C10", runC10) }

// offCurvePoint returns (x,y) < p satisfying y^2 = x^3 + b' for some b' != 7
// (a point on another curve of the family), or on the quadratic twist.
func offCurvePoint(r *gen.Rng) (x, y *big.Int, class string) {
	for {
		x = r.Below(bigP)
		if r.Bool() {
			// y^2 = x^3 + b' with small b' != 7
			bp := big.NewInt(int64(r.Intn(20)))
			if bp.Int64() == 7 {
				bp.SetInt64(2)
			}
			rhs := oracle.AddM(oracle.MulM(oracle.MulM(x, x, bigP), x, bigP), bp, bigP)
			if y = oracle.SqrtP(rhs); y != nil {
				return x, y, "other-curve-b'"
			}
		} else {
			// twist: x^3+7 is a non-residue; pick any y
			if !oracle.IsSquareP(oracle.Secp.RHS(x)) {
				return x, r.Below(bigP), "twist-x"
			}
		}
	}
}

func runC10(r *mon.Run) {
	n := bigN
	for _, c := range []string{"c10:ecdh", "c10:ecdh:peer-special-coordinate", "c10:pub:valid-uncompressed", "c10:pub:valid-compressed", "c10:pub:identity", "c10:pub:other-curve-b'", "c10:pub:twist-x",
		"c10:pub:hybrid", "c10:pub:wrong-length", "c10:pub:x>=p", "c10:priv:0", "c10:priv:n", "c10:priv:n+1", "c10:priv:2^256-1", "c10:priv:wrong-length", "c10:priv:valid",
		"c10:frompoint:identity", "c10:frompoint:rep-nontrivial", "c10:key-y-odd", "c10:key-y-even"} {
		r.Require(c)
	}
	specials := specialPoints()

	// --- ECDH symmetric and exact ---------------------------------------------------------
	r.Require("c10:consistency:odd-y-key", "c10:consistency:even-y-key")
	r.Each("c10/ecdh", r.N(1500, 60000), func(w *mon.W, i int) {
		rng := w.Rng
		a, ca := keyValue(rng)
		b, cb := keyValue(rng)
		A, B := oracle.MulG(a), oracle.MulG(b)
		ka, kb := mustPriv(a), mustPriv(b)
		want := b32(oracle.MulG(oracle.MulM(a, b, n)).X)
		w.Class("c10:ecdh")
		w.Case(true, []byte("ecdh"), b32(a), b32(b))
		if i < 2 {
			w.Sample(map[string]any{"op": "ECDH(a,B) / ECDH(b,A)", "a": hb(a), "b": hb(b), "classes": ca + "," + cb})
		}
		// peers built through different constructors / encodings
		var pubB *secec.PublicKey
		var err error
		switch i % 4 {
		case 0:
			pubB = kb.PublicKey()
		case 1:
			pubB, err = secec.NewPublicKey(oracle.EncodeCompressed(B))
		case 2:
			pubB, err = secec.ParseASN1PublicKey(oracle.SPKIWrite(oracle.EncodeUncompressed(B)))
		default:
			z, _ := repZ(rng)
			pubB, err = secec.NewPublicKeyFromPoint(pointRep(B, z))
		}
		if err != nil {
			w.Fail("c10/ecdh:peer", fmt.Sprintf("valid peer key rejected: %v", err), "b", hb(b))
			return
		}
		s1, e1 := ka.ECDH(pubB)
		s2, e2 := kb.ECDH(mustPub(A))
		if e1 != nil || e2 != nil {
			w.Fail("c10/ecdh:err", fmt.Sprintf("ECDH failed for valid keys: %v %v", e1, e2), "a", hb(a), "b", hb(b))
			return
		}
		if !bytes.Equal(s1, s2) || !bytes.Equal(s1, want) {
			w.Fail("c10/ecdh", fmt.Sprintf("ECDH(a,B) = %x, ECDH(b,A) = %x, expected x((ab)G) = %x", s1, s2, want), "a", hb(a), "b", hb(b), "classes", ca+","+cb)
		}
		if !bytes.Equal(ka.Bytes(), b32(a)) || !bytes.Equal(pubB.Bytes(), oracle.EncodeUncompressed(B)) {
			w.Fail("c10/ecdh:operand", "ECDH modified a key", "a", hb(a), "b", hb(b))
		}
		// A key's encodings always equal the encodings of the point it holds - also after
		// the key object has been used the way other parts of the API use it (Schnorr key
		// derivation reads Point(); callers mutate what they are handed).
		{
			hp := pubB.Point()
			hp.Negate(hp)
			hp.Add(hp, hp)
			_ = bitcoin.NewSchnorrPublicKeyFromECDSA(pubB)
			_ = bitcoin.NewSchnorrPrivateKeyFromECDSA(kb)
			_ = bitcoin.NewSchnorrPrivateKeyFromECDSA(ka)
			hs := kb.Scalar()
			hs.Add(hs, hs)
			for _, kk := range []struct {
				name string
				pk   *secec.PublicKey
				pt   *oracle.Pt
			}{{"peer key", pubB, B}, {"PublicKey() of the private key b", kb.PublicKey(), B}, {"PublicKey() of the private key a", ka.PublicKey(), A}} {
				if msg := expectPoint(kk.pk.Point(), kk.pt); msg != "" || !bytes.Equal(kk.pk.Bytes(), oracle.EncodeUncompressed(kk.pt)) || !bytes.Equal(kk.pk.CompressedBytes(), oracle.EncodeCompressed(kk.pt)) {
					w.Fail("c10/key-consistency", fmt.Sprintf("%s: after Schnorr key derivation from it and caller mutation of handed-out values, Point() [%s] / Bytes() %x / CompressedBytes() %x no longer all denote the key's point %v", kk.name, msg, kk.pk.Bytes(), kk.pk.CompressedBytes(), kk.pt), "a", hb(a), "b", hb(b))
				}
			}
			if !bytes.Equal(kb.Scalar().Bytes(), b32(b)) || !bytes.Equal(kb.Bytes(), b32(b)) {
				w.Fail("c10/key-consistency:private", "the private key no longer holds its scalar after the caller mutated a handed-out Scalar()", "b", hb(b))
			}
			if s4, e4 := ka.ECDH(pubB); e4 != nil || !bytes.Equal(s4, want) {
				w.Fail("c10/ecdh:after-use", fmt.Sprintf("ECDH(a,B) = %x err=%v after the keys were used for Schnorr derivation, expected %x", s4, e4, want), "a", hb(a), "b", hb(b))
			}
			if B.Y.Bit(0) == 1 {
				w.Class("c10:consistency:odd-y-key")
			} else {
				w.Class("c10:consistency:even-y-key")
			}
		}
		// peer with unknown discrete log and unusual coordinates
		if i%5 == 0 {
			sp := specials[rng.Intn(len(specials))]
			s3, e3 := ka.ECDH(mustPub(sp.P))
			w.Class("c10:ecdh:peer-special-coordinate")
			if e3 != nil || !bytes.Equal(s3, b32(oracle.Mul(a, sp.P).X)) {
				w.Fail("c10/ecdh:special", fmt.Sprintf("ECDH(a, %s) = %x err=%v", sp.Name, s3, e3), "a", hb(a), "peer", sp.P)
			}
		}
	})

	// the same with a degenerate (never failing) process-wide system entropy stream
	runDegradedEntropy(r, "c10", r.N(60, 1500), "ecdh", "pubkey", "sm")

	// --- public-key constructors -------------------------------------------------------------
	pool := knownPointPool(r.Seed, 8)
	r.Each("c10/public-ctors", r.N(20000, 800000), func(w *mon.W, i int) {
		rng := w.Rng
		var src []byte
		var cl string
		switch i % 8 {
		case 0:
			x, y, c := offCurvePoint(rng)
			src, cl = append(append([]byte{4}, b32(x)...), b32(y)...), c
			if rng.Bool() && c == "twist-x" {
				src = append([]byte{byte(2 + rng.Intn(2))}, b32(x)...)
			}
		case 1:
			src, cl = []byte{0}, "identity"
			if rng.Bool() {
				src = make([]byte, gen.Pick(rng, 33, 65))
			}
		default:
			src, cl = sec1String(rng, pool)
			switch {
			case cl == "hybrid", cl == "valid-identity":
				if cl == "valid-identity" {
					cl = "identity"
				}
			case len(src) != 33 && len(src) != 65:
				cl = "wrong-length"
			}
		}
		p, derr := oracle.DecodePoint(src)
		ok := derr == nil && !p.Inf
		if ok {
			if len(src) == 33 {
				cl = "valid-compressed"
			} else {
				cl = "valid-uncompressed"
			}
		}
		w.Class("c10:pub:" + cl)
		w.Case(ok || len(src) == 33 || len(src) == 65 || len(src) == 1, []byte("pub"), src)
		check := func(name string, k *secec.PublicKey, err error) {
			if (err == nil) != ok || (err != nil && k != nil) {
				w.Fail("c10/"+name+"/"+cl, fmt.Sprintf("%s(%x): err=%v, expected accept=%v", name, src, err, ok), "src", src, "class", cl)
				return
			}
			if !ok {
				return
			}
			if p.Y.Bit(0) == 1 {
				w.Class("c10:key-y-odd")
			} else {
				w.Class("c10:key-y-even")
			}
			checkPublicKey(w, name, k, p)
		}
		in1 := append([]byte{}, src...)
		k1, e1 := secec.NewPublicKey(in1)
		check("NewPublicKey", k1, e1)
		// through SubjectPublicKeyInfo (the envelope itself is C12's business)
		in2 := oracle.SPKIWrite(src)
		k2, e2 := secec.ParseASN1PublicKey(in2)
		check("ParseASN1PublicKey", k2, e2)
		// the caller reuses / scrubs its input buffers afterwards: the keys are unaffected
		for j := range in1 {
			in1[j] += 0xa5
		}
		for j := range in2 {
			in2[j] = 0
		}
		if e1 == nil && k1 != nil {
			check("NewPublicKey (after the caller overwrote the input buffer)", k1, e1)
		}
		if e2 == nil && k2 != nil {
			check("ParseASN1PublicKey (after the caller overwrote the input buffer)", k2, e2)
		}
	})

	r.Require("c10:frompoint:after-failed-decodes", "c10:frompoint:source-destroyed-afterwards")
	r.Each("c10/from-point", r.N(3000, 100000), func(w *mon.W, i int) {
		rng := w.Rng
		P := pool[rng.Intn(len(pool))]
		if i%4 == 0 {
			P = pool[0]
		}
		z, cz := repZ(rng)
		if cz != "Z=1" {
			w.Class("c10:frompoint:rep-nontrivial")
		}
		lp := pointRep(P.P, z)
		if i%3 == 1 {
			// the point has a history: it was the receiver of decodes that FAILED (twist x,
			// off-curve y, non-canonical coordinate, bad prefix) - it must still be P
			w.Class("c10:frompoint:after-failed-decodes")
			tx := b32(nonResidueX(rng.Below(bigP)))
			gx := b32(oracle.G().X)
			for _, bad := range [][]byte{
				append([]byte{2}, tx...), append([]byte{3}, tx...),
				append(append([]byte{4}, gx...), b32(big.NewInt(12345))...),
				append(append([]byte{4}, gx...), b32(new(big.Int).Sub(oracle.Two256, big.NewInt(1)))...),
				append([]byte{5}, gx...), {0, 0}, {},
			} {
				if q, err := lp.SetBytes(bad); err == nil || q != nil {
					w.Fail("c10/SetBytes:bad", fmt.Sprintf("SetBytes(%x) on a key-bound point: err=%v", bad, err))
				}
			}
			if _, err := lp.SetCompressedBytes(append([]byte{2}, tx...)); err == nil {
				w.Fail("c10/SetCompressedBytes:bad", "a twist x-coordinate was accepted")
			}
		}
		before := snapPoint(lp)
		k, err := secec.NewPublicKeyFromPoint(lp)
		w.Case(true, []byte("frompoint"), []byte(P.Name), b32(z))
		if P.P.Inf {
			w.Class("c10:frompoint:identity")
			if err == nil || k != nil {
				w.Fail("c10/NewPublicKeyFromPoint:identity", "the identity was accepted as a public key", "z", hb(z))
			}
		} else if err != nil {
			w.Fail("c10/NewPublicKeyFromPoint", fmt.Sprintf("valid point %s[%s] rejected: %v", P.Name, cz, err))
		} else {
			checkPublicKey(w, "NewPublicKeyFromPoint", k, P.P)
		}
		if !snapPoint(lp).equal(before) {
			w.Fail("c10/NewPublicKeyFromPoint:operand", "the constructor modified its argument")
		}
		if k != nil && err == nil && !P.P.Inf {
			// the caller goes on using ITS point (accumulator patterns: acc.Add(acc, G) per key)
			wreckPoint(lp, i)
			w.Class("c10:frompoint:source-destroyed-afterwards")
			checkPublicKey(w, "NewPublicKeyFromPoint (after the caller changed the point it had passed)", k, P.P)
		}
		if p, _ := mon.Panics(func() { _, _ = secec.NewPublicKeyFromPoint(new(Point)) }); !p && i%50 == 0 {
			w.Fail("c10/NewPublicKeyFromPoint:uninitialised", "an uninitialised Point was accepted without a panic")
		}
	})

	// --- private-key constructors ----------------------------------------------------------------
	r.Each("c10/private-ctors", r.N(6000, 300000), func(w *mon.W, i int) {
		rng := w.Rng
		var src []byte
		var cl string
		switch i % 10 {
		case 0:
			src, cl = make([]byte, 32), "0"
		case 1:
			src, cl = b32(n), "n"
		case 2:
			src, cl = b32(new(big.Int).Add(n, big.NewInt(1))), "n+1"
		case 3:
			src, cl = bytes.Repeat([]byte{0xff}, 32), "2^256-1"
		case 4:
			l := rng.Intn(41)
			if l == 32 {
				l = 33
			}
			src, cl = rng.Bytes(l), "wrong-length"
			if rng.Bool() && l > 0 {
				// a valid key padded / truncated
				d, _ := keyValue(rng)
				if l > 32 {
					src = append(make([]byte, l-32), b32(d)...)
				} else {
					src = b32(d)[32-l:]
				}
			}
		case 5:
			src, cl = b32(new(big.Int).Add(n, rng.Below(new(big.Int).Sub(oracle.Two256, n)))), ">=n"
			if rng.Bool() {
				src, cl = b32(rng.WordStructured(n)), "word-structured-around-n"
			}
		default:
			d, _ := keyValue(rng)
			src, cl = b32(d), "valid"
		}
		v := oracle.FromBytes(src)
		ok := len(src) == 32 && v.Sign() > 0 && v.Cmp(n) < 0
		w.Class("c10:priv:" + cl)
		w.Case(true, []byte("priv"), src)
		keep := append([]byte{}, src...)
		k, err := secec.NewPrivateKey(src)
		if (err == nil) != ok || (err != nil && k != nil) {
			w.Fail("c10/NewPrivateKey/"+cl, fmt.Sprintf("NewPrivateKey(%x): err=%v, expected accept=%v", src, err, ok), "src", src)
		} else if ok {
			checkPrivateKey(w, "NewPrivateKey", k, v)
		}
		if !bytes.Equal(src, keep) {
			w.Fail("c10/NewPrivateKey:src", "NewPrivateKey modified its input")
		}
		if len(src) == 32 {
			s, _ := secp256k1.NewScalarFromBytes((*[32]byte)(src))
			sv := bigFromScalar(s)
			k2, err2 := secec.NewPrivateKeyFromScalar(s)
			if (err2 == nil) != (sv.Sign() != 0) || (err2 != nil && k2 != nil) {
				w.Fail("c10/NewPrivateKeyFromScalar", fmt.Sprintf("NewPrivateKeyFromScalar(%x): err=%v", sv, err2), "s", hb(sv))
			} else if err2 == nil {
				checkPrivateKey(w, "NewPrivateKeyFromScalar", k2, sv)
			}
			if bigFromScalar(s).Cmp(sv) != 0 {
				w.Fail("c10/NewPrivateKeyFromScalar:operand", "the constructor modified its scalar")
			}
			if err2 == nil && k2 != nil {
				// the caller wipes / goes on using ITS scalar and buffer
				wreckScalar(s, i)
				scribble(src)
				checkPrivateKey(w, "NewPrivateKeyFromScalar (after the caller changed the scalar it had passed)", k2, sv)
				if ok && k != nil {
					checkPrivateKey(w, "NewPrivateKey (after the caller overwrote the buffer it had passed)", k, v)
				}
				copy(src, keep)
			}
		}
	})

	r.Each("c10/generate", r.N(40, 400), func(w *mon.W, i int) {
		k, err := secec.GenerateKey()
		if err != nil {
			w.Fail("c10/GenerateKey", err.Error())
			return
		}
		w.Case(true, k.Bytes())
		d := oracle.FromBytes(k.Bytes())
		if d.Sign() == 0 || d.Cmp(n) >= 0 {
			w.Fail("c10/GenerateKey:range", fmt.Sprintf("GenerateKey produced %x outside [1,n)", d))
			return
		}
		checkPrivateKey(w, "GenerateKey", k, d)
	})
}

// checkPublicKey asserts that every accessor of k agrees with the
// oracle's encodings of the abstract point p.
func checkPublicKey(w *mon.W, ctor string, k *secec.PublicKey, p *oracle.Pt) {
	unc, cmp := oracle.EncodeUncompressed(p), oracle.EncodeCompressed(p)
	if g := k.Bytes(); !bytes.Equal(g, unc) {
		w.Fail("c10/"+ctor+":Bytes", fmt.Sprintf("%s: Bytes() = %x, expected %x", ctor, g, unc))
	}
	if g := k.CompressedBytes(); !bytes.Equal(g, cmp) {
		w.Fail("c10/"+ctor+":CompressedBytes", fmt.Sprintf("%s: CompressedBytes() = %x, expected %x", ctor, g, cmp))
	}
	if g := k.ASN1Bytes(); !bytes.Equal(g, oracle.SPKIWrite(unc)) {
		w.Fail("c10/"+ctor+":ASN1Bytes", fmt.Sprintf("%s: ASN1Bytes() = %x, expected %x", ctor, g, oracle.SPKIWrite(unc)))
	}
	if msg := expectPoint(k.Point(), p); msg != "" {
		w.Fail("c10/"+ctor+":Point", ctor+": Point(): "+msg)
	}
	other, err := secec.NewPublicKey(cmp)
	if err != nil || !k.Equal(other) || !other.Equal(k) {
		w.Fail("c10/"+ctor+":Equal", ctor+": key is not Equal to the same key imported from its compressed form")
	}
	if k.Equal(k.Bytes()) {
		w.Fail("c10/"+ctor+":Equal", "Equal accepted a non-key argument")
	}
}

func checkPrivateKey(w *mon.W, ctor string, k *secec.PrivateKey, d *big.Int) {
	if g := k.Bytes(); !bytes.Equal(g, b32(d)) {
		w.Fail("c10/"+ctor+":Bytes", fmt.Sprintf("%s: private Bytes() = %x, expected %x", ctor, g, b32(d)))
	}
	if g := bigFromScalar(k.Scalar()); g.Cmp(d) != 0 {
		w.Fail("c10/"+ctor+":Scalar", fmt.Sprintf("%s: Scalar() = %x", ctor, g))
	}
	Q := oracle.MulG(d)
	checkPublicKey(w, ctor+".PublicKey", k.PublicKey(), Q)
	if pk, ok := k.Public().(*secec.PublicKey); !ok || !pk.Equal(k.PublicKey()) {
		w.Fail("c10/"+ctor+":Public", "Public() does not return the public key")
	}
	if k2, err := secec.NewPrivateKey(b32(d)); err != nil || !k.Equal(k2) {
		w.Fail("c10/"+ctor+":Equal", "private key is not Equal to a re-import of its own bytes")
	}
}
