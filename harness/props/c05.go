package props

import (
	"bytes"
	"fmt"
	"math/big"

	secp256k1 "gitlab.com/yawning/secp256k1-voi"
	"gitlab.com/yawning/secp256k1-voi/secec"
	"gitlab.com/yawning/secp256k1-voi/secec/bitcoin"

	"verifharness/gen"
	"verifharness/hk"
	"verifharness/mon"
	"verifharness/oracle"
)

func init() { Register("C05", runC05) }

// oracleGTable builds T[i][j] = (j+1) * 256^i * G with affine additions
// from G alone.
func oracleGTable() [32][255]*oracle.Pt {
	var t [32][255]*oracle.Pt
	base := oracle.G()
	for i := 0; i < 32; i++ {
		acc := base.Clone()
		t[i][0] = acc
		for j := 1; j < 255; j++ {
			acc = oracle.Add(acc, base)
			t[i][j] = acc
		}
		for d := 0; d < 8; d++ {
			base = oracle.Dbl(base)
		}
	}
	return t
}

func runC05(r *mon.Run) {
	n := bigN
	if hk.HaveMul {
		tbl := oracleGTable()
		r.Require("c05:table:large-entry", "c05:table:odd-entry")
		// the tables are read through expose-only hooks: both fixed-base entry points are used
		// once before, so that a tree which builds its tables on first use has built them
		{
			one := secp256k1.NewScalarFromUint64(1)
			_ = new(Point).DoubleScalarMultBasepointVartime(one, one, secp256k1.NewGeneratorPoint())
			_ = new(Point).ScalarBaseMult(one)
		}
		// exhaustive over all 32x255 + 32x15 entries
		r.Each("c05/tables", 32, func(w *mon.W, i int) {
			check := func(name string, j int, x, y [4]uint64, want *oracle.Pt) {
				xm, ym := oracle.FromLimbs(x), oracle.FromLimbs(y)
				w.Case(true, []byte(name), []byte{byte(i), byte(j)})
				if xm.Cmp(bigP) >= 0 || ym.Cmp(bigP) >= 0 {
					w.Fail(fmt.Sprintf("c05/%s[%d][%d]:canon", name, i, j), "table entry has a raw limb vector >= p")
					return
				}
				got := &oracle.Pt{X: oracle.FromMont(xm, bigP), Y: oracle.FromMont(ym, bigP)}
				if !got.Eq(want) {
					w.Fail(fmt.Sprintf("c05/%s[%d][%d]", name, i, j), fmt.Sprintf("%s table %d entry %d = %v, expected %v", name, i, j, got, want))
				}
			}
			for j := 0; j < 255; j++ {
				x, y := hk.GeneratorTableEntry(i, j)
				check("large", j, x, y, tbl[i][j])
				w.Class("c05:table:large-entry")
			}
			for j := 0; j < 15; j++ {
				x, y := hk.GeneratorOddTableEntry(i, j)
				check("odd", j, x, y, tbl[i][16*(j+1)-1]) // (j+1)*16*256^i*G
				w.Class("c05:table:odd-entry")
			}
			if i == 0 {
				w.Sample(map[string]any{"op": "table entry", "table": 0, "entry": 0, "expect": tbl[0][0].String()})
				if !hk.GeneratorTableBytesReleased() {
					// informational only: not part of the property
					w.Class("c05:table:blob-retained")
				}
			}
		})
		r.Extra("table_entries_checked", 32*255+32*15)
		r.Extra("tables_exhaustive", true)
	} else {
		r.Note("hook group verif_mul unavailable: table entries are only observed through the multiplication entry points")
	}

	// --- fixed-base multiplication ---------------------------------------------------
	type sc struct {
		v  *big.Int
		cl string
	}
	var list []sc
	// all 32 byte positions x all 256 byte values
	for pos := 0; pos < 32; pos++ {
		for b := 0; b < 256; b++ {
			list = append(list, sc{new(big.Int).Lsh(big.NewInt(int64(b)), uint(8*pos)), "single-byte"})
		}
	}
	// all 64 nibble positions x 16 values is a subset of the above; add
	// dense scalars with one zero byte / zero nibble in each position
	ones := new(big.Int).Sub(oracle.Two256, big.NewInt(1))
	for pos := 0; pos < 32; pos++ {
		v := new(big.Int).AndNot(ones, new(big.Int).Lsh(big.NewInt(0xff), uint(8*pos)))
		list = append(list, sc{oracle.Mod(v, n), "zero-byte"})
	}
	for pos := 0; pos < 64; pos++ {
		v := new(big.Int).AndNot(ones, new(big.Int).Lsh(big.NewInt(0xf), uint(4*pos)))
		list = append(list, sc{oracle.Mod(v, n), "zero-nibble"})
		// and a random dense scalar with that nibble cleared
	}
	nFixed := len(list)
	nRandom := r.N(6000, 150000)
	r.Require("c05:sbm:single-byte", "c05:sbm:zero-byte", "c05:sbm:zero-nibble", "c05:sbm:random-zero-nibble", "c05:sbm:s=0", "c05:sbm:value:m-1", "c05:sbm:Public()-first")
	entry := []string{"ScalarBaseMult", "ScalarMult(s,G)", "DoubleScalarMultBasepointVartime(s,0,P)", "scalarBaseMultVartime", "NewPrivateKey(d).PublicKey()"}
	pool := knownPointPool(r.Seed, 4)
	r.Each("c05/basemult", nFixed+nRandom, func(w *mon.W, i int) {
		rng := w.Rng
		var s *big.Int
		var cl string
		if i < nFixed {
			s, cl = list[i].v, list[i].cl
		} else {
			switch i % 3 {
			case 0:
				// random with one zero nibble or byte
				s = rng.Below(n)
				if rng.Bool() {
					s.AndNot(s, new(big.Int).Lsh(big.NewInt(0xf), uint(4*rng.Intn(64))))
				} else {
					s.AndNot(s, new(big.Int).Lsh(big.NewInt(0xff), uint(8*rng.Intn(32))))
				}
				cl = "random-zero-nibble"
			case 1:
				s, cl = rng.Value(n)
				cl = "value:" + cl
			default:
				s, cl = rng.Below(n), "uniform"
			}
		}
		if s.Sign() == 0 {
			w.Class("c05:sbm:s=0")
		}
		w.Class("c05:sbm:" + cl)
		want := oracle.MulG(s)
		ls := scalarFromBig(s)
		w.Case(cl != "uniform", []byte("sbm"), b32(s))
		if i%4096 == 1 {
			w.Sample(map[string]any{"op": "ScalarBaseMult and variants", "s": hb(s), "class": cl})
		}
		full := i < nFixed || i%4 == 0
		for ei, e := range entry {
			if ei > 0 && !full {
				continue
			}
			v := new(Point)
			if rng.Bool() {
				v = pointRep(pool[rng.Intn(len(pool))].P, big.NewInt(3))
			}
			switch ei {
			case 0:
				v.ScalarBaseMult(ls)
			case 1:
				v.ScalarMult(ls, secp256k1.NewGeneratorPoint())
			case 2:
				P := pool[rng.Intn(len(pool))]
				z, _ := repZ(rng)
				v.DoubleScalarMultBasepointVartime(ls, secp256k1.NewScalar(), pointRep(P.P, z))
			case 3:
				if !hk.HaveMul {
					continue
				}
				hk.ScalarBaseMultVartime(v, ls)
			case 4:
				if s.Sign() == 0 {
					continue
				}
				k, err := secec.NewPrivateKey(b32(s))
				if err != nil {
					w.Fail("c05/NewPrivateKey", fmt.Sprintf("NewPrivateKey(%x): %v", s, err), "s", hb(s))
					continue
				}
				// which accessor sees the freshly built key first is the caller's choice
				if rng.Bool() {
					w.Class("c05:sbm:Public()-first")
					if msg := publicAccessorFirst(k, want); msg != "" {
						w.Fail("c05/Public()", fmt.Sprintf("NewPrivateKey(%x): %s", s, msg), "s", hb(s))
						continue
					}
				}
				if !bytes.Equal(k.PublicKey().Bytes(), oracle.EncodeUncompressed(want)) {
					w.Fail("c05/PublicKey", fmt.Sprintf("NewPrivateKey(%x).PublicKey() = %x, expected %x", s, k.PublicKey().Bytes(), oracle.EncodeUncompressed(want)), "s", hb(s))
				}
				// the key object is then used the way other API calls use it (BIP-340 key
				// derivation reads its scalar and point; the caller mutates handed-out values)
				_ = bitcoin.NewSchnorrPrivateKeyFromECDSA(k)
				hp := k.PublicKey().Point()
				hp.Negate(hp)
				hs := k.Scalar()
				hs.Negate(hs)
				if !bytes.Equal(k.PublicKey().Bytes(), oracle.EncodeUncompressed(want)) || !bytes.Equal(k.Scalar().Bytes(), b32(s)) {
					w.Fail("c05/PublicKey:after-use", fmt.Sprintf("after deriving a BIP-340 key from it, the key for d = %x reports Bytes() %x and Scalar() %x", s, k.PublicKey().Bytes(), k.Scalar().Bytes()), "s", hb(s))
				}
				v = k.PublicKey().Point()
				// the same through the scalar constructor; the caller then reuses its scalar
				cs := scalarFromBig(s)
				k2, err := secec.NewPrivateKeyFromScalar(cs)
				cs.Add(cs, secp256k1.NewScalarFromUint64(1))
				if err == nil && rng.Bool() {
					if msg := publicAccessorFirst(k2, want); msg != "" {
						w.Fail("c05/Public()", fmt.Sprintf("NewPrivateKeyFromScalar(%x): %s", s, msg), "s", hb(s))
						continue
					}
				}
				if err != nil {
					w.Fail("c05/NewPrivateKeyFromScalar", fmt.Sprintf("NewPrivateKeyFromScalar(%x): %v", s, err), "s", hb(s))
				} else if d2 := bigFromScalar(k2.Scalar()); !bytes.Equal(k2.PublicKey().Bytes(), oracle.EncodeUncompressed(oracle.MulG(d2))) || d2.Cmp(s) != 0 {
					w.Fail("c05/NewPrivateKeyFromScalar:public", fmt.Sprintf("key built from the scalar %x holds d = %x but its public key is %x (not d*G)", s, d2, k2.PublicKey().Bytes()), "s", hb(s))
				}
			}
			if msg := expectPoint(v, want); msg != "" {
				w.Fail("c05/"+e, fmt.Sprintf("%s(s=%x [%s]): %s", e, s, cl, msg), "s", hb(s), "class", cl)
			}
		}
		if bigFromScalar(ls).Cmp(s) != 0 {
			w.Fail("c05:operand", "a multiplication modified its scalar operand", "s", hb(s))
		}
	})
	_ = gen.CtrlValues
	// first use of the generator tables in a fresh process, through every entry point that reads them
	runColdStart(r, "c05", r.N(24, 400), "sbm", "dsm", "pubkey", "sign", "verify")
	// the generator tables as a fresh process builds them under different scheduler
	// widths: every single-byte scalar through the constant-time and the
	// variable-time fixed-base entry points, compared with the reference table
	runColdStart(r, "c05", r.N(16, 48), "gtable")
	// results that are functions of the arguments alone do not depend on the process-wide system entropy stream
	runDegradedEntropy(r, "c05", r.N(40, 600), "sbm", "pubkey")
}
