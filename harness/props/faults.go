package props

import (
	"bytes"
	"fmt"
	"math/big"
	"runtime"
	"sync"

	"gitlab.com/yawning/secp256k1-voi/secec"
	"gitlab.com/yawning/secp256k1-voi/secec/bitcoin"

	"verifharness/mon"
	"verifharness/oracle"
)

// Fault, then use.  A call that is aborted - the caller's entropy source returns an error
// or PANICS part-way through the read (the caller recovers), at any byte offset - must
// leave nothing behind: the calls that follow, on the same goroutine and then on many
// goroutines at once, are compared with the reference values.  (A scratch object that an
// error path releases twice, a pooled hash state that already absorbed half an entropy
// block, only show in the calls AFTER the fault.)

// faultyReader delivers `good` bytes of data and then fails the way `mode` says.
type faultyReader struct {
	data []byte
	good int
	mode int // 0: error, 1: panic, 2: deliver the good bytes together WITH the error, 3: panic after a zero-length read
	pos  int
	zero bool
}

func (f *faultyReader) Read(p []byte) (int, error) {
	if f.mode == 3 && !f.zero {
		f.zero = true
		return 0, nil
	}
	n := 0
	for n < len(p) && f.pos < f.good {
		p[n] = f.data[f.pos%len(f.data)]
		n++
		f.pos++
	}
	if n == len(p) && f.pos < f.good {
		return n, nil
	}
	switch f.mode {
	case 1, 3:
		if n > 0 {
			return n, nil // the next call panics
		}
		panic("entropy source failure (injected)")
	case 2:
		return n, fmt.Errorf("entropy source failure (injected, with %d bytes)", n)
	default:
		if n > 0 {
			return n, nil
		}
		return 0, fmt.Errorf("entropy source failure (injected)")
	}
}

// gosPauseReader hands out the bytes and yields before returning (widens the time a
// signing call spends holding whatever scratch state it holds).
type gosPauseReader struct {
	data []byte
	pos  int
}

func (y *gosPauseReader) Read(p []byte) (int, error) {
	n := 0
	for n < len(p) {
		p[n] = y.data[y.pos%len(y.data)]
		n++
		y.pos++
	}
	runtime.Gosched()
	return n, nil
}

type faultSigner struct {
	name string
	// sign with the given 32 bytes of entropy / auxiliary randomness
	sign func(rd interface{ Read([]byte) (int, error) }) ([]byte, error)
	// reference signature for that entropy (nil: not pinned - then only determinism and validity)
	ref   func(entropy []byte) []byte
	valid func(sig []byte) bool
}

func runFaultThenUse(r *mon.Run, id string, n int) {
	lc := "c" + id[1:]
	r.Require(lc+":fault-then-use:aborted-calls", lc+":fault-then-use:concurrent-after")
	r.Seq(lc+"/fault-then-use", n, func(w *mon.W, i int) {
		rng := w.Rng
		var signers []faultSigner
		nKeys := 3
		for k := 0; k < nKeys; k++ {
			d, _ := keyValue(rng)
			if id == "C14" || (id == "C20" && k%2 == 0) {
				sk, err := bitcoin.NewSchnorrPrivateKey(b32(d))
				if err != nil {
					continue
				}
				msg := rng.Bytes(1 + rng.Intn(60))
				pk := oracle.BIP340PubKey(d)
				signers = append(signers, faultSigner{"Schnorr.Sign", func(rd interface{ Read([]byte) (int, error) }) ([]byte, error) { return sk.Sign(rd, msg, nil) },
					func(e []byte) []byte { return oracle.BIP340Sign(d, e, msg) }, func(sig []byte) bool { return oracle.BIP340Verify(pk, msg, sig) }})
			} else {
				priv := mustPriv(d)
				dig := rng.Bytes(32)
				Q := oracle.MulG(d)
				opts := &secec.ECDSAOptions{Encoding: secec.EncodingCompact, SelfVerify: k%2 == 1}
				signers = append(signers, faultSigner{"ECDSA.Sign", func(rd interface{ Read([]byte) (int, error) }) ([]byte, error) { return priv.Sign(rd, dig, opts) },
					nil, func(sig []byte) bool {
						return len(sig) == 64 && oracle.ECDSAVerify(Q, dig, new(big.Int).SetBytes(sig[:32]), new(big.Int).SetBytes(sig[32:]))
					}})
			}
		}
		if len(signers) == 0 {
			return
		}
		// known-good values, BEFORE any fault
		const perSigner = 6
		ent := make([][]byte, perSigner)
		for j := range ent {
			ent[j] = rng.Bytes(32)
		}
		good := make([][][]byte, len(signers))
		for si, s := range signers {
			good[si] = make([][]byte, perSigner)
			for j := range ent {
				sig, err := s.sign(&fixedReader{data: ent[j]})
				if err != nil || !s.valid(sig) || (s.ref != nil && !bytes.Equal(sig, s.ref(ent[j]))) {
					w.Fail(lc+"/fault-then-use:baseline/"+s.name, fmt.Sprintf("%s before any fault: err=%v sig=%x", s.name, err, sig))
					return
				}
				good[si][j] = sig
			}
		}
		// the faults
		aborted := 0
		nf := 1 + rng.Intn(5)
		for f := 0; f < nf; f++ {
			s := signers[rng.Intn(len(signers))]
			fr := &faultyReader{data: rng.Bytes(32), good: rng.Intn(32), mode: (i + f) % 4}
			var sig []byte
			var err error
			p, _ := mon.Panics(func() { sig, err = s.sign(fr) })
			if !p && err == nil {
				w.Fail(lc+"/fault-then-use:signed/"+s.name, fmt.Sprintf("%s returned a signature (%x) although the entropy source failed after %d bytes (mode %d)", s.name, sig, fr.good, fr.mode))
				return
			}
			aborted++
		}
		w.ClassN(lc+":fault-then-use:aborted-calls", int64(aborted))
		w.Case(true, []byte("fault-then-use"), []byte{byte(nf), byte(i)})
		check := func(si, j int, sig []byte, err error, where string) bool {
			s := signers[si]
			if err != nil || !bytes.Equal(sig, good[si][j]) {
				w.Fail(lc+"/fault-then-use:"+where+"/"+s.name, fmt.Sprintf("%s %s %d aborted call(s): err=%v, signature %x; before the faults the same call gave %x (valid by the reference model: %v)", s.name, where, aborted, err, sig, good[si][j], sig != nil && s.valid(sig)))
				return false
			}
			return true
		}
		// sequentially, same goroutine
		for si := range signers {
			for j := 0; j < 2; j++ {
				sig, err := signers[si].sign(&fixedReader{data: ent[j]})
				if !check(si, j, sig, err, "sequentially after") {
					return
				}
			}
		}
		// then many at once (readers that yield, so calls overlap even on few cores)
		G := 8
		type res struct {
			si, j int
			sig   []byte
			err   error
		}
		out := make([][]res, G)
		var wg sync.WaitGroup
		gate := make(chan struct{})
		for g := 0; g < G; g++ {
			wg.Add(1)
			go func(g int) {
				defer wg.Done()
				<-gate
				for it := 0; it < 12; it++ {
					si, j := (g+it)%len(signers), (g*5+it)%perSigner
					sig, err := signers[si].sign(&gosPauseReader{data: ent[j]})
					out[g] = append(out[g], res{si, j, sig, err})
				}
			}(g)
		}
		close(gate)
		wg.Wait()
		w.ClassN(lc+":fault-then-use:concurrent-after", int64(G*12))
		for g := range out {
			for _, x := range out[g] {
				if !check(x.si, x.j, x.sig, x.err, "concurrently after") {
					return
				}
			}
		}
	})
}
