package props

import (
	"bytes"
	"fmt"
	"math/big"
	"strings"
	"unicode/utf8"

	secp256k1 "gitlab.com/yawning/secp256k1-voi"
	"gitlab.com/yawning/secp256k1-voi/secec"
	"gitlab.com/yawning/secp256k1-voi/secec/bitcoin"

	"verifharness/gen"
	"verifharness/hk"
	"verifharness/mon"
	"verifharness/oracle"
)

func init() { Register("C13", runC13) }

// evenKey returns (d, P) with P = d*G having even y (d negated if needed).
func evenKey(d *big.Int) (*big.Int, *oracle.Pt) {
	P := oracle.MulG(d)
	if P.Y.Bit(0) == 1 {
		d = new(big.Int).Sub(bigN, d)
		P = oracle.Neg(P)
	}
	return d, P
}

// schnorrWithNonce builds sig = bytes(x(R')) || bytes(k + e d) where the
// nonce is used as given (no negation): valid iff R = kG has even y.
func schnorrWithNonce(d *big.Int, P *oracle.Pt, k *big.Int, msg []byte) []byte {
	R := oracle.MulG(k)
	e := oracle.BIP340Challenge(b32(R.X), b32(P.X), msg)
	s := oracle.AddM(k, oracle.MulM(e, d, bigN), bigN)
	return append(b32(R.X), b32(s)...)
}

func runC13(r *mon.Run) {
	n := bigN
	for _, c := range []string{"c13:honest", "c13:odd-y-R", "c13:R=infinity", "c13:r>=p", "c13:r=p-1", "c13:s>=n", "c13:s=n-1", "c13:s=0", "c13:corrupt-r", "c13:corrupt-s", "c13:corrupt-msg",
		"c13:wrong-key", "c13:sig-length", "c13:accept", "c13:reject", "c13:msglen=0", "c13:msglen!=32", "c13:key:on-curve", "c13:key:off-curve", "c13:key:x>=p", "c13:key:wrong-length", "c13:key-handouts-mutated"} {
		r.Require(c)
	}
	r.Require("c13:key-via:NewSchnorrPublicKeyFromECDSA(odd-y, from compressed bytes)", "c13:key-via:NewSchnorrPublicKeyFromPoint(odd-y)", "c13:key-via:NewSchnorrPublicKey")
	r.Each("c13/verify", r.N(3000, 120000), func(w *mon.W, i int) {
		rng := w.Rng
		d0, _ := keyValue(rng)
		d, P := evenKey(d0)
		pk := b32(P.X)
		ml := []int{0, 1, 31, 32, 33, 64, 100, 255, 300}[i%9]
		if i%4 == 0 {
			ml = rng.Intn(301)
		}
		msg := rng.Bytes(ml)
		if ml == 0 {
			w.Class("c13:msglen=0")
		}
		if ml != 32 {
			w.Class("c13:msglen!=32")
		}
		aux := rng.Bytes(32)
		sig := oracle.BIP340Sign(d0, aux, msg)
		cl := "honest"
		usePk := pk
		switch i % 16 { // 0,1,2,14,15: honest
		case 0, 1, 2:
		case 3:
			// un-negated nonce whose R has odd y
			for {
				k := nonzero(rng.Below(n))
				if oracle.MulG(k).Y.Bit(0) == 1 {
					sig = schnorrWithNonce(d, P, k, msg)
					break
				}
			}
			cl = "odd-y-R"
		case 4:
			// R = s*G - e*P infinite: choose r freely (any x < p), e = H(r||pk||m), s = e*d
			rb := b32(rng.Below(bigP))
			e := oracle.BIP340Challenge(rb, pk, msg)
			sig = append(rb, b32(oracle.MulM(e, d, n))...)
			cl = "R=infinity"
		case 5:
			rv := new(big.Int).Add(bigP, rng.Below(new(big.Int).Sub(oracle.Two256, bigP)))
			if rng.Bool() {
				// x(R) + p for a small-x R would be the honest-but-aliased case
				rv = new(big.Int).Set(bigP)
			}
			copy(sig[:32], b32(rv))
			cl = "r>=p"
		case 6:
			copy(sig[:32], b32(new(big.Int).Sub(bigP, big.NewInt(1))))
			cl = "r=p-1"
		case 7:
			sv := new(big.Int).Add(n, rng.Below(new(big.Int).Sub(oracle.Two256, n)))
			if rng.Bool() {
				// s + n when it fits: the reduced value would verify
				if alt := new(big.Int).Add(oracle.FromBytes(sig[32:]), n); alt.Cmp(oracle.Two256) < 0 {
					sv = alt
				}
			}
			copy(sig[32:], b32(sv))
			cl = "s>=n"
		case 8:
			copy(sig[32:], b32(new(big.Int).Sub(n, big.NewInt(1))))
			cl = "s=n-1"
		case 9:
			copy(sig[32:], make([]byte, 32))
			cl = "s=0"
		case 10:
			which := rng.Intn(3)
			bit := rng.Intn(256)
			switch which {
			case 0:
				sig[bit/8] ^= 1 << uint(bit%8)
				cl = "corrupt-r"
			case 1:
				sig[32+bit/8] ^= 1 << uint(bit%8)
				cl = "corrupt-s"
			default:
				if len(msg) == 0 {
					msg = []byte{1}
				} else {
					msg = append([]byte{}, msg...)
					msg[rng.Intn(len(msg))] ^= 1 << uint(rng.Intn(8))
				}
				cl = "corrupt-msg"
			}
		case 11:
			_, P2 := evenKey(nonzero(rng.Below(n)))
			usePk = b32(P2.X)
			cl = "wrong-key"
		case 12:
			l := rng.Intn(131)
			if l == 64 {
				l = 65
			}
			if l < 64 {
				sig = sig[:l]
			} else {
				sig = append(sig, rng.Bytes(l-64)...)
			}
			cl = "sig-length"
		case 13:
			// negated s / negated nonce variants
			s := oracle.FromBytes(sig[32:])
			copy(sig[32:], b32(oracle.NegM(s, n)))
			cl = "corrupt-s"
		}
		w.Class("c13:" + cl)
		want := oracle.BIP340Verify(usePk, msg, sig)
		if want {
			w.Class("c13:accept")
		} else {
			w.Class("c13:reject")
		}
		w.Case(true, []byte("verify"), usePk, msg, sig)
		if i < 3 {
			w.Sample(map[string]any{"op": "SchnorrPublicKey.Verify", "class": cl, "pk": hx(usePk), "msg": hx(msg), "sig": hx(sig), "bip340_verify": want})
		}
		// the verifying key OBJECT comes from any of the constructors, fed with either of the
		// two points that have this x-coordinate: BIP-340 keys are x-only
		k, ctor, err := schnorrPubVia(rng, usePk)
		w.Class("c13:key-via:" + ctor)
		if err != nil {
			w.Fail("c13/NewSchnorrPublicKey", fmt.Sprintf("valid x-only key %x rejected by %s: %v", usePk, ctor, err))
			return
		}
		cl += ",key via " + ctor
		if i%3 == 0 {
			// the caller mutates what the key object handed out (a Taproot-style tweak of
			// Point(), an overwritten Bytes()) before verifying with it
			q := k.Point()
			q.Add(q, secp256k1.NewGeneratorPoint())
			kb := k.Bytes()
			for j := range kb {
				kb[j] += 0x77
			}
			w.Class("c13:key-handouts-mutated")
		}
		keepSig, keepMsg := append([]byte{}, sig...), append([]byte{}, msg...)
		if i%2 == 1 {
			// hostile layout: message and signature as sub-slices of one buffer
			hl, hcheck := hostileLayout(msg, sig)
			if g := k.Verify(hl[0], hl[1]); g != want {
				w.Fail("c13/Verify:layout/"+cl, fmt.Sprintf("SchnorrPublicKey.Verify [%s] = %v with message and signature in one buffer, BIP-340 Verify = %v", cl, g, want), "pk", usePk, "msg", msg, "sig", sig)
			}
			if m := hcheck(); m != "" {
				w.Fail("c13/Verify:buffer", "Verify wrote to its inputs or beyond them: "+m)
			}
		}
		if g := k.Verify(msg, sig); g != want {
			w.Fail("c13/Verify/"+cl, fmt.Sprintf("SchnorrPublicKey.Verify [%s] = %v, BIP-340 Verify = %v", cl, g, want), "pk", usePk, "msg", msg, "sig", sig)
		}
		if !bytes.Equal(sig, keepSig) || !bytes.Equal(msg, keepMsg) {
			w.Fail("c13/Verify:operand", "Verify modified its inputs")
		}
	})

	// --- public-key import ------------------------------------------------------------------
	r.Each("c13/import", r.N(15000, 600000), func(w *mon.W, i int) {
		rng := w.Rng
		var key []byte
		switch i % 8 {
		case 0:
			key = b32(new(big.Int).Add(bigP, rng.Below(new(big.Int).Sub(oracle.Two256, bigP))))
		case 1:
			key = b32(gen.Pick(rng, bigP, new(big.Int).Sub(bigP, big.NewInt(1)), big.NewInt(0), big.NewInt(1), new(big.Int).Sub(oracle.Two256, big.NewInt(1))))
		case 2:
			l := rng.Intn(70)
			if l == 32 {
				l = 33
			}
			key = rng.Bytes(l)
			if l == 33 && rng.Bool() {
				key = oracle.EncodeCompressed(oracle.MulG(nonzero(rng.Below(bigN)))) // a SEC 1 compressed key is not an x-only key
			}
		case 3:
			key = b32(nonResidueX(rng.Below(bigP)))
		case 4:
			sp := specialPoints()[rng.Intn(len(specialPoints()))].P
			if rng.Bool() {
				sp = gapPointX(rng) // an abscissa anywhere in [0, 2^256-p), classes after the limbs of p
			}
			key = b32(sp.X)
			if rng.Bool() && sp.X.Cmp(new(big.Int).Sub(oracle.Two256, bigP)) < 0 {
				key = b32(new(big.Int).Add(sp.X, bigP)) // x + p alias
			}
		default:
			key = rng.Bytes(32) // half on the curve
		}
		var want *oracle.Pt
		switch {
		case len(key) != 32:
			w.Class("c13:key:wrong-length")
		case oracle.FromBytes(key).Cmp(bigP) >= 0:
			w.Class("c13:key:x>=p")
		default:
			want = oracle.BIP340LiftX(oracle.FromBytes(key))
			if want != nil {
				w.Class("c13:key:on-curve")
			} else {
				w.Class("c13:key:off-curve")
			}
		}
		w.Case(true, []byte("import"), key)
		keep := append([]byte{}, key...)
		k, err := bitcoin.NewSchnorrPublicKey(key)
		if (err == nil) != (want != nil) || (err != nil && k != nil) {
			w.Fail("c13/NewSchnorrPublicKey", fmt.Sprintf("NewSchnorrPublicKey(%x): err=%v, BIP-340 lift_x succeeds=%v", key, err, want != nil), "key", key)
			return
		}
		if want == nil {
			return
		}
		if !bytes.Equal(k.Bytes(), key) {
			w.Fail("c13/NewSchnorrPublicKey:Bytes", fmt.Sprintf("Bytes() = %x for imported key %x", k.Bytes(), key))
		}
		if msg := expectPoint(k.Point(), want); msg != "" {
			w.Fail("c13/NewSchnorrPublicKey:Point", "the imported key does not expose the even-y lift: "+msg, "key", key)
		}
		// the caller's slice is copied
		key[0] ^= 0xff
		if !bytes.Equal(k.Bytes(), keep) {
			w.Fail("c13/NewSchnorrPublicKey:alias", "mutating the caller's slice changed the key")
		}
	})

	// --- no hidden state: the x-only import after decodes of the SAME x with either parity ---
	// (a decompression memo keyed on x alone makes lift_x return the odd-y point when the
	// previous successful decode in the process was 03||x); single goroutine.
	r.Require("c13:seq:import-after-odd-decode", "c13:seq:import-after-even-decode", "c13:seq:verify-after-import")
	r.Seq("c13/import-sequences", r.N(300, 12000), func(w *mon.W, i int) {
		rng := w.Rng
		d0, _ := keyValue(rng)
		d, P := evenKey(d0)
		xb := b32(P.X)
		msg := rng.Bytes(rng.Intn(70))
		sig := oracle.BIP340Sign(d, rng.Bytes(32), msg)
		w.Case(true, []byte("import-seq"), xb, msg)
		prefix := byte(2 + i%2)
		if _, err := secp256k1.NewPointFromBytes(append([]byte{prefix}, xb...)); err != nil {
			w.Fail("c13/seq:decode", fmt.Sprintf("compressed decode of a valid point failed: %v", err))
			return
		}
		if prefix == 3 {
			w.Class("c13:seq:import-after-odd-decode")
		} else {
			w.Class("c13:seq:import-after-even-decode")
		}
		for rep := 0; rep < 2; rep++ {
			k, err := bitcoin.NewSchnorrPublicKey(xb)
			if err != nil {
				w.Fail("c13/seq:import", fmt.Sprintf("NewSchnorrPublicKey(%x) failed right after decoding %02x||x: %v", xb, prefix, err))
				return
			}
			if m := expectPoint(k.Point(), P); m != "" {
				w.Fail("c13/seq:lift", fmt.Sprintf("NewSchnorrPublicKey(%x) right after decoding %02x||x does not hold the even-y lift: %s", xb, prefix, m), "x", hx(xb))
				return
			}
			w.Class("c13:seq:verify-after-import")
			if !k.Verify(msg, sig) {
				w.Fail("c13/seq:verify", fmt.Sprintf("a valid BIP-340 signature is rejected by the key imported right after decoding %02x||x", prefix), "x", hx(xb), "msg", hx(msg), "sig", hx(sig))
				return
			}
		}
	})

	// --- parse stage (hook): r >= p and s >= n are rejected, never reduced ---------------
	// A signature with r or s out of range can only be told from "reduced and then
	// verified" if the reduced signature is VALID, which needs r < 2^32+977 or
	// s < 2^256-n: unreachable through honest signing (2^-128) and not constructible
	// (the challenge hashes r).  The parse stage itself is therefore observed.
	// the pre-hash helper shares the tagged-hash routine with verification: names related to the
	// tags BIP-340 itself uses, interleaved with verifications of honest signatures
	r.Require("c13:prehash:related-name", "c13:prehash:rejected-name")
	r.Each("c13/prehash", r.N(600, 20000), func(w *mon.W, i int) {
		rng := w.Rng
		name, msg := prehashName(rng), rng.Bytes(rng.Intn(100))
		w.Case(true, []byte("prehash"), []byte(name), msg)
		got, err := bitcoin.PreHashSchnorrMessage(name, msg)
		if name == "" || !utf8.ValidString(name) {
			w.Class("c13:prehash:rejected-name")
			if err == nil || got != nil {
				w.Fail("c13/prehash:invalid-name", fmt.Sprintf("PreHashSchnorrMessage accepted the name %q", name))
			}
			return
		}
		if strings.HasPrefix(name, "BIP0340/") {
			w.Class("c13:prehash:related-name")
		}
		if want := oracle.TaggedHash(name, msg); err != nil || !bytes.Equal(got, want) {
			w.Fail("c13/prehash", fmt.Sprintf("PreHashSchnorrMessage(%q, %x) = %x (err %v), expected the BIP-340 tagged hash %x", name, msg, got, err, want))
		}
		d, _ := keyValue(rng)
		m2 := rng.Bytes(32)
		sig := oracle.BIP340Sign(d, rng.Bytes(32), m2)
		_, P := evenKey(d)
		if pk, err := bitcoin.NewSchnorrPublicKey(b32(P.X)); err != nil || !pk.Verify(m2, sig) {
			w.Fail("c13/prehash:then-verify", fmt.Sprintf("an honest signature is rejected right after PreHashSchnorrMessage(%q, ...)", name))
		}
	})
	runColdStart(r, "c13", r.N(60, 600), "schnorrverify", "schnorrsign", "prehash")
	if !hk.HaveBtcParse {
		r.Note("hook group verif_btcparse unavailable: the parse stage (r < p, s < n rejected rather than reduced) is observed through Verify's verdict only")
		return
	}
	r.Require("c13:parse:ok", "c13:parse:r>=p", "c13:parse:s>=n", "c13:parse:len", "c13:parse:r+p-alias", "c13:parse:s+n-alias", "c13:finalR:inf", "c13:finalR:odd-y", "c13:finalR:x-mismatch", "c13:finalR:ok")
	r.Each("c13/parse-stage", r.N(6000, 300000), func(w *mon.W, i int) {
		rng := w.Rng
		pk := rng.Bytes(32)
		msg := rng.Bytes([]int{0, 1, 32, 33, 129, 300}[i%6])
		var rv, sv *big.Int
		cl := "ok"
		switch i % 8 {
		case 0, 1:
			rv, _ = rng.Value(bigP)
			sv, _ = rng.Value(n)
		case 2:
			// r in [p, 2^256): all 2^32+977 aliases r+p of tiny r, boundary values
			rv = new(big.Int).Add(bigP, gen.Pick(rng, big.NewInt(0), big.NewInt(1), big.NewInt(int64(rng.Intn(1000))), new(big.Int).Sub(new(big.Int).Sub(oracle.Two256, bigP), big.NewInt(1)), rng.Below(new(big.Int).Sub(oracle.Two256, bigP))))
			sv, _ = rng.Value(n)
			cl = "r>=p"
			w.Class("c13:parse:r+p-alias")
		case 3:
			rv, _ = rng.Value(bigP)
			sv = new(big.Int).Add(n, gen.Pick(rng, big.NewInt(0), big.NewInt(1), big.NewInt(int64(rng.Intn(1000))), new(big.Int).Sub(new(big.Int).Sub(oracle.Two256, n), big.NewInt(1)), rng.Below(new(big.Int).Sub(oracle.Two256, n))))
			cl = "s>=n"
			w.Class("c13:parse:s+n-alias")
		case 4:
			rv, sv = new(big.Int).Sub(bigP, big.NewInt(1)), new(big.Int).Sub(n, big.NewInt(1))
		case 5:
			rv, sv = new(big.Int).Sub(oracle.Two256, big.NewInt(1)), new(big.Int).Sub(oracle.Two256, big.NewInt(1))
			cl = "r>=p"
		default:
			rv, sv = rng.Big256(), rng.Big256()
			if rv.Cmp(bigP) >= 0 {
				cl = "r>=p"
			} else if sv.Cmp(n) >= 0 {
				cl = "s>=n"
			}
		}
		sig := append(b32(rv), b32(sv)...)
		if i%16 == 15 {
			switch rng.Intn(3) {
			case 0:
				sig = sig[:rng.Intn(64)]
			case 1:
				sig = append(sig, rng.Bytes(1+rng.Intn(66))...)
			default:
				sig = append(sig, sig...)
			}
			cl = "len"
		}
		w.Class("c13:parse:" + cl)
		w.Case(true, []byte("parse"), pk, msg, sig)
		keep := append([]byte{}, sig...)
		ok, ls, le, rx := hk.ParseSchnorrSignature(pk, msg, sig)
		if ok != (cl == "ok") {
			w.Fail("c13/parse/"+cl, fmt.Sprintf("parse stage of Verify on sig=%x [%s]: ok=%v, BIP-340 requires %v (r < p, s < n, 64 bytes)", sig, cl, ok, cl == "ok"), "sig", hx(sig), "class", cl)
			return
		}
		if !bytes.Equal(sig, keep) {
			w.Fail("c13/parse:operand", "the parse stage modified the signature bytes")
		}
		if !ok {
			return
		}
		if bigFromScalar(ls).Cmp(sv) != 0 || !bytes.Equal(rx, b32(rv)) {
			w.Fail("c13/parse:value", fmt.Sprintf("parse stage returned s=%x r=%x for sig=%x", bigFromScalar(ls), rx, sig))
		}
		if e := oracle.BIP340Challenge(b32(rv), pk, msg); bigFromScalar(le).Cmp(e) != 0 {
			w.Fail("c13/parse:challenge", fmt.Sprintf("challenge = %x, BIP-340 tagged hash mod n = %x (msg length %d)", bigFromScalar(le), e, len(msg)), "msg", hx(msg))
		}
		if i < 2 {
			w.Sample(map[string]any{"monitor": "parse-stage", "sig": hx(sig), "class": cl})
		}
	})
	pool := knownPointPool(r.Seed, 4)
	r.Each("c13/final-R", r.N(2000, 60000), func(w *mon.W, i int) {
		rng := w.Rng
		P := pool[rng.Intn(len(pool))].P
		z, _ := repZ(rng)
		R := pointRep(P, z)
		var rx []byte
		want := false
		switch {
		case P.Inf:
			rx = rng.Bytes(32)
			if rng.Bool() {
				rx = make([]byte, 32)
			}
			w.Class("c13:finalR:inf")
		case rng.Chance(1, 3):
			rx = b32(oracle.Mod(new(big.Int).Add(P.X, big.NewInt(int64(1+rng.Intn(3)))), bigP))
			w.Class("c13:finalR:x-mismatch")
		default:
			rx = b32(P.X)
			want = P.Y.Bit(0) == 0
			if want {
				w.Class("c13:finalR:ok")
			} else {
				w.Class("c13:finalR:odd-y")
			}
		}
		w.Case(true, []byte("finalR"), oracle.EncodeCompressed(P), b32(z), rx)
		if g := hk.VerifySchnorrSignatureR(rx, R); g != want {
			w.Fail("c13/final-R", fmt.Sprintf("final R checks (not infinite, even y, x(R)=r) on R=%v [Z=%x], r=%x: %v, expected %v", P, z, rx, g, want))
		}
	})
}

// schnorrPubVia builds the x-only key for the valid x-coordinate xb through one
// of the public constructors, handing the point-based ones either lift of x.
func schnorrPubVia(rng *gen.Rng, xb []byte) (*bitcoin.SchnorrPublicKey, string, error) {
	x := oracle.FromBytes(xb)
	P := oracle.LiftX(x, uint(rng.Intn(2)))
	if P == nil || x.Cmp(bigP) >= 0 || len(xb) != 32 {
		k, err := bitcoin.NewSchnorrPublicKey(xb)
		return k, "NewSchnorrPublicKey", err
	}
	par := "even-y"
	if P.Y.Bit(0) == 1 {
		par = "odd-y"
	}
	switch rng.Intn(5) {
	case 0:
		z, _ := repZ(rng)
		k, err := bitcoin.NewSchnorrPublicKeyFromPoint(pointRep(P, z))
		return k, "NewSchnorrPublicKeyFromPoint(" + par + ")", err
	case 1:
		pk, err := secec.NewPublicKey(oracle.EncodeCompressed(P))
		if err != nil {
			return nil, "secec.NewPublicKey", err
		}
		return bitcoin.NewSchnorrPublicKeyFromECDSA(pk), "NewSchnorrPublicKeyFromECDSA(" + par + ", from compressed bytes)", nil
	case 2:
		z, _ := repZ(rng)
		pk, err := secec.NewPublicKeyFromPoint(pointRep(P, z))
		if err != nil {
			return nil, "secec.NewPublicKeyFromPoint", err
		}
		return bitcoin.NewSchnorrPublicKeyFromECDSA(pk), "NewSchnorrPublicKeyFromECDSA(" + par + ", from a point)", nil
	default:
		k, err := bitcoin.NewSchnorrPublicKey(xb)
		return k, "NewSchnorrPublicKey", err
	}
}
