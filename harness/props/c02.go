package props

import (
	"fmt"
	"math/big"

	secp256k1 "gitlab.com/yawning/secp256k1-voi"

	"verifharness/gen"
	"verifharness/hk"
	"verifharness/mon"
	"verifharness/oracle"
)

func init() { Register("C02", runC02) }

func scAPI() *modAPI[Scalar, *Scalar] {
	api := &modAPI[Scalar, *Scalar]{
		name:   "n",
		m:      bigN,
		rawGet: func(e *Scalar) ([4]uint64, bool) { return hk.ScalarRaw(e) },
		rawSet: func(e *Scalar, l [4]uint64) bool { return hk.ScalarSetRaw(e, l) },
	}
	if hk.HaveFiat {
		api.fiat = hk.FiatScalar
		api.reduce = hk.ScalarReduceSaturated
	}
	return api
}

func runC02(r *mon.Run) {
	api := scAPI()
	m := bigN
	api.runCommon(r, r.N(30000, 1500000), r.N(9000, 300000), r.N(9000, 450000), r.N(9000, 450000))
	api.runFiat(r, r.N(18000, 900000))
	api.runHistories(r, r.N(150, 8000))
	if !hk.HaveCore {
		r.Note("core hooks unavailable: operands are built through the canonical decoder only; raw-limb invariants not observed")
	}

	// --- IsGreaterThanHalfN on the boundary family ---------------------------
	r.Require("n:half:=halfN", "n:half:=halfN+1", "n:half:limb-forced", "n:half:limb-relations", "n:half:true", "n:half:false", "n:half:diff-only-limb-0", "n:half:diff-only-limb-1", "n:half:diff-only-limb-2", "n:half:diff-only-limb-3")
	r.Each("n/half-order", r.N(6000, 300000), func(w *mon.W, i int) {
		rng := w.Rng
		var v *big.Int
		switch i % 10 {
		case 8, 9:
			// every limb independently below / equal to / above the limb of (n-1)/2
			v = halfRelated(rng)
			w.Class("n:half:limb-relations")
			if rng.Chance(1, 3) {
				// a 128-bit value (or its negation): the shape of a GLV half
				l := oracle.Limbs(v)
				l[2], l[3] = 0, 0
				v = oracle.FromLimbs(l)
				if rng.Bool() {
					v = oracle.NegM(v, m)
				}
			}
		case 6, 7:
			// the DIFFERENCE to (n-1)/2 has exactly one non-zero 64-bit limb
			// (forcing a limb of the value itself does not give this: limb 2 and 3
			// of (n-1)/2 are all ones / 0x7fff.., so a forced limb carries)
			j := uint(rng.Intn(4))
			c := gen.Pick(rng, big.NewInt(1), new(big.Int).SetUint64(^uint64(0)), new(big.Int).SetUint64(rng.U64()|1), new(big.Int).SetUint64(1<<63), new(big.Int).SetUint64(rng.HalfWord()), new(big.Int).SetUint64(rng.HalfWord()))
			if j == 3 {
				c = new(big.Int).Rsh(c, 2) // keep halfN + c*2^192 below n
				if c.Sign() == 0 {
					c = big.NewInt(1)
				}
			}
			d := new(big.Int).Lsh(c, 64*j)
			if rng.Bool() {
				v = new(big.Int).Add(oracle.HalfN, d)
				w.Class(fmt.Sprintf("n:half:diff-only-limb-%d", j))
			} else {
				v = new(big.Int).Sub(oracle.HalfN, d)
				w.Class(fmt.Sprintf("n:half:neg-diff-only-limb-%d", j))
			}
		case 0:
			v = new(big.Int).Add(oracle.HalfN, big.NewInt(int64(i/10%9-4)))
		case 1, 2:
			// (n-1)/2 with one limb forced to 0 / 2^64-1 / +-1
			l := oracle.Limbs(oracle.HalfN)
			j := rng.Intn(4)
			switch rng.Intn(4) {
			case 0:
				l[j] = 0
			case 1:
				l[j] = ^uint64(0)
			case 2:
				l[j]++
			default:
				l[j]--
			}
			v = oracle.FromLimbs(l)
			w.Class("n:half:limb-forced")
		case 3:
			v = oracle.SubM(big.NewInt(0), oracle.Mod(rng.BigBits(1+rng.Intn(130)), m), m) // n - small
		default:
			v, _ = rng.Value(m)
		}
		v = oracle.Mod(v, m)
		switch v.Cmp(oracle.HalfN) {
		case 0:
			w.Class("n:half:=halfN")
		case 1:
			if new(big.Int).Sub(v, oracle.HalfN).Cmp(big.NewInt(1)) == 0 {
				w.Class("n:half:=halfN+1")
			}
		}
		want := v.Cmp(oracle.HalfN) > 0
		if want {
			w.Class("n:half:true")
		} else {
			w.Class("n:half:false")
		}
		s := api.mk(rng, v)
		w.Case(true, []byte("half"), b32(v))
		if g := s.IsGreaterThanHalfN(); g != boolU64(want) {
			w.Fail("n/IsGreaterThanHalfN", fmt.Sprintf("IsGreaterThanHalfN(%x) = %d, expected %v", v, g, want), "s", hb(v))
		}
		if got, bad := api.val(s); bad != "" || got.Cmp(v) != 0 {
			w.Fail("n/IsGreaterThanHalfN:operand", "IsGreaterThanHalfN modified its receiver "+bad, "s", hb(v))
		}
	})

	// --- Sum / Product -----------------------------------------------------------
	r.Require("n:vec:len=0", "n:vec:len=1", "n:vec:rcv-in-vec", "n:vec:repeated-entry", "n:vec:stored-residue-sum-window", "n:vec:after-recovered-panic")
	r.Each("n/sum+product", r.N(4000, 150000), func(w *mon.W, i int) {
		rng := w.Rng
		l := i % 14
		if i%29 == 0 {
			l = 14 + rng.Intn(27)
		}
		w.Class(fmt.Sprintf("n:vec:len=%d", min(l, 14)))
		vals := make([]*big.Int, l)
		vec := make([]*Scalar, l)
		for j := range vec {
			if j > 0 && rng.Chance(1, 4) {
				k := rng.Intn(j)
				vec[j], vals[j] = vec[k], vals[k] // same object repeated
				w.Class("n:vec:repeated-entry")
				continue
			}
			vals[j], _ = rng.Value(m)
			vec[j] = api.mk(rng, vals[j])
		}
		// list-wide windows of the STORED (Montgomery) residues: an implementation that adds the
		// stored words lazily and folds once sees their integer sum; the last entry is solved so
		// that this sum lands next to a multiple of 2^256, next to a multiple of n, or inside
		// [h*n + 2^256, (h+1)*2^256) (one conditional subtraction is then not enough)
		if l >= 2 && i%3 == 1 {
			S := new(big.Int)
			for j := 0; j < l-1; j++ {
				S.Add(S, oracle.ToMont(vals[j], m))
			}
			two256 := oracle.Two256
			for try := 0; try < 40; try++ {
				delta := new(big.Int).SetUint64(rng.U64())
				switch rng.Intn(3) {
				case 0:
					delta = big.NewInt(int64(rng.Intn(3)))
				case 1:
					delta.Lsh(delta, uint(rng.Intn(64)))
				}
				j := new(big.Int).Add(new(big.Int).Div(S, two256), big.NewInt(int64(1+rng.Intn(2))))
				var T *big.Int
				switch kind := rng.Intn(5); kind {
				case 0:
					T = new(big.Int).Sub(new(big.Int).Mul(j, two256), new(big.Int).Add(delta, big.NewInt(1))) // just below j*2^256
				case 1:
					T = new(big.Int).Add(new(big.Int).Mul(j, two256), delta) // at / just above
				case 2:
					T = new(big.Int).Add(new(big.Int).Mul(j, m), delta) // at / just above j*n
				case 3:
					T = new(big.Int).Sub(new(big.Int).Mul(j, m), new(big.Int).Add(delta, big.NewInt(1)))
				default:
					h := new(big.Int).Sub(j, big.NewInt(1))
					T = new(big.Int).Add(new(big.Int).Add(new(big.Int).Mul(h, m), two256), delta) // h*n + 2^256 + delta
				}
				last := new(big.Int).Sub(T, S)
				if last.Sign() < 0 || last.Cmp(m) >= 0 {
					continue
				}
				vals[l-1] = oracle.FromMont(last, m)
				vec[l-1] = api.mk(rng, vals[l-1])
				w.Class("n:vec:stored-residue-sum-window")
				break
			}
		}
		rcvVal := rng.Below(m)
		rcv := api.mk(rng, rcvVal)
		rcvIn := -1
		if l > 0 && rng.Chance(1, 2) {
			rcvIn = rng.Intn(l)
			rcv = vec[rcvIn]
			w.Class("n:vec:rcv-in-vec")
		}
		isSum := i%2 == 0
		want := big.NewInt(0)
		if !isSum {
			want = big.NewInt(1)
		}
		for _, v := range vals {
			if isSum {
				want = oracle.AddM(want, v, m)
			} else {
				want = oracle.MulM(want, v, m)
			}
		}
		// a call that PANICS (a nil entry in the list), recovered by the caller, must leave
		// nothing behind: the very next calls on this goroutine are checked as usual
		if i%9 == 4 && l >= 1 {
			hole := make([]*Scalar, 0, l+1)
			at := rng.Intn(l + 1)
			hole = append(hole, vec[:at]...)
			hole = append(hole, nil)
			hole = append(hole, vec[at:]...)
			scratch := api.mk(rng, rcvVal)
			mon.Panics(func() {
				if isSum {
					scratch.Sum(hole...)
				} else {
					scratch.Product(hole...)
				}
			})
			w.Class("n:vec:after-recovered-panic")
			a, b := rng.Below(m), rng.Below(m)
			sa, sb := api.mk(rng, a), api.mk(rng, b)
			if g, bad := api.val(secp256k1.NewScalar().Product(sa, sb)); bad != "" || g.Cmp(oracle.MulM(a, b, m)) != 0 {
				w.Fail("n/Product:after-panic", fmt.Sprintf("Product(a, b) right after a recovered panic of %s(list with a nil entry) = %x, expected %x", map[bool]string{true: "Sum", false: "Product"}[isSum], g, oracle.MulM(a, b, m)), "a", hb(a), "b", hb(b))
			}
			if g, bad := api.val(secp256k1.NewScalar().Sum(sa, sb)); bad != "" || g.Cmp(oracle.AddM(a, b, m)) != 0 {
				w.Fail("n/Sum:after-panic", fmt.Sprintf("Sum(a, b) right after a recovered panic = %x, expected %x", g, oracle.AddM(a, b, m)), "a", hb(a), "b", hb(b))
			}
		}
		name := "Product"
		var ret *Scalar
		if isSum {
			name = "Sum"
			ret = rcv.Sum(vec...)
		} else {
			ret = rcv.Product(vec...)
		}
		var enc []byte
		for _, v := range vals {
			enc = append(enc, b32(v)...)
		}
		w.Case(true, []byte(name), enc, []byte(fmt.Sprint(rcvIn)))
		got, bad := api.val(rcv)
		if ret != rcv {
			w.Fail("n/"+name+":ret", name+" did not return its receiver")
		}
		if bad != "" || got.Cmp(want) != 0 {
			w.Fail("n/"+name, fmt.Sprintf("%s over %d entries (receiver at index %d) = %x, expected %x %s", name, l, rcvIn, got, want, bad), "len", l, "rcv_index", rcvIn, "vec", hx(enc))
		}
		for j, e := range vec {
			if e == rcv {
				continue
			}
			if g, _ := api.val(e); g.Cmp(vals[j]) != 0 {
				w.Fail("n/"+name+":operand", fmt.Sprintf("%s modified entry %d", name, j))
			}
		}
	})

	// --- constructors ---------------------------------------------------------------
	r.Each("n/constructors", r.N(3000, 100000), func(w *mon.W, i int) {
		rng := w.Rng
		u := rng.U64()
		if i%3 == 0 {
			u = gen.Pick(rng, uint64(0), 1, 1<<63, ^uint64(0), 0xBFD25E8CD0364141, 0xBFD25E8CD0364140)
		}
		if i%3 == 1 {
			u = uint64(rng.Intn(300)) // small constants (the ones a constructor might intern)
		}
		c1 := secp256k1.NewScalarFromUint64(u)
		if got, bad := api.val(c1); bad != "" || got.Cmp(new(big.Int).SetUint64(u)) != 0 {
			w.Fail("n/NewScalarFromUint64", fmt.Sprintf("NewScalarFromUint64(%#x) = %x %s", u, got, bad), "u", u)
		}
		// the caller owns what a constructor returns: use it as a receiver, then construct again
		c1.Add(c1, secp256k1.NewScalarFromUint64(0x1234567)).Multiply(c1, c1)
		secp256k1.NewScalar().Invert(c1)
		if got, bad := api.val(secp256k1.NewScalarFromUint64(u)); bad != "" || got.Cmp(new(big.Int).SetUint64(u)) != 0 {
			w.Fail("n/NewScalarFromUint64:shared", fmt.Sprintf("NewScalarFromUint64(%#x) = %x %s after an earlier result of the same call was used as a receiver (the constructor hands out shared objects)", u, got, bad), "u", u)
		}
		if z, o := secp256k1.NewScalar(), secp256k1.NewScalar().One(); z.IsZero() != 1 || bigFromScalar(o).Cmp(big.NewInt(1)) != 0 {
			w.Fail("n/NewScalar:shared", "NewScalar() is not zero / One() is not one after earlier results were mutated")
		} else {
			z.Add(z, o)
			o.Add(o, o)
		}
		src, cls := rng.Bytes32Any(m)
		var arr [32]byte
		copy(arr[:], src)
		v := oracle.FromBytes(src)
		canonical := v.Cmp(m) < 0
		w.Case(!canonical || cls != "uniform", []byte("ctor"), src)
		s, fl := secp256k1.NewScalarFromBytes(&arr)
		if got, bad := api.val(s); bad != "" || got.Cmp(oracle.Mod(v, m)) != 0 || fl != boolU64(!canonical) {
			w.Fail("n/NewScalarFromBytes", fmt.Sprintf("NewScalarFromBytes(%x) = (%x, %d) %s", src, got, fl, bad), "src", src)
		}
		s2, err := secp256k1.NewScalarFromCanonicalBytes(&arr)
		if canonical != (err == nil) || (err != nil && s2 != nil) {
			w.Fail("n/NewScalarFromCanonicalBytes", fmt.Sprintf("NewScalarFromCanonicalBytes(%x): err=%v", src, err), "src", src)
		} else if err == nil {
			if got, bad := api.val(s2); bad != "" || got.Cmp(v) != 0 {
				w.Fail("n/NewScalarFromCanonicalBytes", fmt.Sprintf("NewScalarFromCanonicalBytes(%x) = %x %s", src, got, bad), "src", src)
			}
		}
		a, _ := rng.Value(m)
		ea := api.mk(rng, a)
		cp := secp256k1.NewScalarFrom(ea)
		if got, bad := api.val(cp); bad != "" || got.Cmp(a) != 0 || cp == ea {
			w.Fail("n/NewScalarFrom", fmt.Sprintf("NewScalarFrom(%x) = %x %s", a, got, bad))
		}
		if got, _ := api.val(secp256k1.NewScalar()); got.Sign() != 0 {
			w.Fail("n/NewScalar", "NewScalar() is not zero")
		}
		if hk.HaveMul {
			k := uint(1 + rng.Intn(40))
			if i%11 == 0 {
				k = uint(200 + rng.Intn(100))
			}
			out := secp256k1.NewScalar()
			if i%2 == 0 {
				out = ea
			}
			hk.ScalarPow2k(out, ea, k)
			want := new(big.Int).Set(a)
			for j := uint(0); j < k; j++ {
				want = oracle.MulM(want, want, m)
			}
			if got, bad := api.val(out); bad != "" || got.Cmp(want) != 0 {
				w.Fail("n/pow2k", fmt.Sprintf("pow2k(%x, %d) = %x, expected %x %s", a, k, got, want, bad), "a", hb(a), "k", k)
			}
		}
	})
}

func min(a, b int) int {
	if a < b {
		return a
	}
	return b
}
