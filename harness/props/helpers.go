// Package props holds one monitor set per property.
package props

import (
	"bytes"
	"fmt"
	"math/big"
	"os"
	"sort"
	"strings"
	"sync/atomic"

	secp256k1 "gitlab.com/yawning/secp256k1-voi"

	"verifharness/gen"
	"verifharness/hk"
	"verifharness/mon"
	"verifharness/oracle"
)

// GCStormPaused suspends the collection loop of the dyn-gcstorm configuration (cmd/verifrun) while a
// monitor needs a window without collections (the confirm step of the C17 trace monitor).
var GCStormPaused atomic.Bool

// Prop is a registered property check.
type Prop struct {
	ID  string
	Run func(r *mon.Run)
}

var registry = map[string]*Prop{}

// Register adds a property (called from init functions).
func Register(id string, run func(r *mon.Run)) {
	registry[id] = &Prop{ID: id, Run: func(r *mon.Run) {
		// the yield build (bin/check: discover_configs, cmd/verifyield) exists for the concurrent
		// phases only: the sequential monitors would observe nothing new in it
		yield := strings.Contains(r.Config, "yield")
		if !yield || id == "C20" {
			run(r)
			runBufferReuse(r, id, r.N(80, 4000)) // reuse.go; nothing for properties without decoders
		}
		// the concurrent phase of the property (hammer.go), in every build configuration
		if b := hammerBuilders[id]; b != nil {
			rounds := r.N(2, 10)
			if yield {
				rounds = r.N(4, 20)
			}
			runHammer(r, id, rounds, b)
		}
		if id == "C08" || id == "C09" || id == "C14" {
			runFaultThenUse(r, id, r.N(30, 1000)) // faults.go
		}
		if id == "C20" && (os.Getenv("VERIF_BATCH") == "" || os.Getenv("VERIF_BATCH") == "0") {
			runFaultThenUse(r, id, r.N(10, 300)) // once per run, not once per batch process (race build)
		}
		if ops := coldConcOps[id]; ops != nil {
			n := r.N(30, 300)
			if id == "C06" || id == "C12" || id == "C15" {
				// the cheap checks can afford more fresh processes: a first-use window of a microsecond is hit
				// by a few per cent of the children (seeded change C12q was caught in one run of three with 30)
				n = r.N(150, 600)
			}
			if id == "C20" {
				// race build, one process per batch already: once per run, fewer children
				n = r.N(12, 100)
				if b := os.Getenv("VERIF_BATCH"); b != "" && b != "0" {
					n = 0
				}
			}
			if n > 0 {
				runConcurrentColdStart(r, id, n, ops)
			}
		}
	}}
}

// Get returns a registered property.
func Get(id string) *Prop { return registry[id] }

// IDs lists registered ids.
func IDs() []string {
	var out []string
	for k := range registry {
		out = append(out, k)
	}
	sort.Strings(out)
	return out
}

type (
	Point  = secp256k1.Point
	Scalar = secp256k1.Scalar
)

var (
	bigP = oracle.P
	bigN = oracle.N
)

func hx(b []byte) string         { return oracle.Hex(b) }
func hb(v *big.Int) string       { return oracle.HexBig(v) }
func b32(v *big.Int) []byte      { return oracle.Bytes32(v) }
func arr32(v *big.Int) *[32]byte { return oracle.Arr32(v) }

// scalarFromBig builds a Scalar for v in [0,n) through the canonical
// decoder.  Panics if v is out of range (harness bug).
func scalarFromBig(v *big.Int) *Scalar {
	buf := arr32(v)
	s, err := secp256k1.NewScalarFromCanonicalBytes(buf)
	if err != nil {
		panic(fmt.Sprintf("harness: scalarFromBig(%x): %v", v, err))
	}
	scribble(buf[:]) // the caller's buffer is the caller's again (see mustPriv)
	return s
}

func bigFromScalar(s *Scalar) *big.Int { return oracle.FromBytes(s.Bytes()) }

// pointFromOracle builds a Z=1 library point for an oracle point via the
// public coordinate constructor (or the identity constructor).
func pointFromOracle(p *oracle.Pt) *Point {
	if p.Inf {
		return secp256k1.NewIdentityPoint()
	}
	bx, by := arr32(p.X), arr32(p.Y)
	q, err := secp256k1.NewPointFromCoords(bx, by)
	if err != nil {
		panic(fmt.Sprintf("harness: pointFromOracle(%v): %v", p, err))
	}
	scribble(bx[:])
	scribble(by[:])
	return q
}

// pointRep builds the projective representative (x*z : y*z : z) of an
// affine oracle point, or (0 : yInf : 0) for infinity, directly through
// the unchecked raw constructor (needs the core hooks).
func pointRep(p *oracle.Pt, z *big.Int) *Point {
	if !hk.HaveCore {
		return pointFromOracle(p)
	}
	var X, Y, Z *big.Int
	if p.Inf {
		X, Y, Z = new(big.Int), oracle.Mod(z, bigP), new(big.Int)
		if Y.Sign() == 0 {
			Y = big.NewInt(1)
		}
	} else {
		Z = oracle.Mod(z, bigP)
		if Z.Sign() == 0 {
			Z = big.NewInt(1)
		}
		X = oracle.MulM(p.X, Z, bigP)
		Y = oracle.MulM(p.Y, Z, bigP)
	}
	q := new(Point)
	hk.PointSetRaw(q, montLimbsP(X), montLimbsP(Y), montLimbsP(Z), true)
	return q
}

func montLimbsP(v *big.Int) [4]uint64 { return oracle.Limbs(oracle.ToMont(v, bigP)) }
func montLimbsN(v *big.Int) [4]uint64 { return oracle.Limbs(oracle.ToMont(v, bigN)) }

// repZ picks a Z for a representative: class names are for evidence.
func repZ(r *gen.Rng) (*big.Int, string) {
	switch r.Intn(9) {
	case 7, 8:
		// Z whose STORED (Montgomery-domain) limbs have a special shape: only the high half
		// of every limb set, a single non-zero limb, all-ones limbs, a lone bit.  Predicates
		// and conversions that look at part of a limb (a narrowing cast, a dropped carry)
		// misjudge exactly such representatives.
		var l [4]uint64
		switch r.Intn(5) {
		case 0:
			for j := range l {
				l[j] = (r.U64() >> 32) << 32
			}
		case 1:
			l[r.Intn(4)] = r.U64() | 1
		case 2:
			l[r.Intn(4)] = uint64(1) << uint(r.Intn(64))
		case 3:
			for j := range l {
				l[j] = ^uint64(0)
			}
			l[3] = r.U64() >> 1
			l[0] = r.U64()
		default:
			for j := range l {
				l[j] = uint64(r.Intn(3)) << 32
			}
		}
		raw := oracle.FromLimbs(l)
		if raw.Sign() == 0 || raw.Cmp(bigP) >= 0 {
			return big.NewInt(7), "Z=7"
		}
		return oracle.FromMont(raw, bigP), "Z=montgomery-limb-pattern"
	case 0:
		return big.NewInt(1), "Z=1"
	case 1:
		return big.NewInt(2), "Z=2"
	case 2:
		return new(big.Int).Sub(bigP, big.NewInt(1)), "Z=p-1"
	case 3:
		return new(big.Int).Add(new(big.Int).Lsh(big.NewInt(1), 32), big.NewInt(977)), "Z=2^32+977"
	case 4:
		return big.NewInt(3), "Z=3"
	default:
		z := r.Below(bigP)
		if z.Sign() == 0 {
			z.SetInt64(5)
		}
		return z, "Z=random"
	}
}

// rawPoint is the hook view of a Point.
type rawPoint struct {
	X, Y, Z [4]uint64
	Valid   bool
}

func getRaw(p *Point) (rawPoint, bool) {
	x, y, z, v, ok := hk.PointRaw(p)
	return rawPoint{x, y, z, v}, ok
}

// checkPointInvariant asserts the raw-coordinate invariant of a usable
// Point and returns the abstract point computed by the oracle from the
// raw projective coordinates (independent of the library's encoder).
// ok=false means hooks are unavailable.
func checkPointInvariant(p *Point) (abs *oracle.Pt, ok bool, err error) {
	raw, ok := getRaw(p)
	if !ok {
		return nil, false, nil
	}
	if !raw.Valid {
		return nil, true, fmt.Errorf("isValid is false")
	}
	Xm, Ym, Zm := oracle.FromLimbs(raw.X), oracle.FromLimbs(raw.Y), oracle.FromLimbs(raw.Z)
	for _, l := range []*big.Int{Xm, Ym, Zm} {
		if l.Cmp(bigP) >= 0 {
			return nil, true, fmt.Errorf("raw limb vector >= p: %x", l)
		}
	}
	X, Y, Z := oracle.FromMont(Xm, bigP), oracle.FromMont(Ym, bigP), oracle.FromMont(Zm, bigP)
	if Z.Sign() == 0 {
		if X.Sign() != 0 || Y.Sign() == 0 {
			return nil, true, fmt.Errorf("Z=0 but (X,Y)=(%x,%x) is not (0,nonzero)", X, Y)
		}
		return oracle.Infinity(), true, nil
	}
	// Y^2 Z = X^3 + 7 Z^3
	lhs := oracle.MulM(oracle.MulM(Y, Y, bigP), Z, bigP)
	z3 := oracle.MulM(oracle.MulM(Z, Z, bigP), Z, bigP)
	rhs := oracle.AddM(oracle.MulM(oracle.MulM(X, X, bigP), X, bigP), oracle.MulM(big.NewInt(7), z3, bigP), bigP)
	if lhs.Cmp(rhs) != 0 {
		return nil, true, fmt.Errorf("projective point not on curve: X=%x Y=%x Z=%x", X, Y, Z)
	}
	zi := oracle.InvFast(Z, bigP)
	return &oracle.Pt{X: oracle.MulM(X, zi, bigP), Y: oracle.MulM(Y, zi, bigP)}, true, nil
}

// pointAbs returns the abstract point of p as observed through the
// public encoder (UncompressedBytes) decoded by the oracle.
func pointAbs(p *Point) (*oracle.Pt, error) {
	enc := p.UncompressedBytes()
	q, err := oracle.DecodePoint(enc)
	if err != nil {
		return nil, fmt.Errorf("library encoding %x is not a valid SEC 1 point", enc)
	}
	if len(enc) != 1 && len(enc) != 65 {
		return nil, fmt.Errorf("UncompressedBytes returned %d bytes", len(enc))
	}
	return q, nil
}

// expectPoint compares a library point with the expected abstract point
// through (a) the raw invariant + oracle-side normalisation when hooks
// are present and (b) both public encodings.  Returns "" if all agree.
func expectPoint(p *Point, want *oracle.Pt) string {
	if abs, ok, err := checkPointInvariant(p); ok {
		if err != nil {
			return "invariant: " + err.Error()
		}
		if !abs.Eq(want) {
			return fmt.Sprintf("raw coordinates denote %v, expected %v", abs, want)
		}
	}
	if got, wantB := p.UncompressedBytes(), oracle.EncodeUncompressed(want); !bytes.Equal(got, wantB) {
		return fmt.Sprintf("UncompressedBytes = %x, expected %x", got, wantB)
	}
	if got, wantB := p.CompressedBytes(), oracle.EncodeCompressed(want); !bytes.Equal(got, wantB) {
		return fmt.Sprintf("CompressedBytes = %x, expected %x", got, wantB)
	}
	return ""
}

// snapshotPoint captures everything observable about a point so that
// "receiver unchanged" can be asserted bit for bit.
type pointSnap struct {
	raw    rawPoint
	hasRaw bool
	valid  bool // usable as operand (from panic probe when no hooks)
	enc    []byte
}

func snapPoint(p *Point) pointSnap {
	var s pointSnap
	s.raw, s.hasRaw = getRaw(p)
	if s.hasRaw {
		s.valid = s.raw.Valid
	} else {
		pan, _ := mon.Panics(func() { p.IsIdentity() })
		s.valid = !pan
	}
	if s.valid {
		s.enc = p.UncompressedBytes()
	}
	return s
}

func (a pointSnap) equal(b pointSnap) bool {
	if a.hasRaw != b.hasRaw || a.valid != b.valid || !bytes.Equal(a.enc, b.enc) {
		return false
	}
	if a.hasRaw && a.raw != b.raw {
		return false
	}
	return true
}

// knownPointPool builds a deterministic pool of abstract points with
// names: infinity, small multiples, half-order neighbours, lambda images,
// special-coordinate points and seeded random points.
type namedPt struct {
	Name string
	P    *oracle.Pt
	K    *big.Int // discrete log if known (nil otherwise)
}

func knownPointPool(seed int64, nRandom int) []namedPt {
	var out []namedPt
	add := func(name string, k *big.Int) {
		k = oracle.Mod(k, bigN)
		out = append(out, namedPt{name, oracle.MulG(k), k})
	}
	out = append(out, namedPt{"inf", oracle.Infinity(), new(big.Int)})
	for i := int64(1); i <= 8; i++ {
		add(fmt.Sprintf("%dG", i), big.NewInt(i))
		add(fmt.Sprintf("-%dG", i), big.NewInt(-i))
	}
	add("15G", big.NewInt(15))
	add("16G", big.NewInt(16))
	add("17G", big.NewInt(17))
	add("halfN*G", oracle.HalfN)
	add("(halfN+1)*G", new(big.Int).Add(oracle.HalfN, big.NewInt(1)))
	add("lambda*G", oracle.Lambda)
	add("lambda^2*G", oracle.MulM(oracle.Lambda, oracle.Lambda, bigN))
	add("-lambda*G", new(big.Int).Neg(oracle.Lambda))
	add("2^128*G", new(big.Int).Lsh(big.NewInt(1), 128))
	for _, sp := range specialPoints() {
		out = append(out, sp, namedPt{"-" + sp.Name, oracle.Neg(sp.P), nil})
	}
	rng := gen.New(seed, 0, "pool")
	for i := 0; i < nRandom; i++ {
		add(fmt.Sprintf("rnd%d", i), rng.Below(bigN))
	}
	return out
}

var specialCache []namedPt

// specialPoints returns curve points with unusual coordinates: tiny x,
// tiny y, x in [n,p), x < p-n (found by cheap deterministic searches).
func specialPoints() []namedPt {
	if specialCache != nil {
		return specialCache
	}
	var out []namedPt
	// small x
	cnt := 0
	for x := int64(1); cnt < 4 && x < 200; x++ {
		if p := oracle.LiftX(big.NewInt(x), 0); p != nil {
			out = append(out, namedPt{fmt.Sprintf("x=%d", x), p, nil})
			cnt++
		}
	}
	// small y: x^3 = y^2 - 7 ; cube root exists iff (y^2-7)^((p-1)/3) == 1.
	// p = 1 mod 3; cube root of c (when it exists) is c^((p+2)/9)?  p mod 9:
	// use generic: try c^((2p+1)/9)-style exponents is fragile, so search
	// by testing candidates r = c^e for e = ((p-1)/3+1)/3 when integral.
	cnt = 0
	pm1o3 := new(big.Int).Div(new(big.Int).Sub(bigP, big.NewInt(1)), big.NewInt(3))
	for y := int64(1); cnt < 3 && y < 400; y++ {
		c := oracle.SubM(big.NewInt(y*y), big.NewInt(7), bigP)
		if c.Sign() == 0 || new(big.Int).Exp(c, pm1o3, bigP).Cmp(big.NewInt(1)) != 0 {
			continue
		}
		if x := cubeRootP(c); x != nil {
			p := &oracle.Pt{X: x, Y: big.NewInt(y)}
			if oracle.OnCurve(p) {
				out = append(out, namedPt{fmt.Sprintf("y=%d", y), p, nil})
				cnt++
			}
		}
	}
	// x in [n, p)
	cnt = 0
	for d := int64(0); cnt < 3 && d < 400; d++ {
		x := new(big.Int).Add(bigN, big.NewInt(d))
		if p := oracle.LiftX(x, uint(d&1)); p != nil {
			out = append(out, namedPt{fmt.Sprintf("x=n+%d", d), p, nil})
			cnt++
		}
	}
	// x just below p - n (so x + n < p is another valid candidate) and
	// x = p - n + small (x + n >= p)
	pmn := new(big.Int).Sub(bigP, bigN)
	cnt = 0
	for d := int64(1); cnt < 2 && d < 400; d++ {
		x := new(big.Int).Sub(pmn, big.NewInt(d))
		if p := oracle.LiftX(x, 0); p != nil {
			out = append(out, namedPt{fmt.Sprintf("x=p-n-%d", d), p, nil})
			cnt++
		}
	}
	cnt = 0
	for d := int64(0); cnt < 2 && d < 400; d++ {
		x := new(big.Int).Add(pmn, big.NewInt(d))
		if p := oracle.LiftX(x, 1); p != nil {
			out = append(out, namedPt{fmt.Sprintf("x=p-n+%d", d), p, nil})
			cnt++
		}
	}
	// x = p - small
	cnt = 0
	for d := int64(1); cnt < 2 && d < 400; d++ {
		x := new(big.Int).Sub(bigP, big.NewInt(d))
		if p := oracle.LiftX(x, 0); p != nil {
			out = append(out, namedPt{fmt.Sprintf("x=p-%d", d), p, nil})
			cnt++
		}
	}
	// coordinates (and curve-equation sides) whose STORED, Montgomery-domain form c is tiny:
	// a product whose stored result is below 2^256 - p is the one case in which the
	// pre-subtraction value of a Montgomery multiplication lands in [p, 2^256)
	// (c + p still fits in 256 bits), so square-root checks and on-curve tests on these
	// points compare such products.  x = c/R; y = c/R; x^3 + 7 = c/R.
	rinv := oracle.RinvP
	cntX, cntY, cntR := 0, 0, 0
	for c := int64(1); c < 3000 && (cntX < 3 || cntY < 3 || cntR < 4); c++ {
		v := oracle.MulM(big.NewInt(c), rinv, bigP)
		if cntX < 3 {
			if p := oracle.LiftX(v, uint(c&1)); p != nil {
				out = append(out, namedPt{fmt.Sprintf("x=%d/R", c), p, nil})
				cntX++
			}
		}
		if cntY < 3 {
			cc := oracle.SubM(oracle.MulM(v, v, bigP), big.NewInt(7), bigP)
			if cc.Sign() != 0 && new(big.Int).Exp(cc, pm1o3, bigP).Cmp(big.NewInt(1)) == 0 {
				if x := cubeRootP(cc); x != nil {
					if p := (&oracle.Pt{X: x, Y: v}); oracle.OnCurve(p) {
						out = append(out, namedPt{fmt.Sprintf("y=%d/R", c), p, nil})
						cntY++
					}
				}
			}
		}
		if cntR < 4 {
			// x^3 + 7 = v: on the curve iff v is a square
			cc := oracle.SubM(v, big.NewInt(7), bigP)
			if oracle.IsSquareP(v) && cc.Sign() != 0 && new(big.Int).Exp(cc, pm1o3, bigP).Cmp(big.NewInt(1)) == 0 {
				if x := cubeRootP(cc); x != nil {
					if p := oracle.LiftX(x, uint(c&1)); p != nil {
						out = append(out, namedPt{fmt.Sprintf("x^3+7=%d/R", c), p, nil})
						cntR++
					}
				}
			}
		}
	}
	specialCache = out
	return out
}

// cubeRootP returns a cube root of c mod p when c is a cubic residue.
// p = 7 mod 9, so r = c^((p+2)/9) satisfies r^3 = c * c^((p-1)/3) = c.
func cubeRootP(c *big.Int) *big.Int {
	e := new(big.Int).Add(bigP, big.NewInt(2))
	if new(big.Int).Mod(e, big.NewInt(9)).Sign() != 0 {
		return nil
	}
	e.Div(e, big.NewInt(9))
	r := new(big.Int).Exp(c, e, bigP)
	if oracle.MulM(oracle.MulM(r, r, bigP), r, bigP).Cmp(oracle.Mod(c, bigP)) != 0 {
		return nil
	}
	return r
}

// scalarValue draws a scalar value with its class.
func scalarValue(r *gen.Rng) (*big.Int, string) { return r.Value(bigN) }

// digestOf returns a digest of the requested length derived from rng.
func digestOf(r *gen.Rng, n int) []byte { return r.Bytes(n) }

func boolU64(b bool) uint64 {
	if b {
		return 1
	}
	return 0
}

// hostileLayout copies the given byte strings back to back into ONE buffer and
// returns them as sub-slices whose capacity runs into whatever follows (the next
// input, then 32 canary bytes).  A callee that appends to, or writes through, an
// input slice corrupts its neighbour.  check reports any change of the buffer.
func hostileLayout(in ...[]byte) (out [][]byte, check func() string) {
	total := 0
	for _, b := range in {
		total += len(b)
	}
	buf := make([]byte, 0, total+32)
	for _, b := range in {
		buf = append(buf, b...)
	}
	buf = append(buf, bytes.Repeat([]byte{0xa5}, 32)...)
	keep := append([]byte{}, buf...)
	off := 0
	for _, b := range in {
		out = append(out, buf[off:off+len(b)])
		off += len(b)
	}
	return out, func() string {
		if !bytes.Equal(buf, keep) {
			return fmt.Sprintf("the caller's buffer changed: before %x, after %x", keep, buf)
		}
		return ""
	}
}

// observersAgree checks every PUBLIC observer of p against the abstract point m:
// identity / parity tests and all three encodings (a per-object hint or flag that
// went stale - "this point is affine", "already rescaled" - leaves the raw
// coordinates right and the encodings wrong, so the raw invariant is not enough).
func observersAgree(p *Point, m *oracle.Pt) string {
	if g := p.IsIdentity(); g != boolU64(m.Inf) {
		return fmt.Sprintf("IsIdentity = %d for the abstract point %v", g, m)
	}
	c, u := p.CompressedBytes(), p.UncompressedBytes()
	if !bytes.Equal(c, oracle.EncodeCompressed(m)) {
		return fmt.Sprintf("CompressedBytes = %x, expected %x", c, oracle.EncodeCompressed(m))
	}
	if !bytes.Equal(u, oracle.EncodeUncompressed(m)) {
		return fmt.Sprintf("UncompressedBytes = %x, expected %x", u, oracle.EncodeUncompressed(m))
	}
	xb, err := p.XBytes()
	if m.Inf {
		if err == nil {
			return "XBytes of the identity did not fail"
		}
		return ""
	}
	if err != nil || !bytes.Equal(xb, b32(m.X)) {
		return fmt.Sprintf("XBytes = %x (err %v), expected %x", xb, err, m.X)
	}
	if g := p.IsYOdd(); g != uint64(m.Y.Bit(0)) {
		return fmt.Sprintf("IsYOdd = %d, y = %x", g, m.Y)
	}
	return ""
}

// freshPointVia builds a library point for the abstract point m through one of the
// PUBLIC constructors / decoders (affine results), or through the raw hook with a
// non-trivial Z.  into, when non-nil, may be reused as the receiver of a decode.
func freshPointVia(rng *gen.Rng, m *oracle.Pt, into *Point) (*Point, string) {
	switch k := rng.Intn(7); {
	case m.Inf && k < 3:
		return secp256k1.NewIdentityPoint(), "NewIdentityPoint"
	case m.Inf && k < 5 && into != nil:
		into.Identity()
		return into, "Identity() on a reused receiver"
	case !m.Inf && k == 0:
		p, err := secp256k1.NewPointFromBytes(oracle.EncodeCompressed(m))
		if err == nil {
			return p, "NewPointFromBytes(compressed)"
		}
	case !m.Inf && k == 1:
		p, err := secp256k1.NewPointFromBytes(oracle.EncodeUncompressed(m))
		if err == nil {
			return p, "NewPointFromBytes(uncompressed)"
		}
	case !m.Inf && k == 2:
		p, err := secp256k1.NewPointFromCoords(arr32(m.X), arr32(m.Y))
		if err == nil {
			return p, "NewPointFromCoords"
		}
	case !m.Inf && k == 3 && into != nil:
		if _, err := into.SetBytes(oracle.EncodeCompressed(m)); err == nil {
			return into, "SetBytes(compressed) on a reused receiver"
		}
	case !m.Inf && k == 4 && m.Eq(oracle.G()):
		return secp256k1.NewGeneratorPoint(), "NewGeneratorPoint"
	}
	z, cz := repZ(rng)
	return pointRep(m, z), "raw[" + cz + "]"
}

// pointWithHistory returns a library object denoting m whose OBJECT has a past:
// it first held a different point built by a public affine constructor (decoder,
// NewPointFromCoords, NewGeneratorPoint), and was then overwritten - as a reused
// receiver - with a projective representative of m by one of the closed operations.
// Per-object hints that an operation forgets to refresh survive exactly this.
func pointWithHistory(rng *gen.Rng, m *oracle.Pt) (*Point, string) {
	other := oracle.MulG(big.NewInt(int64(2 + rng.Intn(50))))
	obj, how0 := freshPointVia(rng, other, nil)
	z, _ := repZ(rng)
	src := pointRep(m, z)
	var how string
	switch rng.Intn(7) {
	case 0:
		obj.ConditionalSelect(pointRep(other, big.NewInt(5)), src, 1)
		how = "ConditionalSelect(_, src, 1)"
	case 1:
		obj.ConditionalSelect(src, pointRep(other, big.NewInt(5)), 0)
		how = "ConditionalSelect(src, _, 0)"
	case 2:
		obj.Negate(pointRep(oracle.Neg(m), z))
		how = "Negate(-src)"
	case 3:
		obj.ConditionalNegate(pointRep(oracle.Neg(m), z), 1)
		how = "ConditionalNegate(-src, 1)"
	case 4:
		obj.Set(src)
		how = "Set(src)"
	case 5:
		obj.Add(src, secp256k1.NewIdentityPoint())
		how = "Add(src, identity)"
	default:
		obj.Subtract(src, secp256k1.NewIdentityPoint())
		how = "Subtract(src, identity)"
	}
	return obj, how0 + " then " + how
}

// gapValue draws k in [0, 2^256-p) = [0, 2^32+977): the values whose alias k+p
// still fits 32 bytes.  The classes follow the structure of p's low limb
// 0xfffffffe_fffffc2f (k = 977 is where k+p carries into the upper half of that
// limb, k = 2^32+976 is 2^256-1), so a canonical-encoding test that compares in
// halves, bytes or limbs and gets one comparison wrong is hit whichever it is.
func gapValue(r *gen.Rng) *big.Int {
	const gap = uint64(1)<<32 + 977
	var k uint64
	switch r.Intn(8) {
	case 0:
		k = 977 + uint64(r.Intn(9)) - 4
	case 1:
		k = uint64(1)<<32 + uint64(r.Intn(9)) - 4
	case 2:
		k = gap - 1 - uint64(r.Intn(600))
	case 3:
		k = uint64(1)<<uint(r.Intn(33)) + uint64(r.Intn(3)) - 1
	case 4:
		k = 977 + uint64(1)<<uint(r.Intn(32)) + uint64(r.Intn(3)) - 1
	case 5:
		k = uint64(r.Intn(1 << 16))
	default:
		k = r.U64() % gap
	}
	return new(big.Int).SetUint64(k % gap)
}

// gapPointX returns a curve point whose x lies in [0, 2^256-p) (so that x+p is a
// 32-byte alias of a VALID coordinate), x drawn by gapValue and moved upwards to
// the next abscissa on the curve.
func gapPointX(r *gen.Rng) *oracle.Pt {
	k := gapValue(r)
	lim := new(big.Int).Sub(oracle.Two256, bigP)
	for i := 0; i < 64; i++ {
		if k.Cmp(lim) >= 0 {
			k.SetInt64(int64(r.Intn(1000)))
		}
		if p := oracle.LiftX(k, uint(r.Intn(2))); p != nil {
			return p
		}
		k = new(big.Int).Add(k, big.NewInt(1))
	}
	return oracle.LiftX(big.NewInt(1), 0)
}

// gapPointY is the same for the ordinate (x = cube root of y^2 - 7, exists for a third of the y).
func gapPointY(r *gen.Rng) *oracle.Pt {
	k := gapValue(r)
	lim := new(big.Int).Sub(oracle.Two256, bigP)
	pm1o3 := new(big.Int).Div(new(big.Int).Sub(bigP, big.NewInt(1)), big.NewInt(3))
	for i := 0; i < 200; i++ {
		if k.Cmp(lim) >= 0 {
			k.SetInt64(int64(1 + r.Intn(1000)))
		}
		c := oracle.SubM(new(big.Int).Mul(k, k), big.NewInt(7), bigP)
		if c.Sign() != 0 && new(big.Int).Exp(c, pm1o3, bigP).Cmp(big.NewInt(1)) == 0 {
			if x := cubeRootP(c); x != nil {
				p := &oracle.Pt{X: x, Y: new(big.Int).Set(k)}
				if oracle.OnCurve(p) {
					return p
				}
			}
		}
		k = new(big.Int).Add(k, big.NewInt(1))
	}
	return nil
}
