package props

import (
	"bytes"
	"crypto"
	_ "crypto/sha256"
	"fmt"
	"math/big"
	"os"
	"sort"
	"strconv"
	"strings"
	"sync"
	"sync/atomic"

	secp256k1 "gitlab.com/yawning/secp256k1-voi"
	"gitlab.com/yawning/secp256k1-voi/secec"
	"gitlab.com/yawning/secp256k1-voi/secec/bitcoin"
	"gitlab.com/yawning/secp256k1-voi/secec/h2c"

	"verifharness/gen"
	"verifharness/mon"
	"verifharness/oracle"
)

func init() { Register("C20", runC20) }

// c20Shared is the small set of objects every goroutine uses read-only.
type c20Shared struct {
	privs   []*secec.PrivateKey
	pubs    []*secec.PublicKey
	sprivs  []*bitcoin.SchnorrPrivateKey
	spubs   []*bitcoin.SchnorrPublicKey
	points  []*Point
	scalars []*Scalar
	digests [][]byte
	sigs    [][]byte              // ASN.1 signatures by privs[i] over digests[i]
	ssigs   [][]byte              // Schnorr signatures by sprivs[i] over digests[i]
	dsts    [][]byte              // domain separation tags: short, 255, 256 and two different oversize ones
	opts    []*secec.ECDSAOptions // options objects shared by all goroutines (read-only operands)
	// argument SLICES shared by all goroutines: lists for the multi-scalar routines with a
	// zero scalar and an identity point in the middle (terms an implementation may want to
	// move out of the way)
	msmS []*Scalar
	msmP []*Point
	// a list of 2100 terms over the shared points (first batch of a run only: seconds under the race detector)
	longS []*Scalar
	longP []*Point
	// what the reference model recovers from sigs[i] for ids 0..3 (compressed; nil: no key)
	recWant [][4][]byte
}

// a result that contradicts the reference model in the concurrent AND in the sequential pass
// (so that comparing the two passes says nothing): first message wins
var c20ModelMismatch atomic.Pointer[string]

func buildShared(seed int64, batch int) *c20Shared {
	rng := gen.New(seed, batch, "C20", "shared")
	s := &c20Shared{}
	for i := 0; i < 3; i++ {
		d, _ := keyValue(rng)
		k := mustPriv(d)
		s.privs = append(s.privs, k)
		s.pubs = append(s.pubs, k.PublicKey())
		sk := bitcoin.NewSchnorrPrivateKeyFromECDSA(k)
		s.sprivs = append(s.sprivs, sk)
		s.spubs = append(s.spubs, sk.PublicKey())
		dig := rng.Bytes(32)
		s.digests = append(s.digests, dig)
		// signatures come from the reference model, so that building the shared set does
		// not itself perform (and thereby warm up) the operations under test
		r0, s0, _, _, _ := oracle.RFC6979Sign(d, dig)
		s.sigs = append(s.sigs, oracle.DERWriteSig(r0, s0))
		var rw [4][]byte
		for id := 0; id < 4; id++ {
			if m := oracle.ECDSARecover(dig, r0, s0, id); m != nil && !m.Inf {
				rw[id] = oracle.EncodeCompressed(m)
			}
		}
		s.recWant = append(s.recWant, rw)
		s.ssigs = append(s.ssigs, oracle.BIP340Sign(d, rng.Bytes(32), dig))
	}
	// the tags are adjacent sub-slices of ONE blob, each with capacity running into the next
	// tag (what `blob[a:b]` gives a caller): a callee appending to its tag argument writes
	// into the neighbouring tag, which other goroutines are reading
	{
		parts := [][]byte{[]byte("verif-c20"), bytes.Repeat([]byte{'a'}, 255), []byte("another-short-tag"), bytes.Repeat([]byte{'b'}, 256), append(bytes.Repeat([]byte{'c'}, 300), rng.Bytes(8)...), []byte("QUUX-V01-CS02-with-secp256k1_XMD:SHA-256_SSWU_RO_"), append(bytes.Repeat([]byte{'d'}, 1000), rng.Bytes(8)...)}
		var blob []byte
		for _, p := range parts {
			blob = append(blob, p...)
		}
		blob = append(blob, make([]byte, 64)...)
		off := 0
		for _, p := range parts {
			s.dsts = append(s.dsts, blob[off:off+len(p)])
			off += len(p)
		}
	}
	defer func() {
		if batch == 0 {
			for i := 0; i < 2100; i++ {
				s.longS = append(s.longS, s.scalars[i%len(s.scalars)])
				s.longP = append(s.longP, s.points[(i*7+i/5)%len(s.points)])
			}
		}
		s.msmS = []*Scalar{s.scalars[0], secp256k1.NewScalar(), s.scalars[1], s.scalars[2], secp256k1.NewScalarFromUint64(7), s.scalars[3]}
		s.msmP = []*Point{s.points[0], s.points[1], secp256k1.NewIdentityPoint(), s.points[2], s.points[3], s.points[0]}
	}()
	s.opts = []*secec.ECDSAOptions{{}, {RejectMalleable: true}, {Encoding: secec.EncodingCompact}, {Hash: crypto.SHA256, SelfVerify: true}}
	pool := knownPointPool(seed, 3)
	for i := 0; i < 4; i++ {
		P := pool[(i*7)%len(pool)]
		z, _ := repZ(rng)
		s.points = append(s.points, pointRep(P.P, z))
		v, _ := rng.Value(bigN)
		s.scalars = append(s.scalars, scalarFromBig(v))
	}
	return s
}

// c20Call performs one read-only call on shared objects; obj identifies
// the main shared object (for the overlap statistics).
const c20Ops = 41

func c20Call(s *c20Shared, rng *gen.Rng, force int) (name string, obj int, out []byte) {
	ki := rng.Intn(len(s.privs))
	pi := rng.Intn(len(s.points))
	si := rng.Intn(len(s.scalars))
	k, pub := s.privs[ki], s.pubs[ki]
	op := rng.Intn(c20Ops)
	if force >= 0 {
		op = force
	}
	switch op {
	case 0:
		sig, err := k.Sign(secec.RFC6979SHA256(), s.digests[ki], &secec.ECDSAOptions{Encoding: secec.SignatureEncoding(rng.Intn(3)), SelfVerify: rng.Bool()})
		return "Sign/rfc6979", ki, append(sig, []byte(fmt.Sprint(err))...)
	case 1:
		sig, err := k.Sign(&fixedReader{data: rng.Bytes(32)}, s.digests[rng.Intn(len(s.digests))], nil)
		return "Sign/fixed-entropy", ki, append(sig, []byte(fmt.Sprint(err))...)
	case 2:
		dig := s.digests[rng.Intn(len(s.digests))]
		sig, err := k.Sign(nil, dig, nil) // system randomness: only the verdict is deterministic
		ok := err == nil && pub.Verify(dig, sig, nil)
		return "Sign/system-rand+Verify", ki, []byte{byte(boolU64(ok))}
	case 3:
		j := rng.Intn(len(s.sigs))
		return "Verify", ki, []byte{byte(boolU64(pub.Verify(s.digests[j], s.sigs[j], &secec.ECDSAOptions{RejectMalleable: true})))}
	case 4:
		r, sc, _ := secec.ParseASN1Signature(s.sigs[ki])
		var out []byte
		// all four candidate keys are recovered first and USED afterwards: a key object belongs
		// to the caller from the moment it is returned, whatever is recovered next (here or on
		// another goroutine)
		var keys [4]*secec.PublicKey
		for id := byte(0); id < 4; id++ {
			q, err := secec.RecoverPublicKey(s.digests[ki], r, sc, id)
			if err == nil {
				keys[id] = q
				out = append(out, byte(boolU64(q.Equal(pub))))
			} else {
				out = append(out, 2)
			}
		}
		for id, q := range keys {
			if q == nil {
				continue
			}
			out = append(out, q.Point().CompressedBytes()...)
			out = append(out, q.CompressedBytes()...)
			out = append(out, byte(boolU64(q.VerifyRaw(s.digests[ki], r, sc))))
			if want := s.recWant[ki][id]; want != nil && !bytes.Equal(q.Point().CompressedBytes(), want) {
				c20ModelMismatch.CompareAndSwap(nil, &[]string{fmt.Sprintf("RecoverPublicKey(signature of key %d, id %d): the returned key object, used after the other candidate keys had been recovered, holds the point %x; the reference model recovers %x", ki, id, q.Point().CompressedBytes(), want)}[0])
			}
		}
		return "RecoverPublicKey", ki, out
	case 5:
		sh, err := k.ECDH(s.pubs[rng.Intn(len(s.pubs))])
		return "ECDH", ki, append(sh, []byte(fmt.Sprint(err))...)
	case 6:
		return "ScalarMult", 100 + pi, new(Point).ScalarMult(s.scalars[si], s.points[pi]).UncompressedBytes()
	case 7:
		return "ScalarBaseMult", 200 + si, new(Point).ScalarBaseMult(s.scalars[si]).CompressedBytes()
	case 8:
		l := 2 + rng.Intn(3)
		ss, ps := make([]*Scalar, l), make([]*Point, l)
		for i := range ss {
			ss[i], ps[i] = s.scalars[rng.Intn(len(s.scalars))], s.points[rng.Intn(len(s.points))]
		}
		a := new(Point).MultiScalarMult(ss, ps).UncompressedBytes()
		b := new(Point).MultiScalarMultVartime(ss, ps).UncompressedBytes()
		return "MultiScalarMult[Vartime]", 100 + pi, append(a, b...)
	case 9:
		return "DoubleScalarMultBasepointVartime", 100 + pi, new(Point).DoubleScalarMultBasepointVartime(s.scalars[si], s.scalars[(si+1)%len(s.scalars)], s.points[pi]).UncompressedBytes()
	case 10:
		return "PrivateKey accessors", ki, append(append(k.Bytes(), k.Scalar().Bytes()...), k.PublicKey().Bytes()...)
	case 11:
		return "PublicKey accessors", ki, append(append(append(pub.Bytes(), pub.CompressedBytes()...), pub.ASN1Bytes()...), pub.Point().CompressedBytes()...)
	case 12:
		o := s.pubs[rng.Intn(len(s.pubs))]
		return "Key Equal", ki, []byte{byte(boolU64(pub.Equal(o))), byte(boolU64(k.Equal(s.privs[rng.Intn(len(s.privs))])))}
	case 13:
		p := s.points[pi]
		xb, _ := p.XBytes()
		return "Point encoders+observers", 100 + pi, append(append(append(p.UncompressedBytes(), p.CompressedBytes()...), xb...), byte(p.IsYOdd()), byte(p.IsIdentity()), byte(p.Equal(s.points[rng.Intn(len(s.points))])))
	case 14:
		a, b := s.points[pi], s.points[rng.Intn(len(s.points))]
		o := append(new(Point).Add(a, b).UncompressedBytes(), new(Point).Subtract(a, b).UncompressedBytes()...)
		o = append(o, new(Point).Double(a).CompressedBytes()...)
		o = append(o, new(Point).Negate(a).CompressedBytes()...)
		o = append(o, secp256k1.NewPointFrom(b).CompressedBytes()...)
		return "Point arithmetic (private receivers)", 100 + pi, o
	case 15:
		a, b := s.scalars[si], s.scalars[rng.Intn(len(s.scalars))]
		o := append(secp256k1.NewScalar().Multiply(a, b).Bytes(), secp256k1.NewScalar().Invert(a).Bytes()...)
		o = append(o, secp256k1.NewScalar().Sum(a, b, a).Bytes()...)
		o = append(o, a.Bytes()...)
		o = append(o, byte(a.IsGreaterThanHalfN()), byte(a.Equal(b)), byte(a.IsZero()))
		return "Scalar arithmetic (private receivers)", 200 + si, o
	case 16:
		sk := s.sprivs[ki]
		sig, err := sk.Sign(&fixedReader{data: rng.Bytes(32)}, s.digests[rng.Intn(len(s.digests))], nil)
		return "Schnorr Sign", 300 + ki, append(sig, []byte(fmt.Sprint(err))...)
	case 17:
		j := rng.Intn(len(s.ssigs))
		return "Schnorr Verify", 300 + ki, []byte{byte(boolU64(s.spubs[ki].Verify(s.digests[j], s.ssigs[j])))}
	case 18:
		sk := s.sprivs[ki]
		return "Schnorr accessors", 300 + ki, append(append(append(sk.Bytes(), sk.Scalar().Bytes()...), sk.PublicKey().Bytes()...), s.spubs[ki].Point().CompressedBytes()...)
	case 19:
		p, err := h2c.Secp256k1_XMD_SHA256_SSWU_RO([]byte("verif-c20"), s.digests[ki])
		if err != nil {
			return "h2c RO", 400, []byte(err.Error())
		}
		return "h2c RO", 400, p.UncompressedBytes()
	case 20:
		p, _ := h2c.Secp256k1_XMD_SHA256_SSWU_NU(s.digests[ki], s.sigs[ki])
		return "h2c NU", 400, p.CompressedBytes()
	case 21:
		p, err := secp256k1.NewPointFromBytes(pub.CompressedBytes())
		if err != nil {
			return "decode shared encoding", ki, []byte(err.Error())
		}
		return "decode shared encoding", ki, p.UncompressedBytes()
	case 22:
		q, err := secec.ParseASN1PublicKey(pub.ASN1Bytes())
		return "ParseASN1PublicKey", ki, []byte(fmt.Sprint(err == nil && q.Equal(pub)))
	case 23:
		r, sc, v, err := k.SignRaw(secec.RFC6979SHA256(), s.digests[ki])
		if err != nil {
			return "SignRaw", ki, []byte(err.Error())
		}
		return "SignRaw", ki, append(append(r.Bytes(), sc.Bytes()...), v)
	case 24:
		spk := bitcoin.NewSchnorrPublicKeyFromECDSA(pub)
		return "NewSchnorrPublicKeyFromECDSA", ki, spk.Bytes()
	case 25:
		// the caller composes its tags in a PRIVATE buffer that it reuses: three calls with tags of one
		// length and different contents at one address, each against the reference model (a memo that
		// remembers the caller's slice instead of its contents; other goroutines do the same with theirs)
		base := s.dsts[rng.Intn(len(s.dsts))]
		buf := make([]byte, len(base), len(base)+8)
		msg := s.digests[rng.Intn(len(s.digests))]
		var out []byte
		for j := 0; j < 3; j++ {
			copy(buf, base)
			buf[len(buf)-1] ^= byte(j * 7)
			buf[0] ^= byte(j)
			p, err := h2c.Secp256k1_XMD_SHA256_SSWU_RO(buf, msg)
			m, _, merr := oracle.HashToCurveRO(msg, buf)
			switch {
			case err != nil || merr != nil:
				out = append(out, []byte(fmt.Sprint(err, merr))...)
			case !bytes.Equal(p.CompressedBytes(), oracle.EncodeCompressed(m)):
				out = append(out, []byte(fmt.Sprintf("call %d with the %d-byte tag %x.. in a reused private buffer: %x, reference model %x;", j, len(buf), buf[:4], p.CompressedBytes(), oracle.EncodeCompressed(m)))...)
			default:
				out = append(out, 1)
			}
		}
		return "h2c RO (tags composed in a reused private buffer; 010101 = all three equal the reference model)", 400, out
	case 26:
		dst := s.dsts[rng.Intn(len(s.dsts))]
		p, err := h2c.Secp256k1_XMD_SHA256_SSWU_RO(dst, s.digests[rng.Intn(len(s.digests))])
		if err != nil {
			return "h2c RO (all DST lengths)", 400, []byte(err.Error())
		}
		return "h2c RO (all DST lengths)", 400, p.UncompressedBytes()
	case 27:
		dst := s.dsts[rng.Intn(len(s.dsts))]
		p, err := h2c.Secp256k1_XMD_SHA256_SSWU_NU(dst, s.sigs[rng.Intn(len(s.sigs))])
		if err != nil {
			return "h2c NU (all DST lengths)", 400, []byte(err.Error())
		}
		return "h2c NU (all DST lengths)", 400, p.CompressedBytes()
	case 28:
		src := append(append([]byte{}, s.digests[ki]...), s.digests[(ki+1)%len(s.digests)][:16]...)
		return "SetUniformBytes", 400, new(Point).SetUniformBytes(src).UncompressedBytes()
	case 29:
		r, sc, err := secec.ParseASN1Signature(s.sigs[ki])
		if err != nil {
			return "Verify compact/recoverable", ki, []byte(err.Error())
		}
		out := []byte{byte(boolU64(pub.Verify(s.digests[ki], secec.BuildCompactSignature(r, sc), &secec.ECDSAOptions{Encoding: secec.EncodingCompact, RejectMalleable: true})))}
		for id := byte(0); id < 4; id++ {
			out = append(out, byte(boolU64(pub.Verify(s.digests[ki], secec.BuildCompactRecoverableSignature(r, sc, id), &secec.ECDSAOptions{Encoding: secec.EncodingCompactRecoverable}))))
		}
		out = append(out, byte(boolU64(pub.VerifyRaw(s.digests[ki], r, sc))))
		return "Verify compact/recoverable/raw", ki, append(out, secec.BuildASN1Signature(r, sc)...)
	case 30:
		j := rng.Intn(len(s.sigs))
		sig := append(append([]byte{}, s.sigs[j]...), 0x01)
		return "bitcoin.VerifyASN1+BIP66", ki, []byte{byte(boolU64(bitcoin.VerifyASN1(pub, s.digests[j], sig))), byte(boolU64(bitcoin.IsValidSignatureEncodingBIP0066(sig)))}
	case 31:
		h, err := bitcoin.PreHashSchnorrMessage("verif/c20", s.sigs[ki])
		if err != nil {
			return "PreHashSchnorrMessage", 300 + ki, []byte(err.Error())
		}
		sig, err := s.sprivs[ki].Sign(&fixedReader{data: s.digests[ki]}, h, nil)
		return "PreHash+Schnorr Sign+Verify", 300 + ki, append(append(h, sig...), byte(boolU64(err == nil && s.spubs[ki].Verify(h, sig))))
	case 32:
		pk2, _ := k.Public().(*secec.PublicKey)
		return "Public()/String()/Equal", ki, []byte(fmt.Sprint(pk2 != nil && pk2.Equal(pub), s.sprivs[ki].Equal(s.sprivs[rng.Intn(len(s.sprivs))]), s.spubs[ki].Equal(s.spubs[rng.Intn(len(s.spubs))])))
	case 33:
		spk, err := bitcoin.NewSchnorrPublicKeyFromPoint(s.points[pi])
		if err != nil {
			return "NewSchnorrPublicKeyFromPoint(shared point)", 100 + pi, []byte(err.Error())
		}
		spk2, err := bitcoin.NewSchnorrPublicKey(spk.Bytes())
		return "NewSchnorrPublicKeyFromPoint(shared point)", 100 + pi, append(spk.Bytes(), []byte(fmt.Sprint(err == nil && spk2.Equal(spk)))...)
	case 34:
		var out []byte
		for id := byte(0); id < 4; id++ {
			p, err := secp256k1.RecoverPoint(s.scalars[si], id)
			if err != nil {
				out = append(out, 0xee)
			} else {
				out = append(out, p.CompressedBytes()...)
			}
		}
		return "RecoverPoint(shared scalar)", 200 + si, out
	case 35:
		nk, err := secec.GenerateKey()
		if err != nil {
			return "GenerateKey+Sign+Verify", 500, []byte(err.Error())
		}
		dig := s.digests[ki]
		sig, err := nk.Sign(nil, dig, &secec.ECDSAOptions{Hash: crypto.SHA256, SelfVerify: true})
		sh1, e1 := nk.ECDH(pub)
		sh2, e2 := k.ECDH(nk.PublicKey())
		return "GenerateKey+Sign+Verify+ECDH", ki, []byte(fmt.Sprint(err == nil && nk.PublicKey().Verify(dig, sig, &secec.ECDSAOptions{Hash: crypto.SHA256, RejectMalleable: true}), e1 == nil && e2 == nil && bytes.Equal(sh1, sh2)))
	case 36:
		a, b := s.points[pi], s.points[rng.Intn(len(s.points))]
		o := append(new(Point).ConditionalSelect(a, b, uint64(rng.Intn(2))).CompressedBytes(), new(Point).ConditionalNegate(a, uint64(rng.Intn(2))).CompressedBytes()...)
		x, y := a.UncompressedBytes(), []byte(nil)
		if len(x) == 65 {
			x, y = x[1:33], x[33:]
			q, err := secp256k1.NewPointFromCoords((*[32]byte)(x), (*[32]byte)(y))
			o = append(o, byte(boolU64(err == nil && q.Equal(a) == 1)))
		}
		return "Point select/negate/from-coords (private receivers)", 100 + pi, o
	case 37:
		a, b := s.scalars[si], s.scalars[rng.Intn(len(s.scalars))]
		o := append(secp256k1.NewScalar().Product(a, b, a).Bytes(), secp256k1.NewScalar().ConditionalSelect(a, b, uint64(rng.Intn(2))).Bytes()...)
		o = append(o, secp256k1.NewScalar().ConditionalNegate(a, 1).Bytes()...)
		o = append(o, secp256k1.NewScalar().Square(b).Bytes()...)
		o = append(o, secp256k1.NewScalarFrom(a).Subtract(a, b).Bytes()...)
		return "Scalar product/select/negate (private receivers)", 200 + si, o
	case 38:
		// one options object shared by every goroutine
		o := s.opts[rng.Intn(2)]
		j := rng.Intn(len(s.sigs))
		return "Verify(shared options object)", ki, []byte{byte(boolU64(s.pubs[j].Verify(s.digests[j], s.sigs[j], o))), byte(o.Hash), byte(boolU64(o.RejectMalleable))}
	case 39:
		o := s.opts[2+rng.Intn(2)]
		sig, err := k.Sign(secec.RFC6979SHA256(), s.digests[ki], o)
		return "Sign(shared options object)", ki, append(append(sig, []byte(fmt.Sprint(err))...), byte(o.Hash), byte(o.Encoding))
	case 40:
		// the SAME argument slices from every goroutine
		a := new(Point).MultiScalarMultVartime(s.msmS, s.msmP).UncompressedBytes()
		b := new(Point).MultiScalarMult(s.msmS, s.msmP).UncompressedBytes()
		k := 2 + rng.Intn(4)
		c := new(Point).MultiScalarMultVartime(s.msmS[:k], s.msmP[:k]).CompressedBytes()
		return "MultiScalarMult[Vartime](shared argument slices)", 100, append(append(a, b...), c...)
	case 42:
		// a LONG list (beyond where implementations switch to batched / bucketed algorithms) of
		// the shared points, in the non-trivial representations they were built with, while the
		// other goroutines read the same points: arguments are read-only operands
		if len(s.longS) == 0 {
			return "MultiScalarMultVartime(long shared list): skipped in this batch", 100, nil
		}
		a := new(Point).MultiScalarMultVartime(s.longS, s.longP).CompressedBytes()
		for _, p := range s.points {
			a = append(a, p.CompressedBytes()...)
		}
		return "MultiScalarMultVartime(long shared list)", 100, a
	default:
		nk, err := secec.NewPublicKeyFromPoint(s.points[pi])
		if err != nil {
			return "NewPublicKeyFromPoint(shared point)", 100 + pi, []byte(err.Error())
		}
		return "NewPublicKeyFromPoint(shared point)", 100 + pi, nk.CompressedBytes()
	}
}

type c20Rec struct {
	name       string
	obj        int
	out        []byte
	start, end int64
}

func runC20(r *mon.Run) {
	batch, _ := strconv.Atoi(os.Getenv("VERIF_BATCH"))
	G := r.N(16, 32)
	calls := r.N(120, 700)
	if r.Config == "asm" || r.Config == "purego" {
		r.Note("not a race build: only result equality under concurrency is observed")
	}
	r.Require("c20:first-use-of-each-operation-kind:calls", "c20:fresh-object-first-use-calls", "c20:first-use:goroutines", "c20:overlapping-call-pairs-same-object", "c20:concurrent-calls")
	r.Seq("c20/concurrent", 1, func(w *mon.W, _ int) {
		// Phase 1 - first use: released from a barrier, every goroutine's first action in this
		// process is a library call that reads the package-level tables.
		var wg sync.WaitGroup
		gate := make(chan struct{})
		first := make([][]byte, G)
		for g := 0; g < G; g++ {
			wg.Add(1)
			go func(g int) {
				defer wg.Done()
				<-gate
				sc := secp256k1.NewScalarFromUint64(uint64(g + 2))
				p := new(Point).ScalarBaseMult(sc) // both generator tables
				q := new(Point).DoubleScalarMultBasepointVartime(sc, sc, p)
				first[g] = append(p.CompressedBytes(), q.CompressedBytes()...)
			}(g)
		}
		close(gate)
		wg.Wait()
		w.ClassN("c20:first-use:goroutines", int64(G))
		for g := 0; g < G; g++ {
			k := big.NewInt(int64(g + 2))
			P := oracle.MulG(k)
			want := append(oracle.EncodeCompressed(P), oracle.EncodeCompressed(oracle.Add(P, oracle.Mul(k, P)))...)
			if !bytes.Equal(first[g], want) {
				w.Fail("c20/first-use:result", fmt.Sprintf("goroutine %d: first concurrent use of the tables returned a wrong result", g))
			}
		}
		// Phase 1b - first use of FRESH objects by all goroutines at once.  A lazily
		// initialised field (cached encoding, cached x-only key, rescaled point, ...)
		// races only on the first calls per object, so the pattern is: build fresh
		// objects, release all goroutines from a barrier, every goroutine immediately
		// calls every accessor (rotated start), repeat with new objects.
		rounds := r.N(10, 60)
		nFresh := 0
		for round := 0; round < rounds; round++ {
			rng := gen.New(r.Seed, round, "C20", "fresh", strconv.Itoa(batch))
			build := func() []func() []byte { return freshAccessors(r.Seed, round, batch) }
			acc := build()
			ref := build() // an identical, separately built object set for the sequential reference
			_ = rng
			outs := make([][][]byte, G)
			gate1b := make(chan struct{})
			for g := 0; g < G; g++ {
				wg.Add(1)
				go func(g int) {
					defer wg.Done()
					my := make([][]byte, len(acc))
					<-gate1b
					for j := range acc {
						k := (j + g) % len(acc)
						my[k] = acc[k]()
					}
					outs[g] = my
				}(g)
			}
			close(gate1b)
			wg.Wait()
			wants := make([][]byte, len(ref))
			for k := range ref {
				want := ref[k]()
				wants[k] = want
				for g := 0; g < G; g++ {
					nFresh++
					if !bytes.Equal(outs[g][k], want) {
						w.Fail("c20/fresh-first-use:result", fmt.Sprintf("round %d, goroutine %d, accessor #%d on freshly built shared objects returned %x, the same call on an identical object set run alone returns %x", round, g, k, outs[g][k], want), "batch", batch)
					}
				}
			}
			// the callers own what the concurrent first calls returned: every goroutine overwrites its
			// results (all goroutines are joined - no race of the harness' making), then the accessors
			// are called once more
			for g := 0; g < G; g++ {
				for k := range outs[g] {
					wreckBytes(outs[g][k])
				}
			}
			for k := range acc {
				if got := acc[k](); !bytes.Equal(got, wants[k]) {
					w.Fail("c20/fresh-first-use:after-callers-overwrote-results", fmt.Sprintf("round %d, accessor #%d returns %x after the goroutines that made the concurrent FIRST calls overwrote the slices they were given; expected %x", round, k, got, wants[k]), "batch", batch)
				}
			}
		}
		w.ClassN("c20:fresh-object-first-use-calls", int64(nFresh))
		// Phase 1c - the FIRST use of every operation kind in this process is concurrent: for
		// each kind in turn all goroutines are released from a barrier and perform it at once
		// on the shared objects (package-level state set up on first use - a default written
		// into a package-level options struct, a lazily keyed MAC - races exactly here).
		shared := buildShared(r.Seed, batch)
		first1c := make([][][]byte, c20Ops+2)
		for op := 0; op <= c20Ops+1; op++ {
			first1c[op] = make([][]byte, G)
			gate1c := make(chan struct{})
			for g := 0; g < G; g++ {
				wg.Add(1)
				go func(g int) {
					defer wg.Done()
					rng := gen.New(r.Seed, op, "C20", "first-kind", strconv.Itoa(batch), strconv.Itoa(g))
					<-gate1c
					_, _, first1c[op][g] = c20Call(shared, rng, op)
				}(g)
			}
			close(gate1c)
			wg.Wait()
		}
		for op := 0; op <= c20Ops+1; op++ {
			for g := 0; g < G; g++ {
				if op == c20Ops+1 && g > 0 {
					break // the long shared list: the same call for every goroutine
				}
				rng := gen.New(r.Seed, op, "C20", "first-kind", strconv.Itoa(batch), strconv.Itoa(g))
				name, _, want := c20Call(shared, rng, op)
				if !bytes.Equal(first1c[op][g], want) {
					w.Fail("c20/first-use-of-kind:"+name, fmt.Sprintf("%s as the first use of its kind in the process, performed by %d goroutines at once: goroutine %d got %x, the same call run alone returns %x", name, G, g, first1c[op][g], want), "batch", batch)
				}
			}
		}
		w.ClassN("c20:first-use-of-each-operation-kind:calls", int64((c20Ops+1)*G))
		// Phase 2 - shared objects, many goroutines
		var ctr int64
		recs := make([][]c20Rec, G)
		gate2 := make(chan struct{})
		for g := 0; g < G; g++ {
			wg.Add(1)
			go func(g int) {
				defer wg.Done()
				<-gate2
				my := make([]c20Rec, 0, calls)
				for j := 0; j < calls; j++ {
					rng := gen.New(r.Seed, j, "C20", "call", strconv.Itoa(batch), strconv.Itoa(g))
					st := atomic.AddInt64(&ctr, 1)
					name, obj, out := c20Call(shared, rng, -1)
					en := atomic.AddInt64(&ctr, 1)
					my = append(my, c20Rec{name, obj, out, st, en})
				}
				recs[g] = my
			}(g)
		}
		close(gate2)
		wg.Wait()
		// sequential re-execution of exactly the same calls
		opsSeen := map[string]int{}
		for g := 0; g < G; g++ {
			for j := 0; j < calls; j++ {
				rng := gen.New(r.Seed, j, "C20", "call", strconv.Itoa(batch), strconv.Itoa(g))
				name, _, out := c20Call(shared, rng, -1)
				opsSeen[name]++
				w.Case(true, []byte(name), []byte(fmt.Sprint(batch, g, j)))
				if !bytes.Equal(out, recs[g][j].out) {
					w.Fail("c20/result:"+name, fmt.Sprintf("%s (goroutine %d, call %d): the concurrent call returned %x, the same call run alone returns %x", name, g, j, recs[g][j].out, out), "batch", batch)
				}
				if strings.HasPrefix(name, "h2c RO (tags composed") && !bytes.Equal(recs[g][j].out, []byte{1, 1, 1}) {
					w.Fail("c20/result:h2c-private-buffer", fmt.Sprintf("%s (goroutine %d, call %d): %s", name, g, j, recs[g][j].out), "batch", batch)
				}
			}
		}
		w.ClassN("c20:concurrent-calls", int64(G*calls))
		if m := c20ModelMismatch.Load(); m != nil {
			w.Fail("c20/model-mismatch", *m, "batch", batch)
		}
		// how concurrent was it: overlapping pairs on the same shared object
		byObj := map[int][]c20Rec{}
		for g := range recs {
			for _, rc := range recs[g] {
				byObj[rc.obj] = append(byObj[rc.obj], rc)
			}
		}
		var overlaps int64
		for _, l := range byObj {
			sort.Slice(l, func(a, b int) bool { return l[a].start < l[b].start })
			for a := range l {
				for b := a + 1; b < len(l) && l[b].start < l[a].end; b++ {
					overlaps++
				}
			}
		}
		w.ClassN("c20:overlapping-call-pairs-same-object", overlaps)
		names := make([]string, 0, len(opsSeen))
		for k := range opsSeen {
			names = append(names, k)
		}
		sort.Strings(names)
		w.Sample(map[string]any{"batch": batch, "goroutines": G, "calls_per_goroutine": calls, "operations": names, "overlapping_pairs_same_object": overlaps})
		r.Extra("operations_seen", opsSeen)
	})
	// Phase 3 - input churn.  Many DISTINCT inputs in circulation, each goroutine coming back
	// to recently used ones while the others move on: whatever the library remembers between
	// calls (memoised square roots, decoded keys, scratch pools) is filled, hit and evicted
	// concurrently.  Expected results come from the reference model, computed beforehand.
	r.Require("c20:churn:calls", "c20:churn:distinct-inputs")
	r.Seq("c20/input-churn", 1, func(w *mon.W, _ int) {
		K := r.N(96, 256)
		iters := r.N(2500, 20000)
		type item struct {
			cmp, unc, x, odd []byte // encodings of P; odd = compressed encoding of the other lift
			other            []byte // uncompressed encoding of -P
			even             []byte // uncompressed encoding of the even-y lift
		}
		items := make([]item, K)
		prng := gen.New(r.Seed, batch, "C20", "churn-pool")
		for i := range items {
			P := oracle.MulG(prng.Below(bigN))
			for P.Inf {
				P = oracle.MulG(prng.Below(bigN))
			}
			N := oracle.Neg(P)
			ev := P
			if P.Y.Bit(0) == 1 {
				ev = N
			}
			items[i] = item{cmp: oracle.EncodeCompressed(P), unc: oracle.EncodeUncompressed(P), x: b32(P.X), odd: oracle.EncodeCompressed(N), other: oracle.EncodeUncompressed(N), even: oracle.EncodeUncompressed(ev)}
		}
		var wg sync.WaitGroup
		gate := make(chan struct{})
		type bad struct {
			g, j, idx int
			op        string
			got, want []byte
		}
		bads := make([][]bad, G)
		for g := 0; g < G; g++ {
			wg.Add(1)
			go func(g int) {
				defer wg.Done()
				rng := gen.New(r.Seed, g, "C20", "churn", strconv.Itoa(batch))
				<-gate
				base := rng.Intn(K)
				for j := 0; j < iters; j++ {
					// a sliding window of recently used inputs, advancing slowly; now and then a jump
					if rng.Chance(1, 6) {
						base = (base + 1) % K
					}
					if rng.Chance(1, 200) {
						base = rng.Intn(K)
					}
					idx := (base + rng.Intn(24)) % K
					it := items[idx]
					var got, want []byte
					op := ""
					switch rng.Intn(5) {
					case 0:
						op = "SetCompressedBytes"
						p, err := new(Point).SetCompressedBytes(it.cmp)
						if err == nil {
							got = p.UncompressedBytes()
						}
						want = it.unc
					case 1:
						op = "NewPointFromBytes(other lift)"
						p, err := secp256k1.NewPointFromBytes(it.odd)
						if err == nil {
							got = p.UncompressedBytes()
						}
						want = it.other
					case 2:
						op = "NewSchnorrPublicKey"
						k, err := bitcoin.NewSchnorrPublicKey(it.x)
						if err == nil {
							got = k.Point().UncompressedBytes()
						}
						want = it.even
					case 3:
						op = "secec.NewPublicKey"
						k, err := secec.NewPublicKey(it.cmp)
						if err == nil {
							got = k.Bytes()
						}
						want = it.unc
					default:
						op = "RecoverPoint"
						xs, _ := secp256k1.NewScalarFromBytes((*[32]byte)(it.x))
						want = it.unc
						if oracle.FromBytes(it.x).Cmp(bigN) >= 0 {
							continue
						}
						p, err := secp256k1.RecoverPoint(xs, it.unc[64]&1)
						if err == nil {
							got = p.UncompressedBytes()
						}
					}
					if !bytes.Equal(got, want) && len(bads[g]) < 4 {
						bads[g] = append(bads[g], bad{g, j, idx, op, got, want})
					}
				}
			}(g)
		}
		close(gate)
		wg.Wait()
		w.ClassN("c20:churn:calls", int64(G*iters))
		w.ClassN("c20:churn:distinct-inputs", int64(K))
		w.Case(true, []byte("churn"), []byte(fmt.Sprint(batch)))
		for g := range bads {
			for _, b := range bads[g] {
				w.Fail("c20/input-churn:"+b.op, fmt.Sprintf("%s (goroutine %d, call %d, input #%d of %d in circulation) returned %x while %d goroutines decode a churning input set; the reference model gives %x", b.op, b.g, b.j, b.idx, K, b.got, G, b.want), "batch", batch)
			}
		}
	})
	// "package initialisation of the embedded tables is complete before any such call": every operation
	// kind as the first library call of its own process
	runColdStart(r, "c20", r.N(30, 450), "dsm", "sbm", "sm", "msm", "msmv", "pubkey", "verify", "btcverify", "recover", "schnorrverify", "ecdh", "sign", "schnorrsign", "h2c", "parsepub", "generate")
}

// freshAccessors builds one set of fresh key / point / scalar objects and returns every accessor and
// deterministic operation on them (phase 1b of C20; the first-use monitor of C18).
const nCheapAccessors = 24 // the accessors proper come first, the expensive operations after them

func freshAccessors(seed int64, round int, batch int) []func() []byte {
	dv, _ := keyValue(gen.New(seed, round, "C20", "fresh-key", strconv.Itoa(batch)))
	// (every accessor's FIRST call must be the first use of its object: the key the Schnorr key is
	// derived from and the twins of the comparisons are objects of their own)
	priv := mustPriv(dv)
	privTwin := mustPriv(dv)
	pub, _ := secec.NewPublicKey(oracle.EncodeUncompressed(oracle.MulG(dv)))
	pubTwin, _ := secec.NewPublicKey(oracle.EncodeCompressed(oracle.MulG(dv)))
	spriv := bitcoin.NewSchnorrPrivateKeyFromECDSA(mustPriv(dv))
	sprivTwin, _ := bitcoin.NewSchnorrPrivateKey(b32(dv))
	spubTwin, _ := bitcoin.NewSchnorrPublicKey(b32(oracle.MulG(dv).X))
	spub, _ := bitcoin.NewSchnorrPublicKey(b32(oracle.MulG(dv).X))
	pt := pointRep(oracle.MulG(new(big.Int).Add(dv, big.NewInt(1))), big.NewInt(int64(3+round)))
	if pt == nil {
		pt = secp256k1.NewGeneratorPoint()
	}
	sc := scalarFromBig(dv)
	dig := bytes.Repeat([]byte{byte(round)}, 32)
	freshOpts := &secec.ECDSAOptions{} // Hash unspecified: shared by all goroutines of this round
	return []func() []byte{
		func() []byte { return pub.CompressedBytes() },
		func() []byte { return pub.Bytes() },
		func() []byte { return pub.ASN1Bytes() },
		func() []byte { return pub.Point().CompressedBytes() },
		func() []byte { return priv.PublicKey().CompressedBytes() },
		func() []byte { return priv.Bytes() },
		func() []byte { return priv.Scalar().Bytes() },
		func() []byte { return spriv.PublicKey().Bytes() },
		func() []byte { return spriv.Bytes() },
		func() []byte { return spub.Bytes() },
		func() []byte { return spub.Point().CompressedBytes() },
		func() []byte { return bitcoin.NewSchnorrPublicKeyFromECDSA(pub).Bytes() },
		func() []byte { return pt.CompressedBytes() },
		func() []byte { return pt.UncompressedBytes() },
		func() []byte { b, _ := pt.XBytes(); return b },
		func() []byte { return []byte{byte(pt.IsYOdd()), byte(pt.IsIdentity())} },
		func() []byte { return sc.Bytes() },
		func() []byte { return []byte{byte(sc.IsGreaterThanHalfN()), byte(sc.IsZero())} },
		func() []byte { return []byte{byte(boolU64(pubTwin.Equal(pub))), byte(boolU64(pub.Equal(pubTwin)))} },
		func() []byte { return []byte{byte(boolU64(privTwin.Equal(priv))), byte(boolU64(priv.Equal(privTwin)))} },
		func() []byte {
			return []byte{byte(boolU64(spubTwin.Equal(spub))), byte(boolU64(sprivTwin.Equal(spriv))), byte(boolU64(spriv.PublicKey().Equal(sprivTwin.PublicKey())))}
		},
		func() []byte {
			if pk, ok := privTwin.Public().(*secec.PublicKey); ok {
				return pk.Bytes()
			}
			return nil
		},
		func() []byte { return sprivTwin.PublicKey().Point().CompressedBytes() },
		func() []byte { return privTwin.PublicKey().ASN1Bytes() },
		func() []byte { sh, _ := priv.ECDH(pub); return sh },
		func() []byte { sig, _ := priv.Sign(secec.RFC6979SHA256(), dig, nil); return sig },
		func() []byte { sig, _ := spriv.Sign(&fixedReader{data: dig}, dig, nil); return sig },
		func() []byte { return new(Point).ScalarMult(sc, pt).CompressedBytes() },
		func() []byte {
			return []byte{byte(boolU64(pub.Equal(priv.PublicKey()))), byte(boolU64(spub.Equal(spriv.PublicKey())))}
		},
		func() []byte {
			r0, s0, _, _, _ := oracle.RFC6979Sign(dv, dig)
			return []byte{byte(boolU64(pub.Verify(dig, oracle.DERWriteSig(r0, s0), freshOpts))), byte(freshOpts.Hash)}
		},
		func() []byte {
			r0, s0, _, _, _ := oracle.RFC6979Sign(dv, dig)
			return []byte{byte(boolU64(bitcoin.VerifyASN1(pub, dig, append(oracle.DERWriteSig(r0, s0), 1))))}
		},
	}
}
