package props

import (
	"bytes"
	"crypto/sha256"
	"encoding/binary"
	"fmt"
	"math/big"
	"runtime"
	"strings"
	"sync"
	"sync/atomic"

	secp256k1 "gitlab.com/yawning/secp256k1-voi"
	"gitlab.com/yawning/secp256k1-voi/secec"
	"gitlab.com/yawning/secp256k1-voi/secec/bitcoin"
	"gitlab.com/yawning/secp256k1-voi/secec/h2c"

	"verifharness/gen"
	"verifharness/hk"
	"verifharness/mon"
	"verifharness/oracle"
)

// The "hammer" monitors: every functional property quantifies over inputs, not over
// schedules, but a result that depends on what ANOTHER goroutine is doing with OTHER
// objects (a process-wide memo, a pooled scratch object, a cache whose lookup and
// load are two critical sections) is a wrong result of that property's operation.  The
// race detector is silent on such code when every access is under a lock or atomic.
// So each property runs a tight concurrent phase in the production build: the expected
// outputs come from the reference model BEFOREHAND, then G goroutines released from a
// barrier call the operations back to back - a small "hot" set that recurs, and a long
// "churn" list of distinct inputs each used once (to roll caches over) - and compare.

type hammerOp struct {
	name string
	want []byte // from the reference model; nil: taken from one sequential call before the concurrent phase
	run  func() []byte
}

var hammerErr = []byte("error")

// runHammer registers classes and runs `rounds` independent rounds.
func runHammer(r *mon.Run, id string, rounds int, build func(rng *gen.Rng, w *mon.W) (hot, churn []hammerOp)) {
	lc := "c" + id[1:]
	r.Require(lc + ":hammer:concurrent-calls")
	r.Seq(lc+"/hammer", rounds, func(w *mon.W, round int) {
		hot, churn := build(w.Rng, w)
		// sequential pass: the hot operations alone (a functional failure here is not about concurrency)
		for i := range hot {
			got := hot[i].run()
			if hot[i].want == nil {
				hot[i].want = got
			} else if !bytes.Equal(got, hot[i].want) {
				w.Fail(lc+"/hammer/sequential/"+hot[i].name, fmt.Sprintf("%s (alone, before the concurrent phase) = %s, expected %s", hot[i].name, hx(got), hx(hot[i].want)))
				return
			}
		}
		// the same operations from fresh goroutines at different STACK DEPTHS: a goroutine starts
		// with a small stack that is moved when it grows; code that keeps the address of something
		// on its own stack in a form the runtime does not update reads the abandoned copy if the
		// growth happens at the wrong moment - which depends on nothing but how deep the caller is
		{
			nOps := len(hot)
			if nOps > 10 {
				nOps = 10
			}
			depths := 0
			for oi := 0; oi < nOps; oi++ {
				op := &hot[(oi*7+round)%len(hot)]
				for d := 0; d < 72; d++ {
					var got []byte
					done := make(chan struct{})
					go func() {
						defer close(done)
						got = atStackDepth(d*3+(oi%3), op.run)
					}()
					<-done
					depths++
					if !bytes.Equal(got, op.want) {
						w.Fail(lc+"/hammer/stack-depth/"+op.name, fmt.Sprintf("%s called from a fresh goroutine %d frames (about %d bytes) deep = %s, expected %s", op.name, d*3+(oi%3), (d*3+(oi%3))*stackFrameBytes, hx(got), hx(op.want)))
						return
					}
				}
			}
			w.ClassN(lc+":hammer:calls-at-varied-stack-depth", int64(depths))
		}
		G := r.N(16, 32)
		iters := r.N(3000, 30000)
		// bulk churn: very many cheap, UNCHECKED calls on distinct inputs (derived from a counter),
		// whose only purpose is to roll over whatever the library remembers between calls, however
		// large (the checked operations - the long-lived objects above all - run among them and after)
		var bulk func(k int)
		bulkN := 0
		if mk := hammerBulk[id]; mk != nil {
			bulkN, bulk = mk(r, w.Rng)
			if r.Config == "386" || strings.HasPrefix(r.Config, "race") {
				bulkN /= 8 // several times slower per call; the volume is reached in the other configurations
			}
			w.ClassN(lc+":hammer:bulk-churn-calls", int64(bulkN))
		}
		bulkPer := 0
		if bulk != nil {
			bulkPer = (bulkN + G*iters - 1) / (G * iters)
		}
		var bulkNext atomic.Int64
		type bad struct {
			name      string
			got, want []byte
			g, it     int
		}
		bads := make([][]bad, G)
		var next atomic.Int64
		var calls atomic.Int64
		var wg sync.WaitGroup
		gate := make(chan struct{})
		// every other round under garbage-collector pressure: a goroutine allocates and forces
		// collections while the others work (finalizers, weak references, pooled objects that a
		// collection empties, objects whose last reference the library dropped too early)
		stopGC := make(chan struct{})
		gcDone := make(chan struct{})
		if round%2 == 1 {
			w.Class(lc + ":hammer:gc-pressure")
			go func() {
				defer close(gcDone)
				var sink [][]byte
				for {
					select {
					case <-stopGC:
						return
					default:
					}
					sink = append(sink[:0], make([]byte, 1<<16), make([]byte, 1<<12))
					runtime.GC()
				}
			}()
		} else {
			close(gcDone)
		}
		for g := 0; g < G; g++ {
			wg.Add(1)
			go func(g int) {
				defer wg.Done()
				<-gate
				n := int64(0)
				for it := 0; it < iters && len(bads[g]) < 2; it++ {
					op := &hot[(g*5+it*7+it/len(hot))%len(hot)]
					if got := op.run(); !bytes.Equal(got, op.want) {
						bads[g] = append(bads[g], bad{op.name, got, op.want, g, it})
					}
					n++
					for b := 0; b < bulkPer; b++ {
						if k := int(bulkNext.Add(1)); k <= bulkN {
							bulk(k)
						}
					}
					if len(churn) > 0 && it%2 == 1 {
						k := int(next.Add(1)-1) % len(churn)
						c := &churn[k]
						if got := c.run(); c.want != nil && !bytes.Equal(got, c.want) {
							bads[g] = append(bads[g], bad{c.name, got, c.want, g, it})
						}
						n++
					}
				}
				calls.Add(n)
			}(g)
		}
		close(gate)
		wg.Wait()
		close(stopGC)
		<-gcDone
		w.ClassN(lc+":hammer:concurrent-calls", calls.Load())
		w.ClassN(lc+":hammer:goroutines", int64(G))
		w.ClassN(lc+":hammer:hot-operations", int64(len(hot)))
		w.ClassN(lc+":hammer:churn-inputs", int64(len(churn)))
		w.Case(true, []byte(fmt.Sprintf("hammer round %d", round)))
		seen := map[string]bool{}
		for _, l := range bads {
			for _, b := range l {
				if seen[b.name] || len(seen) >= 3 {
					continue
				}
				seen[b.name] = true
				w.Fail(lc+"/hammer/"+b.name, fmt.Sprintf("%s returned %s while %d goroutines were using the library on other objects (goroutine %d, iteration %d); alone and by the reference model it is %s",
					b.name, hx(b.got), G, b.g, b.it, hx(b.want)), "operation", b.name)
			}
		}
		// and once more alone, after the storm: state left behind by the concurrent phase
		for i := range hot {
			if got := hot[i].run(); !bytes.Equal(got, hot[i].want) && !seen[hot[i].name] {
				w.Fail(lc+"/hammer/after/"+hot[i].name, fmt.Sprintf("%s (alone, AFTER the concurrent phase) = %s, expected %s", hot[i].name, hx(got), hx(hot[i].want)))
				break
			}
		}
	})
}

// --- operation families -------------------------------------------------------------------

type hamPoint struct {
	k *big.Int
	m *oracle.Pt
	p *Point
}

func hamPoints(rng *gen.Rng, n int) []hamPoint {
	out := make([]hamPoint, n)
	for i := range out {
		k := rng.Below(bigN)
		if k.Sign() == 0 {
			k = big.NewInt(int64(i + 3))
		}
		m := oracle.MulG(k)
		z, _ := repZ(rng)
		if i%2 == 0 {
			z = big.NewInt(1)
		}
		out[i] = hamPoint{k, m, pointRep(m, z)}
	}
	return out
}

func encPt(p *Point) []byte {
	if p == nil {
		return hammerErr
	}
	return p.UncompressedBytes()
}

// famScalarMult: s*P for distinct points (constant-time and, when the hook group builds, the
// variable-time GLV multiply verification uses).
func famScalarMult(rng *gen.Rng, nPoints int) []hammerOp {
	var ops []hammerOp
	for i, hp := range hamPoints(rng, nPoints) {
		hp := hp
		s, _ := glvOrValue(rng)
		sc := scalarFromBig(s)
		want := oracle.EncodeUncompressed(oracle.MulG(oracle.MulM(s, hp.k, bigN)))
		ops = append(ops, hammerOp{fmt.Sprintf("ScalarMult(s%d,P%d)", i, i), want, func() []byte { return encPt(new(Point).ScalarMult(sc, hp.p)) }})
		if hk.Available()["verif_mul"] {
			ops = append(ops, hammerOp{fmt.Sprintf("scalarMultVartimeGLV(s%d,P%d)", i, i), want, func() []byte { return encPt(hk.ScalarMultVartimeGLV(new(Point), sc, hp.p)) }})
		}
		ops = append(ops, hammerOp{fmt.Sprintf("MultiScalarMultVartime([s%d],[P%d])", i, i), want, func() []byte {
			return encPt(new(Point).MultiScalarMultVartime([]*Scalar{sc}, []*Point{hp.p}))
		}})
	}
	return ops
}

func famBaseMult(rng *gen.Rng, n int) []hammerOp {
	var ops []hammerOp
	for i := 0; i < n; i++ {
		s, _ := glvOrValue(rng)
		sc := scalarFromBig(s)
		want := oracle.EncodeUncompressed(oracle.MulG(s))
		ops = append(ops, hammerOp{fmt.Sprintf("ScalarBaseMult(s%d)", i), want, func() []byte { return encPt(new(Point).ScalarBaseMult(sc)) }})
		if i%3 == 0 && s.Sign() != 0 { // (0 is a scalar, not a private key)
			wantK := oracle.EncodeUncompressed(oracle.MulG(s))
			d := b32(s)
			ops = append(ops, hammerOp{fmt.Sprintf("NewPrivateKey(d%d).PublicKey()", i), wantK, func() []byte {
				k, err := secec.NewPrivateKey(d)
				if err != nil {
					return hammerErr
				}
				return k.PublicKey().Bytes()
			}})
		}
	}
	return ops
}

// famDoubleMulti: u1*G + u2*P and short lists, each goroutine on its own points.
func famDoubleMulti(rng *gen.Rng, nPoints int) []hammerOp {
	var ops []hammerOp
	pts := hamPoints(rng, nPoints)
	for i, hp := range pts {
		hp := hp
		u1, _ := glvOrValue(rng)
		u2, _ := glvOrValue(rng)
		s1, s2 := scalarFromBig(u1), scalarFromBig(u2)
		want := oracle.EncodeUncompressed(oracle.MulG(oracle.AddM(u1, oracle.MulM(u2, hp.k, bigN), bigN)))
		ops = append(ops, hammerOp{fmt.Sprintf("DoubleScalarMultBasepointVartime(u1,u2,P%d)", i), want, func() []byte {
			return encPt(new(Point).DoubleScalarMultBasepointVartime(s1, s2, hp.p))
		}})
		q := pts[(i+1)%len(pts)]
		want2 := oracle.EncodeUncompressed(oracle.MulG(oracle.AddM(oracle.MulM(u1, hp.k, bigN), oracle.MulM(u2, q.k, bigN), bigN)))
		ops = append(ops, hammerOp{fmt.Sprintf("MultiScalarMult([u1,u2],[P%d,P%d])", i, (i+1)%len(pts)), want2, func() []byte {
			return encPt(new(Point).MultiScalarMult([]*Scalar{s1, s2}, []*Point{hp.p, q.p}))
		}})
		ops = append(ops, hammerOp{fmt.Sprintf("MultiScalarMultVartime([u1,u2],[P%d,P%d])", i, (i+1)%len(pts)), want2, func() []byte {
			return encPt(new(Point).MultiScalarMultVartime([]*Scalar{s1, s2}, []*Point{hp.p, q.p}))
		}})
	}
	return ops
}

// famEncode: observers of distinct points in non-trivial representatives.
func famEncode(rng *gen.Rng, n int) []hammerOp {
	var ops []hammerOp
	for i := 0; i < n; i++ {
		m := oracle.MulG(rng.Below(bigN))
		z, _ := repZ(rng)
		want := append(append(oracle.EncodeCompressed(m), oracle.EncodeUncompressed(m)...), byte(m.Y.Bit(0)))
		ops = append(ops, hammerOp{fmt.Sprintf("encodings(P%d)", i), want, func() []byte {
			p := pointRep(m, z) // a fresh object per call: nothing is shared between the goroutines
			if p == nil {
				return hammerErr
			}
			out := append(p.CompressedBytes(), p.UncompressedBytes()...)
			return append(out, byte(p.IsYOdd()))
		}})
	}
	return ops
}

// famDecode: SEC 1 decoding of recurring inputs (hot) and of a long list of distinct ones (churn).
func famDecode(rng *gen.Rng, nHot, nChurn int) (hot, churn []hammerOp) {
	mk := func(i int, tag string) hammerOp {
		var enc, want []byte
		for {
			x := rng.Below(bigP)
			odd := uint(rng.Intn(2))
			if m := oracle.LiftX(x, odd); m != nil {
				enc, want = oracle.EncodeCompressed(m), oracle.EncodeUncompressed(m)
			} else if i%5 == 4 {
				enc, want = append([]byte{byte(2 + odd)}, b32(x)...), hammerErr // not an x-coordinate: must stay an error
			} else {
				continue
			}
			break
		}
		if tag == "hot" && !bytes.Equal(want, hammerErr) && i%2 == 0 {
			// a long-lived object decoded before the churn
			if kept, err := secp256k1.NewPointFromBytes(enc); err == nil {
				return hammerOp{fmt.Sprintf("kept point object (%s#%d)", tag, i), want, func() []byte { return kept.UncompressedBytes() }}
			}
		}
		return hammerOp{fmt.Sprintf("NewPointFromBytes(%s#%d)", tag, i), want, func() []byte {
			p, err := secp256k1.NewPointFromBytes(enc)
			if err != nil {
				return hammerErr
			}
			return p.UncompressedBytes()
		}}
	}
	for i := 0; i < nHot; i++ {
		hot = append(hot, mk(i, "hot"))
	}
	for i := 0; i < nChurn; i++ {
		churn = append(churn, mk(i, "churn"))
	}
	return
}

// famECDH: many recurring peers (more than a small cache holds).
func famECDH(rng *gen.Rng, nKeys, nPeers int) []hammerOp {
	var ops []hammerOp
	type kp struct {
		d *big.Int
		k *secec.PrivateKey
	}
	var keys []kp
	for i := 0; i < nKeys; i++ {
		d, _ := keyValue(rng)
		keys = append(keys, kp{d, mustPriv(d)})
	}
	for j := 0; j < nPeers; j++ {
		b := rng.Below(bigN)
		if b.Sign() == 0 {
			b = big.NewInt(5)
		}
		B := oracle.MulG(b)
		pub := mustPub(B)
		a := keys[j%len(keys)]
		want := b32(oracle.Mul(a.d, B).X)
		ops = append(ops, hammerOp{fmt.Sprintf("ECDH(key%d,peer%d)", j%len(keys), j), want, func() []byte {
			sh, err := a.k.ECDH(pub)
			if err != nil {
				return hammerErr
			}
			return sh
		}})
	}
	return ops
}

// famRecoverVerify: public-key recovery and verification of distinct signatures.
func famRecoverVerify(rng *gen.Rng, n int) []hammerOp {
	var ops []hammerOp
	for i := 0; i < n; i++ {
		d, _ := keyValue(rng)
		dig := rng.Bytes(32)
		r0, s0, v0, _, _ := oracle.RFC6979Sign(d, dig)
		rs, ss := scalarFromBig(r0), scalarFromBig(s0)
		Q := oracle.MulG(d)
		var want []byte
		for id := 0; id < 4; id++ {
			if m := oracle.ECDSARecover(dig, r0, s0, id); m != nil && !m.Inf {
				want = append(want, oracle.EncodeCompressed(m)...)
			} else {
				want = append(want, 0xee)
			}
		}
		_ = v0
		ops = append(ops, hammerOp{fmt.Sprintf("RecoverPublicKey(sig%d, ids 0..3)", i), want, func() []byte {
			var out []byte
			for id := byte(0); id < 4; id++ {
				q, err := secec.RecoverPublicKey(dig, rs, ss, id)
				if err != nil {
					out = append(out, 0xee)
				} else {
					out = append(out, q.Point().CompressedBytes()...)
				}
			}
			return out
		}})
		pub := mustPub(Q)
		sig := oracle.DERWriteSig(r0, s0)
		bad := append([]byte{}, dig...)
		bad[0] ^= 1
		ops = append(ops, hammerOp{fmt.Sprintf("Verify(sig%d)+Verify(other digest)", i), []byte{1, 0}, func() []byte {
			return []byte{byte(boolU64(pub.Verify(dig, sig, nil))), byte(boolU64(pub.Verify(bad, sig, nil)))}
		}})
	}
	return ops
}

// famSign: deterministic signing (RFC 6979; BIP-340 with fixed auxiliary randomness).
func famSign(rng *gen.Rng, n int, schnorr bool) []hammerOp {
	var ops []hammerOp
	for i := 0; i < n; i++ {
		d, _ := keyValue(rng)
		dig := rng.Bytes(32)
		if !schnorr {
			k := mustPriv(d)
			r0, s0, _, _, _ := oracle.RFC6979Sign(d, dig)
			want := oracle.DERWriteSig(r0, s0)
			sv := i%2 == 0
			ops = append(ops, hammerOp{fmt.Sprintf("Sign/rfc6979(key%d)", i), want, func() []byte {
				sig, err := k.Sign(secec.RFC6979SHA256(), dig, &secec.ECDSAOptions{SelfVerify: sv})
				if err != nil {
					return hammerErr
				}
				return sig
			}})
		} else {
			sk, err := bitcoin.NewSchnorrPrivateKey(b32(d))
			if err != nil {
				continue
			}
			aux := rng.Bytes(32)
			msg := rng.Bytes(1 + rng.Intn(80))
			want := oracle.BIP340Sign(d, aux, msg)
			ops = append(ops, hammerOp{fmt.Sprintf("Schnorr.Sign(key%d)", i), want, func() []byte {
				sig, err := sk.Sign(&fixedReader{data: aux}, msg, nil)
				if err != nil {
					return hammerErr
				}
				return sig
			}})
		}
	}
	return ops
}

// famSchnorrVerify: x-only key import + verification; the churn list imports distinct keys only.
func famSchnorrVerify(rng *gen.Rng, nHot, nChurn int) (hot, churn []hammerOp) {
	for i := 0; i < nHot; i++ {
		d, _ := keyValue(rng)
		pk := oracle.BIP340PubKey(d)
		msg := rng.Bytes(rng.Intn(70))
		sig := oracle.BIP340Sign(d, rng.Bytes(32), msg)
		bad := append([]byte{}, sig...)
		bad[40] ^= 4
		lift := oracle.EncodeUncompressed(oracle.BIP340LiftX(oracle.FromBytes(pk)))
		want := append([]byte{1, 0}, lift...)
		// the same key as a LONG-LIVED object, imported now - before the churn of thousands of other
		// imports - and used all the way through and afterwards
		if kept, err := bitcoin.NewSchnorrPublicKey(pk); err == nil {
			hot = append(hot, hammerOp{fmt.Sprintf("kept key object pk%d: Verify, Point, Bytes", i), append(append([]byte{1, 0}, lift...), pk...), func() []byte {
				out := []byte{byte(boolU64(kept.Verify(msg, sig))), byte(boolU64(kept.Verify(msg, bad)))}
				return append(append(out, kept.Point().UncompressedBytes()...), kept.Bytes()...)
			}})
		}
		hot = append(hot, hammerOp{fmt.Sprintf("NewSchnorrPublicKey(pk%d).Verify", i), want, func() []byte {
			k, err := bitcoin.NewSchnorrPublicKey(pk)
			if err != nil {
				return hammerErr
			}
			out := []byte{byte(boolU64(k.Verify(msg, sig))), byte(boolU64(k.Verify(msg, bad)))}
			return append(out, k.Point().UncompressedBytes()...)
		}})
	}
	for i := 0; i < nChurn+3*nHot; i++ {
		var x *big.Int
		var m *oracle.Pt
		for m == nil {
			x = rng.Below(bigP)
			m = oracle.BIP340LiftX(x)
		}
		pk := b32(x)
		want := oracle.EncodeUncompressed(m)
		if i >= nChurn {
			// recurring imports without the (much longer) verification: most of a goroutine's time is inside the decoder
			hot = append(hot, hammerOp{fmt.Sprintf("NewSchnorrPublicKey(hot-import#%d).Point", i-nChurn), want, func() []byte {
				k, err := bitcoin.NewSchnorrPublicKey(pk)
				if err != nil {
					return hammerErr
				}
				return k.Point().UncompressedBytes()
			}})
			continue
		}
		churn = append(churn, hammerOp{fmt.Sprintf("NewSchnorrPublicKey(churn#%d).Point", i), want, func() []byte {
			k, err := bitcoin.NewSchnorrPublicKey(pk)
			if err != nil {
				return hammerErr
			}
			return k.Point().UncompressedBytes()
		}})
	}
	return
}

// famParse: wire-format parsers and writers on distinct values.
func famParse(rng *gen.Rng, n int) []hammerOp {
	var ops []hammerOp
	for i := 0; i < n; i++ {
		m := oracle.MulG(rng.Below(bigN))
		if m.Inf {
			continue
		}
		spki := oracle.SPKIWrite(oracle.EncodeUncompressed(m))
		want := append(append([]byte{}, spki...), oracle.EncodeCompressed(m)...)
		if kept, err := secec.ParseASN1PublicKey(spki); err == nil && i%2 == 0 {
			ops = append(ops, hammerOp{fmt.Sprintf("kept key object (key%d): ASN1Bytes, CompressedBytes, Point", i), append(append([]byte{}, want...), oracle.EncodeUncompressed(m)...), func() []byte {
				return append(append(kept.ASN1Bytes(), kept.CompressedBytes()...), kept.Point().UncompressedBytes()...)
			}})
		}
		ops = append(ops, hammerOp{fmt.Sprintf("ParseASN1PublicKey(key%d).ASN1Bytes", i), want, func() []byte {
			k, err := secec.ParseASN1PublicKey(spki)
			if err != nil {
				return hammerErr
			}
			return append(k.ASN1Bytes(), k.CompressedBytes()...)
		}})
		rv, sv := rng.Below(bigN), rng.Below(bigN)
		if rv.Sign() == 0 || sv.Sign() == 0 {
			continue
		}
		der := oracle.DERWriteSig(rv, sv)
		want2 := append(append(b32(rv), b32(sv)...), der...)
		ops = append(ops, hammerOp{fmt.Sprintf("ParseASN1Signature+Build(sig%d)", i), want2, func() []byte {
			r, s, err := secec.ParseASN1Signature(der)
			if err != nil {
				return hammerErr
			}
			return append(append(r.Bytes(), s.Bytes()...), secec.BuildASN1Signature(r, s)...)
		}})
	}
	return ops
}

// famH2C: hash-to-curve with distinct tags, several of them oversize.
func famH2C(rng *gen.Rng, n int) []hammerOp {
	var ops []hammerOp
	for i := 0; i < n; i++ {
		dst := rng.Bytes([]int{1, 16, 255, 256, 300, 1000, 43}[i%7])
		dst[0] |= 1
		msg := rng.Bytes(rng.Intn(100))
		ro := i%2 == 0
		var m *oracle.Pt
		var err error
		if ro {
			m, _, err = oracle.HashToCurveRO(msg, dst)
		} else {
			m, _, err = oracle.EncodeToCurveNU(msg, dst)
		}
		if err != nil {
			continue
		}
		want := oracle.EncodeUncompressed(m)
		ops = append(ops, hammerOp{fmt.Sprintf("h2c(ro=%v, tag of %d bytes)#%d", ro, len(dst), i), want, func() []byte {
			var p *Point
			var err error
			if ro {
				p, err = h2c.Secp256k1_XMD_SHA256_SSWU_RO(dst, msg)
			} else {
				p, err = h2c.Secp256k1_XMD_SHA256_SSWU_NU(dst, msg)
			}
			if err != nil {
				return hammerErr
			}
			return p.UncompressedBytes()
		}})
	}
	return ops
}

// hammerBuilders: which operation families a property's concurrent phase uses.
var hammerBuilders = map[string]func(rng *gen.Rng, w *mon.W) (hot, churn []hammerOp){
	"C03": func(rng *gen.Rng, w *mon.W) (hot, churn []hammerOp) { return famEncode(rng, 24), nil },
	"C04": func(rng *gen.Rng, w *mon.W) (hot, churn []hammerOp) { return famScalarMult(rng, 8), nil },
	"C05": func(rng *gen.Rng, w *mon.W) (hot, churn []hammerOp) { return famBaseMult(rng, 16), nil },
	"C06": func(rng *gen.Rng, w *mon.W) (hot, churn []hammerOp) { return famDecode(rng, 12, 2600) },
	"C07": func(rng *gen.Rng, w *mon.W) (hot, churn []hammerOp) { return famRecoverVerify(rng, 44), nil }, // more hot keys than a small cache holds
	"C08": func(rng *gen.Rng, w *mon.W) (hot, churn []hammerOp) { return famSign(rng, 8, false), nil },
	"C10": func(rng *gen.Rng, w *mon.W) (hot, churn []hammerOp) {
		h, c := famDecode(rng, 4, 1200)
		return append(famECDH(rng, 6, 72), h...), c
	},
	"C11": func(rng *gen.Rng, w *mon.W) (hot, churn []hammerOp) {
		_, c := famDecode(rng, 0, 1200)
		return famRecoverVerify(rng, 8), c
	},
	"C12": func(rng *gen.Rng, w *mon.W) (hot, churn []hammerOp) {
		_, c := famDecode(rng, 0, 400)
		return famParse(rng, 12), append(c, famParseChurn(rng, 2200)...)
	},
	"C13": func(rng *gen.Rng, w *mon.W) (hot, churn []hammerOp) { return famSchnorrVerify(rng, 8, 2600) },
	"C14": func(rng *gen.Rng, w *mon.W) (hot, churn []hammerOp) { return famSign(rng, 8, true), nil },
	"C15": func(rng *gen.Rng, w *mon.W) (hot, churn []hammerOp) { return famH2C(rng, 14), nil },
	"C16": func(rng *gen.Rng, w *mon.W) (hot, churn []hammerOp) { return famDoubleMulti(rng, 8), nil },
	"C18": func(rng *gen.Rng, w *mon.W) (hot, churn []hammerOp) {
		h, c := famDecode(rng, 6, 600)
		h = append(h, famEncode(rng, 8)...)
		h = append(h, famBaseMult(rng, 6)...)
		sh, _ := famSchnorrVerify(rng, 3, 0)
		h = append(h, sh...)
		return append(h, famDoubleMulti(rng, 3)...), c
	},
	"C19": func(rng *gen.Rng, w *mon.W) (hot, churn []hammerOp) {
		return append(famBaseMult(rng, 8), famScalarMult(rng, 4)...), nil
	},
}

// famParseChurn: distinct SubjectPublicKeyInfo inputs, each parsed once.
func famParseChurn(rng *gen.Rng, n int) []hammerOp {
	var ops []hammerOp
	for i := 0; i < n; i++ {
		var m *oracle.Pt
		for m == nil {
			m = oracle.LiftX(rng.Below(bigP), uint(i&1))
		}
		spki := oracle.SPKIWrite(oracle.EncodeUncompressed(m))
		want := oracle.EncodeCompressed(m)
		ops = append(ops, hammerOp{fmt.Sprintf("ParseASN1PublicKey(churn#%d)", i), want, func() []byte {
			k, err := secec.ParseASN1PublicKey(spki)
			if err != nil {
				return hammerErr
			}
			return k.CompressedBytes()
		}})
	}
	return ops
}

// hammerBulk: per property, how many bulk-churn calls and what one call does with counter k.
// Inputs are SHA-256(seed, k)-derived; about half of the random x-coordinates are on the curve.
var hammerBulk = map[string]func(r *mon.Run, rng *gen.Rng) (int, func(k int)){
	"C06": func(r *mon.Run, rng *gen.Rng) (int, func(k int)) {
		salt := rng.Bytes(16)
		return r.N(700000, 6000000), func(k int) { _, _ = secp256k1.NewPointFromBytes(bulkCompressed(salt, k)) }
	},
	"C10": func(r *mon.Run, rng *gen.Rng) (int, func(k int)) {
		salt := rng.Bytes(16)
		return r.N(600000, 5000000), func(k int) { _, _ = secec.NewPublicKey(bulkCompressed(salt, k)) }
	},
	"C11": func(r *mon.Run, rng *gen.Rng) (int, func(k int)) {
		salt := rng.Bytes(16)
		return r.N(650000, 5000000), func(k int) {
			x, _ := secp256k1.NewScalarFromBytes((*[32]byte)(bulkCompressed(salt, k)[1:]))
			_, _ = secp256k1.RecoverPoint(x, byte(k&1)) // (ids 2, 3 need x + n < p: almost never)
		}
	},
	"C12": func(r *mon.Run, rng *gen.Rng) (int, func(k int)) {
		salt := rng.Bytes(16)
		return r.N(300000, 3000000), func(k int) { _, _ = secec.ParseASN1PublicKey(oracle.SPKIWrite(bulkCompressed(salt, k))) }
	},
	"C13": func(r *mon.Run, rng *gen.Rng) (int, func(k int)) {
		salt := rng.Bytes(16)
		return r.N(700000, 6000000), func(k int) { _, _ = bitcoin.NewSchnorrPublicKey(bulkCompressed(salt, k)[1:]) }
	},
	"C18": func(r *mon.Run, rng *gen.Rng) (int, func(k int)) {
		salt := rng.Bytes(16)
		return r.N(300000, 3000000), func(k int) {
			if k&1 == 0 {
				_, _ = bitcoin.NewSchnorrPublicKey(bulkCompressed(salt, k)[1:])
			} else {
				_, _ = secec.NewPublicKey(bulkCompressed(salt, k))
			}
		}
	},
	"C07": func(r *mon.Run, rng *gen.Rng) (int, func(k int)) {
		// distinct KEYS through the verifier (whatever it remembers per key)
		salt := rng.Bytes(16)
		dig := rng.Bytes(32)
		sig := oracle.DERWriteSig(big.NewInt(0x1234567), big.NewInt(0x7654321))
		return r.N(20000, 400000), func(k int) {
			if key, err := secec.NewPublicKey(bulkCompressed(salt, k)); err == nil {
				_ = key.Verify(dig, sig, nil)
			}
		}
	},
	"C16": func(r *mon.Run, rng *gen.Rng) (int, func(k int)) {
		// distinct POINTS through the variable-time double-scalar multiply
		salt := rng.Bytes(16)
		u := scalarFromBig(big.NewInt(0x1234567))
		return r.N(20000, 400000), func(k int) {
			if p, err := secp256k1.NewPointFromBytes(bulkCompressed(salt, k)); err == nil {
				_ = new(Point).DoubleScalarMultBasepointVartime(u, u, p)
			}
		}
	},
	"C05": func(r *mon.Run, rng *gen.Rng) (int, func(k int)) {
		// very many fixed-base multiplications (whatever counts them: re-randomised blinding, a
		// statistics counter that wraps, a table that is rebuilt every so often)
		salt := rng.Bytes(16)
		return r.N(100000, 4600000), func(k int) {
			s, _ := secp256k1.NewScalarFromBytes((*[32]byte)(bulkCompressed(salt, k)[1:]))
			_ = new(Point).ScalarBaseMult(s)
		}
	},
	"C04": func(r *mon.Run, rng *gen.Rng) (int, func(k int)) {
		salt := rng.Bytes(16)
		u := scalarFromBig(big.NewInt(0x1234567))
		return r.N(12000, 250000), func(k int) {
			if p, err := secp256k1.NewPointFromBytes(bulkCompressed(salt, k)); err == nil {
				_ = new(Point).ScalarMult(u, p)
			}
		}
	},
}

// bulkCompressed: 02/03 || x with x = SHA-256(salt, k) (cut below p by clearing nothing: a value
// >= p is one more invalid input).
func bulkCompressed(salt []byte, k int) []byte {
	var in [24]byte
	copy(in[:16], salt)
	binary.LittleEndian.PutUint64(in[16:], uint64(k))
	h := sha256.Sum256(in[:])
	return append([]byte{byte(2 + k&1)}, h[:]...)
}

const stackFrameBytes = 112

// atStackDepth calls f with n frames of about stackFrameBytes each below it.
//
//go:noinline
func atStackDepth(n int, f func() []byte) []byte {
	var pad [64]byte
	pad[n%64] = byte(n)
	if n <= 0 {
		out := f()
		return append(out, pad[1:1]...)
	}
	out := atStackDepth(n-1, f)
	if pad[(n+1)%64] == 255 {
		out = append(out, pad[0])
	}
	return out
}
