package props

import (
	"fmt"
	"math/big"

	secp256k1 "gitlab.com/yawning/secp256k1-voi"

	"verifharness/gen"
	"verifharness/hk"
	"verifharness/mon"
	"verifharness/oracle"
)

func init() { Register("C04", runC04) }

// GLV lattice constants derived independently (extended Euclid on (n,
// lambda), Guide to ECC Alg. 3.74), not copied from the library.
type glvConsts struct {
	a1, b1, a2, b2 *big.Int
	g1, g2         *big.Int // round(2^384*b2/n), round(2^384*(-b1)/n)
}

func deriveGLV(lambda *big.Int) *glvConsts {
	n := bigN
	sqrtN := new(big.Int).Sqrt(n)
	// r0=n, r1=lambda ; t0=0, t1=1
	r0, r1 := new(big.Int).Set(n), new(big.Int).Set(lambda)
	t0, t1 := big.NewInt(0), big.NewInt(1)
	var rl, tl [](*big.Int)
	rl = append(rl, r0, r1)
	tl = append(tl, t0, t1)
	for r1.Sign() != 0 {
		q := new(big.Int).Div(r0, r1)
		r2 := new(big.Int).Sub(r0, new(big.Int).Mul(q, r1))
		t2 := new(big.Int).Sub(t0, new(big.Int).Mul(q, t1))
		r0, r1, t0, t1 = r1, r2, t1, t2
		rl = append(rl, r2)
		tl = append(tl, t2)
	}
	// l = greatest index with r_l >= sqrt(n)
	l := 0
	for i := range rl {
		if rl[i].Cmp(sqrtN) >= 0 {
			l = i
		}
	}
	c := &glvConsts{}
	c.a1, c.b1 = rl[l+1], new(big.Int).Neg(tl[l+1])
	n1 := new(big.Int).Add(new(big.Int).Mul(rl[l], rl[l]), new(big.Int).Mul(tl[l], tl[l]))
	n2 := new(big.Int).Add(new(big.Int).Mul(rl[l+2], rl[l+2]), new(big.Int).Mul(tl[l+2], tl[l+2]))
	if n1.Cmp(n2) <= 0 {
		c.a2, c.b2 = rl[l], new(big.Int).Neg(tl[l])
	} else {
		c.a2, c.b2 = rl[l+2], new(big.Int).Neg(tl[l+2])
	}
	round := func(num *big.Int) *big.Int { // round(2^384*num/n)
		x := new(big.Int).Lsh(num, 385)
		x.Add(x, n)
		return x.Div(x, new(big.Int).Lsh(n, 1))
	}
	c.g1 = round(c.b2)
	c.g2 = round(new(big.Int).Neg(c.b1))
	return c
}

var two383 = new(big.Int).Lsh(big.NewInt(1), 383)
var two128 = new(big.Int).Lsh(big.NewInt(1), 128)

func flooredDiv(k, g *big.Int) *big.Int {
	x := new(big.Int).Mul(k, g)
	x.Add(x, two383)
	return x.Rsh(x, 384)
}

// glvScalar draws a scalar from the GLV-specific classes.
func glvScalar(r *gen.Rng, c *glvConsts, lambda *big.Int) (*big.Int, string) {
	n := bigN
	switch r.Intn(17) {
	case 15, 16:
		// scalars around 2^128 and around the magnitudes at which the rounded quotients
		// c1, c2 first become non-zero (2^383/g, 2^384/g): the border between "no split
		// needed" and the general case
		switch r.Intn(4) {
		case 0:
			v := new(big.Int).Lsh(big.NewInt(1), uint(120+r.Intn(17)))
			v.Add(v, big.NewInt(int64(r.Intn(5)-2)))
			return oracle.Mod(v, n), "short-scalar-window"
		case 1:
			v := new(big.Int).Lsh(big.NewInt(1), uint(124+r.Intn(10)))
			v.Add(v, r.BigBits(v.BitLen()-1))
			return oracle.Mod(v, n), "short-scalar-window"
		case 2:
			// 2^128 + a fraction of 2^128
			v := new(big.Int).Lsh(big.NewInt(1), 128)
			v.Add(v, r.BigBits(110+r.Intn(18)))
			return oracle.Mod(v, n), "short-scalar-window"
		default:
			g := c.g1
			if r.Bool() {
				g = c.g2
			}
			v := new(big.Int).Div(new(big.Int).Lsh(big.NewInt(1), uint(383+r.Intn(2))), g)
			v.Add(v, big.NewInt(int64(r.Intn(7)-3)))
			if r.Chance(1, 3) {
				v.Sub(v, r.BigBits(1+r.Intn(126)))
			}
			return oracle.Mod(v, n), "short-scalar-window"
		}
	case 12, 13:
		// halves whose 64-bit limbs are structured: zero / all-ones low or high
		// limb (|k2| a multiple of 2^64, two's-complement carries between the
		// limbs of a half), and limbs equal to / next to the limbs of (n-1)/2
		// (limb-wise comparisons against the half order)
		h1, h2 := structuredHalf(r), structuredHalf(r)
		if r.Chance(1, 4) {
			h1 = r.BigBits(1 + r.Intn(127))
		}
		if r.Bool() {
			h1.Neg(h1)
		}
		if r.Chance(2, 3) {
			h2.Neg(h2)
		}
		k := new(big.Int).Add(h1, new(big.Int).Mul(h2, lambda))
		return oracle.Mod(k, n), "structured-halves"
	case 14:
		// per-limb relation (<, =, >) to (n-1)/2 chosen independently for every limb
		return halfRelated(r), "half-order-limb-relations"
	case 0:
		return gen.Pick(r, big.NewInt(0), big.NewInt(1), big.NewInt(2), new(big.Int).Sub(n, big.NewInt(1)), new(big.Int).Sub(n, big.NewInt(2))), "tiny/n-1"
	case 1:
		v := new(big.Int).Add(oracle.HalfN, big.NewInt(int64(r.Intn(5)-2)))
		return v, "halfN+-"
	case 2:
		// +-lambda^j
		j := 1 + r.Intn(2)
		v := oracle.ExpM(lambda, big.NewInt(int64(j)), n)
		if r.Bool() {
			v = oracle.NegM(v, n)
		}
		v = oracle.AddM(v, big.NewInt(int64(r.Intn(3)-1)), n)
		return v, "+-lambda^j"
	case 3, 4:
		// rounding bit (bit 383 of k*g) flips between neighbours
		g := c.g1
		if r.Bool() {
			g = c.g2
		}
		q := r.BigBits(126)
		num := new(big.Int).Lsh(q, 1)
		num.Add(num, big.NewInt(1))
		num.Mul(num, two383)
		k := new(big.Int).Div(num, g) // floor((2q+1)2^383/g): k*g just below the boundary ; k+1 just above
		k.Add(k, big.NewInt(int64(r.Intn(3)-1)))
		return oracle.Mod(k, n), "rounding-bit-boundary"
	case 5, 6:
		// rounded quotient carries across a 64-bit limb
		g := c.g1
		if r.Bool() {
			g = c.g2
		}
		q := r.BigBits(62)
		q.Lsh(q, 64)
		q.Or(q, new(big.Int).SetUint64(^uint64(0)))
		num := new(big.Int).Lsh(q, 1)
		num.Add(num, big.NewInt(1))
		num.Mul(num, two383)
		k := new(big.Int).Div(num, g)
		k.Add(k, big.NewInt(int64(r.Intn(3)-1)))
		return oracle.Mod(k, n), "limb-carry-boundary"
	case 7, 8:
		// halves at their extreme magnitude: k = k1 + k2*lambda with |k1|,|k2| ~ 2^127..2^128
		mag := func() *big.Int {
			v := new(big.Int).Lsh(big.NewInt(1), uint(126+r.Intn(2)))
			v.Add(v, r.BigBits(126))
			if r.Chance(1, 4) {
				v = new(big.Int).Sub(two128, big.NewInt(int64(1+r.Intn(4))))
			}
			if r.Bool() {
				v.Neg(v)
			}
			return v
		}
		k1, k2 := mag(), mag()
		k := new(big.Int).Add(k1, new(big.Int).Mul(k2, lambda))
		return oracle.Mod(k, n), "extreme-halves"
	case 9:
		// nibble patterns
		b := make([]byte, 32)
		pat := gen.Pick(r, byte(0x00), 0xff, 0x0f, 0xf0, 0x11, 0x88)
		for i := range b {
			b[i] = pat
		}
		if r.Bool() {
			b[r.Intn(32)] = byte(r.U64())
		}
		return oracle.Mod(oracle.FromBytes(b), n), "nibble-pattern"
	case 10:
		v := new(big.Int).Lsh(big.NewInt(int64(1+r.Intn(15))), uint(4*r.Intn(64)))
		return oracle.Mod(v, n), "single-nibble"
	default:
		v, cl := r.Value(n)
		return v, "value:" + cl
	}
}

// structuredHalf returns a magnitude below 2^128 built from two structured limbs.
func structuredHalf(r *gen.Rng) *big.Int {
	hl := oracle.Limbs(oracle.HalfN)
	limb := func() uint64 {
		switch r.Intn(10) {
		case 0, 1:
			return 0
		case 2:
			return ^uint64(0)
		case 3:
			return 1
		case 4:
			return 1 << 63
		case 5:
			return hl[r.Intn(2)]
		case 6:
			return hl[r.Intn(2)] + uint64(1+r.Intn(3))
		case 7:
			return hl[r.Intn(2)] - uint64(1+r.Intn(3))
		default:
			return r.U64()
		}
	}
	lo, hi := limb(), limb()
	v := new(big.Int).SetUint64(hi)
	v.Lsh(v, 64).Or(v, new(big.Int).SetUint64(lo))
	return v
}

// halfRelated returns a scalar whose limbs are, independently per limb, below,
// equal to or above the corresponding limb of (n-1)/2 (reduced mod n).
func halfRelated(r *gen.Rng) *big.Int {
	l := oracle.Limbs(oracle.HalfN)
	for j := range l {
		switch r.Intn(4) {
		case 0:
			if l[j] != 0 {
				l[j] -= 1 + r.U64()%l[j]
			}
		case 1:
			if l[j] != ^uint64(0) {
				l[j] += 1 + r.U64()%(^uint64(0)-l[j])
			}
		case 2:
			if r.Bool() {
				l[j] = 0
			}
		}
	}
	if r.Bool() {
		// the shape of a GLV half: below 2^128 (such a scalar is its own first half)
		l[2], l[3] = 0, 0
	}
	return oracle.Mod(oracle.FromLimbs(l), bigN)
}

func runC04(r *mon.Run) {
	n := bigN
	lambda := oracle.Lambda
	if hk.HaveMul {
		// which cube root of unity does the library's endomorphism use?
		g := pointRep(oracle.G(), big.NewInt(1))
		if abs, err := pointAbs(hk.MulBeta(new(Point), g)); err == nil && !abs.Eq(oracle.Mul(lambda, oracle.G())) {
			l2 := oracle.MulM(lambda, lambda, n)
			if abs.Eq(oracle.Mul(l2, oracle.G())) {
				lambda = l2
			}
		}
	} else {
		r.Note("hook group verif_mul unavailable: split invariants and the hooked variable-time multiply are not observed; public entry points only")
	}
	c := deriveGLV(lambda)
	r.Extra("lambda", hb(lambda))
	r.Extra("derived_g1", hb(c.g1))
	r.Extra("derived_g2", hb(c.g2))

	if hk.HaveMul {
		r.Require("c04:split:rounding-bit-boundary", "c04:split:limb-carry-boundary", "c04:split:extreme-halves", "c04:split:structured-halves", "c04:split:half-order-limb-relations", "c04:split:short-scalar-window", "c04:split:half>=2^127",
			"c04:split:k1-negated", "c04:split:k2-negated", "c04:round:bit383=1", "c04:round:bit383=0", "c04:round:carry-into-next-limb")
		maxBits := make([]int, 64)
		r.Each("c04/split", r.N(150000, 6000000), func(w *mon.W, i int) {
			rng := w.Rng
			k, cl := glvScalar(rng, c, lambda)
			w.Class("c04:split:" + cl)
			s := scalarFromBig(k)
			k1s, k2s := hk.SplitGLV(s)
			k1, k2 := bigFromScalar(k1s), bigFromScalar(k2s)
			w.Case(cl[:5] != "value", []byte("split"), b32(k))
			if i < 2 {
				w.Sample(map[string]any{"op": "splitGLV", "k": hb(k), "class": cl, "k1": hb(k1), "k2": hb(k2)})
			}
			if got := oracle.AddM(k1, oracle.MulM(k2, lambda, n), n); got.Cmp(k) != 0 {
				w.Fail("c04/split:recompose", fmt.Sprintf("splitGLV(%x) = (%x, %x): k1 + k2*lambda = %x != k", k, k1, k2, got), "k", hb(k), "class", cl)
			}
			for j, h := range []*big.Int{k1, k2} {
				if h.Cmp(oracle.HalfN) > 0 {
					h = new(big.Int).Sub(n, h)
					w.Class(fmt.Sprintf("c04:split:k%d-negated", j+1))
				}
				if h.Cmp(two128) >= 0 {
					w.Fail("c04/split:128", fmt.Sprintf("splitGLV(%x): half %d has magnitude %x >= 2^128 (does not fit the ladder window)", k, j+1, h), "k", hb(k), "class", cl)
				}
				if h.BitLen() >= 128 {
					w.Class("c04:split:half>=2^127")
				}
				if b := h.BitLen(); b > maxBits[i%64] {
					maxBits[i%64] = b // racy max is only informational
				}
			}
			if got, _ := hk.ScalarRaw(s); oracle.FromMont(oracle.FromLimbs(got), n).Cmp(k) != 0 {
				w.Fail("c04/split:operand", "splitGLV modified its receiver", "k", hb(k))
			}
			// the rounded multiply-shift itself
			for which, g := range []*big.Int{c.g1, c.g2} {
				want := flooredDiv(k, g)
				got := bigFromScalar(hk.MulGFlooredDiv(secp256k1.NewScalar(), s, which+1))
				prod := new(big.Int).Mul(k, g)
				if prod.Bit(383) == 1 {
					w.Class("c04:round:bit383=1")
					q := new(big.Int).Rsh(prod, 384)
					if oracle.Limbs(q)[0] == ^uint64(0) {
						w.Class("c04:round:carry-into-next-limb")
					}
				} else {
					w.Class("c04:round:bit383=0")
				}
				if got.Cmp(want) != 0 {
					w.Fail(fmt.Sprintf("c04/mulGFlooredDiv/g%d", which+1), fmt.Sprintf("mulGFlooredDiv(%x, g%d) = %x, expected round(k*g/2^384) = %x", k, which+1, got, want), "k", hb(k), "class", cl)
				}
			}
			if i%4 == 0 {
				// arbitrary g: the schoolbook product, the shift and the rounding carry
				g := rng.Below(n)
				if rng.Chance(1, 3) {
					g = oracle.Mod(rng.BigBits(256), n)
					gl := oracle.Limbs(g)
					gl[rng.Intn(4)] = ^uint64(0)
					g = oracle.Mod(oracle.FromLimbs(gl), n)
				}
				kk := k
				if rng.Chance(1, 3) {
					// force floor(k*g/2^384) to end in an all-ones limb with bit 383 set
					q := rng.BigBits(60)
					q.Lsh(q, 64).Or(q, new(big.Int).SetUint64(^uint64(0)))
					num := new(big.Int).Lsh(q, 1)
					num.Add(num, big.NewInt(1)).Mul(num, two383)
					if g.Sign() != 0 {
						kk = oracle.Mod(new(big.Int).Add(new(big.Int).Div(num, g), big.NewInt(1)), n)
					}
				}
				want := flooredDiv(kk, g)
				got := bigFromScalar(hk.MulGFlooredDivAny(secp256k1.NewScalar(), scalarFromBig(kk), scalarFromBig(g)))
				if got.Cmp(want) != 0 {
					w.Fail("c04/mulGFlooredDiv/any", fmt.Sprintf("mulGFlooredDiv(%x, %x) = %x, expected %x", kk, g, got, want), "k", hb(kk), "g", hb(g))
				}
			}
		})
		mb := 0
		for _, b := range maxBits {
			if b > mb {
				mb = b
			}
		}
		r.Extra("max_half_bits_seen", mb)
	}

	// --- end to end --------------------------------------------------------------
	pool := knownPointPool(r.Seed, r.N(4, 24))
	np := len(pool)
	r.Require("c04:mult:P=inf", "c04:mult:s=0", "c04:mult:rcv=P", "c04:mult:rep-nontrivial", "c04:mult:extreme-halves", "c04:mult:rounding-bit-boundary", "c04:mult:structured-halves", "c04:mult:half-order-limb-relations", "c04:mult:short-scalar-window")
	entry := []string{"ScalarMult", "MultiScalarMult[1]", "DoubleScalarMultBasepointVartime(0,s,P)", "MultiScalarMultVartime[1]", "scalarMultVartimeGLV"}
	r.Each("c04/mult", r.N(2600, 100000), func(w *mon.W, i int) {
		rng := w.Rng
		s, cl := glvScalar(rng, c, lambda)
		w.Class("c04:mult:" + cl)
		P := pool[rng.Intn(np)]
		if i%9 == 0 {
			P = pool[0] // infinity
		}
		if i%5 == 0 {
			P = namedPt{"G", oracle.G(), big.NewInt(1)}
		}
		if P.P.Inf {
			w.Class("c04:mult:P=inf")
		}
		if s.Sign() == 0 {
			w.Class("c04:mult:s=0")
		}
		z, cz := repZ(rng)
		if cz != "Z=1" {
			w.Class("c04:mult:rep-nontrivial")
		}
		var want *oracle.Pt
		if P.K != nil {
			want = oracle.MulG(oracle.MulM(s, P.K, n))
		} else {
			want = oracle.Mul(s, P.P)
		}
		ls := scalarFromBig(s)
		w.Case(true, []byte("mult"), b32(s), []byte(P.Name), b32(z))
		if i < 2 {
			w.Sample(map[string]any{"op": "ScalarMult & variable-time variants", "s": hb(s), "class": cl, "P": P.Name, "rep": cz})
		}
		for ei, e := range entry {
			if e == "scalarMultVartimeGLV" && !hk.HaveMul {
				continue
			}
			lp := pointRep(P.P, z)
			switch rng.Intn(4) {
			case 0:
				// an operand OBJECT with a past (held another affine point, then overwritten)
				lp, _ = pointWithHistory(rng, P.P)
				w.Class("c04:mult:operand-with-history")
			case 1:
				// built through a public constructor / decoder
				lp, _ = freshPointVia(rng, P.P, nil)
				w.Class("c04:mult:operand-from-public-constructor")
			}
			v := new(Point)
			if rng.Bool() {
				v = pointRep(pool[rng.Intn(np)].P, big.NewInt(3)) // dirty receiver
				if rng.Bool() {
					v, _ = freshPointVia(rng, pool[rng.Intn(np)].P, nil) // dirty receiver holding an affine point
				}
			}
			aliased := (i+ei)%3 == 0
			if aliased {
				v = lp
				w.Class("c04:mult:rcv=P")
			}
			sp := snapPoint(lp)
			switch ei {
			case 0:
				v.ScalarMult(ls, lp)
			case 1:
				v.MultiScalarMult([]*Scalar{ls}, []*Point{lp})
			case 2:
				v.DoubleScalarMultBasepointVartime(secp256k1.NewScalar(), ls, lp)
			case 3:
				v.MultiScalarMultVartime([]*Scalar{ls}, []*Point{lp})
			case 4:
				hk.ScalarMultVartimeGLV(v, ls, lp)
			}
			if msg := expectPoint(v, want); msg != "" {
				w.Fail("c04/"+e, fmt.Sprintf("%s(s=%x [%s], P=%s[%s], rcv=P:%v): %s", e, s, cl, P.Name, cz, aliased, msg), "s", hb(s), "P", P.P, "z", hb(z), "class", cl)
			}
			if !aliased && !snapPoint(lp).equal(sp) {
				w.Fail("c04/"+e+":operand", e+" modified its point operand", "s", hb(s), "P", P.P)
			}
			if bigFromScalar(ls).Cmp(s) != 0 {
				w.Fail("c04/"+e+":operand", e+" modified its scalar operand", "s", hb(s))
			}
		}
	})
	// results that are functions of the arguments alone do not depend on the process-wide system entropy stream
	runDegradedEntropy(r, "c04", r.N(40, 600), "sm", "msm")
}
