package props

import (
	"bytes"
	"crypto"
	"fmt"
	"math/big"

	secp256k1 "gitlab.com/yawning/secp256k1-voi"
	"gitlab.com/yawning/secp256k1-voi/secec/h2c"

	"verifharness/gen"
	"verifharness/hk"
	"verifharness/mon"
	"verifharness/oracle"
)

func init() { Register("C15", runC15) }

// c15SWU is installed by the verif-tagged file when field elements are reachable.
var c15SWU func(r *mon.Run)

// uValue draws a field element for map_to_curve with its class.
func uValue(r *gen.Rng) (*big.Int, string) {
	p := bigP
	inv11 := oracle.InvM(big.NewInt(11), p)
	root := oracle.SqrtP(inv11) // 11 is a square mod p, so 1/11 is
	switch r.Intn(10) {
	case 0:
		return big.NewInt(0), "u=0"
	case 1:
		return big.NewInt(1), "u=1"
	case 2:
		return new(big.Int).Sub(p, big.NewInt(1)), "u=p-1"
	case 3:
		if root != nil {
			if r.Bool() {
				return root, "u^2=1/11"
			}
			return oracle.NegM(root, p), "u^2=1/11"
		}
	case 4:
		v, _ := r.Value(p)
		return v, "u=special-value"
	}
	return r.Below(p), "u=random"
}

// uniformBytesFor returns a 32..64-byte string whose value is u mod p.
func uniformBytesFor(r *gen.Rng, u *big.Int) []byte {
	l := 32 + r.Intn(33)
	if r.Chance(1, 3) {
		l = 48
	}
	max := new(big.Int).Lsh(big.NewInt(1), uint(8*l))
	// v = u + j*p < 2^(8l)
	jmax := new(big.Int).Div(new(big.Int).Sub(new(big.Int).Sub(max, big.NewInt(1)), u), bigP)
	j := r.Range(big.NewInt(0), jmax)
	if r.Chance(1, 3) {
		j = gen.Pick(r, big.NewInt(0), jmax)
	}
	v := new(big.Int).Add(u, new(big.Int).Mul(j, bigP))
	out := make([]byte, l)
	v.FillBytes(out)
	return out
}

func runC15(r *mon.Run) {
	for _, c := range []string{"c15:u=0", "c15:u=1", "c15:u=p-1", "c15:u^2=1/11", "c15:gx1-square", "c15:gx1-nonsquare", "c15:sgn0(u)=0", "c15:sgn0(u)=1",
		"c15:dstlen=1", "c15:dstlen=254", "c15:dstlen=255", "c15:dstlen=256", "c15:dstlen=257", "c15:dstlen>=1000", "c15:dst-empty", "c15:msglen=0", "c15:RO", "c15:NU", "c15:wide-reduction-resonant"} {
		r.Require(c)
	}
	classifyU := func(w *mon.W, u *big.Int) {
		// gx1 square? (oracle side, generic SWU)
		A, Bc, Z := oracle.IsoA, oracle.IsoB, oracle.SwuZ
		zu2 := oracle.MulM(Z, oracle.MulM(u, u, bigP), bigP)
		tv1 := oracle.InvM(oracle.AddM(oracle.MulM(zu2, zu2, bigP), zu2, bigP), bigP)
		x1 := oracle.MulM(oracle.MulM(oracle.NegM(Bc, bigP), oracle.InvM(A, bigP), bigP), oracle.AddM(big.NewInt(1), tv1, bigP), bigP)
		if tv1.Sign() == 0 {
			x1 = oracle.MulM(Bc, oracle.InvM(oracle.MulM(Z, A, bigP), bigP), bigP)
		}
		if oracle.IsSquareP(oracle.EIso.RHS(x1)) {
			w.Class("c15:gx1-square")
		} else {
			w.Class("c15:gx1-nonsquare")
		}
		w.Class(fmt.Sprintf("c15:sgn0(u)=%d", u.Bit(0)))
	}

	// --- the uniform-bytes mapping on steered field elements ----------------------------------
	r.Each("c15/uniform", r.N(6000, 300000), func(w *mon.W, i int) {
		rng := w.Rng
		u, cl := uValue(rng)
		src := uniformBytesFor(rng, u)
		if i%5 == 4 {
			// strings whose 64-bit words resonate with the reduction constant 2^256 mod p
			// (partial products of the wide reduction that carry where random words never do)
			l := 48
			if rng.Chance(1, 3) {
				l = 32 + rng.Intn(33)
			}
			src = rng.ResonantWide(l, 0x1000003d1)
			u, cl = oracle.Mod(oracle.FromBytes(src), bigP), "wide-reduction-resonant"
		}
		w.Class("c15:" + cl)
		classifyU(w, u)
		keep := append([]byte{}, src...)
		want := oracle.MapToCurve(u)
		w.Case(true, []byte("uniform"), src)
		if i < 3 {
			w.Sample(map[string]any{"op": "Point.SetUniformBytes", "src": hx(src), "u": hb(u), "class": cl})
		}
		v := new(Point)
		if rng.Bool() {
			v = pointFromOracle(oracle.G())
		}
		ret := v.SetUniformBytes(src)
		if ret != v {
			w.Fail("c15/SetUniformBytes:ret", "SetUniformBytes did not return its receiver")
		}
		if msg := expectPoint(v, want); msg != "" {
			w.Fail("c15/SetUniformBytes/"+cl, fmt.Sprintf("SetUniformBytes(%x) [u=%x, %s]: %s", src, u, cl, msg), "src", src, "u", hb(u))
		}
		// purity: again, after unrelated calls
		_ = new(Point).SetUniformBytes(rng.Bytes(48))
		v2 := new(Point).SetUniformBytes(src)
		if !bytes.Equal(v2.UncompressedBytes(), v.UncompressedBytes()) {
			w.Fail("c15/SetUniformBytes:pure", "the same input gave two different points", "src", src)
		}
		if !bytes.Equal(src, keep) {
			w.Fail("c15/SetUniformBytes:src", "SetUniformBytes modified its input")
		}
		if i < 40 {
			for _, bl := range []int{0, 1, 31, 65, 100} {
				if p, _ := mon.Panics(func() { new(Point).SetUniformBytes(make([]byte, bl)) }); !p {
					w.Fail("c15/SetUniformBytes:len", fmt.Sprintf("SetUniformBytes accepted a %d-byte string", bl))
				}
			}
		}
	})

	// --- the suites ----------------------------------------------------------------------------------
	r.Require("c15:layout:shared-buffer", "c15:buffer-reuse")
	r.Each("c15/suites", r.N(2500, 100000), func(w *mon.W, i int) {
		rng := w.Rng
		dl := []int{1, 2, 16, 43, 254, 255, 256, 257, 1000, 70000}[i%10]
		if i%7 == 0 {
			dl = 1 + rng.Intn(300)
		}
		dst := rng.Bytes(dl)
		if i%3 == 0 {
			copy(dst, []byte("QUUX-V01-CS02-with-secp256k1_XMD:SHA-256_SSWU_RO_"))
		}
		switch {
		case dl >= 1000:
			w.Class("c15:dstlen>=1000")
		case dl == 1 || dl == 254 || dl == 255 || dl == 256 || dl == 257:
			w.Class(fmt.Sprintf("c15:dstlen=%d", dl))
		}
		ml := []int{0, 1, 3, 16, 55, 56, 64, 119, 128, 300}[(i/10)%10]
		msg := rng.Bytes(ml)
		if ml == 0 {
			w.Class("c15:msglen=0")
		}
		// Hostile memory layout (odd cases): tag and message are sub-slices of ONE
		// caller buffer, each with spare capacity running into what follows, the
		// whole followed by canary bytes.  A callee that appends to an input slice
		// writes into its neighbour; the result must not depend on the layout and
		// no byte of the buffer may change.
		var whole, wholeKeep []byte
		if i%2 == 1 {
			whole = append(append(append([]byte{}, dst...), msg...), bytes.Repeat([]byte{0xa5}, 48)...)
			dst, msg = whole[:dl], whole[dl:dl+ml]
			wholeKeep = append([]byte{}, whole...)
			w.Class("c15:layout:shared-buffer")
		}
		keepD, keepM := append([]byte{}, dst...), append([]byte{}, msg...)
		w.Case(true, []byte("suite"), dst, msg, []byte{byte(i % 2)})
		if i < 3 {
			w.Sample(map[string]any{"op": "Secp256k1_XMD_SHA256_SSWU_RO/NU", "dst_len": dl, "msg_len": ml})
		}
		// RO
		wantRO, us, err := oracle.HashToCurveRO(msg, dst)
		if err != nil {
			w.Fail("c15/oracle", err.Error())
			return
		}
		gotRO, err := h2c.Secp256k1_XMD_SHA256_SSWU_RO(dst, msg)
		w.Class("c15:RO")
		if err != nil {
			w.Fail("c15/RO:err", fmt.Sprintf("RO suite failed for a non-empty DST of %d bytes: %v", dl, err), "dst", dst, "msg", msg)
		} else if m := expectPoint(gotRO, wantRO); m != "" {
			w.Fail(fmt.Sprintf("c15/RO/dstlen=%d", dl), fmt.Sprintf("RO suite (dst %d bytes, msg %d bytes): %s", dl, ml, m), "dst", dst, "msg", msg)
		}
		for _, u := range us {
			classifyU(w, u)
		}
		wantNU, _, _ := oracle.EncodeToCurveNU(msg, dst)
		gotNU, err := h2c.Secp256k1_XMD_SHA256_SSWU_NU(dst, msg)
		w.Class("c15:NU")
		if err != nil {
			w.Fail("c15/NU:err", fmt.Sprintf("NU suite failed: %v", err), "dst", dst, "msg", msg)
		} else if m := expectPoint(gotNU, wantNU); m != "" {
			w.Fail(fmt.Sprintf("c15/NU/dstlen=%d", dl), fmt.Sprintf("NU suite (dst %d bytes, msg %d bytes): %s", dl, ml, m), "dst", dst, "msg", msg)
		}
		// pure function: repeat
		if again, err := h2c.Secp256k1_XMD_SHA256_SSWU_RO(dst, msg); err == nil && gotRO != nil && again.Equal(gotRO) != 1 {
			w.Fail("c15/RO:pure", "the RO suite returned two different points for the same input")
		}
		if !bytes.Equal(dst, keepD) || !bytes.Equal(msg, keepM) {
			w.Fail("c15:src", "a suite modified its inputs", "dst", keepD, "msg", keepM)
		}
		if whole != nil && !bytes.Equal(whole, wholeKeep) {
			w.Fail("c15:src:shared-buffer", fmt.Sprintf("a suite wrote into the caller's buffer outside/inside its inputs (tag and message passed as sub-slices of one buffer): before %x, after %x", wholeKeep, whole), "dst_len", dl, "msg_len", ml)
		}
		if i%20 == 0 {
			w.Class("c15:dst-empty")
			if p, err := h2c.Secp256k1_XMD_SHA256_SSWU_RO(nil, msg); err == nil || p != nil {
				w.Fail("c15/RO:empty-dst", "the RO suite accepted an empty DST")
			}
			if p, err := h2c.Secp256k1_XMD_SHA256_SSWU_NU([]byte{}, msg); err == nil || p != nil {
				w.Fail("c15/NU:empty-dst", "the NU suite accepted an empty DST")
			}
		}
	})

	// --- the caller rewrites its tag / message buffers IN PLACE and calls again (same slices,
	// same lengths, new contents): the result must follow the new contents.  A cache that keeps
	// the caller's slice as its key, or data derived from the first call, shows only here.
	// Single goroutine: nothing else calls the suites between the steps.
	r.Seq("c15/buffer-reuse", r.N(160, 6000), func(w *mon.W, i int) {
		rng := w.Rng
		dl := []int{256, 300, 1000, 2, 43, 255, 257, 70000}[i%8]
		ml := []int{0, 3, 64, 130}[(i/8)%4]
		dst, msg := rng.Bytes(dl), rng.Bytes(ml)
		w.Class("c15:buffer-reuse")
		w.Case(true, []byte("reuse"), dst, msg)
		for rep := 0; rep < 3; rep++ {
			if rep > 0 {
				dst[dl-1] ^= byte(rep)
				dst[rng.Intn(dl)] ^= 0x40
				if ml > 0 {
					msg[rng.Intn(ml)] ^= 0x10
				}
			}
			want2, _, err := oracle.HashToCurveRO(msg, dst)
			if err != nil {
				w.Fail("c15/oracle", err.Error())
				return
			}
			got2, err := h2c.Secp256k1_XMD_SHA256_SSWU_RO(dst, msg)
			if err != nil {
				w.Fail("c15/RO:reuse:err", err.Error())
			} else if m := expectPoint(got2, want2); m != "" {
				w.Fail(fmt.Sprintf("c15/RO:buffer-reuse/dstlen=%d", dl), fmt.Sprintf("RO suite, call #%d with the same %d-byte tag slice after the caller rewrote it in place: %s", rep+1, dl, m), "dst", append([]byte{}, dst...), "msg", append([]byte{}, msg...))
				return
			}
			wantN2, _, _ := oracle.EncodeToCurveNU(msg, dst)
			if gotN2, err := h2c.Secp256k1_XMD_SHA256_SSWU_NU(dst, msg); err != nil || expectPoint(gotN2, wantN2) != "" {
				w.Fail(fmt.Sprintf("c15/NU:buffer-reuse/dstlen=%d", dl), fmt.Sprintf("NU suite, call #%d with the same %d-byte tag slice after the caller rewrote it in place, differs from RFC 9380", rep+1, dl), "dst", append([]byte{}, dst...), "msg", append([]byte{}, msg...))
				return
			}
			// a fresh copy of the same contents must agree as well
			if got3, err := h2c.Secp256k1_XMD_SHA256_SSWU_RO(append([]byte{}, dst...), append([]byte{}, msg...)); err != nil || expectPoint(got3, want2) != "" {
				w.Fail("c15/RO:buffer-reuse:fresh-copy", "RO suite on a fresh copy of the rewritten tag differs from RFC 9380", "dst", append([]byte{}, dst...), "msg", append([]byte{}, msg...))
				return
			}
		}
	})

	// --- expand_message_xmd through the hook ---------------------------------------------------------
	if hk.HaveH2C {
		r.Require("c15:xmd:len=1", "c15:xmd:len=8160", "c15:xmd:len>8160", "c15:xmd:len=0", "c15:xmd:len=32", "c15:xmd:len=33")
		r.Each("c15/xmd", r.N(3000, 120000), func(w *mon.W, i int) {
			rng := w.Rng
			l := []int{1, 31, 32, 33, 48, 64, 65, 96, 255, 256, 8159, 8160, 8161, 0, 65535, 65536, 70000}[i%17]
			if i%5 == 0 {
				l = 1 + rng.Intn(8160)
			}
			switch {
			case l == 0, l == 1, l == 32, l == 33, l == 8160:
				w.Class(fmt.Sprintf("c15:xmd:len=%d", l))
			case l > 8160:
				w.Class("c15:xmd:len>8160")
			}
			dl := gen.Pick(rng, 1, 16, 255, 256, 300, 0)
			dst := rng.Bytes(dl)
			msg := rng.Bytes(rng.Intn(200))
			want, werr := oracle.ExpandMessageXMD(msg, dst, l)
			if l == 0 {
				werr = oracle.ErrXMDLen // the library refuses zero-length output (stated in its documentation); the suites never ask for it
			}
			out := make([]byte, l)
			err := hk.ExpandMessageXMD(out, crypto.SHA256, dst, msg)
			w.Case(true, []byte("xmd"), dst, msg, []byte(fmt.Sprint(l)))
			if (err == nil) != (werr == nil) {
				if l == 0 {
					return // zero-length output is outside RFC 9380's use here; either behaviour is fine
				}
				w.Fail("c15/expand_message_xmd:err", fmt.Sprintf("expand_message_xmd(len %d, dst %d bytes): err=%v, RFC 9380 says err=%v", l, dl, err, werr), "dst", dst, "msg", msg, "len", l)
			} else if err == nil && !bytes.Equal(out, want) {
				w.Fail("c15/expand_message_xmd", fmt.Sprintf("expand_message_xmd(len %d, dst %d bytes) differs from RFC 9380 5.3.1", l, dl), "dst", dst, "msg", msg, "len", l)
			}
		})
	} else {
		r.Note("hook group verif_h2c unavailable: expand_message_xmd observed only through the suites (96/48-byte outputs)")
	}
	if c15SWU != nil {
		c15SWU(r)
	} else {
		r.Note("SWU / isogeny intermediate hooks unavailable: observed only through SetUniformBytes")
	}
	_ = secp256k1.CoordSize
}
