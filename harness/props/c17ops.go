//go:build verif

package props

import (
	"bytes"
	"fmt"
	"math/big"
	"strings"

	secp256k1 "gitlab.com/yawning/secp256k1-voi"
	"gitlab.com/yawning/secp256k1-voi/secec"
	"gitlab.com/yawning/secp256k1-voi/secec/bitcoin"

	"verifharness/gen"
	"verifharness/hk"
	"verifharness/oracle"
)

// The secret set and the operation table of the trace-equivalence monitors of C17:
// shared by the source-level monitor (c17.go, instrumented build) and the
// instruction-level one (cmd/ctprobe under bin/cttrace.py).

type c17Secret struct {
	v     *big.Int // in [1,n)
	class string
}

// c17Secrets builds the secret set: nibble patterns, boundary values,
// all four sign combinations of the split halves, both public-key
// parities, random.
func c17Secrets(seed int64, nRandom int) []c17Secret {
	n := bigN
	var out []c17Secret
	add := func(v *big.Int, cl string) {
		v = oracle.Mod(v, n)
		if v.Sign() != 0 {
			out = append(out, c17Secret{v, cl})
		}
	}
	// 0 is a legitimate secret scalar for the arithmetic and multiplication entry
	// points (not for private keys: operations that need a key skip it, see zeroOK)
	out = append(out, c17Secret{new(big.Int), "0"})
	add(big.NewInt(1), "1")
	add(big.NewInt(2), "2")
	add(big.NewInt(3), "3")
	add(big.NewInt(16), "16")
	add(new(big.Int).Sub(n, big.NewInt(1)), "n-1")
	add(new(big.Int).Sub(n, big.NewInt(2)), "n-2")
	add(oracle.HalfN, "halfN")
	add(new(big.Int).Add(oracle.HalfN, big.NewInt(1)), "halfN+1")
	for _, pat := range []byte{0x0f, 0xf0, 0x01, 0x10, 0x7f, 0x80, 0x55, 0xaa} {
		add(oracle.FromBytes(bytes.Repeat([]byte{pat}, 32)), fmt.Sprintf("pattern-%02x", pat))
	}
	b := make([]byte, 32)
	for i := 16; i < 32; i++ {
		b[i] = 0xff
	}
	add(oracle.FromBytes(b), "00..ff..")
	b = make([]byte, 32)
	for i := 0; i < 16; i++ {
		b[i] = 0xff
	}
	add(oracle.FromBytes(b), "ff..00..")
	for _, pos := range []int{0, 1, 31, 32, 62, 63} {
		add(new(big.Int).Lsh(big.NewInt(0xf), uint(4*pos)), fmt.Sprintf("single-nibble@%d", pos))
		add(new(big.Int).Lsh(big.NewInt(1), uint(4*pos)), fmt.Sprintf("single-bit@%d", 4*pos))
	}
	add(oracle.Lambda, "lambda")
	add(oracle.NegM(oracle.Lambda, n), "-lambda")
	add(new(big.Int).Lsh(big.NewInt(1), 128), "2^128")
	add(new(big.Int).Sub(new(big.Int).Lsh(big.NewInt(1), 128), big.NewInt(1)), "2^128-1")
	rng := gen.New(seed, 0, "C17", "secrets")
	// secrets inside the rare windows of the GLV decomposition (rounding bit, carry out of
	// the low limb of the rounded quotient, extreme halves): a branch on such a carry runs
	// for 2^-64 of all scalars
	for i := 0; i < 8; i++ {
		v, cl := glvSteered(gen.New(seed, i, "C17", "glv-secrets"))
		add(v, "glv-window:"+cl)
	}
	// ... and, constructed and re-checked with integers: the rounded quotient k*g/2^384
	// has an all-ones low limb AND the rounding bit set (the carry really propagates),
	// for each lattice constant of either cube root of unity
	glvSteered(rng) // initialises glvByLambda
	mask64 := new(big.Int).SetUint64(^uint64(0))
	for _, c := range glvByLambda {
		for gi, g := range []*big.Int{c.g1, c.g2} {
			for tries, found := 0, 0; tries < 64 && found < 2; tries++ {
				q := rng.BigBits(60)
				q.Lsh(q, 64).Or(q, mask64)
				num := new(big.Int).Lsh(q, 1)
				num.Add(num, big.NewInt(1)).Mul(num, two383)
				k := new(big.Int).Div(num, g)
				k.Add(k, big.NewInt(1))
				t := new(big.Int).Mul(k, g)
				lo := new(big.Int).And(new(big.Int).Rsh(t, 384), mask64)
				if k.Cmp(n) < 0 && lo.Cmp(mask64) == 0 && t.Bit(383) == 1 {
					add(k, fmt.Sprintf("glv-window:rounding-carry-out-of-low-limb(g%d)", gi+1))
					found++
				}
			}
		}
	}
	// split-half sign combinations and public-key parities (searched, classified by the library hook / oracle)
	if hk.HaveMul {
		want := map[string]int{"k1+,k2+": 0, "k1+,k2-": 0, "k1-,k2+": 0, "k1-,k2-": 0}
		for tries := 0; tries < 400; tries++ {
			v := rng.Below(n)
			if v.Sign() == 0 {
				continue
			}
			k1, k2 := hk.SplitGLV(scalarFromBig(v))
			cl := "k1+"
			if k1.IsGreaterThanHalfN() == 1 {
				cl = "k1-"
			}
			if k2.IsGreaterThanHalfN() == 1 {
				cl += ",k2-"
			} else {
				cl += ",k2+"
			}
			if want[cl] < 3 {
				want[cl]++
				add(v, "split:"+cl)
			}
		}
	}
	// secrets whose STORED (Montgomery) limbs agree with those of the public operand they
	// are compared with on the lowest / highest k limbs: a comparison that stops at the
	// first differing limb runs 1, 2, 3 or 4 limb compares on them (unequal random secrets
	// all differ in the first limb looked at and are indistinguishable from each other)
	for _, mod := range []struct {
		name string
		m    *big.Int
		pub  *big.Int
	}{{"scalar", n, c17PubScalarValue}, {"field", bigP, c17PubFEValue}} {
		raw := oracle.Limbs(oracle.ToMont(mod.pub, mod.m))
		for k := 1; k <= 3; k++ {
			for _, low := range []bool{true, false} {
				for try := 0; try < 50; try++ {
					l := raw
					for j := 0; j < 4; j++ {
						keep := j < k
						if !low {
							keep = j >= 4-k
						}
						if !keep {
							l[j] = rng.U64()
							if j == 3 {
								l[j] >>= 1
							}
						}
					}
					rv := oracle.FromLimbs(l)
					if rv.Cmp(mod.m) >= 0 {
						continue
					}
					v := oracle.FromMont(rv, mod.m)
					if v.Sign() == 0 || v.Cmp(n) >= 0 {
						continue
					}
					side := "lowest"
					if !low {
						side = "highest"
					}
					add(v, fmt.Sprintf("stored-%s-limbs-agree-with-public-operand:%s-%d", mod.name, side, k))
					break
				}
			}
		}
	}
	add(c17PubScalarValue, "equals-public-scalar-operand")
	odd, even := 0, 0
	for odd < 3 || even < 3 {
		v := rng.Below(n)
		if v.Sign() == 0 {
			continue
		}
		if oracle.MulG(v).Y.Bit(0) == 1 {
			if odd < 3 {
				odd++
				add(v, "public-y-odd")
			}
		} else if even < 3 {
			even++
			add(v, "public-y-even")
		}
	}
	for i := 0; i < nRandom; i++ {
		add(rng.Below(n), "random")
	}
	return out
}

type c17Op struct {
	// shape, when set, returns the SHAPE of the variable-length PUBLISHED output the
	// operation produces for this secret (for a DER signature: the lengths and padding
	// flags of r and s).  The property allows control flow to depend on published
	// outputs, so traces are only required to agree among secrets whose published
	// output has the same shape (a hand-written DER writer strips leading zeros and
	// pads the high bit - of the signature, which is public).
	shape  func(s c17Secret, variant int) string
	zeroOK bool // the operation admits the secret scalar 0
	name   string
	// prep runs outside the traced region and returns the traced closure
	prep func(s c17Secret, variant int) func()
	vars int // number of public-configuration variants
	// cost class for the instruction-level monitor, which single-steps the compiled
	// operation: 0 = a few thousand instructions (every secret), 1 = tens of thousands
	// (a third of the secrets), 2 = hundreds of thousands (a handful of secrets)
	cost int
	// maxSecrets, when set, bounds the number of secrets the source-level monitor runs the
	// operation for (operations that take tens of milliseconds per call)
	maxSecrets int
	// derived: "the same operation on K0 first" (built mechanically at the end of c17Ops)
	derived bool
}

var (
	c17PubScalarValue = mustHexBig("3b6c1f09a7e2d4c8b5a69788796a5b4c3d2e1f00112233445566778899aabbcc")
	c17PubFEValue     = mustHexBig("1b6c1f09a7e2d4c8b5a69788796a5b4c3d2e1f00112233445566778899aabbcc")
)

// c17Ops returns the operations whose traces must not depend on the secret.
func c17Ops() []c17Op {
	n := bigN
	// computed on first use (always inside a prep, never inside a traced closure): probes
	// that run one operation per process pay for everything that runs before it
	var pubPtsMemo [3]*oracle.Pt
	pubPt := func(i int) *oracle.Pt {
		if pubPtsMemo[i] == nil {
			pubPtsMemo[i] = []func() *oracle.Pt{oracle.G, func() *oracle.Pt { return oracle.MulG(big.NewInt(0x1234567)) }, func() *oracle.Pt { return oracle.MulG(oracle.HalfN) }}[i]()
		}
		return pubPtsMemo[i]
	}
	pubPoint := func(variant int) *Point {
		z := []*big.Int{big.NewInt(1), big.NewInt(3), new(big.Int).Sub(bigP, big.NewInt(5))}[variant%3]
		return pointRep(pubPt(variant%3), z)
	}
	pubScalar := scalarFromBig(c17PubScalarValue)
	pubFE := feFromBig(c17PubFEValue)
	otherKey := mustPriv(c17PubScalarValue)
	otherSchnorr, _ := bitcoin.NewSchnorrPrivateKey(b32(c17PubScalarValue))
	digest := bytes.Repeat([]byte{0x5a}, 32)
	entropy := bytes.Repeat([]byte{0xc3}, 32)
	var peerMemo *secec.PublicKey
	peerKey := func() *secec.PublicKey {
		if peerMemo == nil {
			peerMemo = mustPub(oracle.MulG(big.NewInt(0xabcdef)))
		}
		return peerMemo
	}
	msg := []byte("trace equivalence monitor message")

	ops := []c17Op{
		// the word-level predicates and selects on their own (cheap: every secret, including
		// those whose stored limbs partly agree with the operand they are compared with)
		{zeroOK: true, name: "Scalar.predicates", prep: func(s c17Secret, v int) func() {
			a := scalarFromBig(s.v)
			b := secp256k1.NewScalarFrom(a)
			return func() {
				c17SinkU += a.Equal(pubScalar)
				c17SinkU += pubScalar.Equal(a)
				c17SinkU += a.Equal(b)
				c17SinkU += a.IsZero()
				c17SinkU += a.IsGreaterThanHalfN()
				t := secp256k1.NewScalar()
				t.ConditionalSelect(a, pubScalar, 1)
				t.ConditionalNegate(a, 0)
			}
		}, vars: 1},
		{zeroOK: true, name: "field.predicates", prep: func(s c17Secret, v int) func() {
			a := feFromBig(oracle.Mod(s.v, bigP))
			b := hk.NewFEFrom(a)
			return func() {
				c17SinkU += a.Equal(pubFE)
				c17SinkU += pubFE.Equal(a)
				c17SinkU += a.Equal(b)
				c17SinkU += a.IsZero()
				c17SinkU += a.IsOdd()
				t := hk.NewFE()
				t.ConditionalSelect(a, pubFE, 0)
				t.ConditionalNegate(a, 1)
			}
		}, vars: 1},
		{name: "PrivateKey.Equal", prep: func(s c17Secret, v int) func() {
			k := mustPriv(s.v)
			k2 := mustPriv(s.v)
			return func() {
				c17SinkB = k.Equal(otherKey)
				c17SinkB = otherKey.Equal(k)
				c17SinkB = k.Equal(k2)
			}
		}, vars: 1},
		{name: "SchnorrPrivateKey.Equal", prep: func(s c17Secret, v int) func() {
			k, _ := bitcoin.NewSchnorrPrivateKey(b32(s.v))
			k2, _ := bitcoin.NewSchnorrPrivateKey(b32(s.v))
			return func() {
				c17SinkB = k.Equal(otherSchnorr)
				c17SinkB = otherSchnorr.Equal(k)
				c17SinkB = k.Equal(k2)
			}
		}, vars: 1},
		{name: "Point.encode-secret-point", prep: func(s c17Secret, v int) func() {
			Q := new(Point).ScalarBaseMult(scalarFromBig(s.v)) // the representative (Z) depends on the secret
			return func() {
				switch v {
				case 0:
					c17SinkBytes = Q.CompressedBytes()
				case 1:
					c17SinkBytes = Q.UncompressedBytes()
				default:
					c17SinkBytes, _ = Q.XBytes()
				}
			}
		}, vars: 3, cost: 2},
		{zeroOK: true, name: "Scalar.arith", prep: func(s c17Secret, v int) func() {
			a := scalarFromBig(s.v)
			return func() {
				t := secp256k1.NewScalar()
				t.Add(a, pubScalar)
				t.Subtract(a, pubScalar)
				t.Multiply(a, pubScalar)
				t.Square(a)
				t.Negate(a)
				t.Invert(a)
				t.ConditionalNegate(a, 1)
				t.ConditionalSelect(a, pubScalar, 0)
				t.Sum(a, pubScalar, a)
				t.Product(a, pubScalar, a)
				c17SinkU += a.Equal(pubScalar)
				c17SinkU += a.IsZero()
				c17SinkU += a.IsGreaterThanHalfN()
				c17SinkBytes = a.Bytes()
				secp256k1.NewScalarFrom(a)
			}
		}, vars: 1, cost: 1},
		{zeroOK: true, name: "Scalar.decode", prep: func(s c17Secret, v int) func() {
			arr := arr32(s.v)
			return func() {
				_, _ = secp256k1.NewScalarFromCanonicalBytes(arr)
				_, _ = secp256k1.NewScalarFromBytes(arr)
			}
		}, vars: 1},
		{zeroOK: true, name: "field.arith", prep: func(s c17Secret, v int) func() {
			a := feFromBig(oracle.Mod(s.v, bigP))
			return func() {
				t := hk.NewFE()
				t.Add(a, pubFE)
				t.Subtract(a, pubFE)
				t.Multiply(a, pubFE)
				t.Square(a)
				t.Negate(a)
				t.Invert(a)
				t.Pow2k(a, 5)
				t.Sqrt(a)
				t.SqrtRatio(a, pubFE)
				t.ConditionalNegate(a, 1)
				t.ConditionalSelect(a, pubFE, 1)
				c17SinkU += a.Equal(pubFE)
				c17SinkU += a.IsZero()
				c17SinkU += a.IsOdd()
				c17SinkBytes = a.Bytes()
			}
		}, vars: 1, cost: 1},
		{zeroOK: true, name: "field.decode", prep: func(s c17Secret, v int) func() {
			arr := arr32(oracle.Mod(s.v, bigP))
			wide := append(b32(s.v), b32(oracle.MulM(s.v, s.v, n))[:16]...)
			return func() {
				_, _ = hk.NewFEFromCanonicalBytes(arr)
				hk.NewFE().SetBytes(arr)
				hk.NewFE().SetWideBytes(wide)
			}
		}, vars: 1},
		{zeroOK: true, name: "ScalarMult", prep: func(s c17Secret, v int) func() {
			a, P := scalarFromBig(s.v), pubPoint(v)
			return func() { new(Point).ScalarMult(a, P) }
		}, vars: 3, cost: 2},
		{zeroOK: true, name: "ScalarBaseMult", prep: func(s c17Secret, v int) func() {
			a := scalarFromBig(s.v)
			return func() { new(Point).ScalarBaseMult(a) }
		}, vars: 1, cost: 1},
		{zeroOK: true, name: "MultiScalarMult", prep: func(s c17Secret, v int) func() {
			l := []int{2, 3, 8}[v%3]
			if v >= 6 {
				l = 1 // a batch of one is delegated to the single-scalar multiply
			}
			ss, ps := make([]*Scalar, l), make([]*Point, l)
			for i := range ss {
				ss[i] = scalarFromBig(oracle.Mod(new(big.Int).Add(oracle.MulM(s.v, big.NewInt(int64(2*i+1)), n), big.NewInt(int64(i))), n))
				if v >= 3 {
					// only entry (v-3)%l is the secret itself, the others are fixed non-zero scalars
					if i == (v-3)%l {
						ss[i] = scalarFromBig(s.v)
					} else {
						ss[i] = scalarFromBig(big.NewInt(int64(0x1234567 + i)))
					}
				}
				ps[i] = pubPoint(i)
			}
			return func() { new(Point).MultiScalarMult(ss, ps) }
		}, vars: 7, cost: 2},
		// long lists: implementations switch algorithm with the batch size (chunking, bucket
		// methods from a few hundred terms on); every scalar is derived from the secret.
		// cost 3: source-level monitor only (hundreds of millions of instructions per call)
		{zeroOK: true, name: "MultiScalarMult/long-list", prep: func(s c17Secret, v int) func() {
			l := []int{300, 520, 1030, 4100}[v%4]
			ss, ps := make([]*Scalar, l), make([]*Point, l)
			for i := range ss {
				ss[i] = scalarFromBig(oracle.Mod(new(big.Int).Add(oracle.MulM(s.v, big.NewInt(int64(2*i+1)), n), big.NewInt(int64(i))), n))
				ps[i] = pubPoint(i)
			}
			return func() { new(Point).MultiScalarMult(ss, ps) }
		}, vars: 4, cost: 3, maxSecrets: 6},
		{name: "Point.ops-on-secret-point", prep: func(s c17Secret, v int) func() {
			Q := new(Point).ScalarBaseMult(scalarFromBig(s.v)) // secret non-identity point in a "natural" representative
			P := pubPoint(v)
			return func() {
				t := new(Point)
				t.Add(Q, P)
				t.Subtract(P, Q)
				t.Double(Q)
				t.Negate(Q)
				t.ConditionalNegate(Q, 1)
				t.ConditionalSelect(Q, P, 0)
				t.Set(Q)
				c17SinkU += Q.Equal(P)
				c17SinkU += Q.IsIdentity()
				c17SinkU += Q.IsYOdd()
				c17SinkBytes = Q.CompressedBytes()
				c17SinkBytes = Q.UncompressedBytes()
				c17SinkBytes, _ = Q.XBytes()
			}
		}, vars: 2, cost: 2},
		{name: "NewPrivateKey", prep: func(s c17Secret, v int) func() {
			bts := b32(s.v)
			return func() {
				k, _ := secec.NewPrivateKey(bts)
				c17SinkBytes = k.Bytes()
				_ = k.Scalar()
				_ = k.PublicKey()
			}
		}, vars: 1, cost: 2},
		// process state: a fixed key K0 was imported just before.  K0 is itself one of the
		// secrets, so a fast path / cache keyed on "same secret as last time" takes a different
		// path for exactly that secret (a branch on secret equality).
		{name: "NewPrivateKey/after-importing-K0", prep: func(s c17Secret, v int) func() {
			k0 := b32(mustHexBig("5555555555555555555555555555555555555555555555555555555555555555"))
			bts := b32(s.v)
			return func() {
				switch v {
				case 0:
					_, _ = secec.NewPrivateKey(k0)
					k, _ := secec.NewPrivateKey(bts)
					_ = k.PublicKey()
				case 1:
					_, _ = secec.NewPrivateKey(k0)
					_, _ = bitcoin.NewSchnorrPrivateKey(bts)
				default:
					_, _ = bitcoin.NewSchnorrPrivateKey(k0)
					k, _ := secec.NewPrivateKeyFromScalar(scalarFromBig(s.v))
					_ = k.PublicKey()
				}
			}
		}, vars: 3, cost: 2},
		{name: "NewPrivateKeyFromScalar", prep: func(s c17Secret, v int) func() {
			a := scalarFromBig(s.v)
			return func() { _, _ = secec.NewPrivateKeyFromScalar(a) }
		}, vars: 1, cost: 2},
		{name: "ECDH", prep: func(s c17Secret, v int) func() {
			k := mustPriv(s.v)
			peer := peerKey()
			if v == 1 {
				// a PUBLIC operand with a history: a fresh object for the same peer that has
				// verified a few signatures before it is used for key agreement (whatever a key
				// object builds lazily on its second or third use is there now)
				peer = mustPub(oracle.MulG(big.NewInt(0xabcdef)))
				r0, s0, _, _, _ := oracle.RFC6979Sign(big.NewInt(0xabcdef), digest)
				sig := oracle.DERWriteSig(r0, s0)
				for j := 0; j < 4; j++ {
					_ = peer.Verify(digest, sig, nil)
				}
				_ = peer.Bytes()
				_ = peer.CompressedBytes()
			}
			return func() { _, _ = k.ECDH(peer) }
		}, vars: 2, cost: 2},
		{name: "SignRaw/hedged", prep: func(s c17Secret, v int) func() {
			k := mustPriv(s.v)
			return func() { _, _, _, _ = k.SignRaw(&fixedReader{data: entropy}, digest) }
		}, vars: 1, cost: 2},
		{name: "SignRaw/rfc6979", prep: func(s c17Secret, v int) func() {
			k := mustPriv(s.v)
			return func() { _, _, _, _ = k.SignRaw(secec.RFC6979SHA256(), digest) }
		}, vars: 1, cost: 2},
		{name: "Sign/encodings+selfverify", prep: func(s c17Secret, v int) func() {
			k := mustPriv(s.v)
			opts := &secec.ECDSAOptions{Encoding: secec.SignatureEncoding(v % 3), SelfVerify: v >= 3}
			return func() { _, _ = k.Sign(&fixedReader{data: entropy}, digest, opts) }
		}, vars: 6, cost: 2, shape: func(s c17Secret, v int) string {
			if secec.SignatureEncoding(v%3) != secec.EncodingASN1 {
				return "" // fixed-length encodings
			}
			sig, err := mustPriv(s.v).Sign(&fixedReader{data: entropy}, digest, &secec.ECDSAOptions{Encoding: secec.EncodingASN1})
			if err != nil || len(sig) < 8 {
				return "error"
			}
			rl := int(sig[3])
			if 4+rl+2 > len(sig) {
				return "odd"
			}
			sl := int(sig[4+rl+1])
			return fmt.Sprintf("der:len=%d,r=%d/pad=%v,s=%d/pad=%v", len(sig), rl, sig[4] == 0, sl, sig[4+rl+2] == 0)
		}},
		// the per-signature nonce is a secret too: fixed key and digest, the 32 entropy
		// bytes (hence the nonce, R and s) range over the secret set
		{zeroOK: true, name: "SignRaw/secret-entropy(nonce varies)", prep: func(s c17Secret, v int) func() {
			k := mustPriv(mustHexBig("00c9afa9d845ba75166b5c215767b1d6934e50c3db36e89b127b8a622b120f67"))
			ent := b32(s.v)
			return func() { _, _, _, _ = k.SignRaw(&fixedReader{data: ent}, digest) }
		}, vars: 1, cost: 2},
		{zeroOK: true, name: "Schnorr.Sign/secret-aux(nonce varies)", prep: func(s c17Secret, v int) func() {
			k, _ := bitcoin.NewSchnorrPrivateKey(b32(mustHexBig("00c9afa9d845ba75166b5c215767b1d6934e50c3db36e89b127b8a622b120f67")))
			aux := b32(s.v)
			return func() { _, _ = k.Sign(&fixedReader{data: aux}, msg, nil) }
		}, vars: 1, cost: 2},
		{name: "NewSchnorrPrivateKey", prep: func(s c17Secret, v int) func() {
			bts := b32(s.v)
			return func() { _, _ = bitcoin.NewSchnorrPrivateKey(bts) }
		}, vars: 1, cost: 2},
		{name: "NewSchnorrPrivateKeyFromECDSA", prep: func(s c17Secret, v int) func() {
			k := mustPriv(s.v)
			return func() { bitcoin.NewSchnorrPrivateKeyFromECDSA(k) }
		}, vars: 1, cost: 2},
		{name: "Schnorr.Sign", prep: func(s c17Secret, v int) func() {
			k, _ := bitcoin.NewSchnorrPrivateKey(b32(s.v))
			return func() { _, _ = k.Sign(&fixedReader{data: entropy}, msg, nil) }
		}, vars: 1, cost: 2},
	}
	if hk.HaveSecec {
		ops = append(ops, c17Op{name: "sampleRandomScalar(in-range stream)", prep: func(s c17Secret, v int) func() {
			stream := b32(s.v)
			return func() { _, _ = hk.SampleRandomScalar(&fixedReader{data: stream}) }
		}, vars: 1})
	}
	// process state, mechanically for every operation: the SAME operation has just been run on
	// the fixed secret K0 = 0x55..55, which is itself one of the secrets.  The trace of "K0, then
	// s" must not depend on s; a memo of the last decomposition / inverse / derived key that is
	// consulted with a (constant-time or not) comparison takes another path exactly when s = K0.
	k0 := c17Secret{mustHexBig("5555555555555555555555555555555555555555555555555555555555555555"), "pattern-55"}
	base := len(ops)
	for i := 0; i < base; i++ {
		o := ops[i]
		if strings.Contains(o.name, "after-importing-K0") {
			continue
		}
		d := o
		d.name = o.name + "/right-after-the-same-operation-on-K0"
		d.derived = true
		if d.cost == 1 {
			d.cost = 2
		}
		d.prep = func(s c17Secret, v int) func() {
			f0, f := o.prep(k0, v), o.prep(s, v)
			return func() { f0(); f() }
		}
		ops = append(ops, d)
		// process state left by FAULTS: callers recover the documented panics (uninitialised point,
		// lists of different lengths) of the variable-time and multi-scalar entry points - on public
		// values, outside the traced region - and the very next library call is the traced operation.
		// What an abandoned call leaves in shared scratch (a "variable time" flag, a dirty working set)
		// must not change how the secret is processed.
		if o.cost >= 1 || strings.Contains(o.name, "Mult") {
			e := o
			e.name = o.name + "/right-after-recovered-panics-of-the-variable-time-entry-points"
			e.derived = true
			e.cost = 3 // source-level monitor only
			e.prep = func(s c17Secret, v int) func() {
				f := o.prep(s, v)
				c17RecoveredPanics()
				return f
			}
			ops = append(ops, e)
		}
	}
	return ops
}

// c17RecoveredPanics makes the documented panics of the multi-scalar entry points happen, on public
// values, and recovers them.
func c17RecoveredPanics() {
	g := secp256k1.NewGeneratorPoint()
	one := secp256k1.NewScalarFromUint64(1)
	try := func(f func()) {
		defer func() { _ = recover() }()
		f()
	}
	try(func() { new(Point).MultiScalarMultVartime([]*Scalar{one, one, one}, []*Point{g, new(Point), g}) })
	try(func() { new(Point).MultiScalarMultVartime([]*Scalar{one, one}, []*Point{g}) })
	try(func() { new(Point).DoubleScalarMultBasepointVartime(one, one, new(Point)) })
	try(func() { new(Point).MultiScalarMult([]*Scalar{one, one, one}, []*Point{g, g, new(Point)}) })
	try(func() { new(Point).MultiScalarMultVartime([]*Scalar{one, one, one}, []*Point{g, g, new(Point)}) })
}

func mustHexBig(s string) *big.Int {
	v, ok := new(big.Int).SetString(s, 16)
	if !ok {
		panic("bad hex")
	}
	return v
}

// --- instruction-level monitor (bin/cttrace.py, cmd/ctstep, cmd/ctprobe) ---------------------

// CTTraceBegin / CTTraceEnd bracket one traced region; the ptrace stepper puts its
// breakpoints on them and reads the three arguments from the registers.
//
//go:noinline
func CTTraceBegin(op, idx int, bucket uint64) { ctSink += uint64(op) ^ uint64(idx) ^ bucket }

//go:noinline
func CTTraceEnd() { ctSink++ }

var ctSink uint64

// results of the traced calls are stored (no branch on them), so that the compiler
// cannot discard an inlined pure predicate whose result nobody reads
var (
	c17SinkU     uint64
	c17SinkB     bool
	c17SinkBytes []byte
)

// CTPlanEntry describes one (operation, variant) of the plan the probe runs.
type CTPlanEntry struct {
	Op      int      `json:"op"`
	Name    string   `json:"name"`
	Variant int      `json:"variant"`
	Cost    int      `json:"cost"`
	Secrets []int    `json:"secrets"`
	Classes []string `json:"classes"`
	Values  []string `json:"values"`
	Shapes  []string `json:"shapes"`
}

// CTProbe runs the plan: every selected (operation, variant, secret) once untraced
// (first-use set-up, stack growth), then bracketed by the markers.  only, when not
// empty, restricts the run to the named plan entries (replay / pc dumps).
func CTProbe(seed int64, tier string, only map[int]bool) []CTPlanEntry {
	// the stepper manages ~25 000 instructions per second here: quick steps the cheap
	// operations for every secret plus one encoder, thorough adds the expensive ones
	// for a few secrets each (the source-level monitor covers those for every secret)
	nRandom := 16
	medium, heavy, heavyVariants := 0, 0, 1
	if tier == "thorough" {
		nRandom, medium, heavy, heavyVariants = 64, 8, 2, 1
	}
	if tier == "survey" {
		medium, heavy, heavyVariants = 1, 1, 1
	}
	secrets := c17Secrets(seed, nRandom)
	ops := c17Ops()
	steered := func(cl string) bool {
		return len(cl) > 7 && (cl[:7] == "stored-" || cl[:7] == "glv-win" || cl[:7] == "equals-")
	}
	var plan []CTPlanEntry
	for _, o := range ops {
		for v := 0; v < o.vars; v++ {
			if (o.cost == 2 && v >= heavyVariants) || o.cost >= 3 {
				continue
			}
			e := CTPlanEntry{Op: len(plan), Name: o.name, Variant: v, Cost: o.cost}
			picked := 0
			for si, s := range secrets {
				if s.v.Sign() == 0 && !o.zeroOK {
					continue
				}
				take := false
				if o.derived {
					// "right after the same operation on K0": the cheap operations are stepped in the thorough
					// tier, for K0 itself and two other secrets (the source-level monitor runs every derived
					// operation for all secrets in both tiers)
					if tier == "thorough" && o.cost == 0 && picked < 3 && (s.class == "pattern-55" || s.class == "n-1" || s.class == "pattern-aa") {
						picked++
						e.Secrets = append(e.Secrets, si)
						e.Classes = append(e.Classes, s.class)
						e.Values = append(e.Values, fmt.Sprintf("%x", s.v))
						sh := ""
						if o.shape != nil {
							sh = o.shape(s, v)
						}
						e.Shapes = append(e.Shapes, sh)
					}
					continue
				}
				switch o.cost {
				case 0:
					take = true
				case 1:
					take = picked < medium && (si%9 == 1 || steered(s.class) && si%5 == 0)
				default:
					h := heavy
					if o.name == "Point.encode-secret-point" && v == 0 && h < 2 {
						h = 2
					}
					take = picked < h && (s.class == "n-1" || s.class == "random" || s.class == "pattern-55")
				}
				if take {
					picked++
					e.Secrets = append(e.Secrets, si)
					e.Classes = append(e.Classes, s.class)
					e.Values = append(e.Values, fmt.Sprintf("%x", s.v))
					sh := ""
					if o.shape != nil {
						sh = o.shape(s, v)
					}
					e.Shapes = append(e.Shapes, sh)
				}
			}
			plan = append(plan, e)
		}
	}
	pi := 0
	for _, o := range ops {
		for v := 0; v < o.vars; v++ {
			if (o.cost == 2 && v >= heavyVariants) || o.cost >= 3 {
				continue
			}
			e := plan[pi]
			pi++
			if len(only) > 0 && !only[e.Op] {
				continue
			}
			for _, si := range e.Secrets {
				o.prep(secrets[si], v)()
			}
			for k, si := range e.Secrets {
				f := o.prep(secrets[si], v)
				var b uint64 = 14695981039346656037
				for _, c := range []byte(e.Shapes[k]) {
					b = (b ^ uint64(c)) * 1099511628211
				}
				CTTraceBegin(e.Op, si, b)
				f()
				CTTraceEnd()
			}
		}
	}
	return plan
}
