package props

import (
	"fmt"
	"math/big"

	secp256k1 "gitlab.com/yawning/secp256k1-voi"

	"verifharness/gen"
	"verifharness/mon"
	"verifharness/oracle"
)

// Panic-then-use.  The property's documented panics (an uninitialised Point operand, lists
// of different lengths) and the undocumented ones (a nil entry) are recovered by real callers
// - a server's per-request recover() - and the process goes on.  What an operation that
// was abandoned half way leaves behind (a pooled working set that is returned dirty, a
// flag that is reset only on the normal path) shows in the NEXT valid calls, so each case
// is: a few valid calls (reference), one call that panics at a chosen position, then valid
// calls of the same and of the neighbouring operations, shorter and longer than the
// abandoned one, each compared with the reference model.  Single goroutine: a sync.Pool hands
// a goroutine back what it has just put there.

func init() {
	for _, id := range []string{"C03", "C04", "C05", "C16", "C18"} {
		id := id
		prev := registry[id].Run
		registry[id].Run = func(r *mon.Run) {
			prev(r)
			if !isYield(r) {
				runPanicThenUse(r, id, r.N(150, 6000))
			}
		}
	}
}

func isYield(r *mon.Run) bool {
	for i := 0; i+5 <= len(r.Config); i++ {
		if r.Config[i:i+5] == "yield" {
			return true
		}
	}
	return false
}

type puTerm struct {
	k *big.Int   // scalar
	m *oracle.Pt // abstract point
	e *big.Int   // discrete log of the point (all points are multiples of G: the expected sum is one MulG)
}

func runPanicThenUse(r *mon.Run, id string, n int) {
	lc := "c" + id[1:]
	r.Require(lc+":panic-then-use:recovered-panic", lc+":panic-then-use:valid-call-after")
	ops := map[string][]string{
		"C03": {"add", "sub", "double", "sm"},
		"C04": {"sm", "msm", "msmv", "dsm"},
		"C05": {"dsm", "sbm", "msmv"},
		"C16": {"msm", "msmv", "dsm"},
		"C18": {"msm", "msmv", "dsm", "sm", "add", "sub"},
	}[id]
	r.Seq(lc+"/panic-then-use", n, func(w *mon.W, i int) {
		rng := w.Rng
		term := func() puTerm {
			e := nonzero(rng.Below(bigN))
			if rng.Intn(4) == 0 {
				e = big.NewInt(int64(1 + rng.Intn(40)))
			}
			k, _ := glvOrValue(rng)
			if rng.Intn(6) == 0 {
				k = new(big.Int)
			}
			return puTerm{k, oracle.MulG(e), e}
		}
		libPt := func(t puTerm) *Point {
			z, _ := repZ(rng)
			if rng.Intn(2) == 0 {
				z = big.NewInt(1)
			}
			return pointRep(t.m, z)
		}
		// one valid call of `op` with nt terms, compared with the model; false: a violation was reported
		valid := func(op string, nt int, when string) bool {
			ts := make([]puTerm, nt)
			acc := new(big.Int)
			for j := range ts {
				ts[j] = term()
				acc = oracle.AddM(acc, oracle.MulM(ts[j].k, ts[j].e, bigN), bigN)
			}
			var got *Point
			var desc string
			rcv := secp256k1.NewIdentityPoint()
			if rng.Intn(3) == 0 {
				rcv = libPt(term()) // a receiver that holds something
			}
			switch op {
			case "msm", "msmv":
				sc := make([]*Scalar, nt)
				ps := make([]*Point, nt)
				for j, t := range ts {
					sc[j], ps[j] = scalarFromBig(t.k), libPt(t)
				}
				if op == "msm" {
					got = rcv.MultiScalarMult(sc, ps)
				} else {
					got = rcv.MultiScalarMultVartime(sc, ps)
				}
				desc = fmt.Sprintf("%s with %d terms", map[string]string{"msm": "MultiScalarMult", "msmv": "MultiScalarMultVartime"}[op], nt)
			case "dsm":
				t := term()
				u1, _ := glvOrValue(rng)
				acc = oracle.AddM(u1, oracle.MulM(t.k, t.e, bigN), bigN)
				got = rcv.DoubleScalarMultBasepointVartime(scalarFromBig(u1), scalarFromBig(t.k), libPt(t))
				desc = "DoubleScalarMultBasepointVartime"
			case "sbm":
				t := term()
				acc = t.k
				got = rcv.ScalarBaseMult(scalarFromBig(t.k))
				desc = "ScalarBaseMult"
			case "sm":
				t := term()
				acc = oracle.MulM(t.k, t.e, bigN)
				got = rcv.ScalarMult(scalarFromBig(t.k), libPt(t))
				desc = "ScalarMult"
			case "add", "sub":
				a, b := term(), term()
				if op == "add" {
					acc = oracle.AddM(a.e, b.e, bigN)
					got = rcv.Add(libPt(a), libPt(b))
					desc = "Add"
				} else {
					acc = oracle.SubM(a.e, b.e, bigN)
					got = rcv.Subtract(libPt(a), libPt(b))
					desc = "Subtract"
				}
			case "double":
				a := term()
				acc = oracle.AddM(a.e, a.e, bigN)
				got = rcv.Double(libPt(a))
				desc = "Double"
			}
			w.Class(lc + ":panic-then-use:valid-call-after")
			if msg := expectPoint(got, oracle.MulG(acc)); msg != "" {
				w.Fail(lc+"/panic-then-use/"+op, fmt.Sprintf("%s %s: %s", desc, when, msg))
				return false
			}
			return true
		}
		op := ops[i%len(ops)]
		w.Case(true, []byte("panic-then-use"), []byte(op), []byte{byte(i), byte(i >> 8)})
		// the abandoned call
		nt := gen.Pick(rng, 2, 3, 5, 8, 17, 33)
		pos := rng.Intn(nt)
		if i%3 == 0 {
			pos = nt - 1
		}
		kind := i % 5 // 0..2: uninitialised point, 3: nil point, 4: nil scalar / mismatched lengths
		var what string
		panicked, _ := mon.Panics(func() {
			bad := new(Point) // the zero value: not a valid point
			if kind == 3 {
				bad = nil
			}
			rcv := secp256k1.NewIdentityPoint()
			switch op {
			case "msm", "msmv":
				sc := make([]*Scalar, nt)
				ps := make([]*Point, nt)
				for j := range sc {
					t := term()
					if t.k.Sign() == 0 {
						t.k = big.NewInt(3)
					}
					sc[j], ps[j] = scalarFromBig(t.k), libPt(t)
				}
				what = fmt.Sprintf("%d terms, entry %d is an uninitialised Point", nt, pos)
				if kind == 3 {
					what = fmt.Sprintf("%d terms, point %d is nil", nt, pos)
				}
				ps[pos] = bad
				if kind == 4 {
					if i%2 == 0 {
						ps = ps[:nt-1]
						ps[pos%(nt-1)] = libPt(term())
						what = fmt.Sprintf("%d scalars, %d points", nt, nt-1)
					} else {
						ps[pos] = libPt(term())
						sc[pos] = nil
						what = fmt.Sprintf("%d terms, scalar %d is nil", nt, pos)
					}
				}
				if op == "msm" {
					rcv.MultiScalarMult(sc, ps)
				} else {
					rcv.MultiScalarMultVartime(sc, ps)
				}
			case "dsm":
				u1, _ := glvOrValue(rng)
				if u1.Sign() == 0 {
					u1 = big.NewInt(7)
				}
				what = "uninitialised / nil P"
				var u2 *Scalar = scalarFromBig(nonzero(rng.Below(bigN)))
				if kind == 4 {
					u2, bad = nil, libPt(term())
					what = "nil u2"
				}
				rcv.DoubleScalarMultBasepointVartime(scalarFromBig(u1), u2, bad)
			case "sbm":
				what = "nil scalar"
				rcv.ScalarBaseMult(nil)
			case "sm":
				what = "uninitialised / nil P"
				rcv.ScalarMult(scalarFromBig(nonzero(rng.Below(bigN))), bad)
			case "add":
				what = "uninitialised / nil second operand"
				rcv.Add(libPt(term()), bad)
			case "sub":
				what = "uninitialised / nil second operand"
				rcv.Subtract(libPt(term()), bad)
			case "double":
				what = "uninitialised / nil operand"
				rcv.Double(bad)
			}
		})
		if !panicked {
			if kind <= 2 {
				w.Fail(lc+"/panic-then-use/no-panic", fmt.Sprintf("%s with %s did not panic", op, what))
			}
			return
		}
		w.Class(lc + ":panic-then-use:recovered-panic")
		when := fmt.Sprintf("right after a recovered panic of %s (%s)", op, what)
		// the same operation: shorter, equal and longer than the abandoned call; then the neighbours
		for _, l := range []int{2, nt, nt + 3, 1} {
			if !valid(op, l, when) {
				return
			}
		}
		for _, o := range ops {
			if o != op && !valid(o, 2+rng.Intn(4), when) {
				return
			}
		}
	})
}
