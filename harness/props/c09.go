package props

import (
	"bytes"
	crand "crypto/rand"
	"crypto/sha256"
	"errors"
	"fmt"
	"io"
	"math/big"
	"runtime"
	"sync"
	"syscall"

	"gitlab.com/yawning/secp256k1-voi/secec"

	"verifharness/gen"
	"verifharness/hk"
	"verifharness/mon"
	"verifharness/oracle"
)

func init() { Register("C09", runC09) }

func runC09(r *mon.Run) {
	n := bigN
	for _, c := range []string{"c09:flip:entropy", "c09:flip:key", "c09:flip:digest", "c09:flip:digest-e-unchanged", "c09:reader:1-byte", "c09:reader:after-handouts-wiped", "c09:reader:fail:temporary-class-error", "c09:reader:chunks", "c09:reader:fail<32",
		"c09:reader:fail>=32", "c09:reader:exactly-32-consumed", "c09:rfc6979:match", "c09:rfc6979:digest>=n", "c09:rfc6979:long-digest", "c09:stream:constant", "c09:stream:counter", "c09:stream:repeating", "c09:reader:std-type:*os.File", "c09:reader:std-type:*bytes.Reader", "c09:reader:std-type:*bufio.Reader", "c09:reader:std-type:short-stream", "c09:sysrand:passed-explicitly"} {
		r.Require(c)
	}
	if hk.HaveSecec {
		r.Require("c09:sampler:first-good", "c09:sampler:reject-zero", "c09:sampler:reject>=n", "c09:sampler:retry-limit", "c09:sampler:read-error", "c09:sampler:n-1", "c09:sampler:one",
			"c09:drbg:reads>=8", "c09:drbg:bad-length-panics", "c09:nonce-reader:matches-signature")
	} else {
		r.Note("hook group verif_secec unavailable: sampler and deterministic generator are observed only through SignRaw")
	}

	// r -> identity of (d, e, entropy): detects nonce reuse across the whole run
	var mu sync.Mutex
	seen := map[[32]byte][32]byte{}
	noteR := func(w *mon.W, rr, d, e *big.Int, entropy []byte) {
		id := sha256.Sum256(append(append(b32(d), b32(e)...), entropy...))
		var k [32]byte
		copy(k[:], b32(rr))
		mu.Lock()
		prev, ok := seen[k]
		if !ok {
			seen[k] = id
		}
		mu.Unlock()
		if ok && prev != id {
			w.Fail("c09/r-reuse", fmt.Sprintf("two signatures with different (key, digest, entropy) share r = %x", rr), "d", hb(d), "e", hb(e), "entropy", hx(entropy))
		}
	}
	signR := func(w *mon.W, d *big.Int, dig, entropy []byte) (*big.Int, *big.Int, byte, bool) {
		lr, ls, v, err := mustPriv(d).SignRaw(&fixedReader{data: entropy}, dig)
		if err != nil {
			w.Fail("c09/SignRaw:err", fmt.Sprintf("SignRaw failed with a 32-byte entropy stream: %v", err), "d", hb(d), "digest", hx(dig), "entropy", hx(entropy))
			return nil, nil, 0, false
		}
		rr, ss := bigFromScalar(lr), bigFromScalar(ls)
		e, _ := oracle.DigestToE(dig)
		noteR(w, rr, d, e, entropy[:32])
		return rr, ss, v, true
	}

	// --- (a) determinism and sensitivity ----------------------------------------------
	flips := r.N(10, 256)
	r.Each("c09/sensitivity", r.N(500, 12000), func(w *mon.W, i int) {
		rng := w.Rng
		d, _ := keyValue(rng)
		dig, _ := digestValue(rng, false)
		entropy := rng.Bytes(32)
		switch i % 5 {
		case 0:
			entropy = make([]byte, 32)
		case 1:
			for j := range entropy {
				entropy[j] = 0xff
			}
		}
		r0, s0, v0, ok := signR(w, d, dig, entropy)
		if !ok {
			return
		}
		w.Case(true, []byte("sens"), b32(d), dig, entropy)
		det := []any{"d", hb(d), "digest", hx(dig), "entropy", hx(entropy), "r", hb(r0)}
		if i < 2 {
			w.Sample(map[string]any{"op": "SignRaw under single-bit changes of (entropy, key, digest)", "d": hb(d), "digest": hx(dig), "entropy": hx(entropy)})
		}
		// same inputs, same output; trailing stream bytes are never consumed
		rd := &fixedReader{data: append(append([]byte{}, entropy...), rng.Bytes(96)...)}
		lr, ls, v, err := mustPriv(d).SignRaw(rd, dig)
		if err != nil || bigFromScalar(lr).Cmp(r0) != 0 || bigFromScalar(ls).Cmp(s0) != 0 || v != v0 {
			w.Fail("c09/determinism", "SignRaw is not a function of (key, digest, first 32 entropy bytes)", det...)
		}
		if rd.Consumed() != 32 {
			w.Fail("c09/consumed", fmt.Sprintf("SignRaw consumed %d entropy bytes, expected exactly 32", rd.Consumed()), det...)
		} else {
			w.Class("c09:reader:exactly-32-consumed")
		}
		// the nonce actually used is in [1,n) and matches r
		e, _ := oracle.DigestToE(dig)
		k := oracle.MulM(oracle.InvFast(s0, n), oracle.AddM(e, oracle.MulM(r0, d, n), n), n)
		if k.Sign() == 0 || oracle.Mod(oracle.MulG(k).X, n).Cmp(r0) != 0 {
			w.Fail("c09/nonce", "the nonce reconstructed from (r,s,d,e) is zero or does not reproduce r", det...)
		}
		for f := 0; f < flips; f++ {
			bit := rng.Intn(256)
			if flips == 256 {
				bit = f
			}
			switch f % 3 {
			case 0:
				e2 := append([]byte{}, entropy...)
				e2[bit/8] ^= 1 << uint(bit%8)
				w.Class("c09:flip:entropy")
				if r1, _, _, ok := signR(w, d, dig, e2); ok && r1.Cmp(r0) == 0 {
					w.Fail("c09/flip:entropy", fmt.Sprintf("flipping entropy bit %d does not change r", bit), det...)
				}
			case 1:
				d2 := new(big.Int).Xor(d, new(big.Int).Lsh(big.NewInt(1), uint(bit)))
				if d2.Sign() == 0 || d2.Cmp(n) >= 0 {
					continue
				}
				w.Class("c09:flip:key")
				if r1, _, _, ok := signR(w, d2, dig, entropy); ok && r1.Cmp(r0) == 0 {
					w.Fail("c09/flip:key", fmt.Sprintf("flipping key bit %d does not change r", bit), det...)
				}
			case 2:
				g2 := append([]byte{}, dig...)
				g2[bit/8] ^= 1 << uint(7-bit%8)
				e2, _ := oracle.DigestToE(g2)
				if e2.Cmp(e) == 0 {
					w.Class("c09:flip:digest-e-unchanged")
					continue
				}
				w.Class("c09:flip:digest")
				if r1, _, _, ok := signR(w, d, g2, entropy); ok && r1.Cmp(r0) == 0 {
					w.Fail("c09/flip:digest", fmt.Sprintf("flipping digest bit %d does not change r", bit), det...)
				}
			}
		}
		// digests that differ only by a multiple of n share e: that is the one legitimate coincidence
		if i%3 == 0 {
			v := oracle.FromBytes(dig)
			if alt := oracle.Mod(v, n); v.Cmp(n) >= 0 {
				if r1, _, _, ok := signR(w, d, b32(alt), entropy); ok && r1.Cmp(r0) != 0 {
					w.Fail("c09/e-equivalence", "digests with the same e give different r for the same key and entropy (nonce depends on more than (key, e, entropy))", det...)
				}
				w.Class("c09:flip:digest-e-unchanged")
			}
		}
	})

	// --- (a') hostile entropy streams across many messages and keys --------------------
	r.Each("c09/streams", r.N(60, 1500), func(w *mon.W, i int) {
		rng := w.Rng
		var mk func(j int) []byte
		switch i % 3 {
		case 0:
			c := rng.Bytes(32)
			if i%2 == 0 {
				c = make([]byte, 32)
			}
			mk = func(int) []byte { return c }
			w.Class("c09:stream:constant")
		case 1:
			mk = func(j int) []byte { b := make([]byte, 32); b[31] = byte(j); b[30] = byte(j >> 8); return b }
			w.Class("c09:stream:counter")
		default:
			pat := rng.Bytes(1 + rng.Intn(4))
			mk = func(int) []byte { return bytes.Repeat(pat, 32)[:32] }
			w.Class("c09:stream:repeating")
		}
		d, _ := keyValue(rng)
		msgs := 24
		for j := 0; j < msgs; j++ {
			dd := d
			if j%4 == 3 {
				dd, _ = keyValue(rng) // other keys under the same stream
			}
			dig := sha256.Sum256([]byte(fmt.Sprintf("msg-%d-%d", i, j)))
			if _, _, _, ok := signR(w, dd, dig[:], mk(j)); !ok {
				return
			}
			w.Case(true, []byte("stream"), b32(dd), dig[:], mk(j))
		}
	})

	// --- (b) reader faults -----------------------------------------------------------------
	r.Each("c09/readers", r.N(400, 12000), func(w *mon.W, i int) {
		rng := w.Rng
		d, _ := keyValue(rng)
		priv := mustPriv(d)
		dig, _ := digestValue(rng, false)
		entropy := rng.Bytes(32)
		r0, s0, v0, ok := signR(w, d, dig, entropy)
		if !ok {
			return
		}
		det := []any{"d", hb(d), "digest", hx(dig), "entropy", hx(entropy)}
		w.Case(true, []byte("readers"), b32(d), dig, entropy)
		same := func(rd io.Reader, what string) {
			lr, ls, v, err := priv.SignRaw(rd, dig)
			if err != nil {
				w.Fail("c09/reader:"+what, fmt.Sprintf("SignRaw failed with a %s reader: %v", what, err), det...)
			} else if bigFromScalar(lr).Cmp(r0) != 0 || bigFromScalar(ls).Cmp(s0) != 0 || v != v0 {
				w.Fail("c09/reader:"+what, fmt.Sprintf("a %s reader delivering the same 32 bytes gives a different signature (short reads not completed?)", what), det...)
			}
		}
		if i%2 == 0 {
			// the caller wipes / reuses everything the key object handed out; the nonce is
			// still the same function of (d, digest, entropy)
			for _, b := range [][]byte{priv.Bytes(), priv.Scalar().Bytes(), priv.PublicKey().Bytes()} {
				for j := range b {
					b[j] = 0
				}
			}
			hs := priv.Scalar()
			hs.Zero()
			same(&fixedReader{data: entropy}, "one-shot (after the caller wiped the values the key handed out)")
			w.Class("c09:reader:after-handouts-wiped")
		}
		same(&fixedReader{data: entropy, chunk: 1}, "1-byte-at-a-time")
		w.Class("c09:reader:1-byte")
		// a reader that answers (0, nil) many times before every chunk
		same(&fixedReader{data: entropy, chunk: gen.Pick(rng, 0, 1, 11, 31), stalls: gen.Pick(rng, 1, 3, 99, 100, 101, 150, 300, 1000)}, "stalling ((0, nil) reads before every chunk)")
		w.Class("c09:reader:stalls")
		if i%4 == 3 {
			// a key object that nobody references after the call (SignRaw: no self-verification
			// keeps it alive), and garbage collections - finalizers included - during the read
			one := mustPriv(d)
			lr, ls, v, err := one.SignRaw(&fixedReader{data: entropy, onRead: func() { runtime.GC(); runtime.GC(); runtime.Gosched(); runtime.GC() }}, dig)
			w.Class("c09:reader:one-shot-key+gc")
			if err != nil || bigFromScalar(lr).Cmp(r0) != 0 || bigFromScalar(ls).Cmp(s0) != 0 || v != v0 {
				w.Fail("c09/reader:one-shot-key+gc", fmt.Sprintf("SignRaw with a key object that is not used afterwards, collections running during the entropy read: err=%v, a different signature than with a key that stays referenced", err), det...)
			}
		}
		if i%4 == 1 {
			same(&fixedReader{data: entropy, chunk: gen.Pick(rng, 0, 16), async: true}, "asynchronously filling (buffer written by another goroutine while the caller's stack moves)")
			w.Class("c09:reader:async-fill+stack-move")
		}
		// a reader that scribbles over the spare capacity behind the bytes it was asked for
		// (p[len(p):cap(p)]): the nonce is a function of the key, the digest and the 32 entropy
		// bytes - not of whatever else the signer keeps behind its entropy buffer
		same(&fixedReader{data: entropy, spill: rng.Bytes(1 + rng.Intn(8)), chunk: gen.Pick(rng, 0, 0, 1, 7, 16)}, "spare-capacity-scribbling")
		w.Class("c09:reader:spills-into-spare-capacity")
		// the caller's digest buffer changes while the entropy is being read (reader callback
		// sharing scratch memory with the digest, concurrent reuse of the buffer).  Whichever
		// snapshot of the digest the signer uses, it uses ONE: the signature is valid for the
		// digest before or after the change, and two such calls never pair one nonce with two
		// different signed digests.
		if i%2 == 1 {
			w.Class("c09:reader:digest-changes-during-read")
			type out struct{ r, s *big.Int }
			var outs []out
			post := [][]byte{rng.Bytes(len(dig)), rng.Bytes(len(dig))}
			for _, pd := range post {
				buf := append([]byte{}, dig...)
				rd := &fixedReader{data: entropy, chunk: gen.Pick(rng, 0, 5)}
				rd.onRead = func() { copy(buf, pd) }
				lr, ls, _, err := priv.SignRaw(rd, buf)
				if err != nil {
					w.Fail("c09/reader:digest-changes", fmt.Sprintf("SignRaw failed when the digest buffer changed during the entropy read: %v", err), det...)
					continue
				}
				br, bs := bigFromScalar(lr), bigFromScalar(ls)
				Q := oracle.MulG(d)
				if !oracle.ECDSAVerify(Q, dig, br, bs) && !oracle.ECDSAVerify(Q, pd, br, bs) {
					w.Fail("c09/reader:digest-changes", fmt.Sprintf("the digest buffer changed from %x to %x during the entropy read; (r,s) = (%x,%x) is valid for neither (nonce and s computed from different snapshots)", dig, pd, br, bs), append(det, "digest_after", hx(pd))...)
				}
				outs = append(outs, out{br, bs})
			}
			if len(outs) == 2 && outs[0].r.Cmp(outs[1].r) == 0 && outs[0].s.Cmp(outs[1].s) != 0 {
				w.Fail("c09/reader:digest-changes:nonce-reuse", fmt.Sprintf("two signing calls (same key, entropy and initial digest; digest buffer overwritten with %x resp. %x during the entropy read) share r = %x but have different s: one nonce signed two different digests", post[0], post[1], outs[0].r), append(det, "digest_after_1", hx(post[0]), "digest_after_2", hx(post[1]))...)
			}
		}
		same(&fixedReader{data: append(append([]byte{}, entropy...), 1, 2, 3), chunk: 1 + rng.Intn(31)}, "random-chunk")
		w.Class("c09:reader:chunks")
		// the same 32 bytes through the reader types programs really pass (a signer that looks at
		// the dynamic type of its reader, or at its optional interfaces, takes another path); where
		// the type can tell, exactly 32 bytes are gone afterwards
		if i%3 == 0 {
			for _, sr := range stdReaders(entropy, rng.Bytes(40)) {
				same(sr.rd, "standard-library reader type ("+sr.name+")")
				if l := sr.left(); l >= 0 && sr.total-l != 32 {
					w.Fail("c09/reader:std-type:consumed", fmt.Sprintf("SignRaw took %d bytes from a %s holding %d, expected exactly 32", sr.total-l, sr.name, sr.total), det...)
				}
				if sr.done != nil {
					sr.done()
				}
				w.Class("c09:reader:std-type:" + sr.name)
			}
			// a short stream through the same types: error, no signature
			for _, sr := range stdReaders(entropy[:rng.Intn(32)], nil) {
				lr, ls, _, err := priv.SignRaw(sr.rd, dig)
				if err == nil || lr != nil || ls != nil {
					w.Fail("c09/reader:std-type:short", fmt.Sprintf("SignRaw produced a signature from a %s holding only %d bytes", sr.name, sr.total), det...)
				}
				if sr.done != nil {
					sr.done()
				}
			}
			w.Class("c09:reader:std-type:short-stream")
		}
		// failing after j bytes
		for _, j := range []int{i % 33, rng.Intn(32), 31, 32, 33 + rng.Intn(8)} {
			rd := &fixedReader{data: append(append([]byte{}, entropy...), rng.Bytes(16)...)[:j], chunk: 1 + rng.Intn(40), errAfter: errScripted}
			// every class of read error, returned on every further call (a retry loop sees it again)
			rd.errAfter = readerErrors()[rng.Intn(len(readerErrors()))]
			if _, isTemp := rd.errAfter.(interface{ Temporary() bool }); isTemp || errors.Is(rd.errAfter, syscall.EAGAIN) {
				w.Class("c09:reader:fail:temporary-class-error")
			}
			lr, ls, _, err := priv.SignRaw(rd, dig)
			if j < 32 {
				w.Class("c09:reader:fail<32")
				if err == nil || lr != nil || ls != nil {
					w.Fail("c09/reader:fail", fmt.Sprintf("SignRaw produced a signature although the entropy source failed after %d bytes", j), det...)
				}
				if sig, err2 := priv.Sign(&fixedReader{data: entropy[:j], errAfter: errScripted}, dig, nil); err2 == nil || sig != nil {
					w.Fail("c09/reader:fail", fmt.Sprintf("Sign produced a signature although the entropy source failed after %d bytes", j), det...)
				}
			} else {
				w.Class("c09:reader:fail>=32")
				if err != nil || bigFromScalar(lr).Cmp(r0) != 0 {
					w.Fail("c09/reader:enough", fmt.Sprintf("SignRaw failed or differs although %d >= 32 entropy bytes were available: %v", j, err), det...)
				}
			}
		}
	})

	// --- (e) RFC 6979 ------------------------------------------------------------------------------
	r.Each("c09/rfc6979", r.N(1200, 40000), func(w *mon.W, i int) {
		rng := w.Rng
		d, dc := keyValue(rng)
		dig, gc := digestValue(rng, false)
		switch i % 5 {
		case 1:
			v := new(big.Int).Add(n, rng.Below(new(big.Int).Sub(oracle.Two256, n)))
			dig = b32(v)
			w.Class("c09:rfc6979:digest>=n")
		case 2:
			dig = append(dig, rng.Bytes(32)...)
			w.Class("c09:rfc6979:long-digest")
		}
		w.Case(true, []byte("rfc6979"), b32(d), dig)
		if i < 2 {
			w.Sample(map[string]any{"op": "SignRaw(RFC6979SHA256())", "d": hb(d), "digest": hx(dig), "classes": dc + "," + gc})
		}
		r0, s0, v0, _, rejected := oracle.RFC6979Sign(d, dig)
		lr, ls, v, err := mustPriv(d).SignRaw(secec.RFC6979SHA256(), dig)
		if err != nil {
			w.Fail("c09/rfc6979:err", err.Error(), "d", hb(d), "digest", hx(dig))
			return
		}
		if rejected > 0 {
			w.Class("c09:rfc6979:after-rejected-candidate")
		}
		if bigFromScalar(lr).Cmp(r0) != 0 || bigFromScalar(ls).Cmp(s0) != 0 || int(v) != v0 {
			w.Fail("c09/rfc6979", fmt.Sprintf("RFC 6979 mode: library (r,s,v) = (%x, %x, %d), RFC 6979 HMAC-SHA-256 ECDSA (low-s) = (%x, %x, %d)", bigFromScalar(lr), bigFromScalar(ls), v, r0, s0, v0), "d", hb(d), "digest", hx(dig))
		} else {
			w.Class("c09:rfc6979:match")
		}
		// Sign() with the selector gives the same (r,s)
		if sig, err := mustPriv(d).Sign(secec.RFC6979SHA256(), dig[:32], nil); err != nil || !bytes.Equal(sig, oracle.DERWriteSig(r0, s0)) && len(dig) == 32 {
			w.Fail("c09/rfc6979:Sign", "Sign with the RFC 6979 selector differs from the RFC 6979 signature", "d", hb(d), "digest", hx(dig))
		}
		if hk.HaveSecec {
			e, _ := oracle.DigestToE(dig)
			rd := hk.NewDrbgRFC6979(scalarFromBig(d), scalarFromBig(e))
			g := oracle.NewRFC6979E(d, e)
			reads := 1 + i%12
			if reads >= 8 {
				w.Class("c09:drbg:reads>=8")
			}
			// the reader's caller owns the buffer it passes: in every other case ONE buffer is used
			// for all reads and wiped / overwritten by the caller after each (what a rejection
			// sampler that cleans up after itself does)
			shared := make([]byte, 32, 32+i%3*16)
			for j := 0; j < reads; j++ {
				buf := make([]byte, 32)
				if i%2 == 1 {
					buf = shared
					w.Class("c09:drbg:buffer-reused-and-wiped")
				}
				nn, err := rd.Read(buf)
				want := g.Next()
				if err != nil || nn != 32 || !bytes.Equal(buf, want) {
					w.Fail("c09/drbg", fmt.Sprintf("deterministic generator read #%d = %x, RFC 6979 candidate T_%d = %x (buffer reused and wiped by the caller between reads: %v)", j+1, buf, j+1, want, i%2 == 1), "d", hb(d), "e", hb(e))
					break
				}
				switch (i / 2) % 3 {
				case 0:
					copy(buf, make([]byte, 32))
				case 1:
					copy(buf, bytes.Repeat([]byte{0xff}, 32))
				default:
					copy(buf, rng.Bytes(32))
				}
			}
			if i%10 == 0 {
				bad := gen.Pick(rng, 0, 1, 31, 33, 64)
				if p, _ := mon.Panics(func() { _, _ = hk.NewDrbgRFC6979(scalarFromBig(d), scalarFromBig(e)).Read(make([]byte, bad)) }); !p {
					w.Fail("c09/drbg:len", fmt.Sprintf("the deterministic generator served a %d-byte read", bad))
				}
				w.Class("c09:drbg:bad-length-panics")
			}
		}
	})

	if !hk.HaveSecec {
		return
	}
	// --- (d) the rejection sampler on scripted candidate streams ---------------------------------
	r.Each("c09/sampler", r.N(3000, 100000), func(w *mon.W, i int) {
		rng := w.Rng
		bad := func() []byte {
			switch rng.Intn(5) {
			case 0:
				w.Class("c09:sampler:reject-zero")
				return make([]byte, 32)
			case 1:
				w.Class("c09:sampler:reject>=n")
				return b32(n)
			case 2:
				w.Class("c09:sampler:reject>=n")
				return bytes.Repeat([]byte{0xff}, 32)
			case 3:
				w.Class("c09:sampler:reject>=n")
				return b32(new(big.Int).Add(n, big.NewInt(int64(1+rng.Intn(100)))))
			default:
				w.Class("c09:sampler:reject>=n")
				return b32(new(big.Int).Add(n, rng.Below(new(big.Int).Sub(oracle.Two256, n))))
			}
		}
		good := func() *big.Int {
			switch rng.Intn(5) {
			case 0:
				w.Class("c09:sampler:n-1")
				return new(big.Int).Sub(n, big.NewInt(1))
			case 1:
				w.Class("c09:sampler:one")
				return big.NewInt(1)
			}
			v := rng.Below(n)
			if v.Sign() == 0 {
				v = big.NewInt(2)
			}
			return v
		}
		nbad := i % 11 // 0..10 rejected candidates first
		var stream []byte
		for j := 0; j < nbad; j++ {
			stream = append(stream, bad()...)
		}
		g := good()
		stream = append(stream, b32(g)...)
		stream = append(stream, rng.Bytes(32)...)
		mode := (i / 11) % 3
		rd := &fixedReader{data: stream, chunk: []int{0, 1, 7}[mode]}
		cut := -1
		if i%7 == 3 {
			// read error in the middle of candidate number c
			cut = rng.Intn(32*(min(nbad, 7)+1)) + 0
			rd = &fixedReader{data: stream[:cut], errAfter: errScripted}
			w.Class("c09:sampler:read-error")
		}
		w.Case(true, []byte("sampler"), stream, []byte(fmt.Sprint(mode, cut)))
		s, err := hk.SampleRandomScalar(rd)
		det := []any{"stream", hx(stream), "rejected_first", nbad, "cut", cut}
		expectSuccess := nbad < 8 && (cut < 0 || cut >= 32*(nbad+1))
		switch {
		case !expectSuccess && nbad >= 8 && (cut < 0 || cut >= 32*8):
			w.Class("c09:sampler:retry-limit")
			if err == nil || s != nil {
				w.Fail("c09/sampler:retry-limit", fmt.Sprintf("the sampler returned a scalar after %d out-of-range candidates (limit 8)", nbad), det...)
			}
			if rd.Consumed() > 32*8 {
				w.Fail("c09/sampler:retry-limit", fmt.Sprintf("the sampler consumed %d bytes, more than 8 candidates", rd.Consumed()), det...)
			}
		case !expectSuccess:
			if err == nil || s != nil {
				w.Fail("c09/sampler:read-error", "the sampler returned a scalar although its entropy source failed first", det...)
			}
		default:
			w.Class("c09:sampler:first-good")
			if err != nil || s == nil {
				w.Fail("c09/sampler", fmt.Sprintf("the sampler failed although candidate %d is in range: %v", nbad+1, err), det...)
			} else if got := bigFromScalar(s); got.Cmp(g) != 0 {
				w.Fail("c09/sampler:value", fmt.Sprintf("the sampler returned %x, expected the first in-range non-zero candidate %x unreduced", got, g), det...)
			} else if rd.Consumed() != 32*(nbad+1) {
				w.Fail("c09/sampler:consumed", fmt.Sprintf("the sampler consumed %d bytes for %d candidates", rd.Consumed(), nbad+1), det...)
			}
		}
	})

	// --- the nonce-derivation reader: the stream it yields is what the signature uses --------
	r.Each("c09/nonce-reader", r.N(400, 12000), func(w *mon.W, i int) {
		rng := w.Rng
		d, _ := keyValue(rng)
		dig, _ := digestValue(rng, false)
		entropy := rng.Bytes(32)
		e, _ := oracle.DigestToE(dig)
		priv := mustPriv(d)
		rd, err := hk.NonceReader(&fixedReader{data: entropy}, priv, scalarFromBig(e))
		if err != nil {
			w.Fail("c09/nonce-reader:err", err.Error())
			return
		}
		cand := make([]byte, 32)
		if _, err := io.ReadFull(rd, cand); err != nil {
			w.Fail("c09/nonce-reader:read", err.Error())
			return
		}
		k := oracle.FromBytes(cand)
		w.Case(true, []byte("nr"), b32(d), dig, entropy)
		if k.Sign() == 0 || k.Cmp(n) >= 0 {
			return // astronomically unlikely; the sampler monitor covers rejection
		}
		r0, _, _, ok := signR(w, d, dig, entropy)
		if !ok {
			return
		}
		w.Class("c09:nonce-reader:matches-signature")
		if oracle.Mod(oracle.MulG(k).X, n).Cmp(r0) != 0 {
			w.Fail("c09/nonce-reader", "the first candidate of the derived nonce stream is not the nonce of the signature (unreduced use of the stream expected)", "d", hb(d), "digest", hx(dig), "entropy", hx(entropy), "candidate", hx(cand))
		}
		// same inputs, same stream; one flipped entropy bit, different stream
		rd2, _ := hk.NonceReader(&fixedReader{data: entropy}, priv, scalarFromBig(e))
		c2 := make([]byte, 32)
		_, _ = io.ReadFull(rd2, c2)
		if !bytes.Equal(cand, c2) {
			w.Fail("c09/nonce-reader:determinism", "the derived nonce stream is not deterministic")
		}
		e3 := append([]byte{}, entropy...)
		e3[rng.Intn(32)] ^= 1 << uint(rng.Intn(8))
		rd3, _ := hk.NonceReader(&fixedReader{data: e3}, priv, scalarFromBig(e))
		c3 := make([]byte, 32)
		_, _ = io.ReadFull(rd3, c3)
		if bytes.Equal(cand, c3) {
			w.Fail("c09/nonce-reader:entropy", "the derived nonce stream ignores an entropy bit")
		}
	})

	// --- nil rand: the system entropy source is not trusted either -----------------------
	// With rand == nil the library reads crypto/rand.Reader.  The harness swaps that
	// package variable for a scripted reader (single goroutine, restored afterwards):
	// a constant or repeating system stream must still give distinct r for distinct
	// (key, digest), a failing one must give an error and no signature.
	r.Require("c09:sysrand:restored")
	r.Seq("c09/system-entropy", r.N(60, 1500), func(w *mon.W, i int) {
		rng := w.Rng
		saved := crand.Reader
		defer func() { crand.Reader = saved }()
		d1, _ := keyValue(rng)
		d2, _ := keyValue(rng)
		if d1.Cmp(d2) == 0 {
			d2 = oracle.AddM(d2, big.NewInt(1), bigN)
			if d2.Sign() == 0 {
				d2 = big.NewInt(2)
			}
		}
		k1, k2 := mustPriv(d1), mustPriv(d2)
		digA, digB := rng.Bytes(32), rng.Bytes(32)
		pat := []byte{byte(rng.U64())}
		if i%3 == 1 {
			pat = rng.Bytes(32)
		}
		if i%3 == 2 {
			pat = make([]byte, 1)
		}
		w.Case(true, []byte("sysrand"), b32(d1), b32(d2), digA, digB, pat)
		type sg struct {
			r, s *big.Int
			err  error
		}
		consulted := 0
		sign := func(k *secec.PrivateKey, dig []byte) sg {
			rd := &repeatReader{pat: pat}
			defer func() { consulted += rd.n }()
			crand.Reader = rd
			lr, ls, _, err := k.SignRaw(nil, dig)
			if err != nil {
				return sg{err: err}
			}
			return sg{r: bigFromScalar(lr), s: bigFromScalar(ls)}
		}
		a, b, c := sign(k1, digA), sign(k1, digB), sign(k2, digA)
		if consulted == 0 && a.err == nil && b.err == nil && c.err == nil {
			// the library does not obtain its system entropy through crypto/rand.Reader on
			// this tree: the scripted stream was never read, nothing can be observed here
			crand.Reader = saved
			w.Class("c09:sysrand:restored")
			w.Class("c09:sysrand:not-routed-through-crypto/rand.Reader")
			return
		}
		w.Class("c09:sysrand:constant")
		if a.err != nil || b.err != nil || c.err != nil {
			w.Fail("c09/sysrand:err", fmt.Sprintf("SignRaw(nil) failed with a working system entropy source: %v %v %v", a.err, b.err, c.err))
			return
		}
		if a.r.Cmp(b.r) == 0 {
			w.Fail("c09/sysrand:shared-r:digest", fmt.Sprintf("rand == nil and a repeating system entropy stream: two DIFFERENT digests under one key share r = %x (the nonce does not depend on the digest)", a.r), "d", hb(d1), "digestA", hx(digA), "digestB", hx(digB), "system_stream_pattern", hx(pat))
		}
		if a.r.Cmp(c.r) == 0 {
			w.Fail("c09/sysrand:shared-r:key", fmt.Sprintf("rand == nil and a repeating system entropy stream: two DIFFERENT keys share r = %x on one digest (the nonce does not depend on the key)", a.r), "d1", hb(d1), "d2", hb(d2), "digest", hx(digA), "system_stream_pattern", hx(pat))
		}
		if !oracle.ECDSAVerify(oracle.MulG(d1), digA, a.r, a.s) {
			w.Fail("c09/sysrand:verify", "SignRaw(nil) produced an invalid signature")
		}
		// the (degraded) system source passed EXPLICITLY: it is an io.Reader like any other - the
		// signature is the one a private reader with the same bytes gives (a signer that recognises
		// crypto/rand.Reader and then trusts it would differ)
		{
			rd := &repeatReader{pat: pat}
			crand.Reader = rd
			lr, ls, _, err := k1.SignRaw(crand.Reader, digA)
			crand.Reader = saved
			first := make([]byte, 32)
			_, _ = (&repeatReader{pat: pat}).Read(first)
			pr, ps, _, err2 := k1.SignRaw(&fixedReader{data: first}, digA)
			w.Class("c09:sysrand:passed-explicitly")
			if err != nil || err2 != nil || lr.Equal(pr) != 1 || ls.Equal(ps) != 1 {
				w.Fail("c09/sysrand:explicit", fmt.Sprintf("SignRaw(crypto/rand.Reader, ...) with the system stream scripted differs from SignRaw with a private reader delivering the same 32 bytes (err=%v/%v): the signer treats the system reader specially", err, err2), "d", hb(d1), "digest", hx(digA), "system_stream_pattern", hx(pat))
			}
		}
		// a failing system source: error, no signature
		for _, after := range []int{0, 1, 31} {
			crand.Reader = &fixedReader{data: rng.Bytes(after), errAfter: errScripted}
			lr, ls, _, err := k1.SignRaw(nil, digA)
			w.Class("c09:sysrand:fail")
			if err == nil || lr != nil || ls != nil {
				w.Fail("c09/sysrand:fail", fmt.Sprintf("SignRaw(nil) returned a signature although the system entropy source failed after %d bytes", after))
			}
		}
		crand.Reader = saved
		w.Class("c09:sysrand:restored")
	})
}
