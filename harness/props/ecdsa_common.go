package props

import (
	"bufio"
	"bytes"
	"crypto"
	"errors"
	"fmt"
	"io"
	"math"
	"math/big"
	"os"
	"runtime"
	"strings"
	"sync"
	"syscall"
	"testing/iotest"

	"gitlab.com/yawning/secp256k1-voi/secec"

	"verifharness/gen"
	"verifharness/oracle"
)

var (
	glvOnce     sync.Once
	glvByLambda map[string]*glvConsts
)

// keyValue draws a private scalar in [1,n) with its class.
func keyValue(r *gen.Rng) (*big.Int, string) {
	n := bigN
	switch r.Intn(12) {
	case 10, 11:
		// scalars steered into the GLV decomposition's rare windows (rounding
		// bit, limb carry, extreme halves): every secret-scalar multiplication
		// (public-key derivation, ECDH, signing) goes through that split.
		lam := oracle.Lambda
		if r.Bool() {
			lam = oracle.MulM(lam, lam, n)
		}
		glvOnce.Do(func() {
			glvByLambda = map[string]*glvConsts{}
			l2 := oracle.MulM(oracle.Lambda, oracle.Lambda, n)
			glvByLambda[oracle.Lambda.String()] = deriveGLV(oracle.Lambda)
			glvByLambda[l2.String()] = deriveGLV(l2)
		})
		for {
			v, cl := glvScalar(r, glvByLambda[lam.String()], lam)
			if v.Sign() != 0 {
				return v, "d=glv:" + cl
			}
		}
	case 0:
		return big.NewInt(1), "d=1"
	case 1:
		return big.NewInt(2), "d=2"
	case 2:
		return new(big.Int).Sub(n, big.NewInt(1)), "d=n-1"
	case 3:
		return new(big.Int).Sub(n, big.NewInt(2)), "d=n-2"
	case 4:
		return new(big.Int).Add(oracle.HalfN, big.NewInt(int64(r.Intn(2)))), "d=halfN(+1)"
	case 5:
		v, _ := r.Value(n)
		if v.Sign() == 0 {
			v = big.NewInt(3)
		}
		return v, "d=special-value"
	default:
		v := r.Below(n)
		if v.Sign() == 0 {
			v = big.NewInt(5)
		}
		return v, "d=random"
	}
}

// mustPriv builds a library private key for d.
//
// Every key object the monitors use is built the way a careful caller builds one: from
// a scratch buffer that is wiped (here: overwritten with a pattern) as soon as the
// constructor has returned.  A key that kept the caller's slice - for its encoding, for
// the nonce derivation, for anything - is a different key from then on, and whichever
// monitor uses the object sees it.
func mustPriv(d *big.Int) *secec.PrivateKey {
	buf := make([]byte, 32, 48)
	copy(buf, b32(d))
	k, err := secec.NewPrivateKey(buf)
	if err != nil {
		panic(fmt.Sprintf("harness: NewPrivateKey(%x): %v", d, err))
	}
	scribble(buf[:cap(buf)])
	return k
}

// scribble overwrites a buffer the harness handed to a constructor.
func scribble(b []byte) {
	for i := range b {
		b[i] = 0xA5 ^ byte(i*29)
	}
}

// mustPub builds a library public key for a non-identity curve point.
func mustPub(q *oracle.Pt) *secec.PublicKey {
	buf := oracle.EncodeUncompressed(q)
	k, err := secec.NewPublicKey(buf)
	if err != nil {
		panic(fmt.Sprintf("harness: NewPublicKey(%v): %v", q, err))
	}
	scribble(buf)
	return k
}

// digestValue draws a digest; length 32 unless anyLen.
func digestValue(r *gen.Rng, anyLen bool) ([]byte, string) {
	l := 32
	cl := ""
	if anyLen {
		switch r.Intn(8) {
		case 0:
			l = r.Intn(32) // too short
			cl = "len<32,"
		case 1:
			l = 33 + r.Intn(32)
			cl = "len33..64,"
		case 2:
			l = gen.Pick(r, 48, 64, 28, 20)
			cl = fmt.Sprintf("len=%d,", l)
		}
	}
	b := make([]byte, l)
	switch r.Intn(8) {
	case 0:
		return b, cl + "digest=zero"
	case 1:
		for i := range b {
			b[i] = 0xff
		}
		return b, cl + "digest=ones"
	case 2:
		if l >= 32 {
			copy(b, b32(bigN))
			r.Fill(b[32:])
			return b, cl + "digest=n"
		}
	case 3:
		if l >= 32 {
			v := new(big.Int).Add(bigN, r.Below(new(big.Int).Sub(oracle.Two256, bigN)))
			copy(b, b32(v))
			r.Fill(b[32:])
			return b, cl + "digest>=n"
		}
	case 4:
		if l >= 32 {
			v, _ := r.Value(bigN)
			copy(b, b32(v))
			r.Fill(b[32:])
			return b, cl + "digest=special-value"
		}
	}
	r.Fill(b)
	return b, cl + "digest=random"
}

// --- scripted entropy readers ------------------------------------------------

// fixedReader returns the given bytes in chunks of at most chunk bytes
// (chunk <= 0: all at once), then fails with errAfter (or io.EOF).
type fixedReader struct {
	data     []byte
	chunk    int
	pos      int
	errAfter error
	Reads    int
	// hostile behaviours (memory safe, but outside what a polite reader does):
	spill  []byte // written over p[n:cap(p)], the spare capacity behind the requested bytes
	onRead func() // called during the first Read (the caller's other buffers change under the signer)
	// stalls: that many (0, nil) reads before every chunk of data (legal for an io.Reader, if
	// discouraged; io.ReadFull keeps asking)
	stalls, stalled int
	// async: the bytes are written into p by ANOTHER goroutine while this one - the signer's -
	// recurses deeply enough for its stack to be moved (the usual time-out / cancellation
	// wrapper hands p to a worker; a pointer into the signer's stack must not have been hidden
	// from the compiler)
	async bool
}

//go:noinline
func growStack(depth int, sink *[256]byte) byte {
	var pad [256]byte
	pad[depth%256] = byte(depth)
	if depth == 0 {
		return pad[0] + sink[0]
	}
	return growStack(depth-1, &pad) + pad[1]
}

func (f *fixedReader) Read(p []byte) (int, error) {
	f.Reads++
	if f.pos >= len(f.data) {
		if f.errAfter != nil {
			return 0, f.errAfter
		}
		return 0, io.EOF
	}
	if f.stalled < f.stalls {
		f.stalled++
		return 0, nil
	}
	f.stalled = 0
	n := len(p)
	if f.chunk > 0 && n > f.chunk {
		n = f.chunk
	}
	if n > len(f.data)-f.pos {
		n = len(f.data) - f.pos
	}
	if f.async {
		done := make(chan struct{})
		start := make(chan struct{})
		src := f.data[f.pos : f.pos+n]
		go func() {
			<-start
			copy(p, src)
			close(done)
		}()
		var pad [256]byte
		_ = growStack(600, &pad) // ~300 KiB of frames: the goroutine's stack is reallocated
		runtime.GC()             // and shrunk again on the way back
		close(start)
		<-done
	} else {
		copy(p, f.data[f.pos:f.pos+n])
	}
	f.pos += n
	if f.spill != nil {
		rest := p[:cap(p)][n:]
		for i := range rest {
			rest[i] = f.spill[i%len(f.spill)]
		}
	}
	if f.onRead != nil && f.Reads == 1 {
		f.onRead()
	}
	return n, nil
}

// Consumed reports how many bytes were handed out.
func (f *fixedReader) Consumed() int { return f.pos }

var errScripted = errors.New("scripted entropy failure")

// tempErr is an error of the "temporary / timeout" class (EAGAIN, EINTR, a deadline):
// a read error is a read error - the signer must abort, not retry into a partly filled
// buffer.
type tempErr struct{ msg string }

func (e tempErr) Error() string   { return e.msg }
func (e tempErr) Temporary() bool { return true }
func (e tempErr) Timeout() bool   { return true }

// readerErrors are the failure values the scripted readers end with.
func readerErrors() []error {
	return []error{errScripted, nil /* io.EOF */, io.ErrUnexpectedEOF, io.ErrNoProgress, io.ErrClosedPipe, syscall.EAGAIN, syscall.EINTR,
		tempErr{"scripted temporary failure"}, fmt.Errorf("wrapped: %w", syscall.EAGAIN), fmt.Errorf("wrapped: %w", tempErr{"inner temporary failure"})}
}

// repeatReader returns a repeating pattern forever.
type repeatReader struct {
	pat []byte
	pos int
	n   int
}

func (f *repeatReader) Read(p []byte) (int, error) {
	for i := range p {
		p[i] = f.pat[f.pos%len(f.pat)]
		f.pos++
	}
	f.n += len(p)
	return len(p), nil
}

// sigTuple is an ECDSA verification instance.
type sigTuple struct {
	Q      *oracle.Pt
	D      *big.Int // nil when the discrete log of Q is unknown
	Digest []byte
	R, S   *big.Int // may be outside [1,n) for the byte-level cases
	V      int      // candidate recovery id (may be wrong / >3)
	Class  string
}

// honestTuple signs with a fresh nonce (no low-s normalisation unless asked).
func honestTuple(r *gen.Rng, anyLen bool) sigTuple {
	d, dc := keyValue(r)
	var dig []byte
	var gc string
	for {
		dig, gc = digestValue(r, anyLen)
		if len(dig) >= 32 {
			break
		}
	}
	e, _ := oracle.DigestToE(dig)
	for {
		k := r.Below(bigN)
		rr, ss, v, ok := oracle.ECDSASignWithK(d, e, k)
		if ok {
			return sigTuple{Q: oracle.MulG(d), D: d, Digest: dig, R: rr, S: ss, V: v, Class: "honest," + dc + "," + gc}
		}
	}
}

// chosenRTuple builds a valid tuple for a chosen R (possibly with x >= n
// or with an unknown discrete log): Q = r^-1 (sR - eG).
func chosenRTuple(r *gen.Rng, R *oracle.Pt, rclass string) (sigTuple, bool) {
	rr := oracle.Mod(R.X, bigN)
	if rr.Sign() == 0 {
		return sigTuple{}, false
	}
	s := r.Below(bigN)
	if s.Sign() == 0 {
		s = big.NewInt(1)
	}
	dig, gc := digestValue(r, false)
	e, _ := oracle.DigestToE(dig)
	q := oracle.Mul(oracle.InvFast(rr, bigN), oracle.Sub(oracle.Mul(s, R), oracle.MulG(e)))
	if q.Inf {
		return sigTuple{}, false
	}
	v := int(R.Y.Bit(0))
	if R.X.Cmp(bigN) >= 0 {
		v |= 2
	}
	return sigTuple{Q: q, Digest: dig, R: rr, S: s, V: v, Class: "chosen-R:" + rclass + "," + gc}, true
}

// infinityTuple builds (Q,e,r,s) for which u1*G + u2*Q is the identity.
func infinityTuple(r *gen.Rng) sigTuple {
	d, dc := keyValue(r)
	rr := r.Below(bigN)
	if rr.Sign() == 0 {
		rr = big.NewInt(7)
	}
	if r.Chance(1, 3) {
		// r = x(G): an implementation that substitutes some fixed point for the
		// identity instead of rejecting is most likely to substitute G
		rr = oracle.Mod(oracle.G().X, bigN)
	}
	s := r.Below(bigN)
	if s.Sign() == 0 {
		s = big.NewInt(9)
	}
	e := oracle.NegM(oracle.MulM(rr, d, bigN), bigN)
	dig := b32(e)
	if alt := new(big.Int).Add(e, bigN); r.Bool() && alt.Cmp(oracle.Two256) < 0 {
		dig = b32(alt) // same e after reduction
	}
	return sigTuple{Q: oracle.MulG(d), D: d, Digest: dig, R: rr, S: s, V: r.Intn(4), Class: "R=infinity," + dc}
}

// specialRPoints returns points R usable as chosen R with class names.
func specialRPoints() []namedPt {
	var out []namedPt
	for _, sp := range specialPoints() {
		out = append(out, sp, namedPt{"-" + sp.Name, oracle.Neg(sp.P), nil})
	}
	return out
}

// glvSteered draws a scalar from the GLV decomposition's rare windows (either
// cube root of unity as lambda).
func glvSteered(r *gen.Rng) (*big.Int, string) {
	n := bigN
	lam := oracle.Lambda
	if r.Bool() {
		lam = oracle.MulM(lam, lam, n)
	}
	glvOnce.Do(func() {
		glvByLambda = map[string]*glvConsts{}
		l2 := oracle.MulM(oracle.Lambda, oracle.Lambda, n)
		glvByLambda[oracle.Lambda.String()] = deriveGLV(oracle.Lambda)
		glvByLambda[l2.String()] = deriveGLV(l2)
	})
	v, cl := glvScalar(r, glvByLambda[lam.String()], lam)
	return v, "glv:" + cl
}

// publicAccessorFirst uses k.Public() (the crypto.Signer accessor) as the FIRST
// public-key accessor of the key object and compares what it hands out with the
// expected point d*G and with the typed accessor.  "" when everything agrees.
func publicAccessorFirst(k *secec.PrivateKey, want *oracle.Pt) string {
	var signer crypto.Signer = k
	u := signer.Public()
	if u == nil {
		return "Public() returned nil"
	}
	pub, ok := u.(*secec.PublicKey)
	if !ok {
		return fmt.Sprintf("Public() returned a %T", u)
	}
	if pub == nil {
		return "Public(), used before any other accessor, returned a nil *PublicKey (d is not mapped to d*G)"
	}
	if got := pub.Bytes(); !bytes.Equal(got, oracle.EncodeUncompressed(want)) {
		return fmt.Sprintf("Public().Bytes() = %x, expected d*G = %x", got, oracle.EncodeUncompressed(want))
	}
	if !pub.Equal(k.PublicKey()) || !k.PublicKey().Equal(pub) {
		return "Public() and PublicKey() disagree"
	}
	return ""
}

// undefinedEncoding returns a SignatureEncoding value that is none of the three
// defined selectors: small positive and negative neighbours, values that
// truncate to a defined selector in a byte or a 32-bit word, and the extremes.
func undefinedEncoding(r *gen.Rng) secec.SignatureEncoding {
	var v int64
	switch r.Intn(6) {
	case 0:
		v = int64(3 + r.Intn(5))
	case 1:
		v = -int64(1 + r.Intn(5))
	case 2:
		v = int64(256*(1+r.Intn(3)) + r.Intn(3))
	case 3:
		v = int64(65536*(1+r.Intn(3)) + r.Intn(3))
	case 4:
		v = gen.Pick(r, int64(math.MaxInt32), math.MinInt32, math.MinInt32+1, math.MinInt32+2)
	default:
		v = -int64(r.U64()>>34) - 1
	}
	e := secec.SignatureEncoding(int(v))
	if e == secec.EncodingASN1 || e == secec.EncodingCompact || e == secec.EncodingCompactRecoverable {
		return secec.SignatureEncoding(-1)
	}
	return e
}

// --- entropy readers of the dynamic types programs really pass -------------------
//
// The scripted readers above are all one Go type.  A signer that inspects the reader
// it is given (a type switch on *bytes.Reader / *bufio.Reader / *os.File, a comparison
// with crypto/rand.Reader, optional interfaces such as io.ByteReader, io.WriterTo,
// io.ReaderAt, Len()) takes a path none of them reach.  stdReaders delivers the SAME
// bytes through the standard library's reader types and through wrappers that offer
// the optional interfaces; `left` reports how many bytes are still unread (-1: the
// type cannot tell).

type stdReader struct {
	name  string
	rd    io.Reader
	left  func() int
	total int
	done  func()
}

// richReader offers every optional interface of the io package on top of Read; a
// signer must still take exactly the bytes Read would have delivered.
type richReader struct {
	b *bytes.Reader
}

func (r *richReader) Read(p []byte) (int, error)              { return r.b.Read(p) }
func (r *richReader) ReadByte() (byte, error)                 { return r.b.ReadByte() }
func (r *richReader) UnreadByte() error                       { return r.b.UnreadByte() }
func (r *richReader) ReadAt(p []byte, off int64) (int, error) { return r.b.ReadAt(p, off) }
func (r *richReader) Seek(o int64, w int) (int64, error)      { return r.b.Seek(o, w) }
func (r *richReader) WriteTo(w io.Writer) (int64, error)      { return r.b.WriteTo(w) }
func (r *richReader) Len() int                                { return r.b.Len() }
func (r *richReader) Size() int64                             { return r.b.Size() }
func (r *richReader) Close() error                            { return nil }
func (r *richReader) String() string                          { return "richReader" }

type embedReader struct{ io.Reader }

func stdReaders(data []byte, extra []byte) []stdReader {
	all := append(append([]byte{}, data...), extra...)
	var out []stdReader
	br := bytes.NewReader(all)
	out = append(out, stdReader{name: "*bytes.Reader", rd: br, left: br.Len, total: len(all)})
	bb := bytes.NewBuffer(append([]byte{}, all...))
	out = append(out, stdReader{name: "*bytes.Buffer", rd: bb, left: bb.Len, total: len(all)})
	sr := strings.NewReader(string(all))
	out = append(out, stdReader{name: "*strings.Reader", rd: sr, left: sr.Len, total: len(all)})
	in1 := bytes.NewReader(all)
	out = append(out, stdReader{name: "*bufio.Reader", rd: bufio.NewReaderSize(in1, 16), left: func() int { return -1 }, total: len(all)})
	in2 := bytes.NewReader(all)
	out = append(out, stdReader{name: "*io.LimitedReader", rd: io.LimitReader(in2, int64(len(all))), left: in2.Len, total: len(all)})
	in3a, in3b := bytes.NewReader(all[:len(all)/3]), bytes.NewReader(all[len(all)/3:])
	out = append(out, stdReader{name: "io.MultiReader", rd: io.MultiReader(in3a, in3b), left: func() int { return in3a.Len() + in3b.Len() }, total: len(all)})
	in4 := bytes.NewReader(all)
	out = append(out, stdReader{name: "*io.SectionReader", rd: io.NewSectionReader(in4, 0, int64(len(all))), left: func() int { return -1 }, total: len(all)})
	in5 := bytes.NewReader(all)
	out = append(out, stdReader{name: "struct embedding io.Reader", rd: embedReader{in5}, left: in5.Len, total: len(all)})
	in6 := bytes.NewReader(all)
	out = append(out, stdReader{name: "reader with every optional io interface", rd: &richReader{in6}, left: in6.Len, total: len(all)})
	in7 := bytes.NewReader(all)
	out = append(out, stdReader{name: "iotest.OneByteReader", rd: iotest.OneByteReader(in7), left: in7.Len, total: len(all)})
	in8 := bytes.NewReader(all)
	out = append(out, stdReader{name: "iotest.DataErrReader", rd: iotest.DataErrReader(in8), left: func() int { return -1 }, total: len(all)}) // reads ahead
	_ = in8.Len
	in9 := bytes.NewReader(all)
	out = append(out, stdReader{name: "io.TeeReader", rd: io.TeeReader(in9, io.Discard), left: in9.Len, total: len(all)})
	pr, pw := io.Pipe()
	go func() { _, _ = pw.Write(all); _ = pw.Close() }()
	out = append(out, stdReader{name: "*io.PipeReader", rd: pr, left: func() int { return -1 }, total: len(all), done: func() { _ = pr.Close() }})
	if f, err := os.CreateTemp("", "verif-entropy-"); err == nil {
		_, _ = f.Write(all)
		_, _ = f.Seek(0, io.SeekStart)
		nm := f.Name()
		out = append(out, stdReader{name: "*os.File", rd: f, left: func() int {
			o, err := f.Seek(0, io.SeekCurrent)
			if err != nil {
				return -1
			}
			return len(all) - int(o)
		}, total: len(all), done: func() { _ = f.Close(); _ = os.Remove(nm) }})
	}
	return out
}
