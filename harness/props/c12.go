package props

import (
	"bytes"
	"fmt"
	"math/big"
	"sync"

	"gitlab.com/yawning/secp256k1-voi/secec"
	"gitlab.com/yawning/secp256k1-voi/secec/bitcoin"

	"verifharness/gen"
	"verifharness/mon"
	"verifharness/oracle"
)

func init() { Register("C12", runC12) }

// bip66String draws a byte string around the BIP-66 grammar.
func bip66String(r *gen.Rng) ([]byte, string) {
	intBytes := func() []byte {
		l := gen.Pick(r, 1, 1, 2, 20, 31, 32, 33, 33, 34, 1+r.Intn(40))
		b := r.Bytes(l)
		// leading two bytes from {00,01,7f,80,ff}
		b[0] = gen.Pick(r, byte(0x00), 0x01, 0x7f, 0x80, 0xff, byte(r.U64()))
		if l > 1 {
			b[1] = gen.Pick(r, byte(0x00), 0x01, 0x7f, 0x80, 0xff, byte(r.U64()))
		}
		return b
	}
	R, S := intBytes(), intBytes()
	if r.Chance(1, 3) {
		// make both minimal non-negative most of the time
		fix := func(b []byte) []byte {
			b[0] &= 0x7f
			if len(b) > 1 && b[0] == 0 && b[1]&0x80 == 0 {
				b[1] |= 0x80
			}
			return b
		}
		R, S = fix(R), fix(S)
	}
	build := func(tag0 byte, total int, tagR byte, lenR int, tagS byte, lenS int, sighash bool) []byte {
		out := []byte{tag0, byte(total), tagR, byte(lenR)}
		out = append(out, R...)
		out = append(out, tagS, byte(lenS))
		out = append(out, S...)
		if sighash {
			out = append(out, byte(r.U64()))
		}
		return out
	}
	total := 4 + len(R) + len(S)
	switch r.Intn(18) {
	case 16, 17:
		// cut anywhere, then the outer length is made consistent with what is left (so the first
		// length test passes and the inner fields point past the end); the last byte that is left
		// is often a boundary value - it may be a length octet now
		b := build(0x30, total, 0x02, len(R), 0x02, len(S), r.Bool())
		k := 2 + r.Intn(len(b)-1)
		b = b[:k]
		b[1] = byte(k - 3)
		if r.Bool() {
			b[k-1] = gen.Pick(r, byte(0x00), 0x01, 0x7f, 0x80, 0x81, 0xff, 0xff, byte(k), byte(k-1))
		}
		return b, "truncated-outer-length-consistent"
	case 0, 1, 2, 3, 4:
		return build(0x30, total, 0x02, len(R), 0x02, len(S), true), "well-formed-envelope"
	case 5:
		return build(0x30, total, 0x02, len(R), 0x02, len(S), false), "no-sighash"
	case 6:
		return build(gen.Pick(r, byte(0x31), 0x10, 0x20, 0x02, 0x03), total, 0x02, len(R), 0x02, len(S), true), "wrong-seq-tag"
	case 7:
		return build(0x30, total+gen.Pick(r, -2, -1, 1, 2, 0x50), 0x02, len(R), 0x02, len(S), true), "wrong-total-length"
	case 8:
		return build(0x30, total, gen.Pick(r, byte(0x03), 0x30, 0x82), len(R), 0x02, len(S), true), "wrong-R-tag"
	case 9:
		return build(0x30, total, 0x02, len(R), gen.Pick(r, byte(0x03), 0x30, 0x82), len(S), true), "wrong-S-tag"
	case 10:
		return build(0x30, total, 0x02, gen.Pick(r, 0, len(R)-1, len(R)+1, 0x7f, 0x80, 0xff, total-8, total-4), 0x02, len(S), true), "wrong-R-length"
	case 11:
		return build(0x30, total, 0x02, len(R), 0x02, gen.Pick(r, 0, len(S)-1, len(S)+1, 0x7f, 0x80, 0xff), true), "wrong-S-length"
	case 12:
		b := build(0x30, total, 0x02, len(R), 0x02, len(S), true)
		return append(b, trailingBytes(r)...), "extra-trailing-byte"
	case 13:
		R = nil
		return build(0x30, 4+len(S), 0x02, 0, 0x02, len(S), true), "empty-R"
	case 14:
		S = nil
		return build(0x30, 4+len(R), 0x02, len(R), 0x02, 0, true), "empty-S"
	default:
		b := build(0x30, total, 0x02, len(R), 0x02, len(S), true)
		k := r.Intn(len(b) + 1)
		return b[:k], "truncated"
	}
}

// spkiMutant returns a mutated SubjectPublicKeyInfo and a class.
func spkiMutant(r *gen.Rng, pt []byte) ([]byte, string) {
	oidA := []byte{0x2a, 0x86, 0x48, 0xce, 0x3d, 0x02, 0x01}
	oidC := []byte{0x2b, 0x81, 0x04, 0x00, 0x0a}
	tlv := oracle.DERTLV
	alg := func(a, c []byte, extra []byte) []byte {
		return tlv(0x30, append(append(tlv(0x06, a), tlv(0x06, c)...), extra...))
	}
	bits := func(unused byte, body []byte) []byte { return tlv(0x03, append([]byte{unused}, body...)) }
	std := func() []byte { return tlv(0x30, append(alg(oidA, oidC, nil), bits(0, pt)...)) }
	shl := func(b []byte, k uint) []byte { // big-endian left shift by k bits (k<8), dropping overflow of the top
		out := make([]byte, len(b))
		for i := range b {
			out[i] = b[i] << k
			if i+1 < len(b) {
				out[i] |= b[i+1] >> (8 - k)
			}
		}
		return out
	}
	switch r.Intn(31) {
	case 29, 30:
		// the BIT STRING holds the point inside ANOTHER wrapper other formats use for it:
		// a DER OCTET STRING (PKCS #11 CKA_EC_POINT, X9.62 ECPoint), a nested BIT STRING,
		// the [1] field of an ECPrivateKey, a whole SubjectPublicKeyInfo, a SEQUENCE
		valid := pt
		if P, err := oracle.DecodePoint(pt); err != nil || P.Inf {
			valid = oracle.EncodeUncompressed(oracle.G())
			if r.Bool() {
				valid = oracle.EncodeCompressed(oracle.G())
			}
		}
		var inner []byte
		switch r.Intn(6) {
		case 0, 1:
			inner = tlv(0x04, valid)
		case 2:
			inner = bits(0, valid)
		case 3:
			inner = tlv(0xa1, bits(0, valid))
		case 4:
			inner = tlv(0x30, append(alg(oidA, oidC, nil), bits(0, valid)...))
		default:
			inner = tlv(0x30, valid)
		}
		return tlv(0x30, append(alg(oidA, oidC, nil), bits(0, inner)...)), "point-inside-another-wrapper"
	case 26, 27, 28:
		// the exact header of ONE well-formed key followed by the body of ANOTHER form: the
		// length octets no longer match what follows (a prefix fast path that skips the
		// generic parser must re-check them)
		full := tlv(0x30, append(alg(oidA, oidC, nil), bits(0, append([]byte{4}, make([]byte, 64)...))...)) // uncompressed layout
		hdrU := full[:len(full)-65]
		fullC := tlv(0x30, append(alg(oidA, oidC, nil), bits(0, append([]byte{2}, make([]byte, 32)...))...)) // compressed layout
		hdrC := fullC[:len(fullC)-33]
		valid := pt
		if len(valid) != 65 && len(valid) != 33 {
			valid = oracle.EncodeUncompressed(oracle.G())
		}
		P, err := oracle.DecodePoint(valid)
		if err != nil || P.Inf {
			P = oracle.G()
		}
		switch r.Intn(5) {
		case 0:
			return append(append([]byte{}, hdrU...), oracle.EncodeCompressed(P)...), "uncompressed-header+compressed-point"
		case 1:
			return append(append([]byte{}, hdrC...), oracle.EncodeUncompressed(P)...), "compressed-header+uncompressed-point"
		case 2:
			return append(append(append([]byte{}, hdrU...), oracle.EncodeUncompressed(P)...), r.Bytes(1+r.Intn(3))...), "exact-header+point+trailing"
		case 3:
			return append(append([]byte{}, hdrU...), oracle.EncodeUncompressed(P)[:1+r.Intn(64)]...), "exact-header+truncated-point"
		default:
			return append(append([]byte{}, hdrU...), 0x00), "uncompressed-header+identity"
		}
	case 0, 1, 2:
		return std(), "canonical"
	case 3:
		// declared unused bits with the content shifted left so that a right-aligning reader gets pt back
		k := uint(1 + r.Intn(7))
		body := shl(pt, k)
		return tlv(0x30, append(alg(oidA, oidC, nil), bits(byte(k), body)...)), "unused-bits-shifted"
	case 4:
		// declared unused bits, content unshifted, padding bits zero or not
		k := byte(1 + r.Intn(7))
		body := append([]byte{}, pt...)
		if r.Bool() && len(body) > 0 {
			body[len(body)-1] &^= (1 << k) - 1
		}
		return tlv(0x30, append(alg(oidA, oidC, nil), bits(k, body)...)), "unused-bits-unshifted"
	case 5:
		return tlv(0x30, append(alg(oidA, oidC, nil), bits(byte(8+r.Intn(248)), pt)...)), "unused-bits>=8"
	case 6:
		return tlv(0x30, append(alg(oidA, oidC, nil), tlv(0x03, nil)...)), "empty-bitstring"
	case 7:
		c := std()
		body := c[2:]
		return tlvWithLen(0x30, []byte{0x81, byte(len(body))}, body), "outer-long-form-length"
	case 8:
		b := append(alg(oidA, oidC, nil), tlvWithLen(0x03, []byte{0x81, byte(len(pt) + 1)}, append([]byte{0}, pt...))...)
		return tlv(0x30, b), "bitstring-long-form-length"
	case 9:
		c := std()
		return append(tlvWithLen(0x30, []byte{0x80}, c[2:]), 0, 0), "indefinite-length"
	case 10:
		// non-minimal base-128 arc in an OID
		a2 := append([]byte{0x2a, 0x80, 0x86, 0x48}, oidA[3:]...)
		return tlv(0x30, append(alg(a2, oidC, nil), bits(0, pt)...)), "oid-non-minimal-base128"
	case 11:
		c2 := gen.Pick(r, []byte{0x2a, 0x86, 0x48, 0xce, 0x3d, 0x03, 0x01, 0x07}, []byte{0x2b, 0x81, 0x04, 0x00, 0x22}, []byte{0x2b, 0x81, 0x04, 0x00, 0x0b}, []byte{0x2b, 0x81, 0x04, 0x00})
		return tlv(0x30, append(alg(oidA, c2, nil), bits(0, pt)...)), "wrong-curve-oid"
	case 12:
		a2 := gen.Pick(r, []byte{0x2a, 0x86, 0x48, 0xce, 0x3d, 0x02, 0x02}, []byte{0x2a, 0x86, 0x48, 0x86, 0xf7, 0x0d, 0x01, 0x01, 0x01}, []byte{0x2b, 0x65, 0x70})
		if r.Chance(2, 3) {
			// the other identifiers of the elliptic-curve family (RFC 5480 restricted
			// algorithms id-ecDH / id-ecMQV and their neighbours, ECDSA signature
			// algorithms, X9.42 DH, DSA, the Edwards / Montgomery key types), prefixes and
			// extensions of id-ecPublicKey, and the curve identifier itself
			a2 = gen.Pick(r,
				[]byte{0x2b, 0x81, 0x04, 0x01, 0x0c}, []byte{0x2b, 0x81, 0x04, 0x01, 0x0d}, []byte{0x2b, 0x81, 0x04, 0x01, 0x0b}, []byte{0x2b, 0x81, 0x04, 0x01, 0x0e},
				[]byte{0x2a, 0x86, 0x48, 0xce, 0x3d, 0x04, 0x03, 0x02}, []byte{0x2a, 0x86, 0x48, 0xce, 0x3d, 0x04, 0x01}, []byte{0x2a, 0x86, 0x48, 0xce, 0x3d, 0x02},
				[]byte{0x2a, 0x86, 0x48, 0xce, 0x3d, 0x02, 0x01, 0x01}, []byte{0x2a, 0x86, 0x48, 0xce, 0x3d, 0x01, 0x01}, []byte{0x2a, 0x86, 0x48, 0xce, 0x3e, 0x02, 0x01},
				[]byte{0x2a, 0x86, 0x48, 0xce, 0x38, 0x04, 0x01}, []byte{0x2b, 0x65, 0x6e}, []byte{0x2b, 0x65, 0x71}, oidC,
				[]byte{0x2a, 0x86, 0x48, 0xce, 0x3d, 0x02, byte(r.Intn(128))}, append([]byte{0x2b, 0x81, 0x04, 0x01}, byte(r.Intn(128))))
			if bytes.Equal(a2, oidA) {
				a2 = []byte{0x2b, 0x81, 0x04, 0x01, 0x0c}
			}
		}
		return tlv(0x30, append(alg(a2, oidC, nil), bits(0, pt)...)), "wrong-algorithm-oid"
	case 13:
		return tlv(0x30, append(alg(oidC, oidA, nil), bits(0, pt)...)), "oids-swapped"
	case 14:
		return tlv(0x30, append(alg(oidA, oidC, []byte{0x05, 0x00}), bits(0, pt)...)), "extra-null-parameter"
	case 15:
		return tlv(0x30, append(append(alg(oidA, oidC, nil), bits(0, pt)...), trailingBytes(r)...)), "trailing-inside-outer"
	case 16:
		return append(std(), trailingBytes(r)...), "trailing-outside"
	case 17:
		return tlv(0x30, append(alg(oidA, oidC, nil), bits(0, append(append([]byte{}, pt...), trailingBytes(r)...))...)), "trailing-inside-bitstring"
	case 18:
		c := std()
		c[0] = gen.Pick(r, byte(0x31), 0x10, 0xb0, 0x70)
		return c, "wrong-outer-tag"
	case 19:
		b := append(alg(oidA, oidC, nil), tlv(gen.Pick(r, byte(0x04), 0x23, 0x83), append([]byte{0}, pt...))...)
		return tlv(0x30, b), "wrong-bitstring-tag"
	case 20:
		inner := append(tlv(gen.Pick(r, byte(0x0d), 0x86, 0x26), oidA), tlv(0x06, oidC)...)
		return tlv(0x30, append(tlv(0x30, inner), bits(0, pt)...)), "wrong-oid-tag"
	case 21:
		c := std()
		return c[:r.Intn(len(c))], "truncated"
	case 22:
		c := std()
		c[r.Intn(len(c))] ^= 1 << uint(r.Intn(8))
		return c, "bitflip"
	case 23:
		// explicit parameters instead of a named curve (a SEQUENCE where the curve OID should be)
		inner := append(tlv(0x06, oidA), tlv(0x30, []byte{0x02, 0x01, 0x01})...)
		return tlv(0x30, append(tlv(0x30, inner), bits(0, pt)...)), "explicit-parameters"
	case 24:
		return tlv(0x30, append(tlv(0x30, tlv(0x06, oidA)), bits(0, pt)...)), "missing-curve-oid"
	default:
		return r.Bytes(r.Intn(120)), "random-bytes"
	}
}

func runC12(r *mon.Run) {
	n := bigN
	for _, c := range []string{"c12:der:canonical", "c12:der:seq-long-form-length", "c12:der:indefinite-length", "c12:der:r-leading-zero", "c12:der:negative-r", "c12:der:trailing-inside-seq",
		"c12:der:trailing-outside-seq", "c12:der:wrong-seq-tag", "c12:der:zero-length-int", "c12:der:33-byte-int", "c12:der:accept", "c12:der:reject:range", "c12:der:reject:structure",
		"c12:compact:accept", "c12:compact:reject", "c12:bip66:accept", "c12:bip66:reject", "c12:spki:accept", "c12:spki:reject", "c12:spki:unused-bits-shifted", "c12:spki:canonical",
		"c12:spki:compressed-point", "c12:spki:identity-point", "c12:spki:point-inside-another-wrapper", "c12:spki:wrong-algorithm-oid", "c12:build:zero-scalar"} {
		r.Require(c)
	}
	var mu sync.Mutex
	encOf := map[string]string{} // (r,s) -> accepted encoding, to witness a second accepted encoding

	// --- ASN.1 signatures ----------------------------------------------------------------------
	r.Each("c12/der-sig", r.N(150000, 6000000), func(w *mon.W, i int) {
		rng := w.Rng
		rv, rc := sigValue(rng)
		sv, sc := sigValue(rng)
		data, mcl := derSigMutant(rng, rv, sv)
		w.Class("c12:der:" + mcl)
		keep := append([]byte{}, data...)
		or, os, ok := oracle.DERParseSigStrict(data)
		_, _, ok2 := oracle.DERSigCanonicalAccept(data)
		if ok != ok2 {
			r.Inconclusive("the two independent DER recognisers of the harness disagree on %x", data)
			return
		}
		hl, hcheck := hostileLayout(data, rng.Bytes(8))
		lr, ls, err := secec.ParseASN1Signature(hl[0])
		if m := hcheck(); m != "" {
			w.Fail("c12/ParseASN1Signature:buffer", "ParseASN1Signature wrote to its input or beyond it: "+m, "data", data)
		}
		if lr2, ls2, err2 := secec.ParseASN1Signature(data); (err2 == nil) != (err == nil) || (err == nil && (lr2.Equal(lr) != 1 || ls2.Equal(ls) != 1)) {
			w.Fail("c12/ParseASN1Signature:layout", fmt.Sprintf("ParseASN1Signature(%x) gives a different result when the input slice has spare capacity", data), "data", data)
		}
		w.Case(mcl != "canonical" || rc != "random" || sc != "random", []byte("der"), data)
		if i < 3 {
			w.Sample(map[string]any{"op": "ParseASN1Signature", "data": hx(data), "mutation": mcl, "r_class": rc, "s_class": sc, "strict_DER_accepts": ok})
		}
		if (err == nil) != ok || (err != nil && (lr != nil || ls != nil)) {
			w.Fail("c12/ParseASN1Signature/"+mcl, fmt.Sprintf("ParseASN1Signature(%x) [%s, r:%s, s:%s]: err=%v, strict DER with 1<=r,s<n accepts=%v", data, mcl, rc, sc, err, ok), "data", data, "mutation", mcl)
			return
		}
		if !ok {
			if _, _, lenient := lenientSig(data); lenient {
				w.Class("c12:der:reject:range")
			} else {
				w.Class("c12:der:reject:structure")
			}
			return
		}
		w.Class("c12:der:accept")
		if bigFromScalar(lr).Cmp(or) != 0 || bigFromScalar(ls).Cmp(os) != 0 {
			w.Fail("c12/ParseASN1Signature:value", fmt.Sprintf("ParseASN1Signature(%x) = (%x, %x), expected (%x, %x)", data, bigFromScalar(lr), bigFromScalar(ls), or, os), "data", data)
		}
		if re := secec.BuildASN1Signature(lr, ls); !bytes.Equal(re, data) {
			w.Fail("c12/parse-then-build", fmt.Sprintf("parse-then-build of %x gives %x", data, re), "data", data)
		}
		key := string(b32(or)) + string(b32(os))
		mu.Lock()
		prev, had := encOf[key]
		if !had && len(encOf) < 200000 {
			encOf[key] = string(data)
		}
		mu.Unlock()
		if had && prev != string(data) {
			w.Fail("c12/unique-encoding", fmt.Sprintf("(r,s) has two accepted ASN.1 encodings: %x and %x", prev, data), "data", data)
		}
		if !bytes.Equal(data, keep) {
			w.Fail("c12:src", "a parser modified its input")
		}
	})

	// --- builders -----------------------------------------------------------------------------------
	r.Each("c12/build", r.N(20000, 800000), func(w *mon.W, i int) {
		rng := w.Rng
		rv, _ := sigValue(rng)
		sv, _ := sigValue(rng)
		rv, sv = oracle.Mod(rv, n), oracle.Mod(sv, n)
		if rv.Sign() == 0 || sv.Sign() == 0 {
			w.Class("c12:build:zero-scalar")
		}
		lr, ls := scalarFromBig(rv), scalarFromBig(sv)
		v := byte(i)
		w.Case(true, []byte("build"), b32(rv), b32(sv), []byte{v})
		valid := rv.Sign() != 0 && sv.Sign() != 0
		der := secec.BuildASN1Signature(lr, ls)
		if want := oracle.DERWriteSig(rv, sv); !bytes.Equal(der, want) {
			w.Fail("c12/BuildASN1Signature", fmt.Sprintf("BuildASN1Signature(%x,%x) = %x, expected the DER encoding %x", rv, sv, der, want), "r", hb(rv), "s", hb(sv))
		}
		pr, ps, err := secec.ParseASN1Signature(der)
		if (err == nil) != valid || (valid && (bigFromScalar(pr).Cmp(rv) != 0 || bigFromScalar(ps).Cmp(sv) != 0)) {
			w.Fail("c12/build-then-parse", fmt.Sprintf("build-then-parse (ASN.1) of (%x,%x): err=%v", rv, sv, err), "r", hb(rv), "s", hb(sv))
		}
		cs := secec.BuildCompactSignature(lr, ls)
		if !bytes.Equal(cs, append(b32(rv), b32(sv)...)) {
			w.Fail("c12/BuildCompactSignature", fmt.Sprintf("BuildCompactSignature(%x,%x) = %x", rv, sv, cs))
		}
		pr, ps, err = secec.ParseCompactSignature(cs)
		if (err == nil) != valid || (valid && (bigFromScalar(pr).Cmp(rv) != 0 || bigFromScalar(ps).Cmp(sv) != 0)) {
			w.Fail("c12/build-then-parse", fmt.Sprintf("build-then-parse (compact) of (%x,%x): err=%v", rv, sv, err))
		}
		crs := secec.BuildCompactRecoverableSignature(lr, ls, v)
		if !bytes.Equal(crs, append(append(b32(rv), b32(sv)...), v)) {
			w.Fail("c12/BuildCompactRecoverableSignature", fmt.Sprintf("BuildCompactRecoverableSignature(%x,%x,%d) = %x", rv, sv, v, crs))
		}
		pr, ps, pv, err := secec.ParseCompactRecoverableSignature(crs)
		if (err == nil) != valid || (valid && (bigFromScalar(pr).Cmp(rv) != 0 || bigFromScalar(ps).Cmp(sv) != 0 || pv != v)) {
			w.Fail("c12/build-then-parse", fmt.Sprintf("build-then-parse (recoverable) of (%x,%x,%d): err=%v v=%d", rv, sv, v, err, pv))
		}
	})

	// --- compact parsers on all lengths ---------------------------------------------------------------
	r.Each("c12/compact", r.N(60000, 2500000), func(w *mon.W, i int) {
		rng := w.Rng
		l := i % 81
		if i%3 != 0 {
			l = gen.Pick(rng, 64, 65, 64, 65, 63, 66)
		}
		if i%41 == 7 {
			// a valid string followed by exactly 256 / 512 / 65536 more bytes
			l = gen.Pick(rng, 64, 65) + gen.Pick(rng, 256, 512, 65536, 255, 257)
		}
		data := rng.Bytes(l)
		if l >= 64 {
			rv, _ := sigValue(rng)
			sv, _ := sigValue(rng)
			copy(data[:32], b32(rv))
			copy(data[32:64], b32(sv))
		}
		inRange := func(b []byte) bool {
			v := oracle.FromBytes(b)
			return v.Sign() > 0 && v.Cmp(n) < 0
		}
		ok64 := l == 64 && inRange(data[:32]) && inRange(data[32:])
		ok65 := l == 65 && inRange(data[:32]) && inRange(data[32:64])
		if ok64 || ok65 {
			w.Class("c12:compact:accept")
		} else {
			w.Class("c12:compact:reject")
		}
		w.Case(l >= 63 && l <= 66, []byte("compact"), data)
		hl, hcheck := hostileLayout(data, rng.Bytes(40))
		pr, ps, err := secec.ParseCompactSignature(hl[0])
		if m := hcheck(); m != "" {
			w.Fail("c12/ParseCompactSignature:buffer", "ParseCompactSignature wrote to its input or beyond it: "+m, "data", data)
		}
		if (err == nil) != ok64 || (err != nil && (pr != nil || ps != nil)) {
			w.Fail("c12/ParseCompactSignature", fmt.Sprintf("ParseCompactSignature(%x): err=%v, expected accept=%v", data, err, ok64), "data", data)
		} else if ok64 {
			if !bytes.Equal(pr.Bytes(), data[:32]) || !bytes.Equal(ps.Bytes(), data[32:]) {
				w.Fail("c12/ParseCompactSignature:value", "parsed values differ from the input", "data", data)
			}
			if re := secec.BuildCompactSignature(pr, ps); !bytes.Equal(re, data) {
				w.Fail("c12/parse-then-build", "compact parse-then-build is not the identity", "data", data)
			}
		}
		pr, ps, pv, err := secec.ParseCompactRecoverableSignature(data)
		if (err == nil) != ok65 || (err != nil && (pr != nil || ps != nil)) {
			w.Fail("c12/ParseCompactRecoverableSignature", fmt.Sprintf("ParseCompactRecoverableSignature(%x): err=%v, expected accept=%v", data, err, ok65), "data", data)
		} else if ok65 {
			if !bytes.Equal(pr.Bytes(), data[:32]) || !bytes.Equal(ps.Bytes(), data[32:64]) || pv != data[64] {
				w.Fail("c12/ParseCompactRecoverableSignature:value", "parsed values differ from the input", "data", data)
			}
			if re := secec.BuildCompactRecoverableSignature(pr, ps, pv); !bytes.Equal(re, data) {
				w.Fail("c12/parse-then-build", "recoverable parse-then-build is not the identity", "data", data)
			}
		}
	})

	// --- BIP-66 predicate -------------------------------------------------------------------------------
	r.Each("c12/bip66", r.N(400000, 20000000), func(w *mon.W, i int) {
		rng := w.Rng
		var data []byte
		var cl string
		if i%5 == 4 {
			rv, _ := sigValue(rng)
			sv, _ := sigValue(rng)
			data, cl = derSigMutant(rng, rv, sv)
			data = append(data, byte(rng.U64()))
			cl = "der-mutant+sighash:" + cl
		} else {
			data, cl = bip66String(rng)
		}
		want := oracle.BIP66Valid(data)
		if want {
			w.Class("c12:bip66:accept")
		} else {
			w.Class("c12:bip66:reject")
		}
		w.Case(true, []byte("bip66"), data)
		if i < 3 {
			w.Sample(map[string]any{"op": "IsValidSignatureEncodingBIP0066", "data": hx(data), "class": cl, "grammar_accepts": want})
		}
		if hl, hcheck := hostileLayout(data, rng.Bytes(80)); bitcoin.IsValidSignatureEncodingBIP0066(hl[0]) != want || hcheck() != "" {
			w.Fail("c12/BIP0066:layout", fmt.Sprintf("IsValidSignatureEncodingBIP0066(%x) [%s] differs from the grammar (%v) when the slice is followed by more bytes within its capacity, or the buffer changed", data, cl, want), "data", data, "class", cl)
		}
		if g := bitcoin.IsValidSignatureEncodingBIP0066(data); g != want {
			w.Fail("c12/BIP0066", fmt.Sprintf("IsValidSignatureEncodingBIP0066(%x) [%s] = %v, BIP-66 grammar says %v", data, cl, g, want), "data", data, "class", cl)
		}
	})
	// every length 0..80 with almost-valid content
	// every S-length octet with 0..2 bytes of S present, outer length consistent with the string
	r.Each("c12/bip66-cut", 5*256*3, func(w *mon.W, i int) {
		lr := []int{1, 2, 31, 32, 33}[i%5]
		sl := byte((i / 5) % 256)
		present := i / (5 * 256)
		R := w.Rng.Bytes(lr)
		R[0] = R[0]&0x7f | 1
		data := append([]byte{0x30, 0, 0x02, byte(lr)}, R...)
		data = append(data, 0x02, sl)
		data = append(data, w.Rng.Bytes(present)...)
		if present > 0 {
			data[len(data)-present] = data[len(data)-present]&0x7f | 1
		}
		data[1] = byte(len(data) - 3)
		want := oracle.BIP66Valid(data)
		if want {
			w.Class("c12:bip66:accept")
		} else {
			w.Class("c12:bip66:reject")
		}
		w.Case(true, []byte("bip66cut"), data)
		if g := bitcoin.IsValidSignatureEncodingBIP0066(data); g != want {
			w.Fail("c12/BIP0066/cut", fmt.Sprintf("IsValidSignatureEncodingBIP0066(%x) = %v, BIP-66 grammar says %v", data, g, want), "data", data)
		}
	})
	r.Each("c12/bip66-lengths", 81*r.N(40, 2000), func(w *mon.W, i int) {
		rng := w.Rng
		l := i % 81
		data := rng.Bytes(l)
		if l >= 9 {
			data[0], data[1], data[2] = 0x30, byte(l-3), 0x02
			lr := 1 + rng.Intn(l-8)
			data[3] = byte(lr)
			data[4] &= 0x7f
			data[4] |= 1
			if 4+lr+1 < l {
				data[4+lr] = 0x02
				data[5+lr] = byte(l - lr - 7)
				if 6+lr < l {
					data[6+lr] = data[6+lr]&0x7f | 1
				}
			}
			if rng.Chance(1, 4) {
				data[rng.Intn(l)] = byte(rng.U64())
			}
		}
		want := oracle.BIP66Valid(data)
		if want {
			w.Class("c12:bip66:accept")
		} else {
			w.Class("c12:bip66:reject")
		}
		w.Case(true, []byte("bip66len"), data)
		if g := bitcoin.IsValidSignatureEncodingBIP0066(data); g != want {
			w.Fail(fmt.Sprintf("c12/BIP0066/len=%d", l), fmt.Sprintf("IsValidSignatureEncodingBIP0066(%x) = %v, BIP-66 grammar says %v", data, g, want), "data", data)
		}
	})

	// --- SubjectPublicKeyInfo ---------------------------------------------------------------------------------
	pool := knownPointPool(r.Seed, 12)
	r.Each("c12/spki", r.N(60000, 2500000), func(w *mon.W, i int) {
		rng := w.Rng
		P := pool[1+rng.Intn(len(pool)-1)].P
		var pt []byte
		switch i % 9 {
		case 0:
			pt = oracle.EncodeCompressed(P)
			w.Class("c12:spki:compressed-point")
		case 1:
			pt = []byte{0}
			w.Class("c12:spki:identity-point")
		case 2:
			pt, _ = sec1String(rng, pool)
		default:
			pt = oracle.EncodeUncompressed(P)
		}
		data, mcl := spkiMutant(rng, pt)
		w.Class("c12:spki:" + mcl)
		op, opt, ok := oracle.SPKIParseStrict(data)
		hl, hcheck := hostileLayout(data, rng.Bytes(16))
		k, err := secec.ParseASN1PublicKey(hl[0])
		if m := hcheck(); m != "" {
			w.Fail("c12/ParseASN1PublicKey:buffer", "ParseASN1PublicKey wrote to its input or beyond it: "+m, "data", data)
		}
		w.Case(true, []byte("spki"), data)
		if i < 3 {
			w.Sample(map[string]any{"op": "ParseASN1PublicKey", "data": hx(data), "mutation": mcl, "strict_DER_accepts": ok})
		}
		if (err == nil) != ok || (err != nil && k != nil) {
			key := "c12/ParseASN1PublicKey/" + mcl
			if mcl == "unused-bits-shifted" || mcl == "bitflip" {
				// stable signature for the known-findings file: the declared unused-bit count
				if _, c2, _, ok2 := lenientOuterBitString(data); ok2 && len(c2) > 0 && c2[0] != 0 {
					key = "c12/ParseASN1PublicKey/bitstring-unused-bits-accepted"
				}
			}
			w.Fail(key, fmt.Sprintf("ParseASN1PublicKey(%x) [%s]: err=%v, strict DER SubjectPublicKeyInfo (no unused bits, valid non-identity point) accepts=%v", data, mcl, err, ok), "data", data, "mutation", mcl)
			return
		}
		if !ok {
			w.Class("c12:spki:reject")
			return
		}
		w.Class("c12:spki:accept")
		if !bytes.Equal(k.Bytes(), oracle.EncodeUncompressed(op)) {
			w.Fail("c12/ParseASN1PublicKey:value", fmt.Sprintf("ParseASN1PublicKey(%x) holds %x", data, k.Bytes()), "data", data)
		}
		if len(opt) == 65 {
			if re := k.ASN1Bytes(); !bytes.Equal(re, data) {
				w.Fail("c12/spki-reencode", fmt.Sprintf("re-encoding the parsed uncompressed key gives %x, input was %x", re, data), "data", data)
			}
		} else if re := k.ASN1Bytes(); !bytes.Equal(re, oracle.SPKIWrite(oracle.EncodeUncompressed(op))) {
			w.Fail("c12/spki-reencode", "re-encoding a key parsed from the compressed form is not its uncompressed SubjectPublicKeyInfo", "data", data)
		}
	})

	// --- arbitrary bytes into every parser: agreement and no panics ------------------------------------------------
	r.Each("c12/random", r.N(60000, 3000000), func(w *mon.W, i int) {
		rng := w.Rng
		l := i % 121
		data := rng.Bytes(l)
		if l >= 2 && rng.Bool() {
			data[0] = 0x30
			data[1] = byte(l - 2)
			if l >= 4 {
				data[2] = gen.Pick(rng, byte(0x02), 0x30)
			}
		}
		w.Case(false, data)
		_, _, ok := oracle.DERParseSigStrict(data)
		if _, _, err := secec.ParseASN1Signature(data); (err == nil) != ok {
			w.Fail("c12/ParseASN1Signature/random", fmt.Sprintf("ParseASN1Signature(%x): err=%v, strict DER accepts=%v", data, err, ok), "data", data)
		}
		_, _, oks := oracle.SPKIParseStrict(data)
		if _, err := secec.ParseASN1PublicKey(data); (err == nil) != oks {
			w.Fail("c12/ParseASN1PublicKey/random", fmt.Sprintf("ParseASN1PublicKey(%x): err=%v, strict accepts=%v", data, err, oks), "data", data)
		}
		if g, want := bitcoin.IsValidSignatureEncodingBIP0066(data), oracle.BIP66Valid(data); g != want {
			w.Fail("c12/BIP0066/random", fmt.Sprintf("IsValidSignatureEncodingBIP0066(%x) = %v, grammar %v", data, g, want), "data", data)
		}
		_, _, _ = secec.ParseCompactSignature(data)
		_, _, _, _ = secec.ParseCompactRecoverableSignature(data)
	})
}

// lenientSig extracts (r,s) with a BER-tolerant reader (to classify why
// a string was rejected).
func lenientSig(data []byte) (*big.Int, *big.Int, bool) {
	if len(data) < 2 || data[0] != 0x30 {
		return nil, nil, false
	}
	rr, ss, ok := oracle.DERParseSigStrictNoRange(data)
	return rr, ss, ok
}

// lenientOuterBitString finds the BIT STRING of a SubjectPublicKeyInfo
// with a tolerant reader.
func lenientOuterBitString(data []byte) (tag byte, content, rest []byte, ok bool) {
	return oracle.LenientSPKIBitString(data)
}
