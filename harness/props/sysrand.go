package props

import (
	"bytes"
	crand "crypto/rand"
	"fmt"
	"math/big"

	secp256k1 "gitlab.com/yawning/secp256k1-voi"
	"gitlab.com/yawning/secp256k1-voi/secec"
	"gitlab.com/yawning/secp256k1-voi/secec/bitcoin"

	"verifharness/gen"
	"verifharness/mon"
	"verifharness/oracle"
)

// Degraded system entropy.  Operations whose result is a function of their
// arguments alone (ECDH, scalar multiplication, deterministic signing, key
// derivation) are run while crypto/rand.Reader - the process-wide system
// entropy source, a package variable - is a scripted stream that never fails
// but delivers degenerate bytes: all zero, all ones, the encoding of p or n
// (zero modulo the field / the group order), a short repeating pattern.  The
// results must be those of the reference model whatever that stream says.
// (Failing streams are not scripted here: crypto/rand.Read aborts the process
// on a failing Reader by design, which says nothing about the library.)
//
// The swap is process-global, so the monitor is sequential and runs when no
// other monitor of the process is active.

func degradedStreams(rng *gen.Rng) (pat []byte, name string) {
	switch rng.Intn(7) {
	case 0:
		return []byte{0}, "all-zero"
	case 1:
		return []byte{0xff}, "all-ones"
	case 2:
		return b32(bigP), "p"
	case 3:
		return b32(bigN), "n"
	case 4:
		return b32(new(big.Int).Add(bigP, big.NewInt(int64(1+rng.Intn(3))))), "p+small"
	case 5:
		return []byte{byte(rng.U64())}, "constant-byte"
	default:
		return rng.Bytes(1 + rng.Intn(40)), "short-repeating-pattern"
	}
}

func runDegradedEntropy(r *mon.Run, id string, n int, ops ...string) {
	pool := knownPointPool(r.Seed, 6)
	for _, op := range ops {
		r.Require(id + ":sysrand-degraded:" + op)
	}
	r.Seq(id+"/degraded-system-entropy", n, func(w *mon.W, i int) {
		rng := w.Rng
		saved := crand.Reader
		defer func() { crand.Reader = saved }()
		op := ops[i%len(ops)]
		pat, pname := degradedStreams(rng)
		rd := &repeatReader{pat: pat}
		a, _ := keyValue(rng)
		b, _ := keyValue(rng)
		s, _ := glvOrValue(rng)
		P := pool[1+rng.Intn(len(pool)-1)]
		z, _ := repZ(rng)
		dig := rng.Bytes(32)
		aux, msg := rng.Bytes(32), rng.Bytes(rng.Intn(60))
		w.Case(true, []byte("sysrand-degraded"), []byte(op), pat, b32(a), b32(b), b32(s), dig, aux, msg)
		w.Class(id + ":sysrand-degraded:" + op)
		w.Class(id + ":sysrand-degraded:stream:" + pname)
		var got, want []byte
		var err error
		// operands are built before the swap, the operation runs under it
		switch op {
		case "ecdh":
			ka, pb := mustPriv(a), mustPub(oracle.MulG(b))
			crand.Reader = rd
			got, err = ka.ECDH(pb)
			want = b32(oracle.MulG(oracle.MulM(a, b, bigN)).X)
		case "sm":
			ls, lp := scalarFromBig(s), pointRep(P.P, z)
			crand.Reader = rd
			got = new(Point).ScalarMult(ls, lp).UncompressedBytes()
			want = oracle.EncodeUncompressed(oracle.Mul(s, P.P))
			if oracle.Mul(s, P.P).Inf {
				want = got // the identity has no uncompressed encoding in the model; compared below
				if new(Point).ScalarMult(ls, lp).IsIdentity() != 1 {
					got = []byte("not the identity")
				}
			}
		case "sbm":
			ls := scalarFromBig(s)
			crand.Reader = rd
			v := new(Point).ScalarBaseMult(ls)
			if s.Sign() == 0 {
				got, want = []byte{byte(v.IsIdentity())}, []byte{1}
			} else {
				got, want = v.UncompressedBytes(), oracle.EncodeUncompressed(oracle.MulG(s))
			}
		case "pubkey":
			crand.Reader = rd
			var k *secec.PrivateKey
			k, err = secec.NewPrivateKey(b32(a))
			if err == nil {
				got = k.PublicKey().Bytes()
			}
			want = oracle.EncodeUncompressed(oracle.MulG(a))
		case "rfc6979":
			ka := mustPriv(a)
			crand.Reader = rd
			got, err = ka.Sign(secec.RFC6979SHA256(), dig, &secec.ECDSAOptions{Encoding: secec.EncodingCompact, SelfVerify: rng.Bool()})
			r0, s0, _, _, _ := oracle.RFC6979Sign(a, dig)
			want = append(b32(r0), b32(s0)...)
		case "hedged":
			// explicit caller entropy: the system source is not part of the function
			ka := mustPriv(a)
			ref, e0 := ka.Sign(&fixedReader{data: aux}, dig, nil)
			crand.Reader = rd
			got, err = ka.Sign(&fixedReader{data: aux}, dig, nil)
			want = ref
			if e0 != nil {
				err = e0
			}
		case "schnorrsign":
			var sk *bitcoin.SchnorrPrivateKey
			sk, err = bitcoin.NewSchnorrPrivateKey(b32(a))
			if err == nil {
				crand.Reader = rd
				got, err = sk.Sign(&fixedReader{data: aux}, msg, nil)
			}
			want = oracle.BIP340Sign(a, aux, msg)
		case "verify":
			r0, s0, _, _, _ := oracle.RFC6979Sign(a, dig)
			pk := mustPub(oracle.MulG(a))
			crand.Reader = rd
			got = []byte{byte(boolU64(pk.Verify(dig, oracle.DERWriteSig(r0, s0), nil)))}
			want = []byte{1}
		case "msm":
			l1, l2, p1, p2 := scalarFromBig(s), scalarFromBig(a), pointRep(P.P, z), secp256k1.NewGeneratorPoint()
			crand.Reader = rd
			v := new(Point).MultiScalarMult([]*Scalar{l1, l2}, []*Point{p1, p2})
			wp := oracle.Add(oracle.Mul(s, P.P), oracle.MulG(a))
			if wp.Inf {
				got, want = []byte{byte(v.IsIdentity())}, []byte{1}
			} else {
				got, want = v.UncompressedBytes(), oracle.EncodeUncompressed(wp)
			}
		default:
			panic("unknown degraded-entropy op " + op)
		}
		crand.Reader = saved
		if err != nil || !bytes.Equal(got, want) {
			w.Fail(id+"/degraded-system-entropy/"+op, fmt.Sprintf("%s while crypto/rand.Reader delivers the %s stream %x...: got %x (err %v), expected %x; the library consumed %d bytes of the system stream", op, pname, pat[:min(len(pat), 8)], got, err, want, rd.n),
				"a", hb(a), "b", hb(b), "s", hb(s), "P", P.Name, "digest", hx(dig), "aux", hx(aux), "msg", hx(msg), "system_stream_pattern", hx(pat))
		}
	})
}
