//go:build !(verif && verif_fiat)

package hk

const HaveFiat = false

func FiatField(op string, out, a, b *[4]uint64, c uint64) bool  { return false }
func FiatScalar(op string, out, a, b *[4]uint64, c uint64) bool { return false }
func FieldReduceSaturated(dst, src *[4]uint64) uint64           { return 0 }
func ScalarReduceSaturated(dst, src *[4]uint64) uint64          { return 0 }
