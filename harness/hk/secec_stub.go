//go:build !(verif && verif_secec)

package hk

import (
	"io"

	secp256k1 "gitlab.com/yawning/secp256k1-voi"
	"gitlab.com/yawning/secp256k1-voi/secec"
)

const HaveSecec = false

func SampleRandomScalar(r io.Reader) (*secp256k1.Scalar, error) { return nil, nil }
func NewDrbgRFC6979(x, e *secp256k1.Scalar) io.Reader           { return nil }
func VerifyWithPrivateKey(d *secec.PrivateKey, digest []byte, r, s *secp256k1.Scalar) bool {
	return false
}
func HashToScalar(h []byte) (*secp256k1.Scalar, error) { return nil, nil }
func NonceReader(rand io.Reader, d *secec.PrivateKey, e *secp256k1.Scalar) (io.Reader, error) {
	return nil, nil
}
