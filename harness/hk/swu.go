//go:build verif && verif_swu

package hk

import secp256k1 "gitlab.com/yawning/secp256k1-voi"

const HaveSWU = true

func SWUMap(u *FE) (*FE, *FE)               { return secp256k1.VerifSWUMap(u) }
func SWUIsoMap(x, y *FE) (*FE, *FE, uint64) { return secp256k1.VerifSWUIsoMap(x, y) }
