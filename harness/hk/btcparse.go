//go:build verif && verif_btcparse

package hk

import (
	secp256k1 "gitlab.com/yawning/secp256k1-voi"
	"gitlab.com/yawning/secp256k1-voi/secec/bitcoin"
)

const HaveBtcParse = true

func ParseSchnorrSignature(pkX, msg, sig []byte) (bool, *secp256k1.Scalar, *secp256k1.Scalar, []byte) {
	return bitcoin.VerifParseSchnorrSignature(pkX, msg, sig)
}
func VerifySchnorrSignatureR(rX []byte, R *secp256k1.Point) bool {
	return bitcoin.VerifVerifySchnorrSignatureR(rX, R)
}
