//go:build verif && verif_fiat

package hk

import secp256k1 "gitlab.com/yawning/secp256k1-voi"

const HaveFiat = true

func FiatField(op string, out, a, b *[4]uint64, c uint64) bool {
	return secp256k1.VerifFiatField(op, out, a, b, c)
}
func FiatScalar(op string, out, a, b *[4]uint64, c uint64) bool {
	return secp256k1.VerifFiatScalar(op, out, a, b, c)
}
func FieldReduceSaturated(dst, src *[4]uint64) uint64 {
	return secp256k1.VerifFieldReduceSaturated(dst, src)
}
func ScalarReduceSaturated(dst, src *[4]uint64) uint64 {
	return secp256k1.VerifScalarReduceSaturated(dst, src)
}
func FieldPow3mod4(z, x *FE) *FE               { return secp256k1.VerifFieldPow3mod4(z, x) }
func FieldSetShortBytes(z *FE, src []byte) *FE { return secp256k1.VerifFieldSetShortBytes(z, src) }
