//go:build verif && verif_h2c

package hk

import (
	"crypto"

	"gitlab.com/yawning/secp256k1-voi/secec/h2c"
)

const HaveH2C = true

func ExpandMessageXMD(out []byte, h crypto.Hash, dst, msg []byte) error {
	return h2c.VerifExpandMessageXMD(out, h, dst, msg)
}
