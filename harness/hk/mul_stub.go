//go:build !(verif && verif_mul)

package hk

import secp256k1 "gitlab.com/yawning/secp256k1-voi"

const HaveMul = false

type AffineEntry = [2][4]uint64

func AddComplete(v, p, q *secp256k1.Point) *secp256k1.Point                { return nil }
func AddMixedRaw(v, p *secp256k1.Point, x2, y2 [4]uint64) *secp256k1.Point { return nil }
func DoubleComplete(v, p *secp256k1.Point) *secp256k1.Point                { return nil }
func MulBeta(v, p *secp256k1.Point) *secp256k1.Point                       { return nil }
func SplitGLV(s *secp256k1.Scalar) (*secp256k1.Scalar, *secp256k1.Scalar)  { return nil, nil }
func MulGFlooredDiv(out, k *secp256k1.Scalar, which int) *secp256k1.Scalar { return nil }
func MulGFlooredDivAny(out, k, g *secp256k1.Scalar) *secp256k1.Scalar      { return nil }
func ScalarPow2k(out, a *secp256k1.Scalar, k uint) *secp256k1.Scalar       { return nil }
func ScalarMultVartimeGLV(v *secp256k1.Point, s *secp256k1.Scalar, p *secp256k1.Point) *secp256k1.Point {
	return nil
}
func ScalarBaseMultVartime(v *secp256k1.Point, s *secp256k1.Scalar) *secp256k1.Point { return nil }
func GeneratorTableEntry(i, j int) (x, y [4]uint64)                                  { return }
func GeneratorOddTableEntry(i, j int) (x, y [4]uint64)                               { return }
func GeneratorTableBytesReleased() bool                                              { return false }
func LookupProjective(tbl *[15]secp256k1.Point, out *secp256k1.Point, idx uint64)    {}
func LookupAffine(tbl *[15]AffineEntry, out *AffineEntry, idx uint64)                {}
func Layout() (pointSize, affineSize, elementSize uintptr)                           { return }
func TableSelectAndAdd(sum, p *secp256k1.Point, idx uint64, vartime bool) *secp256k1.Point {
	return nil
}
func ProjectiveTable(p *secp256k1.Point) (t [15]secp256k1.Point) { return }
