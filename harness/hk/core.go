//go:build verif

// Package hk is the harness' single doorway to the verif-tagged hooks of
// the library.  Every hook group has a real file and a stub file, so that
// when a group's hooks do not build on a changed tree only the monitors
// needing that group degrade; the public-API monitors keep running.
package hk

import secp256k1 "gitlab.com/yawning/secp256k1-voi"

const HaveCore = true

// FE is the internal field element type.
type FE = secp256k1.VerifFieldElement

func NewFE() *FE                           { return secp256k1.VerifNewFieldElement() }
func NewFEFromUint64(v uint64) *FE         { return secp256k1.VerifNewFieldElementFromUint64(v) }
func NewFEFrom(o *FE) *FE                  { return secp256k1.VerifNewFieldElementFrom(o) }
func FEBytesAreCanonical(b *[32]byte) bool { return secp256k1.VerifFieldBytesAreCanonical(b) }
func NewFEFromCanonicalBytes(b *[32]byte) (*FE, error) {
	return secp256k1.VerifNewFieldElementFromCanonicalBytes(b)
}

func PointRaw(p *secp256k1.Point) (x, y, z [4]uint64, valid, ok bool) {
	x, y, z, valid = p.VerifRaw()
	return x, y, z, valid, true
}

func PointSetRaw(p *secp256k1.Point, x, y, z [4]uint64, valid bool) bool {
	p.VerifSetRaw(x, y, z, valid)
	return true
}

func ScalarRaw(s *secp256k1.Scalar) ([4]uint64, bool) { return s.VerifRawLimbs(), true }

func ScalarSetRaw(s *secp256k1.Scalar, l [4]uint64) bool {
	s.VerifSetRawLimbs(l)
	return true
}
