//go:build verif && !verif_swu

package hk

func SWUMap(u *FE) (*FE, *FE)               { return nil, nil }
func SWUIsoMap(x, y *FE) (*FE, *FE, uint64) { return nil, nil, 0 }
