//go:build !(verif && verif_h2c)

package hk

import "crypto"

const HaveH2C = false

func ExpandMessageXMD(out []byte, h crypto.Hash, dst, msg []byte) error { return nil }
