//go:build verif && !verif_fiat

package hk

func FieldPow3mod4(z, x *FE) *FE               { return nil }
func FieldSetShortBytes(z *FE, src []byte) *FE { return nil }
