//go:build !(verif && verif_swu)

package hk

const HaveSWU = false
