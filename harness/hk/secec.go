//go:build verif && verif_secec

package hk

import (
	"io"

	secp256k1 "gitlab.com/yawning/secp256k1-voi"
	"gitlab.com/yawning/secp256k1-voi/secec"
)

const HaveSecec = true

func SampleRandomScalar(r io.Reader) (*secp256k1.Scalar, error) {
	return secec.VerifSampleRandomScalar(r)
}
func NewDrbgRFC6979(x, e *secp256k1.Scalar) io.Reader { return secec.VerifNewDrbgRFC6979(x, e) }
func VerifyWithPrivateKey(d *secec.PrivateKey, digest []byte, r, s *secp256k1.Scalar) bool {
	return secec.VerifVerifyWithPrivateKey(d, digest, r, s)
}
func HashToScalar(h []byte) (*secp256k1.Scalar, error) { return secec.VerifHashToScalar(h) }
func NonceReader(rand io.Reader, d *secec.PrivateKey, e *secp256k1.Scalar) (io.Reader, error) {
	return secec.VerifNonceReader(rand, d, e)
}
