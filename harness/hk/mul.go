//go:build verif && verif_mul

package hk

import secp256k1 "gitlab.com/yawning/secp256k1-voi"

const HaveMul = true

type AffineEntry = secp256k1.VerifAffineEntry

func AddComplete(v, p, q *secp256k1.Point) *secp256k1.Point { return v.VerifAddComplete(p, q) }
func AddMixedRaw(v, p *secp256k1.Point, x2, y2 [4]uint64) *secp256k1.Point {
	fx := NewFE().VerifSetRawLimbs(x2)
	fy := NewFE().VerifSetRawLimbs(y2)
	return v.VerifAddMixed(p, fx, fy)
}
func DoubleComplete(v, p *secp256k1.Point) *secp256k1.Point { return v.VerifDoubleComplete(p) }
func MulBeta(v, p *secp256k1.Point) *secp256k1.Point        { return v.VerifMulBeta(p) }
func SplitGLV(s *secp256k1.Scalar) (*secp256k1.Scalar, *secp256k1.Scalar) {
	return s.VerifSplitGLV()
}
func MulGFlooredDiv(out, k *secp256k1.Scalar, which int) *secp256k1.Scalar {
	return out.VerifMulGFlooredDiv(k, which)
}
func MulGFlooredDivAny(out, k, g *secp256k1.Scalar) *secp256k1.Scalar {
	return out.VerifMulGFlooredDivAny(k, g)
}
func ScalarPow2k(out, a *secp256k1.Scalar, k uint) *secp256k1.Scalar { return out.VerifPow2k(a, k) }
func ScalarMultVartimeGLV(v *secp256k1.Point, s *secp256k1.Scalar, p *secp256k1.Point) *secp256k1.Point {
	return v.VerifScalarMultVartimeGLV(s, p)
}
func ScalarBaseMultVartime(v *secp256k1.Point, s *secp256k1.Scalar) *secp256k1.Point {
	return v.VerifScalarBaseMultVartime(s)
}
func GeneratorTableEntry(i, j int) (x, y [4]uint64) { return secp256k1.VerifGeneratorTableEntry(i, j) }
func GeneratorOddTableEntry(i, j int) (x, y [4]uint64) {
	return secp256k1.VerifGeneratorOddTableEntry(i, j)
}
func GeneratorTableBytesReleased() bool { return secp256k1.VerifGeneratorTableBytesReleased() }
func LookupProjective(tbl *[15]secp256k1.Point, out *secp256k1.Point, idx uint64) {
	secp256k1.VerifLookupProjective(tbl, out, idx)
}
func LookupAffine(tbl *[15]AffineEntry, out *AffineEntry, idx uint64) {
	secp256k1.VerifLookupAffine(tbl, out, idx)
}
func Layout() (pointSize, affineSize, elementSize uintptr) { return secp256k1.VerifLayout() }
func TableSelectAndAdd(sum, p *secp256k1.Point, idx uint64, vartime bool) *secp256k1.Point {
	return secp256k1.VerifTableSelectAndAdd(sum, p, idx, vartime)
}
func ProjectiveTable(p *secp256k1.Point) [15]secp256k1.Point {
	return secp256k1.VerifProjectiveTable(p)
}
