//go:build !(verif && verif_btcparse)

package hk

import secp256k1 "gitlab.com/yawning/secp256k1-voi"

const HaveBtcParse = false

func ParseSchnorrSignature(pkX, msg, sig []byte) (bool, *secp256k1.Scalar, *secp256k1.Scalar, []byte) {
	return false, nil, nil, nil
}
func VerifySchnorrSignatureR(rX []byte, R *secp256k1.Point) bool { return false }
