package hk

// Available lists the hook groups compiled into this binary.
func Available() map[string]bool {
	return map[string]bool{
		"verif": HaveCore, "verif_fiat": HaveFiat, "verif_swu": HaveSWU, "verif_mul": HaveMul,
		"verif_secec": HaveSecec, "verif_btc": HaveBtc, "verif_btcparse": HaveBtcParse, "verif_h2c": HaveH2C,
	}
}
