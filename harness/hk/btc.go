//go:build verif && verif_btc

package hk

import "gitlab.com/yawning/secp256k1-voi/secec/bitcoin"

const HaveBtc = true

func SignSchnorr(aux *[32]byte, sk *bitcoin.SchnorrPrivateKey, msg []byte) ([]byte, error) {
	return bitcoin.VerifSignSchnorr(aux, sk, msg)
}
func VerifySchnorrSelf(sk *bitcoin.SchnorrPrivateKey, msg, sig []byte) bool {
	return bitcoin.VerifVerifySchnorrSelf(sk, msg, sig)
}
func SchnorrSigningScalar(sk *bitcoin.SchnorrPrivateKey) []byte {
	return bitcoin.VerifSchnorrSigningScalar(sk)
}
