//go:build !verif

package hk

import secp256k1 "gitlab.com/yawning/secp256k1-voi"

const HaveCore = false

func PointRaw(p *secp256k1.Point) (x, y, z [4]uint64, valid, ok bool)    { return }
func PointSetRaw(p *secp256k1.Point, x, y, z [4]uint64, valid bool) bool { return false }
func ScalarRaw(s *secp256k1.Scalar) ([4]uint64, bool)                    { return [4]uint64{}, false }
func ScalarSetRaw(s *secp256k1.Scalar, l [4]uint64) bool                 { return false }
