//go:build !(verif && verif_btc)

package hk

import "gitlab.com/yawning/secp256k1-voi/secec/bitcoin"

const HaveBtc = false

func SignSchnorr(aux *[32]byte, sk *bitcoin.SchnorrPrivateKey, msg []byte) ([]byte, error) {
	return nil, nil
}
func VerifySchnorrSelf(sk *bitcoin.SchnorrPrivateKey, msg, sig []byte) bool { return false }
func SchnorrSigningScalar(sk *bitcoin.SchnorrPrivateKey) []byte             { return nil }
