// Package gen holds the deterministic generators and the operand
// steering used by all monitors.  Every stream is a pure function of
// (seed, labels, index), so case lists are identical on every machine
// and independent of scheduling.
package gen

import (
	"crypto/sha256"
	"encoding/binary"
	"math/big"
	"math/bits"
)

// Rng is xoshiro256** seeded from SHA-256 of the labels.
type Rng struct{ s [4]uint64 }

// New derives a generator from seed, string labels and an index.
func New(seed int64, idx int, labels ...string) *Rng {
	h := sha256.New()
	var b [16]byte
	binary.LittleEndian.PutUint64(b[:8], uint64(seed))
	binary.LittleEndian.PutUint64(b[8:], uint64(idx))
	h.Write(b[:])
	for _, l := range labels {
		h.Write([]byte(l))
		h.Write([]byte{0})
	}
	d := h.Sum(nil)
	r := &Rng{}
	for i := range r.s {
		r.s[i] = binary.LittleEndian.Uint64(d[i*8:])
	}
	if r.s[0]|r.s[1]|r.s[2]|r.s[3] == 0 {
		r.s[0] = 1
	}
	return r
}

func (r *Rng) U64() uint64 {
	s := &r.s
	res := bits.RotateLeft64(s[1]*5, 7) * 9
	t := s[1] << 17
	s[2] ^= s[0]
	s[3] ^= s[1]
	s[1] ^= s[2]
	s[0] ^= s[3]
	s[2] ^= t
	s[3] = bits.RotateLeft64(s[3], 45)
	return res
}

// Intn returns a value in [0,n).
func (r *Rng) Intn(n int) int {
	if n <= 0 {
		return 0
	}
	return int(r.U64() % uint64(n))
}

// Bool returns a fair coin.
func (r *Rng) Bool() bool { return r.U64()&1 == 1 }

// Chance returns true with probability num/den.
func (r *Rng) Chance(num, den int) bool { return r.Intn(den) < num }

// Bytes returns n pseudo-random bytes.
func (r *Rng) Bytes(n int) []byte {
	if n == 0 {
		// zero-length inputs come as nil half of the time, as an empty non-nil slice otherwise
		if r.Bool() {
			return nil
		}
		return []byte{}
	}
	out := make([]byte, n)
	r.Fill(out)
	return out
}

// Fill fills b.
func (r *Rng) Fill(b []byte) {
	for i := 0; i < len(b); i += 8 {
		var w [8]byte
		binary.LittleEndian.PutUint64(w[:], r.U64())
		copy(b[i:], w[:])
	}
}

// Big256 returns a uniform 256-bit integer.
func (r *Rng) Big256() *big.Int { return new(big.Int).SetBytes(r.Bytes(32)) }

// BigBits returns a uniform integer below 2^n.
func (r *Rng) BigBits(n int) *big.Int {
	b := r.Bytes((n + 7) / 8)
	v := new(big.Int).SetBytes(b)
	return v.And(v, new(big.Int).Sub(new(big.Int).Lsh(big.NewInt(1), uint(n)), big.NewInt(1)))
}

// Below returns a uniform integer in [0,m).
func (r *Rng) Below(m *big.Int) *big.Int {
	if m.Sign() <= 0 {
		return new(big.Int)
	}
	n := m.BitLen()
	for {
		v := r.BigBits(n)
		if v.Cmp(m) < 0 {
			return v
		}
	}
}

// Range returns a uniform integer in [lo,hi] (inclusive).
func (r *Rng) Range(lo, hi *big.Int) *big.Int {
	w := new(big.Int).Sub(hi, lo)
	w.Add(w, big.NewInt(1))
	return new(big.Int).Add(lo, r.Below(w))
}

var (
	one    = big.NewInt(1)
	two256 = new(big.Int).Lsh(big.NewInt(1), 256)
)

// sparse returns a 256-bit value with few set bits (or few cleared).
func (r *Rng) sparse(dense bool) *big.Int {
	v := new(big.Int)
	k := 1 + r.Intn(6)
	for i := 0; i < k; i++ {
		v.SetBit(v, r.Intn(256), 1)
	}
	if dense {
		v.Sub(new(big.Int).Sub(two256, one), v)
	}
	return v
}

// limbPattern returns a value built from per-limb patterns 0, 1, 2^63,
// 2^64-1, 2^64-2, random.
func (r *Rng) limbPattern() *big.Int {
	v := new(big.Int)
	for i := 0; i < 4; i++ {
		var w uint64
		switch r.Intn(8) {
		case 7:
			w = r.HalfWord()
		case 0:
			w = 0
		case 1:
			w = 1
		case 2:
			w = 1 << 63
		case 3:
			w = ^uint64(0)
		case 4:
			w = ^uint64(0) - 1
		case 5:
			w = uint64(r.Intn(1 << 16))
		default:
			w = r.U64()
		}
		v.Lsh(v, 64)
		v.Or(v, new(big.Int).SetUint64(w))
	}
	return v
}

// Value returns an element of [0,m) together with the name of the class
// it was drawn from.  m is p or n.  The class mix is ~50% special.
func (r *Rng) Value(m *big.Int) (*big.Int, string) {
	c := r.Intn(20)
	// (64-bit arithmetic throughout: the generators must produce the same stream on 32-bit builds)
	small := func() *big.Int {
		k := uint(1 + r.Intn(33))
		return new(big.Int).SetUint64(r.U64() % (uint64(1) << k))
	}
	switch c {
	case 0:
		return new(big.Int), "zero"
	case 1:
		return big.NewInt(1), "one"
	case 2:
		return small(), "small"
	case 3:
		return new(big.Int).Sub(m, big.NewInt(1)), "m-1"
	case 4:
		v := new(big.Int).Sub(m, big.NewInt(1))
		v.Sub(v, small())
		if v.Sign() < 0 {
			v.SetInt64(0)
		}
		return v, "m-small"
	case 5:
		// 2^256 mod m and neighbours
		v := new(big.Int).Sub(two256, m)
		d := big.NewInt(int64(r.Intn(5) - 2))
		v.Add(v, d)
		return v.Mod(v, m), "2^256-m+-"
	case 6:
		// 2^(64j) +- 1, 2^(64j+63)
		j := r.Intn(4)
		v := new(big.Int).Lsh(big.NewInt(1), uint(64*j))
		switch r.Intn(3) {
		case 0:
			v.Add(v, one)
		case 1:
			v.Sub(v, one)
		default:
			v.Lsh(v, 63)
		}
		return v.Mod(v, m), "limb-boundary"
	case 7:
		return new(big.Int).Mod(r.limbPattern(), m), "limb-pattern"
	case 8:
		return new(big.Int).Mod(r.sparse(false), m), "sparse"
	case 9:
		return new(big.Int).Mod(r.sparse(true), m), "dense"
	case 10:
		// m - 2^k
		v := new(big.Int).Sub(m, new(big.Int).Lsh(big.NewInt(1), uint(r.Intn(256))))
		return v.Mod(v, m), "m-2^k"
	case 11:
		// (m-1)/2 and neighbours
		v := new(big.Int).Rsh(new(big.Int).Sub(m, one), 1)
		v.Add(v, big.NewInt(int64(r.Intn(5)-2)))
		return v.Mod(v, m), "half+-"
	default:
		return r.Below(m), "uniform"
	}
}

// Bytes32Any returns a 32-byte big-endian string that is >= m (non
// canonical) in roughly a third of the draws.
func (r *Rng) Bytes32Any(m *big.Int) ([]byte, string) {
	gap := new(big.Int).Sub(two256, m) // number of non-canonical strings
	switch r.Intn(11) {
	case 9, 10:
		// equal to m above one word, different in that word, the words below it chosen freely:
		// a word-by-word (64- or 32-bit) comparison with one wrong branch misjudges exactly these
		return b32(r.WordStructured(m)), "word-structured-around-m"
	case 0:
		return b32(m), "=m"
	case 1:
		return b32(new(big.Int).Add(m, big.NewInt(int64(1+r.Intn(3))))), "m+small"
	case 2:
		return b32(new(big.Int).Sub(two256, big.NewInt(int64(1+r.Intn(3))))), "2^256-small"
	case 3:
		return b32(new(big.Int).Add(m, r.Below(gap))), ">=m uniform"
	default:
		v, c := r.Value(m)
		return b32(v), c
	}
}

func b32(v *big.Int) []byte {
	out := make([]byte, 32)
	v.FillBytes(out)
	return out
}

// Pick returns one of the options.
func Pick[T any](r *Rng, opts ...T) T { return opts[r.Intn(len(opts))] }

// CtrlValues are the ctrl words used for select/negate ("0 vs otherwise").
var CtrlValues = []uint64{0, 1, 2, 3, 1 << 32, 1 << 63, ^uint64(0), 0x100, 0xfffffffffffffffe}

// --- Window steering -----------------------------------------------------

// AddWindow returns (a,b) in [0,m) with a+b in [m, 2^256): the sum needs
// the final subtraction although the addition does not carry out.
func (r *Rng) AddWindow(m *big.Int) (a, b *big.Int) {
	gap := new(big.Int).Sub(two256, m)
	t := r.Below(gap)
	if r.Chance(1, 4) {
		t = Pick(r, big.NewInt(0), new(big.Int).Sub(gap, one), big.NewInt(1))
	}
	sum := new(big.Int).Add(m, t)
	// a in [sum-(m-1), m-1]
	lo := new(big.Int).Sub(sum, new(big.Int).Sub(m, one))
	hi := new(big.Int).Sub(m, one)
	a = r.Range(lo, hi)
	if r.Chance(1, 4) {
		a = Pick(r, lo, hi)
	}
	b = new(big.Int).Sub(sum, a)
	return
}

// AddExact returns (a,b) in [0,m) with a+b equal to the given target
// (target in [0, 2m-2]).
func (r *Rng) AddExact(m, target *big.Int) (a, b *big.Int) {
	lo := new(big.Int).Sub(target, new(big.Int).Sub(m, one))
	if lo.Sign() < 0 {
		lo.SetInt64(0)
	}
	hi := new(big.Int).Sub(m, one)
	if hi.Cmp(target) > 0 {
		hi = new(big.Int).Set(target)
	}
	a = r.Range(lo, hi)
	b = new(big.Int).Sub(target, a)
	return
}

// MontMulWindow returns Montgomery-domain operands (am, bm) in [0,m)
// whose pre-subtraction Montgomery product T = (am*bm + M*m)/R lands in
// the window [m, 2^256).  T is congruent to the reduced result tau, so the
// window is hit exactly when tau < 2^256 - m and T = tau + m: choose tau
// small and solve bm = tau*R/am.  The caller re-derives T (MontT) to
// confirm the class.  Returns nil if the attempt budget is exhausted.
func (r *Rng) MontMulWindow(m *big.Int) (am, bm *big.Int) {
	c := new(big.Int).Sub(two256, m)
	for try := 0; try < 16; try++ {
		am = r.Below(m)
		if r.Chance(1, 3) {
			am, _ = r.Value(m)
		}
		if am.Sign() == 0 {
			continue
		}
		tau := r.Below(c)
		if r.Chance(1, 5) {
			tau = Pick(r, big.NewInt(1), new(big.Int).Sub(c, one), big.NewInt(2))
		}
		inv := new(big.Int).ModInverse(am, m)
		bm = new(big.Int).Mul(new(big.Int).Lsh(tau, 256), inv)
		bm.Mod(bm, m)
		if T := MontT(am, bm, m); T.Cmp(m) >= 0 && T.Cmp(two256) < 0 {
			return am, bm
		}
	}
	return nil, nil
}

// MontSquareWindow returns a Montgomery-domain operand am whose square
// has T in [m, 2^256): am = sqrt(tau*R) mod m for a small tau.
func (r *Rng) MontSquareWindow(m *big.Int) *big.Int {
	c := new(big.Int).Sub(two256, m)
	for try := 0; try < 64; try++ {
		tau := r.Below(c)
		x := new(big.Int).Mod(new(big.Int).Lsh(tau, 256), m)
		am := new(big.Int).ModSqrt(x, m)
		if am == nil {
			continue
		}
		if r.Bool() {
			am.Sub(m, am)
			am.Mod(am, m)
		}
		if T := MontT(am, am, m); T.Cmp(m) >= 0 && T.Cmp(two256) < 0 {
			return am
		}
	}
	return nil
}

// ToMontWindow returns a plain value a in [0,m) for which the Montgomery
// product a * (R^2 mod m) inside ToMontgomery has T in [m, 2^256):
// a = tau / R mod m for a small tau.
func (r *Rng) ToMontWindow(m *big.Int) *big.Int {
	c := new(big.Int).Sub(two256, m)
	r2 := new(big.Int).Mod(new(big.Int).Lsh(one, 512), m)
	rinv := new(big.Int).ModInverse(new(big.Int).Mod(two256, m), m)
	for try := 0; try < 16; try++ {
		tau := r.Below(c)
		a := new(big.Int).Mul(tau, rinv)
		a.Mod(a, m)
		if T := MontT(a, r2, m); T.Cmp(m) >= 0 && T.Cmp(two256) < 0 {
			return a
		}
	}
	return nil
}

// MontT computes the pre-subtraction Montgomery product of raw operands:
// T = (a*b + ((a*b*(-m^-1)) mod R)*m)/R.
func MontT(a, b, m *big.Int) *big.Int {
	ab := new(big.Int).Mul(a, b)
	mInv := new(big.Int).ModInverse(m, two256)
	negInv := new(big.Int).Sub(two256, mInv)
	M := new(big.Int).Mul(new(big.Int).Mod(ab, two256), negInv)
	M.Mod(M, two256)
	T := new(big.Int).Add(ab, new(big.Int).Mul(M, m))
	return T.Rsh(T, 256)
}

// inv64 returns the inverse of odd c modulo 2^64.
func inv64(c uint64) uint64 {
	x := c
	for i := 0; i < 6; i++ {
		x *= 2 - c*x
	}
	return x
}

// ResonantWord returns a 64-bit word steered against multiplication by the odd
// constant c (a reduction constant such as 2^256 mod p): the low half of w*c is
// within a small distance of 0 or 2^64, or the high half of w*c is about to
// step, or w is one of the usual extremes.  Sums of such partial products carry
// where uniformly random words practically never do.
func (r *Rng) ResonantWord(c uint64) uint64 {
	ci := inv64(c)
	switch r.Intn(8) {
	case 0:
		return uint64(1+r.Intn(2000)) * ci // w*c mod 2^64 = small
	case 1, 2:
		return -uint64(1+r.Intn(2000)) * ci // w*c mod 2^64 = 2^64 - small
	case 3:
		return -(r.U64() % c) * ci // w*c mod 2^64 in the last c values below 2^64
	case 4:
		// high half about to step: w = ceil(j*2^64/c) or one below
		j := r.U64() % c
		hi, _ := bits64Div(j, c)
		return hi + uint64(r.Intn(3)) - 1
	case 5:
		return ^uint64(0) - uint64(r.Intn(3))
	case 6:
		return uint64(r.Intn(3))
	default:
		return r.U64()
	}
}

// bits64Div returns floor(j*2^64 / c) for j < c.
func bits64Div(j, c uint64) (uint64, uint64) { return bits.Div64(j, 0, c) }

// ResonantWide returns an l-byte big-endian string whose 64-bit words (counted
// from the least significant end) are drawn from ResonantWord(c) or uniformly.
func (r *Rng) ResonantWide(l int, c uint64) []byte {
	out := make([]byte, l)
	for end := l; end > 0; end -= 8 {
		var w uint64
		if r.Chance(2, 3) {
			w = r.ResonantWord(c)
		} else {
			w = r.U64()
		}
		for k := 0; k < 8 && end-1-k >= 0; k++ {
			out[end-1-k] = byte(w >> (8 * uint(k)))
		}
	}
	return out
}

// HalfWord returns a non-zero 64-bit word whose 32-bit halves are related:
// they sum to 2^32 (so a 32-bit fold by addition vanishes), are equal (a fold by
// XOR vanishes), are complements, or one of them is zero / all ones.  Code that
// handles 64-bit words as pairs of 32-bit registers distinguishes these.
func (r *Rng) HalfWord() uint64 {
	lo := uint32(r.U64())
	if lo == 0 {
		lo = 1
	}
	switch r.Intn(10) {
	case 0, 1, 2:
		return uint64(-lo)<<32 | uint64(lo) // hi + lo = 2^32
	case 3:
		return 0x8000000080000000
	case 4:
		return 0x00000001ffffffff
	case 5:
		return uint64(lo)<<32 | uint64(lo)
	case 6:
		return uint64(^lo)<<32 | uint64(lo)
	case 7:
		return uint64(lo) << 32
	case 8:
		return uint64(lo)
	default:
		return 0xffffffff00000000 | uint64(lo)
	}
}

// FoldWindow returns an l-byte big-endian string v = hi*2^256 + lo (32 <= l <= 64) for a
// reduction that folds at bit 256 with the constant c = 2^256 mod m: the once-folded
// value hi*c + lo = j*2^256 + e is steered so that the SECOND fold j*c + e lands on a
// carry boundary - just below / above 2^256, or above 2^256 by an amount whose low
// limbs are about to carry when c is added once more (2^64k - [1, c]).  Uniformly
// random strings reach none of these (probability about 2^-190 for the last class);
// which of them an implementation cares about depends on how it propagates carries.
func (r *Rng) FoldWindow(l int, c *big.Int) []byte {
	mask := new(big.Int).Sub(two256, one)
	hiB := r.Bytes(l - 32)
	switch r.Intn(3) {
	case 0:
		for i := range hiB {
			hiB[i] = 0xff
		}
		if len(hiB) > 0 && r.Bool() {
			hiB[len(hiB)-1] -= byte(r.Intn(4))
		}
	case 1:
		if len(hiB) > 0 && c.IsUint64() {
			hiB = r.ResonantWide(len(hiB), c.Uint64())
		}
	}
	hi := new(big.Int).SetBytes(hiB)
	hc := new(big.Int).Mul(hi, c)
	q := new(big.Int).Rsh(hc, 256)
	rem := new(big.Int).And(hc, mask)
	cLow := uint64(1) << 34
	if c.IsUint64() && c.Uint64() < cLow {
		cLow = c.Uint64()
	}
	small := func() *big.Int { return big.NewInt(int64(r.Intn(7) - 3)) }
	for try := 0; try < 6; try++ {
		up := r.Bool()
		jj := new(big.Int).Set(q)
		if up {
			jj.Add(jj, one)
		}
		jc := new(big.Int).And(new(big.Int).Mul(jj, c), mask)
		e := new(big.Int)
		switch r.Intn(6) {
		case 0:
			e.SetInt64(int64(r.Intn(4)))
		case 1:
			e.Sub(mask, big.NewInt(int64(r.Intn(4))))
		case 2:
			e.Sub(two256, jc)
			e.Add(e, small())
		case 3:
			e.Sub(two256, jc)
			e.Add(e, new(big.Int).Lsh(one, uint(64*(1+r.Intn(3)))))
			e.Sub(e, new(big.Int).SetUint64(1+r.U64()%cLow))
		case 4:
			e.Sub(two256, jc)
			e.Add(e, new(big.Int).Lsh(one, uint(64*(1+r.Intn(3)))))
			e.Add(e, small())
		default:
			e.Sub(two256, c) // the modulus
			e.Sub(e, jc)
			e.Add(e, small())
		}
		e.And(e, mask) // (big.Int And of a negative value is two's complement: fine)
		if e.Sign() < 0 {
			e.Add(e, two256)
		}
		lo := new(big.Int).Sub(e, rem)
		if up {
			lo.Add(lo, two256)
		}
		if lo.Sign() < 0 || lo.Cmp(two256) >= 0 {
			continue
		}
		out := make([]byte, l)
		copy(out, hiB)
		lo.FillBytes(out[l-32:])
		return out
	}
	return append(hiB, r.Bytes(32)...)
}

// WordStructured returns a 256-bit value that agrees with m in every w-bit word above word j
// (w = 64 or 32), is one more / one less / anything else in word j, and has each lower word
// drawn from {0, all ones, m's word, m's word +- 1, random}.  About half are >= m.
func (r *Rng) WordStructured(m *big.Int) *big.Int {
	w := uint(64)
	if r.Bool() {
		w = 32
	}
	nw := int(256 / w)
	wmask := new(big.Int).Sub(new(big.Int).Lsh(one, w), one)
	word := func(v *big.Int, i int) *big.Int { return new(big.Int).And(new(big.Int).Rsh(v, uint(i)*w), wmask) }
	j := r.Intn(nw)
	out := new(big.Int)
	for i := nw - 1; i >= 0; i-- {
		mw := word(m, i)
		var x *big.Int
		switch {
		case i > j:
			x = mw
		case i == j:
			switch r.Intn(4) {
			case 0:
				x = new(big.Int).Add(mw, one)
			case 1:
				x = new(big.Int).Sub(mw, one)
			case 2:
				x = new(big.Int).SetUint64(r.U64())
			default:
				x = mw
			}
		default:
			switch r.Intn(6) {
			case 0:
				x = new(big.Int)
			case 1:
				x = new(big.Int).Set(wmask)
			case 2:
				x = mw
			case 3:
				x = new(big.Int).Add(mw, one)
			case 4:
				x = new(big.Int).Sub(mw, one)
			default:
				x = new(big.Int).SetUint64(r.U64())
			}
		}
		x.And(x, wmask) // (wraps -1 and 2^w)
		if x.Sign() < 0 {
			x.Add(x, new(big.Int).Lsh(one, w))
		}
		out.Lsh(out, w)
		out.Or(out, x)
	}
	return out
}
