# gdb-python script (run by bin/asmtrace.py):
#   gdb -q -batch -x asmtrace_gdb.py --args <asmprobe> <seed> <rounds>
# Single-steps every call of the two assembly lookup routines and writes,
# per call, the sequence of (pc - entry, instruction mnemonic, memory
# operands relative to {table, destination, stack pointer at entry}) as
# JSON lines to $ASMTRACE_OUT.
import gdb, json, os, re

OUT = os.environ["ASMTRACE_OUT"]
FUNCS = {
    "gitlab.com/yawning/secp256k1-voi.lookupProjectivePoint": "projective",
    "gitlab.com/yawning/secp256k1-voi.lookupAffinePoint": "affine",
}
MAX_STEPS = 5000

gdb.execute("set language c")
gdb.execute("set pagination off")
gdb.execute("set confirm off")
gdb.execute("set print thread-events off")
gdb.execute("handle SIGURG nostop noprint pass")
gdb.execute("handle SIGPIPE nostop noprint pass")

MEM = re.compile(r"(?:%[a-z]s:)?(-?0x[0-9a-f]+|-?\d+)?\((%[a-z0-9]+)?(?:,(%[a-z0-9]+)(?:,(\d))?)?\)")
out = open(OUT, "w")


def reg(name):
    return int(gdb.parse_and_eval("$" + name.lstrip("%"))) & 0xFFFFFFFFFFFFFFFF


def u64(addr):
    return int(gdb.parse_and_eval("*(unsigned long*)%d" % addr)) & 0xFFFFFFFFFFFFFFFF


def classify(addr, bases):
    # nearest base not above addr within a sane window
    best = None
    for name, b, size in bases:
        if b - 4096 <= addr < b + size + 4096:
            off = addr - b
            if best is None or abs(off) < abs(best[1]):
                best = (name, off)
    return best or ("abs", addr)


bps = {}
for fn, kind in FUNCS.items():
    try:
        addr = int(gdb.parse_and_eval("(unsigned long)&'%s'" % fn))
    except gdb.error:
        try:
            addr = int(gdb.parse_and_eval("(unsigned long)'%s'" % fn))
        except gdb.error as e:
            out.write(json.dumps(dict(error="symbol not found: %s (%s)" % (fn, e))) + "\n")
            continue
    bp = gdb.Breakpoint("*%d" % addr)
    bps[addr] = kind

if not bps:
    out.close()
    gdb.execute("quit 3")

gdb.execute("run")
arch = None
calls = 0
while True:
    try:
        th = gdb.selected_thread()
        if th is None or not th.is_valid():
            break
        frame = gdb.selected_frame()
    except gdb.error:
        break
    pc = reg("pc")
    if pc not in bps:
        # stopped somewhere else (signal, exit) -> continue
        try:
            gdb.execute("continue")
        except gdb.error:
            break
        continue
    kind = bps[pc]
    entry = pc
    sp0 = reg("rsp")
    tbl, dst, idx = u64(sp0 + 8), u64(sp0 + 16), u64(sp0 + 24)
    stride, nent, dsz = (0x68, 15, 96) if kind == "projective" else (0x40, 15, 64)
    bases = [("tbl", tbl, stride * nent), ("dst", dst, dsz), ("sp", sp0, 32)]
    arch = frame.architecture()
    trace = []
    steps = 0
    returned = False
    gdb.execute("set scheduler-locking on")
    while steps < MAX_STEPS:
        pc = reg("pc")
        ins = arch.disassemble(pc)[0]
        asm = ins["asm"]
        mnem = asm.split()[0]
        ops = asm[len(mnem):].strip()
        mems = []
        for m in MEM.finditer(ops):
            disp = int(m.group(1), 0) if m.group(1) else 0
            a = disp
            if m.group(2):
                a += reg(m.group(2))
            if m.group(3):
                a += reg(m.group(3)) * int(m.group(4) or 1)
            a &= 0xFFFFFFFFFFFFFFFF
            # AT&T syntax: the last operand is the destination
            is_last = ops.rstrip().endswith(m.group(0))
            write = is_last and not mnem.startswith(("cmp", "test", "ucomis", "comis", "bt", "push", "call", "jmp", "nop", "prefetch", "lea"))
            if mnem.startswith("lea"):
                continue
            name, off = classify(a, bases)
            mems.append([("W" if write else "R"), name, off])
        if mnem.startswith(("push", "call")):
            mems.append(["W", "sp", reg("rsp") - 8 - sp0])
        if mnem.startswith(("pop",)):
            mems.append(["R", "sp", reg("rsp") - sp0])
        trace.append([pc - entry, mnem, mems])
        steps += 1
        if mnem.startswith("ret"):
            mems.append(["R", "sp", reg("rsp") - sp0])
            returned = True
            gdb.execute("stepi", to_string=True)
            break
        gdb.execute("stepi", to_string=True)
    gdb.execute("set scheduler-locking off")
    out.write(json.dumps(dict(kind=kind, idx=idx, call=calls, returned=returned, steps=steps, trace=trace)) + "\n")
    out.flush()
    calls += 1
    try:
        gdb.execute("continue")
    except gdb.error:
        break
out.close()
