# gdb-python script (run by bin/asmtrace.py):
#   gdb -q -batch -nx -x asmtrace_gdb.py --args <probe> <seed> <rounds>
# Single-steps calls of the two assembly lookup routines and writes, per call, the
# three argument words, the entry stack pointer and the sequence of
# (pc - entry, mnemonic, [(R|W, absolute effective address)...]) as JSON lines to
# $ASMTRACE_OUT.  $ASMTRACE_PER_INDEX calls are traced per (routine, index value);
# further calls run at full speed.  Which argument is the table, the destination
# and the index is inferred by bin/asmtrace.py from the accesses themselves (an
# argument-order refactor must not confuse the monitor).
import gdb, json, os, re

OUT = os.environ["ASMTRACE_OUT"]
PER = int(os.environ.get("ASMTRACE_PER_INDEX", "2"))
FUNCS = {
    "gitlab.com/yawning/secp256k1-voi.lookupProjectivePoint": "projective",
    "gitlab.com/yawning/secp256k1-voi.lookupAffinePoint": "affine",
}
MAX_STEPS = 5000

gdb.execute("set language c")
gdb.execute("set pagination off")
gdb.execute("set confirm off")
gdb.execute("set print thread-events off")
gdb.execute("handle SIGURG nostop noprint pass")
gdb.execute("handle SIGPIPE nostop noprint pass")

MEM = re.compile(r"(?:%[a-z]s:)?(-?0x[0-9a-f]+|-?\d+)?\((%[a-z0-9]+)?(?:,(%[a-z0-9]+)(?:,(\d))?)?\)")
out = open(OUT, "w")


def reg(name):
    return int(gdb.parse_and_eval("$" + name.lstrip("%"))) & 0xFFFFFFFFFFFFFFFF


def u64(addr):
    return int(gdb.parse_and_eval("*(unsigned long*)%d" % addr)) & 0xFFFFFFFFFFFFFFFF


bps = {}
bpobjs = []
for fn, kind in FUNCS.items():
    try:
        addr = int(gdb.parse_and_eval("(unsigned long)&'%s'" % fn))
    except gdb.error as e:
        out.write(json.dumps(dict(error="symbol not found: %s (%s)" % (fn, e))) + "\n")
        continue
    bpobjs.append(gdb.Breakpoint("*%d" % addr))
    bps[addr] = kind

if not bps:
    out.close()
    gdb.execute("quit 3")

counts = {k: {} for k in FUNCS.values()}
gdb.execute("run")
calls = 0
while True:
    try:
        th = gdb.selected_thread()
        if th is None or not th.is_valid():
            break
        frame = gdb.selected_frame()
    except gdb.error:
        break
    pc = reg("pc")
    if pc not in bps:
        try:
            gdb.execute("continue")
        except gdb.error:
            break
        continue
    kind = bps[pc]
    entry = pc
    sp0 = reg("rsp")
    args = [u64(sp0 + 8), u64(sp0 + 16), u64(sp0 + 24)]
    small = [a for a in args if a < 4096]
    idx = small[0] if len(small) == 1 else -1
    c = counts[kind].get(idx, 0)
    if c >= PER:
        if all(counts[k].get(i, 0) >= PER for k in counts for i in range(16)):
            for b in bpobjs:
                b.delete()
            bps = {}
        try:
            gdb.execute("continue")
        except gdb.error:
            break
        continue
    counts[kind][idx] = c + 1
    arch = frame.architecture()
    trace = []
    steps = 0
    returned = False
    gdb.execute("set scheduler-locking on")
    while steps < MAX_STEPS:
        pc = reg("pc")
        ins = arch.disassemble(pc)[0]
        asm = ins["asm"]
        mnem = asm.split()[0]
        ops = asm[len(mnem):].strip()
        mems = []
        if not mnem.startswith(("lea", "nop")):
            for m in MEM.finditer(ops):
                a = int(m.group(1), 0) if m.group(1) else 0
                if m.group(2):
                    a += reg(m.group(2))
                if m.group(3):
                    a += reg(m.group(3)) * int(m.group(4) or 1)
                a &= 0xFFFFFFFFFFFFFFFF
                # AT&T syntax: the last operand is the destination
                is_last = ops.rstrip().endswith(m.group(0))
                write = is_last and not mnem.startswith(("cmp", "test", "ucomis", "comis", "bt", "push", "call", "jmp", "prefetch"))
                mems.append(["W" if write else "R", a])
        if mnem.startswith(("push", "call")):
            mems.append(["W", reg("rsp") - 8])
        if mnem.startswith("pop"):
            mems.append(["R", reg("rsp")])
        steps += 1
        if mnem.startswith("ret"):
            mems.append(["R", reg("rsp")])
            trace.append([pc - entry, mnem, mems])
            returned = True
            gdb.execute("stepi", to_string=True)
            break
        trace.append([pc - entry, mnem, mems])
        gdb.execute("stepi", to_string=True)
    gdb.execute("set scheduler-locking off")
    out.write(json.dumps(dict(kind=kind, args=args, sp=sp0, call=calls, returned=returned, steps=steps, trace=trace)) + "\n")
    out.flush()
    calls += 1
    try:
        gdb.execute("continue")
    except gdb.error:
        break
out.close()
