"""Builds the C17 instrumentation overlays (index recorder + block counters)
with harness/cmd/verifinstr; /repo is only read."""
import os, subprocess

GROUPS = ["verif_fiat", "verif_swu", "verif_mul", "verif_secec", "verif_btc", "verif_btcparse", "verif_h2c"]


def make_overlays(tmp, configs, overlay, ENV, HARNESS, REPO, log):
    tool = os.path.join(tmp, "verifinstr")
    r = subprocess.run(["go", "build", "-o", tool, "./cmd/verifinstr"], cwd=HARNESS, env=ENV, stdout=subprocess.PIPE, stderr=subprocess.STDOUT, text=True)
    if r.returncode != 0:
        raise RuntimeError("cannot build the instrumenter:\n" + r.stdout[-3000:])
    out = {}
    for c in configs:
        tags = ["verif"] + GROUPS + (["purego"] if "purego" in c else [])
        d = os.path.join(tmp, "instr-" + c)
        cmd = [tool, "-repo", REPO, "-tags", ",".join(tags), "-out", d]
        if overlay:
            cmd += ["-base-overlay", overlay]
        r = subprocess.run(cmd, cwd=HARNESS, env=ENV, stdout=subprocess.PIPE, stderr=subprocess.STDOUT, text=True)
        if r.returncode != 0:
            raise RuntimeError("instrumentation failed for %s:\n%s" % (c, r.stdout[-3000:]))
        log("instr %s: %s" % (c, r.stdout.strip()))
        out[c] = os.path.join(d, "overlay.json")
    return out
