"""Builds the C17 instrumentation overlays (index recorder + block counters)
with harness/cmd/verifinstr; /repo is only read."""
import json, os, re, subprocess

GROUPS = ["verif_fiat", "verif_swu", "verif_mul", "verif_secec", "verif_btc", "verif_btcparse", "verif_h2c"]


def make_overlays(tmp, configs, overlay, ENV, HARNESS, REPO, log):
    tool = os.path.join(tmp, "verifinstr")
    r = subprocess.run(["go", "build", "-o", tool, "./cmd/verifinstr"], cwd=HARNESS, env=ENV, stdout=subprocess.PIPE, stderr=subprocess.STDOUT, text=True)
    if r.returncode != 0:
        raise RuntimeError("cannot build the instrumenter:\n" + r.stdout[-3000:])
    out = {}
    for c in configs:
        tags = ["verif"] + GROUPS + (["purego"] if "purego" in c else [])
        d = os.path.join(tmp, "instr-" + c)
        noindex = []
        for attempt in range(3):
            cmd = [tool, "-repo", REPO, "-tags", ",".join(tags), "-out", d]
            if overlay:
                cmd += ["-base-overlay", overlay]
            if noindex:
                cmd += ["-no-index", ",".join(sorted(set(noindex)))]
            r = subprocess.run(cmd, cwd=HARNESS, env=ENV, stdout=subprocess.PIPE, stderr=subprocess.STDOUT, text=True)
            if r.returncode != 0:
                raise RuntimeError("instrumentation failed for %s:\n%s" % (c, r.stdout[-3000:]))
            # does the instrumented library compile?  (core tag only: hook groups are the driver's business)
            b = subprocess.run(["go", "build", "-overlay", os.path.join(d, "overlay.json"), "-tags", "verif" + (",purego" if "purego" in c else ""),
                                "gitlab.com/yawning/secp256k1-voi/..."], cwd=HARNESS, env=ENV, stdout=subprocess.PIPE, stderr=subprocess.STDOUT, text=True)
            if b.returncode == 0:
                break
            # fall back to block counters only for the files whose instrumented source does not compile
            # (an index expression the recorder should not have wrapped)
            stages = json.load(open(os.path.join(d, "stages.json")))
            bad = sorted(set(stages[m] for m in re.findall(r"(s[12]_\d+_[\w.]+\.go)", b.stdout) if m in stages))
            if not bad or attempt == 2:
                raise RuntimeError("the instrumented tree does not compile for %s:\n%s" % (c, b.stdout[-2500:]))
            log("instr %s: index recorder disabled for %s (instrumented source did not compile)" % (c, ", ".join(bad)))
            noindex += bad
        log("instr %s: %s" % (c, r.stdout.strip()) + ((" [no index recorder in: %s]" % ", ".join(sorted(set(noindex)))) if noindex else ""))
        out[c] = os.path.join(d, "overlay.json")
    return out
