"""Instruction-level trace-equivalence monitor of C17.

The source-level monitor (block counters and index recorder woven into the
library's Go source) cannot see what the COMPILER makes of a source line
(`a == b` on arrays compiles to limb compares with an early exit) nor what
happens inside packages it does not instrument (a call into math/big).  This
monitor runs the same operation table (harness/props/c17ops.go) in the
un-instrumented production build under a ptrace single-stepper
(harness/cmd/ctstep): for every traced call the sequence of program-counter
values executed by the calling thread - the library, the standard library, the
harness closures; runtime internals (allocator, stack growth, memmove) are
stepped over and morestack detours are cut out - is hashed, and all secrets of
one (operation, variant, published-output shape) must produce the same hash.

  run(tmp, seed, tier, ENV, HARNESS, overlay, tags, log) -> dict(inconclusive, violations, summary)
"""
import json, os, subprocess
from collections import defaultdict

HERE = os.path.dirname(os.path.abspath(__file__))
SKIP_PREFIX = ("runtime.", "runtime/", "internal/runtime", "internal/abi", "internal/bytealg", "internal/cpu", "sync.", "sync/atomic.",
               "internal/race", "internal/sync", "internal/godebug", "type:", "go:")
BEGIN, END = "verifharness/props.CTTraceBegin", "verifharness/props.CTTraceEnd"


def _sh(cmd, **kw):
    return subprocess.run(cmd, stdout=subprocess.PIPE, stderr=subprocess.STDOUT, text=True, **kw)


def _symbols(probe, ENV):
    r = _sh(["go", "tool", "nm", "-n", "-size", probe], env=ENV)
    syms = []
    for l in r.stdout.splitlines():
        f = l.split(None, 3)
        if len(f) == 4 and f[2] in ("T", "t"):
            try:
                syms.append((int(f[0], 16), int(f[1]), f[3].strip()))
            except ValueError:
                pass
    return syms


def _addr2line(probe, ENV, pcs):
    r = _sh(["go", "tool", "addr2line", probe], input="\n".join("%x" % p for p in pcs) + "\n", env=ENV)
    ls = r.stdout.splitlines()
    return [(ls[2 * i] if 2 * i < len(ls) else "?", ls[2 * i + 1] if 2 * i + 1 < len(ls) else "?") for i in range(len(pcs))]


def run(tmp, seed, tier, ENV, HARNESS, overlay, tags, log):
    res = dict(inconclusive=None, violations=[], summary={}, witness=None)
    d = os.path.join(tmp, "cttrace")
    os.makedirs(d, exist_ok=True)
    stepper = os.path.join(d, "ctstep")
    r = _sh(["gcc", "-O2", "-o", stepper, os.path.join(HARNESS, "cmd", "ctstep", "ctstep.c")])
    if r.returncode != 0:
        res["inconclusive"] = "the ptrace stepper does not compile: " + r.stdout[-400:]
        return res
    probe = os.path.join(d, "ctprobe")
    tags = [t for t in tags if t not in ("verif_instr", "purego")]
    cmd = ["go", "build", "-o", probe, "-tags", ",".join(tags)]
    if overlay:
        cmd += ["-overlay", overlay]
    cmd.append("./cmd/ctprobe")
    r = _sh(cmd, cwd=HARNESS, env=ENV)
    if r.returncode != 0:
        res["inconclusive"] = "the probe does not build on this tree: " + r.stdout[-600:]
        return res
    syms = _symbols(probe, ENV)
    addr = {n: a for a, s, n in syms}
    if BEGIN not in addr or END not in addr:
        res["inconclusive"] = "marker functions not found in the probe"
        return res
    ranges = sorted((a, a + s) for a, s, n in syms if s > 0 and (n.startswith(SKIP_PREFIX) or ("." not in n and "/" not in n)))
    merged = []
    for a, b in ranges:
        if merged and a <= merged[-1][1]:
            merged[-1][1] = max(merged[-1][1], b)
        else:
            merged.append([a, b])
    skipf, funcf = os.path.join(d, "skip.txt"), os.path.join(d, "funcs.txt")
    open(skipf, "w").write("".join("%x %x\n" % (a, b) for a, b in merged))
    open(funcf, "w").write("".join(("*" if n.startswith("runtime.morestack") else "") + "%x\n" % a for a, s, n in sorted(syms)))
    e = dict(ENV, GODEBUG="asyncpreemptoff=1" + ("," + ENV["VERIF_GODEBUG_EXTRA"] if ENV.get("VERIF_GODEBUG_EXTRA") else ""), GOMAXPROCS="1")

    def step(out, dump, only):
        plan = out + ".plan.json"
        try:
            g = _sh([stepper, out, "%x" % addr[BEGIN], "%x" % addr[END], skipf, funcf, dump or "-", "--", probe, str(seed), tier, plan, only or ""],
                    env=e, cwd=d, timeout=3 * 3600)
        except (OSError, subprocess.TimeoutExpired) as ex:
            return None, None, "the stepper could not be run to completion: %s" % ex
        if "ctprobe done" not in g.stdout or not os.path.exists(out) or not os.path.exists(plan):
            return None, None, "the probe did not run to completion under the stepper (rc=%d): %s" % (g.returncode, g.stdout[-500:])
        return [json.loads(l) for l in open(out) if l.strip()], json.load(open(plan)), None

    recs, plan, err = step(os.path.join(d, "regions.jsonl"), None, None)
    if err:
        res["inconclusive"] = err
        return res
    byop = {p["op"]: p for p in plan}
    groups = defaultdict(list)
    for rc in recs:
        groups[(rc["op"], rc["bucket"])].append(rc)
    steps = sum(rc["steps"] for rc in recs)
    per_op = {}
    disturbed = sum(rc["disturbed"] for rc in recs)
    bad = []
    for (op, bucket), l in sorted(groups.items()):
        p = byop[op]
        name = "%s#%d" % (p["name"], p["variant"])
        s = per_op.setdefault(name, dict(secrets_traced=0, instructions_per_call=l[0]["steps"], runtime_calls_stepped_over=l[0]["skipped_calls"], output_shape_buckets=0,
                                         distinct_traces_per_bucket=1, morestack_detours_cut=0))
        s["secrets_traced"] += len(l)
        s["output_shape_buckets"] += 1
        s["morestack_detours_cut"] += sum(x["detours"] for x in l)
        hs = defaultdict(list)
        for x in l:
            hs[x["hash"]].append(x)
        if len(hs) > 1:
            s["distinct_traces_per_bucket"] = max(s["distinct_traces_per_bucket"], len(hs))
            keys = sorted(hs, key=lambda k: (-len(hs[k]), k))
            bad.append((op, hs[keys[0]][0], hs[keys[1]][0], len(hs)))
    res["summary"] = dict(regions=len(recs), instructions_stepped=steps, operations=len(per_op), signals_during_regions=disturbed, per_operation=per_op)
    if disturbed:
        res["inconclusive"] = "%d signals were delivered inside traced regions; their handlers are part of the recorded traces" % disturbed
    if not recs or steps < 1000:
        res["inconclusive"] = "the stepper recorded %d regions / %d instructions" % (len(recs), steps)
    # witnesses: re-run the offending operations with full pc lists and locate the first divergence
    for op, a, b, nd in bad[:3]:
        p = byop[op]
        sec = dict(zip(p["secrets"], zip(p["classes"], p["values"])))
        where = ""
        out2 = os.path.join(d, "dump-%d.jsonl" % op)
        _, _, err = step(out2, "%d:%d,%d:%d" % (op, a["idx"], op, b["idx"]), str(op))
        fa, fb = "%s.%d.%d.pcs" % (out2, op, a["idx"]), "%s.%d.%d.pcs" % (out2, op, b["idx"])
        if not err and os.path.exists(fa) and os.path.exists(fb):
            ta = [int(x.split()[0], 16) for x in open(fa)]
            tb = [int(x.split()[0], 16) for x in open(fb)]
            i = next((i for i in range(min(len(ta), len(tb))) if ta[i] != tb[i]), min(len(ta), len(tb)))
            pcs = [ta[i - 1] if i else ta[0]] + ([ta[i]] if i < len(ta) else []) + ([tb[i]] if i < len(tb) else [])
            loc = _addr2line(probe, ENV, pcs)
            where = "; the traces agree for %d instructions, then after %s (%s) the first secret continues at %s (%s), the second at %s (%s)" % (
                i, loc[0][0], loc[0][1], loc[1][0] if len(loc) > 1 else "?", loc[1][1] if len(loc) > 1 else "?", loc[-1][0], loc[-1][1])
        msg = ("%s (variant %d): the executed instruction sequence of the compiled operation depends on the secret: %d distinct traces among secrets with the same published-output shape, "
               "e.g. %d instructions for secret %s (%s) and %d for secret %s (%s)%s") % (
            p["name"], p["variant"], nd, a["steps"], sec[a["idx"]][1], sec[a["idx"]][0], b["steps"], sec[b["idx"]][1], sec[b["idx"]][0], where)
        res["violations"].append(dict(key="c17/instruction-trace/" + p["name"], msg=msg, op=p["name"], variant=p["variant"],
                                      secret_a=sec[a["idx"]][1], secret_b=sec[b["idx"]][1]))
    return res


def apply(prop, res, results, config, notes, REPLAYS, seed, tier):
    """fold the outcome into the results of `config` (violations, classes, extras)"""
    import hashlib
    tgt = next((r for r in results if r["config"] == config), None)
    if tgt is None:
        return
    part = tgt["partial"]
    if part is None:
        part = dict(classes={}, evaluations=0, distinct_nontrivial=0, violations=0)
    part.setdefault("extras", {})["instruction_trace"] = res["summary"]
    if res["inconclusive"]:
        part.setdefault("inconclusive", []).append("instruction-level trace monitor: " + res["inconclusive"])
        tgt.setdefault("extra_stdout", []).append("INCONCLUSIVE property=%s: instruction-level trace monitor: %s" % (prop, res["inconclusive"][:300]))
        if tgt["rc"] == 0:
            tgt["rc"] = 2
        if not res["violations"]:
            return
    n = res["summary"].get("regions", 0)
    part["classes"]["c17:instruction-trace:calls-single-stepped"] = n
    part["classes"]["c17:instruction-trace:instructions-stepped"] = res["summary"].get("instructions_stepped", 0)
    part["evaluations"] += n
    part["distinct_nontrivial"] += n
    part.setdefault("evaluations_per_monitor", {})["c17/instruction-trace"] = n
    for v in res["violations"]:
        os.makedirs(REPLAYS, exist_ok=True)
        path = os.path.join(REPLAYS, "%s-ctstep-%s.json" % (prop, hashlib.sha256((v["key"] + str(v["variant"])).encode()).hexdigest()[:12]))
        json.dump(dict(property=prop, config=config, monitor="process-crash", exit="instruction-trace", seed=seed, key=v["key"],
                       operation=v["op"], variant=v["variant"], secret_a=v["secret_a"], secret_b=v["secret_b"],
                       cmd=["bin/check", prop, tier], log_tail=v["msg"]), open(path, "w"), indent=1)
        tgt.setdefault("extra_stdout", []).append("VIOLATION property=%s replay=%s" % (prop, path))
        tgt["extra_stdout"].append("  monitor=c17/instruction-trace config=%s: %s" % (config, v["msg"]))
        part["violations"] += 1
        tgt["rc"] = 1
