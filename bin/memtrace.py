"""Memory-access trace-equivalence monitor of C17 (valgrind lackey).

The source-level monitor records the index expressions of the library's Go source
and the gdb tracer the operands of the two assembly lookups; neither sees an
address computed by pointer arithmetic, by a new assembly routine, by the compiler
(a `switch` turned into a jump table, a masked vector load) or inside a package
that is not instrumented.  This monitor runs the production build of the C17
operation table (harness/props/c17ops.go) under `valgrind --tool=lackey
--trace-mem=yes`: ONE PROCESS PER SECRET (GOMAXPROCS=1, GC off, asynchronous
preemption off, valgrind's fixed load addresses), so stack, heap and static
addresses of two runs are directly comparable.  cmd/memfilt reduces lackey's
output to the accesses between the two marker calls made by instructions outside
the Go runtime (whose accesses depend on allocator state and on the background
threads) and folds (pc, load/store, address, size) into a hash; the program-counter
sequence is hashed as well.  All secrets of one (operation, variant, published-
output shape) must give the same two hashes.

  run(tmp, seed, tier, ENV, HARNESS, overlay, tags, log) -> dict(inconclusive, violations, summary)
"""
import json, os, re, shutil, subprocess
from collections import defaultdict
from concurrent.futures import ThreadPoolExecutor

import cttrace
from cttrace import _sh, _symbols, _addr2line, SKIP_PREFIX, BEGIN, END

# operations traced in the quick tier (two secrets each, chosen so that every nibble and
# every byte of the two differ); the thorough tier runs every operation
QUICK_OPS = ["ScalarMult", "ScalarBaseMult", "MultiScalarMult", "ECDH", "SignRaw/hedged", "SignRaw/rfc6979", "Schnorr.Sign", "NewPrivateKey",
             "NewSchnorrPrivateKey", "Scalar.arith", "field.arith", "Point.ops-on-secret-point"]
QUICK_CLASSES = ["n-1", "pattern-0f"]


def _prepare(tmp, ENV, HARNESS, overlay, tags):
    d = os.path.join(tmp, "memtrace")
    os.makedirs(d, exist_ok=True)
    if not shutil.which("valgrind"):
        return None, "valgrind is not installed"
    filt = os.path.join(d, "memfilt")
    r = _sh(["gcc", "-O2", "-o", filt, os.path.join(HARNESS, "cmd", "memfilt", "memfilt.c")])
    if r.returncode != 0:
        return None, "the trace filter does not compile: " + r.stdout[-400:]
    probe = os.path.join(d, "memprobe")
    tags = [t for t in tags if t not in ("verif_instr", "purego")]
    cmd = ["go", "build", "-o", probe, "-tags", ",".join(tags)]
    if overlay:
        cmd += ["-overlay", overlay]
    cmd.append("./cmd/memprobe")
    r = _sh(cmd, cwd=HARNESS, env=ENV)
    if r.returncode != 0:
        return None, "the probe does not build on this tree: " + r.stdout[-600:]
    syms = _symbols(probe, ENV)
    addr = {n: a for a, s, n in syms}
    if BEGIN not in addr or END not in addr:
        return None, "marker functions not found in the probe"
    ranges = sorted((a, a + s) for a, s, n in syms if s > 0 and (n.startswith(SKIP_PREFIX) or ("." not in n and "/" not in n)))
    merged = []
    for a, b in ranges:
        if merged and a <= merged[-1][1]:
            merged[-1][1] = max(merged[-1][1], b)
        else:
            merged.append([a, b])
    skipf, funcf = os.path.join(d, "skip.txt"), os.path.join(d, "funcs.txt")
    open(skipf, "w").write("".join("%x %x\n" % (a, b) for a, b in merged))
    open(funcf, "w").write("".join(("*" if n.startswith("runtime.morestack") else "") + "%x\n" % a for a, s, n in sorted(syms)))
    return dict(dir=d, filt=filt, probe=probe, begin=addr[BEGIN], end=addr[END], skipf=skipf, funcf=funcf), None


def _trace(ctx, ENV, name, variant, value, cls, tag, dump=False):
    """one process under lackey -> (record | None, error)"""
    d = ctx["dir"]
    out = os.path.join(d, "r-%s.json" % tag)
    sout = os.path.join(d, "r-%s.stdout" % tag)
    dumpf = os.path.join(d, "r-%s.dump" % tag) if dump else ""
    e = dict(ENV, GODEBUG="asyncpreemptoff=1", GOMAXPROCS="1", GOGC="off")
    # valgrind writes the trace to fd 9, which is the pipe into the filter; the probe's own output goes to a file
    sh = ('valgrind --tool=lackey --trace-mem=yes --log-fd=9 -q "$P" run "$OP" "$VAR" "$VAL" "$CLS" 9>&1 >"$SOUT" 2>&1 '
          '| "$F" "$B" "$E" "$SK" "$FN" "$OUT" $DUMP')
    # the command line has the same length for every secret (the runtime copies it into heap strings)
    env = dict(e, P=ctx["probe"], OP=name, VAR=str(variant), VAL=value.rjust(64, "0")[-64:], CLS="-", SOUT=sout, F=ctx["filt"], B="%x" % ctx["begin"], E="%x" % ctx["end"],
               SK=ctx["skipf"], FN=ctx["funcf"], OUT=out, DUMP=dumpf)
    try:
        r = subprocess.run(["bash", "-c", sh], env=env, cwd=d, stdout=subprocess.PIPE, stderr=subprocess.STDOUT, text=True, timeout=3600)
    except (OSError, subprocess.TimeoutExpired) as ex:
        return None, "valgrind could not be run to completion: %s" % ex
    so = open(sout).read() if os.path.exists(sout) else ""
    m = re.search(r'memprobe done shape="((?:[^"\\]|\\.)*)"', so)
    if not m or not os.path.exists(out):
        return None, "the probe did not run to completion under valgrind: %s %s" % (so[-300:], r.stdout[-300:])
    rec = json.loads(open(out).read())
    if rec["regions"] != 1 or rec["open"]:
        return None, "the filter saw %d complete regions (open=%d)" % (rec["regions"], rec["open"])
    rec.update(shape=m.group(1), name=name, variant=variant, value=value, cls=cls, dump=dumpf)
    return rec, None


def run(tmp, seed, tier, ENV, HARNESS, overlay, tags, log, jobs=None):
    res = dict(inconclusive=None, violations=[], summary={}, witness=None)
    ctx, err = _prepare(tmp, ENV, HARNESS, overlay, tags)
    if err:
        res["inconclusive"] = err
        return res
    r = _sh([ctx["probe"], "list", str(seed), "thorough" if tier == "thorough" else "quick"], env=ENV)
    try:
        plan = json.loads(r.stdout)
    except ValueError:
        res["inconclusive"] = "the probe did not print its plan: " + r.stdout[-300:]
        return res
    work = []
    for p in plan:
        sel = list(zip(p["classes"], p["values"]))
        if tier != "thorough":
            if p["name"] not in QUICK_OPS or p["variant"] != 0:
                continue
            sel = [x for x in sel if x[0] in QUICK_CLASSES]
        elif tier == "thorough":
            sel = sel[:8] if p["variant"] == 0 else sel[:2]
        for cl, v in sel:
            work.append((p["name"], p["variant"], v, cl))
    jobs = jobs or int(os.environ.get("VERIF_MEMTRACE_JOBS", "16"))

    def one(iw):
        i, (name, variant, v, cl) = iw
        return _trace(ctx, ENV, name, variant, v, cl, str(i))
    with ThreadPoolExecutor(max_workers=jobs) as ex:
        outs = list(ex.map(one, enumerate(work)))
    recs = [r for r, e in outs if r]
    errs = [e for r, e in outs if e]
    groups = defaultdict(list)
    for rc in recs:
        groups[(rc["name"], rc["variant"], rc["shape"])].append(rc)
    per_op = {}
    bad = []
    for (name, variant, shape), l in sorted(groups.items()):
        k = "%s#%d" % (name, variant)
        s = per_op.setdefault(k, dict(secrets_traced=0, accesses_per_call=l[0]["accesses"], instructions_per_call=l[0]["instructions"], output_shape_buckets=0,
                                       distinct_traces_per_bucket=1, morestack_detours_cut=0))
        s["secrets_traced"] += len(l)
        s["output_shape_buckets"] += 1
        s["morestack_detours_cut"] += sum(x["detours"] for x in l)
        hs = defaultdict(list)
        for x in l:
            hs[(x["hash"], x["pchash"])].append(x)
        if len(hs) > 1:
            s["distinct_traces_per_bucket"] = max(s["distinct_traces_per_bucket"], len(hs))
            keys = sorted(hs, key=lambda kk: (-len(hs[kk]), kk))
            bad.append((name, variant, hs[keys[0]][0], hs[keys[1]][0], len(hs)))
    compared = sum(len(l) for l in groups.values() if len(l) > 1)
    res["summary"] = dict(processes=len(recs), secrets_compared=compared, accesses_traced=sum(r["accesses"] for r in recs), instructions_traced=sum(r["instructions"] for r in recs),
                          operations=len(per_op), per_operation=per_op)
    if errs:
        res["inconclusive"] = "%d of %d traced processes failed: %s" % (len(errs), len(work), errs[0][:300])
    elif not recs or compared < 2:
        res["inconclusive"] = "only %d traces could be compared" % compared
    for name, variant, a, b, nd in bad[:3]:
        where = ""
        # the two offending processes again, with the accesses written out; the first difference is symbolised
        ra, ea = _trace(ctx, ENV, name, variant, a["value"], a["cls"], "wa", dump=True)
        rb, eb = _trace(ctx, ENV, name, variant, b["value"], b["cls"], "wb", dump=True)
        control, ec = _trace(ctx, ENV, name, variant, a["value"], a["cls"], "wc")
        if control and (control["hash"], control["pchash"]) != (a["hash"], a["pchash"]):
            # the same secret twice gives two traces: the environment is not deterministic for this
            # operation, the comparison says nothing about the secret
            res["inconclusive"] = "%s: two runs with the SAME secret gave different memory traces; not comparable" % name
            continue
        if ra and rb:
            with open(ra["dump"]) as fa, open(rb["dump"]) as fb:
                i = 0
                la = lb = None
                for la, lb in zip(fa, fb):
                    if la != lb:
                        break
                    i += 1
                else:
                    la = lb = None
            if la and lb:
                pa, pb = int(la.split()[0], 16), int(lb.split()[0], 16)
                loc = _addr2line(ctx["probe"], ENV, [pa, pb])
                if pa == pb:
                    where = ("; the traces agree for %d accesses, then the instruction at %s (%s) accesses %s with the first secret and %s with the second" % (
                        i, loc[0][0], loc[0][1], " ".join(la.split()[1:3]), " ".join(lb.split()[1:3])))
                else:
                    where = "; the traces agree for %d accesses, then the first secret continues at %s (%s), the second at %s (%s)" % (
                        i, loc[0][0], loc[0][1], loc[1][0], loc[1][1])
        kind = "memory addresses accessed" if a["pchash"] == b["pchash"] else "instruction sequence and memory accesses"
        msg = ("%s (variant %d): the %s by the compiled operation depend on the secret: %d distinct traces among secrets with the same published-output shape, "
               "e.g. %d accesses / %d instructions for secret %s (%s) and %d / %d for secret %s (%s)%s") % (
            name, variant, kind, nd, a["accesses"], a["instructions"], a["value"], a["cls"], b["accesses"], b["instructions"], b["value"], b["cls"], where)
        res["violations"].append(dict(key="c17/memory-trace/" + name, msg=msg, op=name, variant=variant, secret_a=a["value"], secret_b=b["value"]))
    return res


def apply(prop, res, results, config, notes, REPLAYS, seed, tier):
    import hashlib
    tgt = next((r for r in results if r["config"] == config), None)
    if tgt is None:
        return
    part = tgt["partial"]
    if part is None:
        part = dict(classes={}, evaluations=0, distinct_nontrivial=0, violations=0)
    part.setdefault("extras", {})["memory_trace"] = res["summary"]
    if res["inconclusive"]:
        part.setdefault("inconclusive", []).append("memory-access trace monitor: " + res["inconclusive"])
        tgt.setdefault("extra_stdout", []).append("INCONCLUSIVE property=%s: memory-access trace monitor: %s" % (prop, res["inconclusive"][:300]))
        if tgt["rc"] == 0:
            tgt["rc"] = 2
        if not res["violations"]:
            return
    n = res["summary"].get("processes", 0)
    part["classes"]["c17:memory-trace:processes-traced"] = n
    part["classes"]["c17:memory-trace:accesses-traced"] = res["summary"].get("accesses_traced", 0)
    part["classes"]["c17:memory-trace:instructions-traced"] = res["summary"].get("instructions_traced", 0)
    part["evaluations"] += n
    part["distinct_nontrivial"] += n
    part.setdefault("evaluations_per_monitor", {})["c17/memory-trace"] = n
    for v in res["violations"]:
        os.makedirs(REPLAYS, exist_ok=True)
        path = os.path.join(REPLAYS, "%s-memtrace-%s.json" % (prop, hashlib.sha256((v["key"] + str(v["variant"])).encode()).hexdigest()[:12]))
        json.dump(dict(property=prop, config=config, monitor="process-crash", exit="memory-trace", seed=seed, key=v["key"],
                       operation=v["op"], variant=v["variant"], secret_a=v["secret_a"], secret_b=v["secret_b"],
                       cmd=["bin/check", prop, tier], log_tail=v["msg"]), open(path, "w"), indent=1)
        tgt.setdefault("extra_stdout", []).append("VIOLATION property=%s replay=%s" % (prop, path))
        tgt["extra_stdout"].append("  monitor=c17/memory-trace config=%s: %s" % (config, v["msg"]))
        part["violations"] += 1
        tgt["rc"] = 1


if __name__ == "__main__":
    # stand-alone: bin/memtrace.py <quick|thorough> [seed]   (development aid; the check is bin/check C17)
    import sys, tempfile
    VERIF = os.path.dirname(os.path.dirname(os.path.abspath(__file__)))
    ENV = dict(os.environ, GOFLAGS="-mod=mod", GOPROXY="off", GOSUMDB="off", GOTOOLCHAIN="local")
    tmp = tempfile.mkdtemp(prefix="verif-memtrace-")
    try:
        tags = ["verif", "verif_fiat", "verif_swu", "verif_mul", "verif_secec", "verif_btc", "verif_btcparse", "verif_h2c"]
        out = run(tmp, int(sys.argv[2]) if len(sys.argv) > 2 else 1, sys.argv[1] if len(sys.argv) > 1 else "quick", ENV, os.path.join(VERIF, "harness"),
                  os.environ.get("VERIF_OVERLAY") or None, tags, print)
        print(json.dumps(out, indent=1))
    finally:
        shutil.rmtree(tmp, ignore_errors=True)
