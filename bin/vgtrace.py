"""Memory-access trace of the assembly table lookups under valgrind (C17).

The gdb tracer (bin/asmtrace.py) resolves the memory OPERAND of every instruction;
it cannot tell whether a masked vector load (VPMASKMOVQ, a gather) actually touches
the memory it names.  valgrind models guarded loads lane by lane, and its lackey
tool prints every access that really happens.  cmd/asmprobe (mode "reuse": one
table, one destination, one call site per routine and round) is run ONCE under
`valgrind --tool=lackey --trace-mem=yes`; every execution of one of the two lookup
routines is a region (the routines are leaf functions: a maximal run of program
counters inside the routine's symbol); within a round the sixteen regions of a
routine - indices 0..15 - must show the same sequence of (pc, load/store, address,
size).  One process, so no address needs normalising.

  run(tmp, seed, tier, ENV, HARNESS, overlay, log) -> dict(inconclusive, violations, summary)
"""
import hashlib, json, os, shutil, subprocess

ROUTINES = ("gitlab.com/yawning/secp256k1-voi.lookupProjectivePoint", "gitlab.com/yawning/secp256k1-voi.lookupAffinePoint")


def run(tmp, seed, tier, ENV, HARNESS, overlay, log):
    res = dict(inconclusive=None, violations=[], summary={})
    d = os.path.join(tmp, "vgtrace")
    os.makedirs(d, exist_ok=True)
    if not shutil.which("valgrind"):
        res["inconclusive"] = "valgrind is not installed"
        return res
    probe = os.path.join(d, "asmprobe")
    cmd = ["go", "build", "-o", probe, "-tags", "verif,verif_mul"] + (["-overlay", overlay] if overlay else []) + ["./cmd/asmprobe"]
    r = subprocess.run(cmd, cwd=HARNESS, env=ENV, stdout=subprocess.PIPE, stderr=subprocess.STDOUT, text=True)
    if r.returncode != 0:
        # the hook group does not build on this tree: the gdb tracer has a public-API fallback, this one has not
        res["summary"]["skipped"] = "hook group verif_mul does not build on this tree"
        return res
    nm = subprocess.run(["go", "tool", "nm", "-n", "-size", probe], env=ENV, stdout=subprocess.PIPE, stderr=subprocess.STDOUT, text=True).stdout
    rng = {}
    for l in nm.splitlines():
        f = l.split(None, 3)
        nmn = f[3].strip() if len(f) == 4 else ""
        if nmn.endswith(".abi0"):
            nmn = nmn[:-5]   # assembly routines carry the ABI0 suffix
        if nmn in ROUTINES and f[2] in ("T", "t"):
            rng[nmn] = (int(f[0], 16), int(f[0], 16) + int(f[1]))
    if len(rng) != 2:
        res["summary"]["skipped"] = "the lookup routines are not separate symbols in this build (%s found)" % sorted(rng)
        return res
    rounds = 2 if tier == "quick" else 8
    e = dict(ENV, GODEBUG="asyncpreemptoff=1" + ("," + ENV["VERIF_GODEBUG_EXTRA"] if ENV.get("VERIF_GODEBUG_EXTRA") else ""), GOMAXPROCS="1", GOGC="off")
    sh = 'valgrind --tool=lackey --trace-mem=yes --log-fd=9 -q "$P" "$SEED" "$ROUNDS" reuse 9>&1 >"$SOUT" 2>&1'
    env = dict(e, P=probe, SEED=str(seed), ROUNDS=str(rounds), SOUT=os.path.join(d, "stdout.txt"))
    try:
        proc = subprocess.Popen(["bash", "-c", sh], env=env, cwd=d, stdout=subprocess.PIPE, stderr=subprocess.DEVNULL, text=True, bufsize=1 << 20)
    except OSError as ex:
        res["inconclusive"] = "valgrind could not be started: %s" % ex
        return res
    spans = sorted((lo, hi, n) for n, (lo, hi) in rng.items())
    lo_all, hi_all = spans[0][0], spans[-1][1]
    regions = {n: [] for n in rng}   # routine -> list of (hash, n_accesses, first accesses)
    cur = None
    h = None
    acc = None
    for line in proc.stdout:
        c = line[0]
        if c == "I":
            pc = int(line[2:].split(",")[0], 16)
            name = None
            if lo_all <= pc < hi_all:
                for lo, hi, n in spans:
                    if lo <= pc < hi:
                        name = n
                        break
            if name != cur:
                if cur is not None:
                    regions[cur].append((h.hexdigest(), len(acc), acc))
                cur = name
                if cur is not None:
                    h, acc = hashlib.sha256(), []
            if cur is not None:
                curpc = pc - rng[cur][0]
                h.update(b"I%x;" % curpc)
        elif cur is not None and c == " " and line[1] in "LSM":
            a, _, sz = line[3:].strip().partition(",")
            rec = "%x %s %s %s" % (curpc, line[1], a, sz)
            h.update(rec.encode())
            acc.append(rec)
    proc.wait()
    so = open(os.path.join(d, "stdout.txt")).read() if os.path.exists(os.path.join(d, "stdout.txt")) else ""
    if "asmprobe done" not in so:
        res["inconclusive"] = "the probe did not run to completion under valgrind: " + so[-300:]
        return res
    total = 0
    for n, l in regions.items():
        short = n.rsplit(".", 1)[1]
        total += len(l)
        per_round = 32   # 2 repetitions x 16 indices per round
        if len(l) != rounds * per_round:
            res["inconclusive"] = "%s: %d executions recorded, expected %d" % (short, len(l), rounds * per_round)
            continue
        distinct = 0
        for rd in range(rounds):
            grp = l[rd * per_round:(rd + 1) * per_round]
            hs = {}
            for k, (hh, na, ac) in enumerate(grp):
                hs.setdefault(hh, []).append(k)
            distinct = max(distinct, len(hs))
            if len(hs) > 1 and not any(v["op"] == short for v in res["violations"]):
                keys = sorted(hs, key=lambda x: (-len(hs[x]), x))
                ia, ib = hs[keys[0]][0], hs[keys[1]][0]
                aa, ab = grp[ia][2], grp[ib][2]
                j = next((j for j in range(min(len(aa), len(ab))) if aa[j] != ab[j]), min(len(aa), len(ab)))
                msg = ("%s: the memory accesses that really happen (valgrind: masked / guarded loads count lane by lane) depend on the index: %d distinct access traces over the sixteen indices of one table, "
                       "e.g. index %d makes %d accesses and index %d makes %d; first difference at access #%d: %s vs %s (pc offset, load/store, address, size)") % (
                    short, len(hs), ia % 16, len(aa), ib % 16, len(ab), j, aa[j] if j < len(aa) else "<none>", ab[j] if j < len(ab) else "<none>")
                res["violations"].append(dict(key="c17/valgrind-access-trace/" + short, msg=msg, op=short))
        res["summary"][short] = dict(executions=len(l), accesses_per_call=l[0][1], distinct_traces_per_table=distinct)
    res["summary"]["executions_traced"] = total
    if total == 0 and not res["inconclusive"]:
        res["inconclusive"] = "no execution of a lookup routine was seen in the trace"
    return res


def apply(prop, res, results, config, notes, REPLAYS, seed, tier):
    tgt = next((r for r in results if r["config"] == config), None)
    if tgt is None:
        return
    part = tgt["partial"]
    if part is None:
        part = dict(classes={}, evaluations=0, distinct_nontrivial=0, violations=0)
    part.setdefault("extras", {})["valgrind_access_trace"] = res["summary"]
    if res["inconclusive"]:
        part.setdefault("inconclusive", []).append("valgrind access trace: " + res["inconclusive"])
        tgt.setdefault("extra_stdout", []).append("INCONCLUSIVE property=%s: valgrind access trace of the lookup routines: %s" % (prop, res["inconclusive"][:300]))
        if tgt["rc"] == 0:
            tgt["rc"] = 2
        if not res["violations"]:
            return
    n = res["summary"].get("executions_traced", 0)
    if n:
        part["classes"]["c17:valgrind-access-trace:lookup-executions"] = n
        part["evaluations"] += n
        part["distinct_nontrivial"] += n
        part.setdefault("evaluations_per_monitor", {})["c17/valgrind-access-trace"] = n
    for v in res["violations"]:
        os.makedirs(REPLAYS, exist_ok=True)
        path = os.path.join(REPLAYS, "%s-vgtrace-%s-%s.json" % (prop, v["op"], hashlib.sha256(config.encode()).hexdigest()[:8]))
        json.dump(dict(property=prop, config=config, monitor="process-crash", exit="valgrind-access-trace", seed=seed, key=v["key"],
                       cmd=["bin/check", prop, tier], log_tail=v["msg"]), open(path, "w"), indent=1)
        tgt.setdefault("extra_stdout", []).append("VIOLATION property=%s replay=%s" % (prop, path))
        tgt["extra_stdout"].append("  monitor=c17/valgrind-access-trace config=%s: %s" % (config, v["msg"]))
        part["violations"] += 1
        tgt["rc"] = 1


if __name__ == "__main__":
    import sys, tempfile, time
    VERIF = os.path.dirname(os.path.dirname(os.path.abspath(__file__)))
    ENV = dict(os.environ, GOFLAGS="-mod=mod", GOPROXY="off", GOSUMDB="off", GOTOOLCHAIN="local")
    tmp = tempfile.mkdtemp(prefix="verif-vgtrace-")
    t0 = time.time()
    try:
        print(json.dumps(run(tmp, 1, sys.argv[1] if len(sys.argv) > 1 else "quick", ENV, os.path.join(VERIF, "harness"), os.environ.get("VERIF_OVERLAY") or None, print), indent=1))
    finally:
        shutil.rmtree(tmp, ignore_errors=True)
    print("wall %.1fs" % (time.time() - t0))
