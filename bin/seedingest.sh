#!/bin/sh
# bin/seedingest.sh C02        -> copies /tmp/wt/C02-out/{a,b} to seeded/C02a, seeded/C02b, confirms and checks them
# bin/seedingest.sh C02 r2     -> copies /tmp/wt/C02r2-out/{a,b} to seeded/C02c, seeded/C02d (second round)
ID=$1
R=$2
for k in a b c d; do
  src=/tmp/wt/$ID$R-out/$k
  [ -f $src/patch.diff ] || continue
  t=$k
  if [ "$R" = "r2" ]; then t=$(echo $k | tr abc cde); fi
  if [ "$R" = "r3" ]; then t=$(echo $k | tr abc fgh); fi
  if [ "$R" = "r4" ]; then t=$(echo $k | tr abc ijk); fi
  if [ "$R" = "r5" ]; then t=$(echo $k | tr abc lmn); fi
  if [ "$R" = "r6" ]; then t=$(echo $k | tr abcd opqr); fi
  if [ "$R" = "r7" ]; then t=$(echo $k | tr abc stu); fi
  if [ "$R" = "r8" ]; then t=$(echo $k | tr abc vwx); fi
  if [ "$R" = "r9" ]; then t=$(echo $k | tr ab yz); fi
  dst=/verif/seeded/$ID$t
  mkdir -p $dst
  cp -r $src/. $dst/
  echo "== $ID$t confirm"
  /verif/bin/seedrun.py confirm $dst > $dst/confirm.json
  python3 -c "import json;c=json.load(open('$dst/confirm.json'));print({k:v for k,v in c.items() if not k.endswith('tail')})"
  echo "== $ID$t check"
  # FIRST=<a checkout of /verif at the commit the round started from>: the first verdict is measured there
  ${FIRST:-/verif}/bin/seedrun.py check $dst quick > $dst/check_quick.json
  python3 -c "import json;c=json.load(open('$dst/check_quick.json'));[print(p,v['killed'],v['rc'],v['wall_s'],v['first'][:300]) for p,v in c.items()]"
  cp $dst/check_quick.json $dst/check_quick_first.json
done
