#!/bin/sh
# bin/seedingest.sh C02  -> copies /tmp/wt/C02-out/{a,b} to seeded/C02a, seeded/C02b, confirms and checks them
ID=$1
for k in a b c; do
  src=/tmp/wt/$ID-out/$k
  [ -f $src/patch.diff ] || continue
  dst=/verif/seeded/$ID$k
  mkdir -p $dst
  cp -r $src/. $dst/
  echo "== $ID$k confirm"
  /verif/bin/seedrun.py confirm $dst > $dst/confirm.json
  python3 -c "import json;c=json.load(open('$dst/confirm.json'));print({k:v for k,v in c.items() if not k.endswith('tail')})"
  echo "== $ID$k check"
  /verif/bin/seedrun.py check $dst quick > $dst/check_quick.json
  python3 -c "import json;c=json.load(open('$dst/check_quick.json'));[print(p,v['killed'],v['rc'],v['wall_s'],v['first'][:300]) for p,v in c.items()]"
done
