#!/usr/bin/env python3
"""Regenerates MANIFEST.json from the table below (checks that exist) and
properties.jsonl (everything else goes to not_applicable with a reason)."""
import json, os, subprocess

VERIF = os.path.dirname(os.path.dirname(os.path.abspath(__file__)))

ORACLE_NOTE = ("Trusted base: the harness' own reference model (math/big affine arithmetic and its own RFC 6979 / BIP-340 / RFC 9380 / DER code), "
               "anchored at the start of every run on pinned copies of the BIP-340, RFC 6979, RFC 9380 and Wycheproof vectors; the Go toolchain; "
               "verif-tagged expose-only hooks. Held on the executions observed, nothing more.")

CHECKS = {
    "C01": dict(tech="runtime reference-model monitor (math/big) on every field operation with operands steered into the carry/Montgomery windows; raw-limb invariant hooks",
                text="Exploration: every field operation is executed on value classes and steered operand pairs (add window [p,2^256), per-limb add-back carry patterns, Montgomery products with pre-subtraction value in [p,2^256), all wide lengths 32..64) in every alias pattern, in the assembly and purego builds, each call compared with an integer model and each result checked for canonical raw limbs. Uniform sampling reaches these windows with probability 2^-224; the steering constructs them and the evidence counts how many executions were inside each.",
                ref="DESIGN.md section 5 C01"),
    "C02": dict(tech="runtime reference-model monitor (math/big) on every scalar operation with steered operands; half-order boundary family; raw-limb invariant hooks",
                text="Exploration: as C01 for the group order n, plus Sum/Product over vectors with aliased/repeated entries and the greater-than-half-order test on the boundary family in every limb.",
                ref="DESIGN.md section 5 C02"),
    "C03": dict(tech="runtime reference-model monitor: affine group law vs. library on arbitrary projective representatives (unchecked-constructor hook), pairwise sweep + drift histories, raw on-curve invariant after every step",
                text="Exploration: pairwise sweep of a pool of abstract points (identity, +-kG, half-order neighbours, lambda images, special-coordinate points, random) in random projective representatives through Add/Subtract/Equal/Select/addComplete/addMixed/Double/Negate/observers in all alias patterns, an exceptional-relation monitor (P=Q, P=-Q, Q=2P, identity cases) and random-walk histories that reuse results without rescaling; after every step the raw coordinates must satisfy the projective curve equation and denote the model's point. Also: near-equal pairs (same x, same y via the endomorphism, collinear with 8 small slopes) for the observers, Z values chosen by the shape of their stored Montgomery limbs, and operand sums steered into the carry windows of multiplication by small constants (stored x(P)+x(Q) just below j*2^256/k).",
                ref="DESIGN.md section 5 C03"),
    "C04": dict(tech="invariant hook on splitGLV/mulGFlooredDiv (recomposition, 128-bit bound, exact rounded quotient against independently derived lattice constants) + reference-model monitor of all variable-base entry points",
                text="Exploration: scalars are constructed on the rounding-bit boundary of k*g/2^384, on limb-carry boundaries of the rounded quotient and at the extreme magnitude of the split halves; the split must recompose and fit 128 bits after sign normalisation, and ScalarMult and the variable-time multiply must equal the model's s*P for points in arbitrary representatives with the receiver aliasing P.",
                ref="DESIGN.md section 5 C04"),
    "C05": dict(tech="exhaustive table-entry monitor through a read hook (8160 + 480 entries vs. an oracle table built from G) + reference-model monitor of fixed-base multiplication on all single-byte scalars",
                text="Exploration (table sub-claim exhaustive): every embedded table entry is compared with (j+1)*256^i*G computed independently; ScalarBaseMult, ScalarMult(s,G), the variable-time generator multiply and private-to-public key derivation are compared with the model for all 32x256 single-byte scalars, zero bytes/nibbles in every position, special values and random scalars, in both lookup implementations. Also: a 32-bit build (GOARCH=386), cold-start children (each entry point as the first library call of a process), keys built through the scalar constructor and used by other API calls before the check.",
                ref="DESIGN.md section 5 C05"),
    "C16": dict(tech="runtime reference-model monitor of MultiScalarMult[Vartime] and DoubleScalarMultBasepointVartime with structured inputs (cancelling pairs, duplicates, receiver among inputs)",
                text="Exploration: list lengths 0..40 with zero scalars, identity points, duplicated and mutually inverse points/scalars, partial sums through the identity, the receiver appearing among the inputs (also several times) and non-trivial representatives; mismatched lengths must panic and leave the receiver intact. Also: list lengths 31..300 around powers of two, the generator repeated in a list, shorter calls after longer ones, cold-start children.",
                ref="DESIGN.md section 5 C16"),
}

# additions of validation round 5 (DESIGN.md 10.4 a5), appended to the level text of the check
ROUND5 = {
    "C01": "Also: wide strings whose 64-bit words resonate with the reduction constant 2^256 mod p; Equal/IsZero operands whose stored forms differ in one limb holding a word with related 32-bit halves.",
    "C02": "Also: every limb independently below / equal / above the limb of (n-1)/2 (also cut to 128 bits); half-word-structured distances to (n-1)/2.",
    "C04": "Also: halves built from structured limbs (zero / all-ones limb, limbs next to those of (n-1)/2), per-limb relations to the half order, scalars around 2^128 and around 2^383/g, 2^384/g; a degenerate process-wide system entropy stream.",
    "C05": "Also: children started under 32 different GOMAXPROCS values, one of which runs every single-byte scalar through both fixed-base entry points and is compared with the reference table; Public() as the first accessor of a fresh key; a degenerate system entropy stream.",
    "C06": "Also: valid encodings re-cut (prefix dropped or doubled, front/back removed or extended, wrong prefix for the length) and wrapped in DER OCTET STRING / BIT STRING / SEQUENCE.",
    "C07": "Also: undefined encoding selectors that are negative or truncate to a defined one, with every wire form of the signature.",
    "C08": "Also: the full matrix of 20 hash selectors x 20 digest lengths x SelfVerify x options form (signed iff the length is exactly the size of the selected hash).",
    "C09": "Also: readers that scribble over the spare capacity behind the requested bytes, and readers that change the caller's digest buffer during the read (one nonce must never sign two digests).",
    "C10": "Also: ECDH, key derivation and ScalarMult under a never-failing but degenerate crypto/rand.Reader (zeros, ones, p, n, patterns); DER-wrapped points.",
    "C11": "Also: valid signatures whose recovery multipliers u2 = s/r and u1 = -e/r are steered into the GLV windows.",
    "C12": "Also: 16 identifiers of the EC / X9 family as algorithm OID, the point inside another DER wrapper.",
    "C13": "Also: the verifying key object built through every constructor from either lift of x.",
    "C14": "Also: signing under a degenerate system entropy stream.",
    "C15": "Also: uniform strings whose words resonate with the reduction constant (a 2^-32 carry of a 48-byte fast path).",
    "C16": "Also: list-wide scalar families (equal, small, digit-poor, single digit) on lists up to 300; mismatched lengths as fronts of longer backing arrays.",
    "C17": "Also, below the source level: the production build of the same operation table is single-stepped with ptrace; the program-counter sequence of every traced call (library, standard library, harness closure; Go runtime stepped over, morestack detours cut out) must be identical for all secrets of one operation and published-output shape - quick: predicates, selects, key Equal, decoders for ~100 secrets including secrets whose stored limbs agree with the compared operand on 1..3 limbs, one encoder; thorough: the expensive operations for 2..8 secrets each.",
    "C18": "Also: the receiver placed deep inside long operand lists (64, 65, the end); RecoverPublicKey as a constructor (identity, bad id, r = 0, s = 0).",
    "C19": "Also: word-level predicates on values with related 32-bit halves, compared across the amd64 and 386 builds.",
    "C20": "Also: input churn - 16 goroutines decoding from a sliding window over 96 distinct inputs through five entry points, every result compared with the reference model.",
}

# additions of validation round 6 (DESIGN.md 10.4 a6)
CONC = ("a concurrent phase in the production build (16 goroutines call a recurring set of operations and a long list of distinct inputs back to back, every result compared with "
        "reference-model values computed beforehand; long-lived objects used throughout), fresh processes in which 8..64 goroutines make the FIRST library calls at the same instant, "
        "and - on a tree whose library synchronises at all - the same phases in a build that yields after every synchronisation operation (mechanically placed failpoints)")
ROUND6 = {
    "C02": "Also: vectors whose STORED residues sum to a value next to a multiple of 2^256 or of n, or inside [h*n + 2^256, (h+1)*2^256); Sum/Product after a recovered panic (nil entry).",
    "C03": "Also: " + CONC + " - for the observers of distinct points.",
    "C04": "Also: " + CONC + " - for ScalarMult and the variable-time GLV multiply on distinct points.",
    "C05": "Also: " + CONC + "; short sequences of different operations as the first calls of a fresh process (which entry point initialises shared state first).",
    "C06": "Also: " + CONC + " - decoders with a long churn of distinct inputs; sequences presented through ONE reused buffer (same buffer, new contents), earlier results re-read afterwards.",
    "C07": "Also: the verifier's hash selector x digest length matrix over all 19 hash identifiers; key objects recovered, kept while more keys are recovered, then used; " + CONC + " - with more recurring keys than a small cache holds.",
    "C08": "Also: fault-then-use - entropy reads that fail or panic (recovered) at any offset, then the same key signing sequentially and on 8 goroutines at once, compared with signatures made before the faults; " + CONC + ".",
    "C09": "Also: the deterministic generator read into ONE buffer that the caller wipes / overwrites after every read; fault-then-use as C08.",
    "C10": "Also: " + CONC + " - ECDH with 72 recurring peers; same-buffer-new-contents sequences for the key constructors.",
    "C11": "Also: signatures made by the library's own signer (emitted id recovers the signer, no other id does), in every build configuration; " + CONC + ".",
    "C12": "Also: surplus data of 256, 512, 65536 (+-1) bytes after or inside every structure; same-buffer-new-contents sequences for every parser; " + CONC + " (first use: ASN1Bytes / ParseASN1PublicKey).",
    "C13": "Also: points whose stored coordinates or curve-equation sides are tiny (the Montgomery final-subtraction window at the point level); " + CONC + " - key objects imported before a churn of 2600 other imports and used afterwards.",
    "C14": "Also: fault-then-use as C08 for BIP-340 signing (a pooled hash state that absorbed half an entropy block shows only in the NEXT signature); " + CONC + ".",
    "C15": "Also: " + CONC + " - distinct tags, several of them oversize.",
    "C16": "Also: " + CONC + " - double- and multi-scalar multiplication on distinct points per goroutine.",
    "C17": "Also: lists of 300 / 520 / 1030 secret scalars (source-level monitor); the lookup routines under valgrind's lackey in one process (the accesses that really happen - masked vector loads count lane by lane - must not depend on the index); all three assembly-level tracers also run in every discovered build configuration (GOAMD64 levels).",
    "C18": "Also: lists of 256..1025 terms with the receiver at 256, 257, 512, the end; same-buffer-new-contents sequences; " + CONC + ".",
    "C19": "Also: every discovered build configuration (GOAMD64=v2/v3/v4 when they select other files) joins the cross-build transcript comparison; " + CONC + ".",
    "C20": "Also: the recovery operation keeps its four candidate keys and uses them afterwards, against the model; fault-then-use (aborted Schnorr / ECDSA signatures, then concurrent signing).",
}
DISCOVERY = ("Build configurations are not a fixed list: bin/check asks the go tool which library files each candidate configuration selects (GOAMD64=v2/v3/v4, no cgo, the race tag, GO386=softfloat, "
             "every non-platform build tag the library's own constraints mention) and runs the check in each configuration that selects files no other one builds.")

# additions of validation round 8 (DESIGN.md 10.4 a8)
OWN = ("ownership monitors (single goroutine): the same deterministic call repeated on one long-lived object after the caller destroyed in place everything the earlier calls returned, "
       "and one address holding successive values (`*p = *q`) between calls")
ROUND8 = {
    "C01": "Also: a concurrent phase in the production build (and, when the library synchronises, the yield build) - 16 goroutines compute inverse / roots / ratio roots / products / wide reductions of a hot set of four operands against precomputed model values.",
    "C02": "Also: the same concurrent phase for scalars (inverse, product, Sum/Product, reducing decode, half-order test on a hot operand set).",
    "C03": "Also: the in-place setters (Identity, SetBytes of the identity encoding, Generator, the three decoders) applied to registers with a past inside the drift histories; panic-then-use (a recovered panic of an uninitialised / nil operand, then valid calls against the model).",
    "C04": "Also: panic-then-use for every variable-base entry point; " + OWN + ".",
    "C05": "Also: panic-then-use (DoubleScalarMultBasepointVartime abandoned after the generator half, then valid calls).",
    "C06": "Also: " + OWN + ".",
    "C07": "Also: " + OWN + ".",
    "C08": "Also: " + OWN + " (RFC 6979 and fixed-entropy SignRaw, every wire form).",
    "C09": "Also: the same 32 entropy bytes through the standard library's reader types (*bytes.Reader, *bytes.Buffer, *strings.Reader, *bufio.Reader, LimitedReader, MultiReader, SectionReader, TeeReader, pipe, *os.File, iotest wrappers) and through a reader offering every optional io interface - same signature, exactly 32 bytes gone; the scripted system reader passed explicitly as `rand`; every key object of the harness is built from a buffer that is overwritten afterwards.",
    "C10": "Also: " + OWN + " (ECDH through one peer pointer whose pointee is replaced by value).",
    "C11": "Also: " + OWN + ".",
    "C13": "Also: PreHashSchnorrMessage on names related to the tags BIP-340 itself uses (equal, NUL / space suffixed, truncated), in process and as the first call of cold-start sequences; " + OWN + ".",
    "C14": "Also: the standard reader types as the randomness source; " + OWN + ".",
    "C15": "Also: repeated hashing after the caller destroyed the returned points.",
    "C16": "Also: panic-then-use (a list with an uninitialised / nil entry at a chosen position or mismatched lengths, recovered, then shorter / equal / longer valid calls); " + OWN + ".",
    "C17": "Also: every operation traced once more right after the SAME operation on a fixed secret that is itself among the secrets (a memo consulted by comparing with the previous secret takes another path exactly then), and right after recovered panics of the variable-time and multi-scalar entry points on public values (what an abandoned call leaves in shared scratch must not change how the secret is processed). A trace difference is only reported if it reproduces after every pending finalizer has run and with the collector switched off (the block counters are process-wide; asynchronous work of the library is not a dependence on the secret).",
    "C18": "Also: 8 goroutines make the simultaneous FIRST accessor calls on fresh key / point / scalar objects (700 rounds quick), then overwrite what they were given, then the accessors are read again; panic-then-use.",
    "C19": "Also: the cross-build transcript uses receivers with a past (zero value, identity, generator, earlier results).",
    "C20": "Also: hash-to-curve tags composed in a private buffer that each goroutine reuses, against the reference model; the callers overwrite the results of the concurrent first accessor calls and read again.",
}
DISCOVERY8 = ("Run-time dispatch is discovered the same way (nothing of it on the pinned tree): when the library reads an environment variable the check runs again with the variable set to 1 / 0 / true / off and to the "
              "string literals of the file that reads it; when it asks for GOMAXPROCS / NumCPU, on 1, 3, 6 and 7 CPUs; when it uses finalizers, cleanups or weak pointers, under back-to-back collections; when it has more unsafe pointer "
              "operations than the pinned tree's single cast, with -d=checkptr; when a file is constrained to a Go release newer than the default toolchain, with go1.26.8.")

# additions of validation round 10 (DESIGN.md 10.4 a10)
FIRSTUSE = ("8 goroutines make the simultaneous FIRST calls of every accessor and operation on fresh key objects (250 rounds quick; the goroutines start at the same accessor, another one every round), "
            "a panic in any of them is a violation, the results are then overwritten by their owners and the accessors read again")
ROUND10 = {
    "C01": "Also: wide strings whose once-folded value hi*c + lo lands on a carry boundary of the second fold (just below / above 2^256, or above it by 2^64k - [1, c]); GOARCH=386 in the quick tier.",
    "C02": "Also: GOARCH=386 in the quick tier.",
    "C03": "Also: GOARCH=386 in the quick tier.",
    "C04": "Also: GOARCH=386 in the quick tier.",
    "C05": "Also: " + FIRSTUSE + ".",
    "C06": "Also: aliases x+p and y+p of VALID coordinates drawn from the whole gap [0, 2^256-p) with classes after the limbs of p (around 977, 2^32, 2^32+976, powers of two), in every decoder and constructor.",
    "C07": "Also: " + FIRSTUSE + ".",
    "C08": "Also: " + FIRSTUSE + ".",
    "C10": "Also: " + FIRSTUSE + "; the point / scalar / buffer passed to a constructor is destroyed by the caller afterwards and the key checked again; coordinate aliases from the whole gap (as C06).",
    "C11": "Also: " + FIRSTUSE + ".",
    "C12": "Also: BIP-66 strings cut anywhere with the outer length made consistent and the last byte a boundary value; every S-length octet 0..255 with 0..2 bytes of S present.",
    "C13": "Also: " + FIRSTUSE + "; x-only keys x+p for x from the whole gap.",
    "C14": "Also: " + FIRSTUSE + "; the point passed to NewSchnorrPublicKeyFromPoint is destroyed by the caller afterwards and the key checked again.",
    "C16": "Also: GOARCH=386 in the quick tier.",
}

PENDING_REASON = "not claimed yet: monitor under construction in this round (the technique applies; see DESIGN.md section 5)"


def main():
    props = [json.loads(l) for l in open(os.path.join(VERIF, "properties.jsonl"))]
    try:
        commits = subprocess.run(["git", "-C", "/repo", "log", "--format=%H %s", "--grep=^verif hooks"], capture_output=True, text=True).stdout.split("\n")
        commits = [c.split()[0] for c in commits if c.strip()]
    except Exception:
        commits = []
    extra = {}
    p = os.path.join(VERIF, "bin", "manifest_extra.json")
    if os.path.exists(p):
        extra = json.load(open(p))
    CHECKS.update(extra.get("checks", {}))
    for pid, add in ROUND5.items():
        if pid in CHECKS and add not in CHECKS[pid]["text"]:
            CHECKS[pid] = dict(CHECKS[pid], text=CHECKS[pid]["text"] + " " + add)
    for pid, add in ROUND6.items():
        if pid in CHECKS and add not in CHECKS[pid]["text"]:
            CHECKS[pid] = dict(CHECKS[pid], text=CHECKS[pid]["text"] + " " + add)
    for pid, add in ROUND8.items():
        if pid in CHECKS and add not in CHECKS[pid]["text"]:
            CHECKS[pid] = dict(CHECKS[pid], text=CHECKS[pid]["text"] + " " + add)
    for pid, add in ROUND10.items():
        if pid in CHECKS and add not in CHECKS[pid]["text"]:
            CHECKS[pid] = dict(CHECKS[pid], text=CHECKS[pid]["text"] + " " + add)
    for pid in ("C05", "C07", "C08", "C10", "C11", "C13", "C14"):
        if pid in CHECKS and "concurrent first use" not in CHECKS[pid]["tech"]:
            CHECKS[pid] = dict(CHECKS[pid], tech=CHECKS[pid]["tech"] + "; concurrent first use of fresh objects from barrier-released goroutines against a sequential twin")
    for pid in ("C01", "C02"):
        if pid in CHECKS and "concurrent replay" not in CHECKS[pid]["tech"]:
            CHECKS[pid] = dict(CHECKS[pid], tech=CHECKS[pid]["tech"] + "; concurrent replay of a hot operand set against precomputed model results (plain and yield-instrumented builds)")
    for pid in ("C03", "C04", "C05", "C16", "C18"):
        if pid in CHECKS and "panic-then-use" not in CHECKS[pid]["tech"]:
            CHECKS[pid] = dict(CHECKS[pid], tech=CHECKS[pid]["tech"] + "; panic-then-use fault injection at the API boundary (recovered panic, then valid calls against the model)")
    for pid in ("C04", "C06", "C07", "C08", "C10", "C11", "C13", "C14", "C15", "C16"):
        if pid in CHECKS and "ownership" not in CHECKS[pid]["tech"]:
            CHECKS[pid] = dict(CHECKS[pid], tech=CHECKS[pid]["tech"] + "; ownership monitors (results destroyed by the caller between repeated calls; successive values at one address)")
    for pid in CHECKS:
        if DISCOVERY8 not in CHECKS[pid]["text"] and DISCOVERY in CHECKS[pid]["text"]:
            CHECKS[pid] = dict(CHECKS[pid], text=CHECKS[pid]["text"].replace(DISCOVERY, DISCOVERY + " " + DISCOVERY8))
    for pid in CHECKS:
        if DISCOVERY not in CHECKS[pid]["text"]:
            CHECKS[pid] = dict(CHECKS[pid], text=CHECKS[pid]["text"] + " " + DISCOVERY + " " + DISCOVERY8)
        if pid in ROUND6 and "concurrent phase" in ROUND6[pid] and "concurrent replay" not in CHECKS[pid]["tech"]:
            CHECKS[pid] = dict(CHECKS[pid], tech=CHECKS[pid]["tech"] + "; concurrent replay against precomputed model results (plain and yield-instrumented builds), concurrent cold start in fresh processes")
    if "C17" in CHECKS and "lackey" not in CHECKS["C17"]["tech"]:
        CHECKS["C17"] = dict(CHECKS["C17"], tech=CHECKS["C17"]["tech"] + "; valgrind lackey access trace of the assembly lookups")
    if "C17" in CHECKS and "ptrace" not in CHECKS["C17"]["tech"]:
        CHECKS["C17"] = dict(CHECKS["C17"], tech=CHECKS["C17"]["tech"] + "; instruction-level trace equivalence of the production build under a ptrace single-stepper (program-counter sequence of every traced call, runtime internals stepped over)")
    checks, na = [], []
    for pr in props:
        pid = pr["id"]
        if pid in CHECKS:
            c = CHECKS[pid]
            checks.append(dict(
                property_id=pid,
                quick_cmd="bin/check %s quick" % pid,
                thorough_cmd="bin/check %s thorough" % pid,
                evidence_file="evidence/%s.json" % pid,
                replay_cmd_template="bin/check --replay {path}",
                engine="verifrun",
                level_claimed=dict(category="exploration", text=c["text"], design_ref=c["ref"]),
                level_note=c.get("note", ORACLE_NOTE),
                technique=c["tech"]))
        else:
            na.append(dict(property_id=pid, reason=extra.get("na", {}).get(pid, PENDING_REASON)))
    man = dict(
        version=1,
        setup_cmd="bin/setup",
        hooks=dict(
            guard="verif",
            enable="go build -tags verif,verif_fiat,verif_swu,verif_mul,verif_secec,verif_btc,verif_btcparse,verif_h2c (bin/check drops a group tag automatically when that group's hooks do not build on the tree under test)",
            baseline_off_cmd="cd /repo && go test -vet=off -count=1 -timeout 25m ./...",
            source_commits=commits,
            add_only=True),
        engines=[dict(name="verifrun", path="harness/cmd/verifrun", serves_properties=sorted(CHECKS),
                      kind_free_text="Go runtime monitors: independent reference model consulted on every observed call, invariant hooks on raw state, steered/hostile operand generators, race detector, instrumented trace equivalence; driver bin/check runs one child process per build configuration (asm, purego, race)")],
        checks=checks,
        not_applicable=na,
        notes="Family of technique: runtime monitoring and sanitizers. Exit codes of every check: 0 held on everything observed, 1 violation (VIOLATION line + replay file), 2 inconclusive. VERIF_SEED selects the deterministic case list.")
    json.dump(man, open(os.path.join(VERIF, "MANIFEST.json"), "w"), indent=1)
    print("checks:", [c["property_id"] for c in checks], "na:", len(na))


if __name__ == "__main__":
    main()
