"""Property-specific driver extras: C19 cross-build transcript diff, C20
race-detector batches and report parsing, C17 instrumented builds."""
import glob, hashlib, json, os, re, subprocess

C20_BATCHES = dict(quick=4, thorough=24)


def children(prop, tier, configs, tmp):
    out = []
    for c in configs:
        if prop == "C19":
            out.append(dict(config=c, label=c, args=[], env={"VERIF_TRANSCRIPT": os.path.join(tmp, "transcript-%s.txt" % c)}))
            if c == "asm":
                # the same binary with run-time CPU feature detection switched off: an implementation that is
                # chosen at run time (internal/cpu, x/sys/cpu) rather than by a build constraint takes its other path
                out.append(dict(config=c, label="asm-cpuoff", args=[], env={"VERIF_TRANSCRIPT": os.path.join(tmp, "transcript-asm-cpuoff.txt"),
                                                                           "GODEBUG": "cpu.all=off"}))
        elif prop == "C20":
            for k in range(C20_BATCHES[tier]):
                lab = "%s-batch%d" % (c, k)
                out.append(dict(config=c, label=lab, args=[], env={
                    "VERIF_BATCH": str(k),
                    "GORACE": "halt_on_error=0 history_size=5 log_path=%s" % os.path.join(tmp, "racelog-" + lab)}))
        elif prop == "C17":
            out.append(dict(config=c, label=c, args=["-workers", "1"], env={"GODEBUG": "asyncpreemptoff=1", "VERIF_ASMTRACE_DIR": tmp}))
        else:
            out.append(dict(config=c, label=c, args=[], env={}))
    return out


def make_instr_overlays(tmp, configs, overlay, ENV, HARNESS, REPO, log):
    import instr
    return instr.make_overlays(tmp, configs, overlay, ENV, HARNESS, REPO, log)


def _race_reports(tmp, label):
    reports = []
    for f in sorted(glob.glob(os.path.join(tmp, "racelog-" + label + "*"))):
        txt = open(f, errors="replace").read()
        for block in txt.split("=================="):
            if "WARNING: DATA RACE" in block:
                reports.append(block.strip())
    return reports


def _race_key(block):
    # outermost library frames of the two conflicting accesses, line numbers stripped
    frames = re.findall(r"^\s+(gitlab\.com/yawning/secp256k1-voi\S*?)\(\)\s*$", block, re.M)
    frames = [re.sub(r"\.func\d+(\.\d+)*$", "", f) for f in frames]
    uniq = []
    for f in frames:
        if f not in uniq:
            uniq.append(f)
    return "|".join(uniq[:4]) or hashlib.sha256(block.encode()).hexdigest()[:12]


def post(prop, tier, seed, tmp, bins, results, notes, log, ENV, VERIF, REPLAYS=None):
    REPLAYS = REPLAYS or os.path.join(VERIF, "replays")
    if prop == "C19":
        files = {r["label"]: os.path.join(tmp, "transcript-%s.txt" % r["label"]) for r in results}
        base = files.get("asm")
        for cfg, f in files.items():
            if cfg == "asm" or not base or not os.path.exists(base) or not os.path.exists(f):
                continue
            a, b = [x for x in open(base).read().split("\n") if x], [x for x in open(f).read().split("\n") if x]
            # the configurations may run different volumes (race and 386 run a fraction): call #i is
            # the same call in every build, so the common prefix is what can be compared
            n = min(len(a), len(b))
            diff = next((i for i in range(n) if a[i] != b[i]), None)
            if n == 0:
                diff = 0
            for r in results:
                if r["label"] == cfg and r["partial"]:
                    r["partial"].setdefault("extras", {})["transcript_lines_compared_with_asm"] = n
                    r["partial"]["classes"]["c19:transcript:lines-compared-asm-vs-" + cfg] = n
            if diff is not None:
                os.makedirs(REPLAYS, exist_ok=True)
                path = os.path.join(REPLAYS, "C19-transcript-%s-vs-asm-%d.json" % (cfg, diff))
                json.dump(dict(property="C19", config=cfg, monitor="process-crash", exit="transcript-diff",
                               cmd=["bin/check", "C19"], log_tail="first differing call #%d\nasm   : %s\n%-6s: %s" % (
                                   diff, a[diff] if diff < len(a) else "<missing>", cfg, b[diff] if diff < len(b) else "<missing>")), open(path, "w"), indent=1)
                for r in results:
                    if r["label"] == cfg:
                        r.setdefault("extra_stdout", []).append("VIOLATION property=C19 replay=%s" % path)
                        r["extra_stdout"].append("  asm and %s builds disagree at call #%d of the seeded transcript" % (cfg, diff))
                        if r["partial"]:
                            r["partial"]["violations"] += 1
                        r["rc"] = 1
    if prop == "C20":
        seen = {}
        total = 0
        for r in results:
            reps = _race_reports(tmp, r["label"])
            total += len(reps)
            if r["partial"]:
                r["partial"]["classes"]["c20:race-reports"] = len(reps)
            for block in reps:
                k = _race_key(block)
                if k in seen:
                    continue
                seen[k] = block
                os.makedirs(REPLAYS, exist_ok=True)
                path = os.path.join(REPLAYS, "C20-race-%s.json" % hashlib.sha256(k.encode()).hexdigest()[:12])
                json.dump(dict(property="C20", config=r["config"], monitor="process-crash", exit="data-race", key=k,
                               cmd=r["cmd"], log_tail=block[:6000]), open(path, "w"), indent=1)
                r.setdefault("extra_stdout", []).append("VIOLATION property=C20 replay=%s" % path)
                r["extra_stdout"].append("  data race reported by the Go race detector: " + k)
                if r["partial"]:
                    r["partial"]["violations"] += 1
                r["rc"] = 1
        notes.append("race detector reports: %d (distinct by outermost library frames: %d)" % (total, len(seen)))
    if prop in ("C17", "C19") and any(r["config"] in ("asm", "instr-asm") for r in results):
        import asmtrace
        HARNESS = os.path.join(VERIF, "harness")
        overlay = os.environ.get("VERIF_OVERLAY") or None
        base_cfg = "instr-asm" if prop == "C17" else "asm"
        # the tracers observe the PRODUCTION build of one configuration: the assembly build, and every
        # discovered configuration that builds other assembly / other files (GOAMD64 levels, custom tags)
        targets = [(base_cfg, ENV, [])]
        for c in bins:
            if "dyn-" in c and "purego" not in c and "yield" not in c and "386" not in c and any(r["config"] == c for r in results):
                xe, xt = dyn_env(c)
                e = dict(ENV)
                e.update(xe)
                targets.append((c, e, xt))
        rounds = 2 if tier == "quick" else 12
        for cfg, env, xtags in targets:
            sub = os.path.join(tmp, "trace-" + re.sub(r"[^\w.-]", "_", cfg))
            os.makedirs(sub, exist_ok=True)
            res = asmtrace.run(sub, seed, rounds, env, HARNESS, overlay, log)
            log("asm trace [%s]: %s%s" % (cfg, json.dumps(res["summary"]), (" INCONCLUSIVE: " + res["inconclusive"]) if res["inconclusive"] else ""))
            asmtrace.apply(prop, res, results, cfg, notes, REPLAYS, seed)
        if prop == "C17":
            import cttrace, vgtrace
            from concurrent.futures import ThreadPoolExecutor
            jobs = []
            with ThreadPoolExecutor(max_workers=2) as ex:
                for cfg, env, xtags in targets:
                    sub = os.path.join(tmp, "trace-" + re.sub(r"[^\w.-]", "_", cfg))
                    tags = next((t for c, (b, t) in bins.items() if c == cfg), ["verif"]) + xtags
                    if cfg == base_cfg:
                        jobs.append(("ct", cfg, ex.submit(cttrace.run, sub, seed, tier, env, HARNESS, overlay, tags, log)))
                    jobs.append(("vg", cfg, ex.submit(vgtrace.run, sub, seed, tier, env, HARNESS, overlay, log)))
                for kind, cfg, fut in jobs:
                    res = fut.result()
                    s = res["summary"]
                    if kind == "ct":
                        log("instruction trace [%s]: regions=%s instructions=%s operations=%s%s" % (cfg, s.get("regions"), s.get("instructions_stepped"), s.get("operations"),
                                                                                                    (" INCONCLUSIVE: " + res["inconclusive"]) if res["inconclusive"] else ""))
                        cttrace.apply(prop, res, results, cfg, notes, REPLAYS, seed, tier)
                    else:
                        log("valgrind access trace [%s]: %s%s" % (cfg, json.dumps(s), (" INCONCLUSIVE: " + res["inconclusive"]) if res["inconclusive"] else ""))
                        vgtrace.apply(prop, res, results, cfg, notes, REPLAYS, seed, tier)


def dyn_env(config):
    """environment / extra tags of a discovered configuration, from its name (bin/check: discover_configs)"""
    m = re.search(r"dyn-([\w.]+)", config)
    name = m.group(1) if m else ""
    if name.startswith("env."):
        try:
            return dict(json.loads(os.environ.get("VERIF_DYNENV", "{}")).get("dyn-" + name, {})), []
        except ValueError:
            return {}, []
    if name.startswith("cpuoff."):
        gd = {"all": "cpu.all=off", "avx": "cpu.avx2=off,cpu.avx=off,cpu.avx512f=off,cpu.bmi2=off,cpu.adx=off,cpu.fma=off"}.get(name[7:], "cpu.all=off")
        return dict(VERIF_GODEBUG_EXTRA=gd), []
    if name.startswith("amd64v"):
        return dict(GOAMD64="v" + name[6:]), []
    if name == "nocgo":
        return dict(CGO_ENABLED="0"), []
    if name.startswith("tag."):
        t = name[4:]
        if t.endswith(".purego"):
            return {}, [t[:-7], "purego"]
        return {}, [t]
    return {}, []


def adjust_rc(prop, rc, results):
    if any(r["rc"] == 1 for r in results):
        return 1
    return rc
