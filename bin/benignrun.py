#!/usr/bin/env python3
"""False-alarm test: runs every check against the behaviour-preserving refactors under /verif/benign/<id>/
(patch.diff + meta.json, written by independent sub-agents that saw only the property texts).

  bin/benignrun.py [tier] [id-substring...]

For every refactor the patch is applied in a throw-away worktree, confirmed (build, default and purego
suites pass), handed to bin/check as an overlay, and all 20 checks are run.  Expected: no VIOLATION line and
exit 0 (held) or 2 (inconclusive - acceptable only where the refactor removed something a hook group needs
and the driver could not degrade).  Results: benign/<id>/results_<tier>.json.
"""
import json, os, shutil, subprocess, sys, tempfile, time
from concurrent.futures import ThreadPoolExecutor
sys.path.insert(0, os.path.dirname(os.path.abspath(__file__)))
import seedrun
from seedrun import VERIF, ENV, sh, Worktree, overlay_for

PROPS = os.environ.get("BENIGN_PROPS", "").split() or ["C%02d" % i for i in range(1, 21)]


def one(d, tier):
    tmp = tempfile.mkdtemp(prefix="verif-benign-")
    res = dict(confirm={}, checks={})
    try:
        with Worktree() as wt:
            rc, o = sh(["git", "-C", wt, "apply", os.path.join(d, "patch.diff")])
            if rc != 0:
                return dict(error="patch does not apply: " + o[-400:])
            rc, o = sh(["go", "test", "-vet=off", "-count=1", "-timeout", "25m", "./..."], cwd=wt)
            res["confirm"]["suite_passes"] = rc == 0
            rc2, o2 = sh(["go", "test", "-vet=off", "-count=1", "-timeout", "25m", "-tags", "purego", "./..."], cwd=wt)
            res["confirm"]["purego_suite_passes"] = rc2 == 0
            ov, files = overlay_for(wt, tmp)
            res["files"] = [os.path.relpath(f, "/repo") for f in files]
        if not (res["confirm"]["suite_passes"] and res["confirm"]["purego_suite_passes"]):
            res["error"] = "the refactor does not pass the repository suites; not a valid false-alarm probe"
            return res
        e = dict(ENV, VERIF_OVERLAY=ov, VERIF_EVIDENCE_DIR=os.path.join(tmp, "evidence"), VERIF_REPLAY_DIR=os.path.join(tmp, "replays"))
        for p in PROPS:
            t0 = time.time()
            rc, o = sh([os.path.join(VERIF, "bin", "check"), p, tier], cwd=VERIF, env=e, timeout=4 * 3600)
            viol = [l for l in o.splitlines() if l.startswith("VIOLATION")]
            detail = [l.strip() for l in o.splitlines() if l.startswith(("  monitor=", "INCONCLUSIVE", "[check] hook group", "[check] core hooks"))][:4]
            res["checks"][p] = dict(rc=rc, violation_lines=len(viol), wall_s=round(time.time() - t0, 1), detail=[x[:400] for x in detail])
    finally:
        shutil.rmtree(tmp, ignore_errors=True)
    return res


def main():
    a = sys.argv[1:]
    tier = a[0] if a else "quick"
    sel = a[1:]
    base = os.path.join(VERIF, "benign")
    dirs = sorted(os.path.join(base, x) for x in os.listdir(base) if os.path.exists(os.path.join(base, x, "patch.diff")))
    dirs = [d for d in dirs if not sel or any(s in os.path.basename(d) for s in sel)]

    def run(d):
        r = one(d, tier)
        json.dump(r, open(os.path.join(d, "results_%s.json" % tier), "w"), indent=1)
        return r
    bad = 0
    with ThreadPoolExecutor(max_workers=int(os.environ.get("SEED_JOBS", "3"))) as ex:
        for d, r in zip(dirs, ex.map(run, dirs)):
            name = os.path.basename(d)
            if "error" in r:
                print(name, "SKIPPED:", r["error"], flush=True)
                continue
            alarms = {p: v for p, v in r["checks"].items() if v["rc"] == 1 or v["violation_lines"]}
            inconcl = [p for p, v in r["checks"].items() if v["rc"] == 2]
            print(name, "FALSE ALARMS: %s" % sorted(alarms) if alarms else "silent", "| inconclusive:", inconcl, flush=True)
            for p, v in alarms.items():
                bad += 1
                print("   ", p, v["detail"][:2], flush=True)
    print("false alarms:", bad)
    return 1 if bad else 0


if __name__ == "__main__":
    sys.exit(main())
