"""Single-step trace monitor for the two SSE2 table-lookup routines
(point_mul_table_amd64.s).  The Go-level instrumentation of C17 cannot see
inside assembly, and neither can -race / checkptr, so the routines are run
under gdb: every instruction executed and the effective address of every
memory operand (relative to the table, the destination and the entry stack
pointer) is recorded for every index 0..15 and several table contents.

  C17: the trace (pc sequence and access pattern) must be the same for every
       index and table content;
  C19: every write must fall inside the coordinate bytes of the destination
       (96 resp. 64 bytes) and every read inside the table or the argument
       frame.
"""
import hashlib, json, os, subprocess

HERE = os.path.dirname(os.path.abspath(__file__))
SIZES = {"movdqu": 16, "movups": 16, "movupd": 16, "movdqa": 16, "movaps": 16, "movapd": 16, "lddqu": 16,
         "pand": 16, "por": 16, "pxor": 16, "pandn": 16, "pcmpeqd": 16, "pcmpeqb": 16, "pcmpeqw": 16, "pshufd": 16,
         "movd": 4, "movl": 4, "movb": 1, "movw": 2}
GEOM = {"projective": (0x68, 15, 96), "affine": (0x40, 15, 64)}


def _size(mnem):
    return SIZES.get(mnem, 8)


def run(tmp, seed, rounds, ENV, HARNESS, overlay, log):
    """-> dict(ok, inconclusive, summary, violations[list of str], witness)"""
    res = dict(inconclusive=None, violations=[], summary={}, witness=None)
    probe = os.path.join(tmp, "asmprobe")
    cmd = ["go", "build", "-o", probe, "-tags", "verif,verif_mul"]
    if overlay:
        cmd += ["-overlay", overlay]
    cmd.append("./cmd/asmprobe")
    r = subprocess.run(cmd, cwd=HARNESS, env=ENV, stdout=subprocess.PIPE, stderr=subprocess.STDOUT, text=True)
    if r.returncode != 0:
        res["inconclusive"] = "asmprobe does not build (hook group verif_mul unavailable on this tree?): " + r.stdout[-800:]
        return res
    out = os.path.join(tmp, "asmtrace.jsonl")
    e = dict(ENV, ASMTRACE_OUT=out, GODEBUG="asyncpreemptoff=1")
    try:
        g = subprocess.run(["gdb", "-q", "-batch", "-nx", "-x", os.path.join(HERE, "asmtrace_gdb.py"), "--args", probe, str(seed), str(rounds)],
                           env=e, stdout=subprocess.PIPE, stderr=subprocess.STDOUT, text=True, timeout=1200, cwd=tmp)
    except (OSError, subprocess.TimeoutExpired) as ex:
        res["inconclusive"] = "gdb could not be run: %s" % ex
        return res
    if not os.path.exists(out):
        res["inconclusive"] = "gdb produced no trace: " + g.stdout[-600:]
        return res
    calls = [json.loads(l) for l in open(out) if l.strip()]
    errs = [c["error"] for c in calls if "error" in c]
    calls = [c for c in calls if "error" not in c]
    if errs or not calls:
        res["inconclusive"] = "assembly routines not found in this build (%s); gdb: %s" % ("; ".join(errs), g.stdout[-300:])
        return res
    if "asmprobe done" not in g.stdout:
        res["inconclusive"] = "probe did not run to completion under gdb: " + g.stdout[-600:]
        return res
    return analyse(calls, rounds, res)


def analyse(calls, rounds, res):
    steps = 0
    for kind, (stride, nent, dsz) in GEOM.items():
        cs = [c for c in calls if c["kind"] == kind]
        idxs = sorted(set(c["idx"] for c in cs))
        fp = {}
        for c in cs:
            steps += c["steps"]
            if not c["returned"]:
                res["violations"].append("%s lookup, index %d: did not return within %d instructions" % (kind, c["idx"], c["steps"]))
                res["witness"] = res["witness"] or c
                continue
            h = hashlib.sha256(json.dumps(c["trace"]).encode()).hexdigest()[:16]
            fp.setdefault(h, []).append(c)
            written = set()
            for pcoff, mnem, mems in c["trace"]:
                for rw, name, off in mems:
                    sz = _size(mnem)
                    if rw == "W":
                        if name != "dst" or off < 0 or off + sz > dsz:
                            res["violations"].append("C19: %s lookup, index %d: instruction +%d (%s) writes %d bytes at %s%+d, outside the %d coordinate bytes of the destination" % (kind, c["idx"], pcoff, mnem, sz, name, off, dsz))
                            res["witness"] = res["witness"] or dict(kind=kind, idx=c["idx"], pc=pcoff, mnem=mnem, mem=[rw, name, off])
                        else:
                            written.update(range(off, off + sz))
                    else:
                        ok = (name == "tbl" and 0 <= off and off + sz <= stride * nent) or (name == "sp" and 0 <= off and off + sz <= 32) or (name == "dst" and 0 <= off and off + sz <= dsz)
                        if not ok:
                            res["violations"].append("C19: %s lookup, index %d: instruction +%d (%s) reads %d bytes at %s%+d, outside the table / argument frame" % (kind, c["idx"], pcoff, mnem, sz, name, off))
                            res["witness"] = res["witness"] or dict(kind=kind, idx=c["idx"], pc=pcoff, mnem=mnem, mem=[rw, name, off])
            if c["returned"] and written != set(range(dsz)):
                res["violations"].append("C19: %s lookup, index %d: wrote %d of the %d coordinate bytes" % (kind, c["idx"], len(written), dsz))
        if len(fp) > 1:
            groups = sorted(fp.values(), key=len, reverse=True)
            a, b = groups[0][0], groups[1][0]
            first = next((i for i in range(min(len(a["trace"]), len(b["trace"]))) if a["trace"][i] != b["trace"][i]), min(len(a["trace"]), len(b["trace"])))
            res["violations"].append("C17: %s lookup: %d distinct instruction/access traces over indices %s; index %d and index %d diverge at step %d (%s vs %s)" % (
                kind, len(fp), idxs, a["idx"], b["idx"], first,
                a["trace"][first] if first < len(a["trace"]) else "<end>", b["trace"][first] if first < len(b["trace"]) else "<end>"))
            res["witness"] = res["witness"] or dict(kind=kind, idx_a=a["idx"], idx_b=b["idx"], step=first)
        res["summary"][kind] = dict(calls=len(cs), indices=idxs, rounds=rounds, distinct_traces=len(fp),
                                    instructions_per_call=(cs[0]["steps"] if cs else 0),
                                    reads_per_call=sum(1 for t in (cs[0]["trace"] if cs else []) for m in t[2] if m[0] == "R"),
                                    writes_per_call=sum(1 for t in (cs[0]["trace"] if cs else []) for m in t[2] if m[0] == "W"))
        if idxs != list(range(16)):
            res["inconclusive"] = "%s lookup traced for indices %s only" % (kind, idxs)
    res["summary"]["instructions_stepped"] = steps
    return res


def apply(prop, res, results, config_prefix, notes, REPLAYS, seed):
    """Fold a run() result into the child results of bin/check for property prop
    (only the violations that belong to prop are reported)."""
    tgt = next((r for r in results if r["config"].startswith(config_prefix) and "purego" not in r["config"]), None)
    mine = [v for v in res["violations"] if v.startswith(prop + ":") or not v.startswith(("C17:", "C19:"))]
    if tgt is None:
        return
    p = tgt["partial"]
    if p is None:
        # the Go-level child died (e.g. a guard-page fault): keep the trace verdict anyway
        p = dict(classes={}, evaluations=0, distinct_nontrivial=0, violations=0)
    p.setdefault("extras", {})["asm_trace"] = res["summary"]
    if res["inconclusive"]:
        p.setdefault("inconclusive", []).append("assembly single-step trace: " + res["inconclusive"])
        tgt.setdefault("extra_stdout", []).append("INCONCLUSIVE property=%s: assembly single-step trace: %s" % (prop, res["inconclusive"][:300]))
        if tgt["rc"] == 0:
            tgt["rc"] = 2
        return
    ncalls = sum(v["calls"] for k, v in res["summary"].items() if isinstance(v, dict))
    p["classes"]["%s:asm-trace:calls-single-stepped" % prop.lower()] = ncalls
    p["classes"]["%s:asm-trace:instructions-stepped" % prop.lower()] = res["summary"].get("instructions_stepped", 0)
    p["evaluations"] += ncalls
    p["distinct_nontrivial"] += ncalls
    p.setdefault("evaluations_per_monitor", {})["%s/asm-trace" % prop.lower()] = ncalls
    if mine:
        os.makedirs(REPLAYS, exist_ok=True)
        path = os.path.join(REPLAYS, "%s-asmtrace-%s.json" % (prop, hashlib.sha256(mine[0].encode()).hexdigest()[:12]))
        json.dump(dict(property=prop, config=tgt["config"], monitor="process-crash", exit="asm-trace",
                       cmd=["bin/check", prop, "quick"], seed=seed, witness=res["witness"], log_tail="\n".join(mine[:20])), open(path, "w"), indent=1)
        tgt.setdefault("extra_stdout", []).append("VIOLATION property=%s replay=%s" % (prop, path))
        for v in mine[:5]:
            tgt["extra_stdout"].append("  monitor=%s/asm-trace %s" % (prop.lower(), v))
        p["violations"] += len(mine)
        tgt["rc"] = 1
