"""Single-step trace monitor for the two SSE2 table-lookup routines
(point_mul_table_amd64.s).  The Go-level instrumentation of C17 cannot see
inside assembly, and neither can -race / checkptr, so the routines are run
under gdb: every instruction executed and the effective address of every
memory operand (relative to the table, the destination and the entry stack
pointer) is recorded for every index 0..15 and several table contents.

  C17: the trace (pc sequence and access pattern) must be the same for every
       index and table content;
  C19: every write must fall inside the coordinate bytes of the destination
       (96 resp. 64 bytes) and every read inside the table or the argument
       frame.
"""
import hashlib, json, os, subprocess

HERE = os.path.dirname(os.path.abspath(__file__))
SIZES = {"movdqu": 16, "movups": 16, "movupd": 16, "movdqa": 16, "movaps": 16, "movapd": 16, "lddqu": 16,
         "pand": 16, "por": 16, "pxor": 16, "pandn": 16, "pcmpeqd": 16, "pcmpeqb": 16, "pcmpeqw": 16, "pshufd": 16,
         "movd": 4, "movl": 4, "movb": 1, "movw": 2}
GEOM = {"projective": (0x68, 15, 96), "affine": (0x40, 15, 64)}


def _size(mnem):
    return SIZES.get(mnem, 8)


def _build(tmp, ENV, HARNESS, overlay, name, pkg, tags):
    probe = os.path.join(tmp, name)
    cmd = ["go", "build", "-o", probe]
    if tags:
        cmd += ["-tags", tags]
    if overlay:
        cmd += ["-overlay", overlay]
    cmd.append(pkg)
    r = subprocess.run(cmd, cwd=HARNESS, env=ENV, stdout=subprocess.PIPE, stderr=subprocess.STDOUT, text=True)
    return (probe if r.returncode == 0 else None), r.stdout


def run(tmp, seed, rounds, ENV, HARNESS, overlay, log):
    """-> dict(inconclusive, summary, violations[list of str], witness)"""
    res = dict(inconclusive=None, violations=[], summary={}, witness=None)
    probe, out1 = _build(tmp, ENV, HARNESS, overlay, "asmprobe", "./cmd/asmprobe", "verif,verif_mul")
    mode = "hooks (caller-built padded tables, chosen index)"
    if probe is None:
        # the hook group does not build on this tree (renamed / re-typed internals):
        # drive the same routines through the public API instead
        probe, out2 = _build(tmp, ENV, HARNESS, overlay, "asmprobepub", "./cmd/asmprobepub", "")
        mode = "public API (ScalarMult / ScalarBaseMult), hook group verif_mul unavailable"
        if probe is None:
            res["inconclusive"] = "neither probe builds: " + out1[-400:] + " / " + out2[-400:]
            return res
    res["summary"]["probe"] = mode
    out = os.path.join(tmp, "asmtrace.jsonl")
    e = dict(ENV, ASMTRACE_OUT=out, ASMTRACE_PER_INDEX=str(rounds), GODEBUG="asyncpreemptoff=1" + ("," + ENV["VERIF_GODEBUG_EXTRA"] if ENV.get("VERIF_GODEBUG_EXTRA") else ""))
    try:
        g = subprocess.run(["gdb", "-q", "-batch", "-nx", "-x", os.path.join(HERE, "asmtrace_gdb.py"), "--args", probe, str(seed), str(rounds)],
                           env=e, stdout=subprocess.PIPE, stderr=subprocess.STDOUT, text=True, timeout=2400, cwd=tmp)
    except (OSError, subprocess.TimeoutExpired) as ex:
        res["inconclusive"] = "gdb could not be run: %s" % ex
        return res
    if not os.path.exists(out):
        res["inconclusive"] = "gdb produced no trace: " + g.stdout[-600:]
        return res
    calls = [json.loads(l) for l in open(out) if l.strip()]
    errs = [c["error"] for c in calls if "error" in c]
    calls = [c for c in calls if "error" not in c]
    if errs or not calls:
        res["inconclusive"] = "assembly lookup routines not present under their expected names in this build (%s)" % ("; ".join(errs) or g.stdout[-300:])
        return res
    if "asmprobe done" not in g.stdout:
        res["inconclusive"] = "probe did not run to completion under gdb: " + g.stdout[-600:]
        return res
    return analyse(calls, rounds, res)


def _positions(c, dsz):
    """argument POSITIONS (idx, tbl, dst) inferred from one call, or None"""
    args = c["args"]
    small = [i for i, a in enumerate(args) if a < 4096]
    if len(small) != 1:
        return None
    ptrs = [i for i in range(3) if i != small[0]]
    writes = [a for t in c["trace"] for rw, a in t[2] if rw == "W"]
    cand = [i for i in ptrs if any(args[i] <= a < args[i] + dsz for a in writes)]
    if len(cand) != 1:
        return None
    return small[0], [i for i in ptrs if i != cand[0]][0], cand[0]


def _roles(c, dsz):
    """Which argument word is the table, the destination, the index: inferred from
    the accesses (the destination is the pointer argument that is written to)."""
    args = c["args"]
    small = [i for i, a in enumerate(args) if a < 4096]
    if len(small) != 1:
        return None
    ptrs = [i for i in range(3) if i != small[0]]
    writes = [a for t in c["trace"] for rw, a in t[2] if rw == "W"]
    cand = [i for i in ptrs if any(args[i] <= a < args[i] + dsz for a in writes)]
    if len(cand) != 1:
        return None
    dst = cand[0]
    tbl = [i for i in ptrs if i != dst][0]
    return dict(idx=args[small[0]], tbl=args[tbl], dst=args[dst])


def analyse(calls, rounds, res):
    steps = 0
    for kind, (stride, nent, dsz) in GEOM.items():
        cs = [c for c in calls if c["kind"] == kind]
        fp = {}
        idxs = set()
        first = None
        learnt = None
        for c in cs:
            learnt = learnt or _positions(c, dsz)
        for c in cs:
            steps += c["steps"]
            ro = _roles(c, dsz)
            if ro is None and learnt is not None:
                # e.g. a call that wrote nothing: the argument order is the routine's, not the call's
                ro = dict(idx=c["args"][learnt[0]], tbl=c["args"][learnt[1]], dst=c["args"][learnt[2]])
            if ro is None:
                res["inconclusive"] = "%s lookup: cannot tell table / destination / index apart from the arguments %s" % (kind, c["args"])
                continue
            idx = ro["idx"]
            idxs.add(idx)
            if not c["returned"]:
                res["violations"].append("%s lookup, index %d: did not return within %d instructions" % (kind, idx, c["steps"]))
                res["witness"] = res["witness"] or dict(kind=kind, idx=idx)
                continue
            bases = [("tbl", ro["tbl"], stride * nent), ("dst", ro["dst"], dsz), ("sp", c["sp"], 32)]
            rel = []
            written = set()
            for pcoff, mnem, mems in c["trace"]:
                rm = []
                for rw, a in mems:
                    sz = _size(mnem)
                    best = None
                    # containment first (the destination may itself live on the stack,
                    # right next to the argument frame), nearest base otherwise
                    for name, b, size in (bases[2], bases[1], bases[0]):
                        if b <= a and a + sz <= b + size:
                            best = (name, a - b)
                            break
                    if best is None:
                        for name, b, size in bases:
                            if b - 4096 <= a < b + size + 4096:
                                if best is None or abs(a - b) < abs(best[1]):
                                    best = (name, a - b)
                    name, off = best or ("abs", a)
                    rm.append([rw, name, off])
                    if rw == "W":
                        if name != "dst" or off < 0 or off + sz > dsz:
                            res["violations"].append("C19: %s lookup, index %d: instruction +%d (%s) writes %d bytes at %s%+d, outside the %d coordinate bytes of the destination" % (kind, idx, pcoff, mnem, sz, name, off, dsz))
                            res["witness"] = res["witness"] or dict(kind=kind, idx=idx, pc=pcoff, mnem=mnem, mem=[rw, name, off])
                        else:
                            written.update(range(off, off + sz))
                    else:
                        ok = (name == "tbl" and 0 <= off and off + sz <= stride * nent) or (name == "sp" and 0 <= off and off + sz <= 32) or (name == "dst" and 0 <= off and off + sz <= dsz)
                        if not ok:
                            res["violations"].append("C19: %s lookup, index %d: instruction +%d (%s) reads %d bytes at %s%+d, outside the table / argument frame" % (kind, idx, pcoff, mnem, sz, name, off))
                            res["witness"] = res["witness"] or dict(kind=kind, idx=idx, pc=pcoff, mnem=mnem, mem=[rw, name, off])
                rel.append([pcoff, mnem, rm])
            first = first or rel
            h = hashlib.sha256(json.dumps(rel).encode()).hexdigest()[:16]
            fp.setdefault(h, []).append((idx, rel))
        if len(fp) > 1:
            groups = sorted(fp.values(), key=len, reverse=True)
            (ia, a), (ib, b) = groups[0][0], groups[1][0]
            k = next((i for i in range(min(len(a), len(b))) if a[i] != b[i]), min(len(a), len(b)))
            res["violations"].append("C17: %s lookup: %d distinct instruction/access traces over indices %s; index %d and index %d diverge at step %d (%s vs %s)" % (
                kind, len(fp), sorted(idxs), ia, ib, k, a[k] if k < len(a) else "<end>", b[k] if k < len(b) else "<end>"))
            res["witness"] = res["witness"] or dict(kind=kind, idx_a=ia, idx_b=ib, step=k)
        res["summary"][kind] = dict(calls=len(cs), indices=sorted(idxs), per_index=rounds, distinct_traces=len(fp),
                                    instructions_per_call=(cs[0]["steps"] if cs else 0),
                                    reads_per_call=sum(1 for t in (first or []) for m in t[2] if m[0] == "R"),
                                    writes_per_call=sum(1 for t in (first or []) for m in t[2] if m[0] == "W"))
        if sorted(idxs) != list(range(16)) and not res["inconclusive"]:
            res["inconclusive"] = "%s lookup traced for indices %s only" % (kind, sorted(idxs))
    res["summary"]["instructions_stepped"] = steps
    return res


def apply(prop, res, results, config_prefix, notes, REPLAYS, seed):
    """Fold a run() result into the child results of bin/check for property prop
    (only the violations that belong to prop are reported)."""
    tgt = next((r for r in results if r["config"].startswith(config_prefix) and "purego" not in r["config"]), None)
    mine = [v for v in res["violations"] if v.startswith(prop + ":") or not v.startswith(("C17:", "C19:"))]
    if tgt is None:
        return
    p = tgt["partial"]
    if p is None:
        # the Go-level child died (e.g. a guard-page fault): keep the trace verdict anyway
        p = dict(classes={}, evaluations=0, distinct_nontrivial=0, violations=0)
    p.setdefault("extras", {})["asm_trace"] = res["summary"]
    if res["inconclusive"]:
        p.setdefault("inconclusive", []).append("assembly single-step trace: " + res["inconclusive"])
        tgt.setdefault("extra_stdout", []).append("INCONCLUSIVE property=%s: assembly single-step trace: %s" % (prop, res["inconclusive"][:300]))
        if tgt["rc"] == 0:
            tgt["rc"] = 2
        return
    ncalls = sum(v["calls"] for k, v in res["summary"].items() if isinstance(v, dict))
    p["classes"]["%s:asm-trace:calls-single-stepped" % prop.lower()] = ncalls
    p["classes"]["%s:asm-trace:instructions-stepped" % prop.lower()] = res["summary"].get("instructions_stepped", 0)
    p["evaluations"] += ncalls
    p["distinct_nontrivial"] += ncalls
    p.setdefault("evaluations_per_monitor", {})["%s/asm-trace" % prop.lower()] = ncalls
    if mine:
        os.makedirs(REPLAYS, exist_ok=True)
        path = os.path.join(REPLAYS, "%s-asmtrace-%s.json" % (prop, hashlib.sha256(mine[0].encode()).hexdigest()[:12]))
        json.dump(dict(property=prop, config=tgt["config"], monitor="process-crash", exit="asm-trace",
                       cmd=["bin/check", prop, "quick"], seed=seed, witness=res["witness"], log_tail="\n".join(mine[:20])), open(path, "w"), indent=1)
        tgt.setdefault("extra_stdout", []).append("VIOLATION property=%s replay=%s" % (prop, path))
        for v in mine[:5]:
            tgt["extra_stdout"].append("  monitor=%s/asm-trace %s" % (prop.lower(), v))
        p["violations"] += len(mine)
        tgt["rc"] = 1
