#!/usr/bin/env python3
"""Runs the checks against the seeded changes under /verif/seeded/<id>/.

  bin/seedrun.py confirm <dir>            suite passes with the patch, demo fails with it and passes without
  bin/seedrun.py check <dir> [tier] [props...]   run the property's check(s) against the patched tree
  bin/seedrun.py matrix [tier]            check every seeded change, print the kill matrix

Nothing is written to /repo: the patch is applied in a throw-away git worktree
(under $TMPDIR) and handed to bin/check as a `go build -overlay` (VERIF_OVERLAY),
the same mechanism the mutant catalogue uses.  Evidence and replay files of these
runs go to a temp dir, never to /verif/evidence.
"""
import json, os, shutil, subprocess, sys, tempfile, time
from concurrent.futures import ThreadPoolExecutor

VERIF = os.path.dirname(os.path.dirname(os.path.abspath(__file__)))
REPO = "/repo"
ENV = dict(os.environ, GOFLAGS="-mod=mod", GOPROXY="off", GOSUMDB="off", GOTOOLCHAIN="local")


def sh(cmd, cwd=None, env=None, timeout=3600):
    r = subprocess.run(cmd, cwd=cwd, env=env or ENV, stdout=subprocess.PIPE, stderr=subprocess.STDOUT, text=True, timeout=timeout)
    return r.returncode, r.stdout


class Worktree:
    def __init__(self):
        self.dir = tempfile.mkdtemp(prefix="verif-seed-")
        os.rmdir(self.dir)
        rc, out = sh(["git", "-C", REPO, "worktree", "add", "--detach", self.dir, "HEAD"])
        if rc != 0:
            raise RuntimeError(out)

    def __enter__(self):
        return self.dir

    def __exit__(self, *a):
        sh(["git", "-C", REPO, "worktree", "remove", "--force", self.dir])
        shutil.rmtree(self.dir, ignore_errors=True)
        sh(["git", "-C", REPO, "worktree", "prune"])


def overlay_for(wt, tmp):
    """overlay.json mapping /repo/<f> -> <wt>/<f> for every file the patch changed/added/deleted"""
    rc, out = sh(["git", "-C", wt, "status", "--porcelain", "--untracked-files=all"])
    rep = {}
    for line in out.splitlines():
        st, f = line[:2], line[3:].strip()
        if " -> " in f:
            old, f = f.split(" -> ")
            rep[os.path.join(REPO, old)] = ""
        if "D" in st:
            rep[os.path.join(REPO, f)] = ""
        else:
            # copy: the worktree disappears when we are done, the overlay must not
            dst = os.path.join(tmp, "ov", f)
            os.makedirs(os.path.dirname(dst), exist_ok=True)
            shutil.copy(os.path.join(wt, f), dst)
            rep[os.path.join(REPO, f)] = dst
    ov = os.path.join(tmp, "overlay.json")
    json.dump({"Replace": rep}, open(ov, "w"), indent=1)
    return ov, sorted(rep)


def confirm(d):
    meta = json.load(open(os.path.join(d, "meta.json")))
    res = {}
    with Worktree() as wt:
        rc, out = sh(["git", "-C", wt, "apply", os.path.join(d, "patch.diff")])
        if rc != 0:
            return dict(error="patch does not apply: " + out[-500:])
        rc, out = sh(["go", "build", "./..."], cwd=wt)
        res["builds"] = rc == 0
        rc, out = sh(["go", "test", "-vet=off", "-count=1", "-timeout", "25m", "./..."], cwd=wt)
        res["suite_passes_with_change"] = rc == 0
        if rc != 0:
            res["suite_tail"] = out[-1500:]
        demos = meta.get("demo_files") or [[meta.get("demo_src", "demo_test.go"), meta["demo_dest"]]]
        for src, dest in demos:
            os.makedirs(os.path.dirname(os.path.join(wt, dest)) or wt, exist_ok=True)
            shutil.copy(os.path.join(d, src), os.path.join(wt, dest))
        cmd = meta["demo_cmd"]
        rc, out = sh(["bash", "-c", cmd], cwd=wt)
        res["demo_fails_with_change"] = rc != 0
        res["demo_with_change_tail"] = out[-600:]
        sh(["git", "-C", wt, "apply", "-R", os.path.join(d, "patch.diff")])
        rc, out = sh(["bash", "-c", cmd], cwd=wt)
        res["demo_passes_without_change"] = rc == 0
        if rc != 0:
            res["demo_without_change_tail"] = out[-600:]
    res["confirmed"] = bool(res.get("builds") and res.get("suite_passes_with_change") and res.get("demo_fails_with_change") and res.get("demo_passes_without_change"))
    return res


def check(d, tier="quick", props=None, seed=None):
    meta = json.load(open(os.path.join(d, "meta.json")))
    props = props or meta.get("checked_by") or [meta["property"]]
    tmp = tempfile.mkdtemp(prefix="verif-seedchk-")
    out = {}
    try:
        with Worktree() as wt:
            rc, o = sh(["git", "-C", wt, "apply", os.path.join(d, "patch.diff")])
            if rc != 0:
                return dict(error="patch does not apply: " + o[-500:])
            ov, files = overlay_for(wt, tmp)
        e = dict(ENV, VERIF_OVERLAY=ov, VERIF_EVIDENCE_DIR=os.path.join(tmp, "evidence"), VERIF_REPLAY_DIR=os.path.join(tmp, "replays"))
        if seed is not None:
            e["VERIF_SEED"] = str(seed)
        for p in props:
            t0 = time.time()
            rc, o = sh([os.path.join(VERIF, "bin", "check"), p, tier], cwd=VERIF, env=e, timeout=4 * 3600)
            viol = [l for l in o.splitlines() if l.startswith("VIOLATION")]
            first = next((l.strip() for l in o.splitlines() if l.startswith("  monitor=")), "")
            mons = sorted(set(l.strip().split()[0] for l in o.splitlines() if l.startswith("  monitor=")))
            out[p] = dict(rc=rc, killed=(rc == 1 and bool(viol)), violation_lines=len(viol), wall_s=round(time.time() - t0, 1), first=first[:400], monitors=mons,
                          tail=("" if rc == 1 else o[-800:]))
    finally:
        shutil.rmtree(tmp, ignore_errors=True)
    return out


def seeded_dirs():
    base = os.path.join(VERIF, "seeded")
    return sorted(os.path.join(base, x) for x in os.listdir(base) if os.path.exists(os.path.join(base, x, "meta.json")))


def main():
    a = sys.argv[1:]
    if not a:
        print(__doc__)
        return 2
    if a[0] == "confirm":
        print(json.dumps(confirm(os.path.abspath(a[1])), indent=1))
    elif a[0] == "check":
        tier = a[2] if len(a) > 2 else "quick"
        print(json.dumps(check(os.path.abspath(a[1]), tier, a[3:] or None), indent=1))
    elif a[0] == "matrix":
        tier = a[1] if len(a) > 1 else "quick"
        sel = a[2:]
        dirs = [d for d in seeded_dirs() if not sel or any(s in os.path.basename(d) for s in sel)]
        rows = []
        with ThreadPoolExecutor(max_workers=int(os.environ.get("SEED_JOBS", "3"))) as ex:
            def one(d):
                r = check(d, tier)
                try:
                    json.dump(r, open(os.path.join(d, "check_%s.json" % tier), "w"), indent=1)
                except OSError:
                    pass
                return r
            for d, r in zip(dirs, ex.map(one, dirs)):
                for p, v in r.items() if isinstance(r, dict) and "error" not in r else []:
                    rows.append((os.path.basename(d), p, "KILLED" if v["killed"] else "SURVIVED rc=%s" % v["rc"], v["wall_s"], v["first"][:150]))
                    print(rows[-1], flush=True)
                if "error" in r:
                    print(os.path.basename(d), r, flush=True)
        surv = [r for r in rows if not r[2].startswith("KILLED")]
        print("\n%d seeded changes, %d killed, %d survived" % (len(rows), len(rows) - len(surv), len(surv)))
        for r in surv:
            print("  SURVIVED", r[0], r[1])
    return 0


if __name__ == "__main__":
    sys.exit(main())
